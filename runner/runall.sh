#!/bin/bash
# run every claimed quick check at several seeds on the current tree; print one line per run
cd "$(dirname "$0")/.."
ids=$(python3 -c "import json; print(' '.join(c['property_id'] if 'property_id' in c else c['id'] for c in json.load(open('MANIFEST.json'))['properties']))" 2>/dev/null || python3 -c "
import sys; sys.path.insert(0,'runner'); import props; print(' '.join(sorted(props.PROPS)))")
for s in ${SEEDS:-0 1 2}; do for id in $ids; do
  out=$(VERIF_SEED=$s ./check $id ${TIER:+--tier $TIER} 2>&1); rc=$?
  echo "seed=$s $id rc=$rc $(echo "$out" | grep -c '^VIOLATION') violations | $(echo "$out" | tail -1 | cut -c1-160)"
done; done
