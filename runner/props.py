"""Per-property configuration of the runner (theorem lists, harnesses, evidence wording)."""

TB_COMMON = [
    "Lean 4.33 kernel; axioms allowed: propext, Classical.choice, Quot.sound (audited by #print axioms at every run)",
    "Lean compiler/runtime executing the model driver (Int/Rat/String)",
    "correspondence harness (differential run on the real library; as strong as its generator)",
    "g++/libstdc++/Eigen as used to build /repo; floating-point rounding is not modelled",
]

PROPS = {}
NOT_YET = {}
HOOK_COMMITS = []
import cow2lean
import calc2lean

PROPS["C16"] = {
    "module": "GstProofs.Props.C16",
    "theorems": [
        "GstProofs.C16.rank_ind", "GstProofs.C16.rank_ind_inRange", "GstProofs.C16.ind_rank",
        "GstProofs.C16.indiceToRank_outside",
        "GstProofs.C16.ind_coord", "GstProofs.C16.cell_iff", "GstProofs.C16.rank_coord",
        "GstProofs.C16.outside_iff", "GstProofs.C16.mirror_range",
    ],
    "harnesses": ["vh_c16"],
    "level": "proof",
    "technique": "Lean 4 theorems about a transcription model of Grid.cpp (mixed-radix bijection by induction on the dimension, floor/cell characterisation, round trips under any invertible rotation) + exact-dyadic differential correspondence with the library",
    "level_text": "Every conversion of the property is a theorem about the Lean model for all dimensions, sizes, origins, meshes and invertible rotations; the model is tied to Grid.cpp/DbGrid by a differential run on generated grids (exact on integers, 2^-40 on coordinates).",
    "level_note": "Trusted: Lean kernel + 3 standard axioms, the hand-written transcription (validated by the correspondence run on every check), double rounding not modelled (cell-boundary cases within 2^-30 are skipped and counted).",
    "rule": "random grids (1-4D, dyadic origin/mesh, no rotation / multiples of 90 deg / arbitrary angles in 2-3D, "
            "small and large node counts); per grid: node round trips, arbitrary (also out-of-range) indices, points "
            "placed at known fractional cell positions, derived grids (multiple/divider/dilate, DbGrid coarse/refine), "
            "DbGrid coordinates, mirror indices. distinct = distinct request text; trivial = 1-node grids",
    "trivial": lambda line: False,
    "trusted_base": TB_COMMON + ["rotation enters the model as the matrix exported by the library (orthogonality is a hypothesis of the theorems, checked numerically by the driver)"],
    "uncovered": ["int overflow of ranks (harness probes sizes up to 2^24 only)", "floating-point rounding inside floor()"],
    "assumptions": ["cell-boundary points (exact margin < 2^-30) are excluded and counted as skipped"],
}

PROPS["C20"] = {
    "module": "GstProofs.Props.C20",
    "theorems": [
        "GstProofs.Poly.edgeStep_halfOpen",
        "GstProofs.C20.halfopen", "GstProofs.C20.ray", "GstProofs.C20.orient",
        "GstProofs.C20.union_spec", "GstProofs.C20.nested_spec", "GstProofs.C20.order_independent",
        "GstProofs.C20.zlimits_exclude", "GstProofs.C20.select",
    ],
    "harnesses": ["vh_c20"],
    "level": "proof",
    "technique": "Lean 4 theorems: PolyElem::inside (transcribed) equals the half-open crossing rule for every vertex list and off-boundary point, which equals the generic-ray crossing parity for all small perturbations; set rules and db_polygon as list theorems; exact differential correspondence with the library plus an independent exact winding-number oracle",
    "level_text": "The inclusion test is proved equal to the crossing parity of a generic ray (limit from below) for all polygons and all off-boundary points, independent of orientation; union/nested/vertical-limit rules and the db selection are theorems of the model; the model is tied to PolyElem/Polygons/db_polygon by an exact differential run on generated simple polygons with all lattice points of their bounding box.",
    "level_note": "Trusted: Lean kernel + 3 standard axioms; Jordan curve theorem for polygons (crossing parity = interior) is not proved; the transcription is validated by the correspondence run; double rounding of xinter is not modelled (vertices are integer/dyadic so every decision is exact).",
    "rule": "random simple polygons with integer vertices scaled by a dyadic factor (star-shaped, rectilinear stairs, x-monotone, comb; 3-400 vertices; both orientations; every starting vertex; closed or open), query points = all lattice (and half-lattice) points of the bounding box; polygon sets with z-limits, union/nested, db_polygon with selection and periodicity. distinct = distinct request line; every line carries up to 250 query points",
    "trivial": lambda line: False,
    "trusted_base": TB_COMMON + ["Jordan curve theorem for polygons (geometric truth := generic-ray crossing parity)"],
    "uncovered": ["convex-hull construction (Polygons::createFromDb)", "_isClosed tolerance 1e-5 for nearly-closed outlines (generator produces exactly closed or clearly open outlines)"],
    "assumptions": ["points on the boundary are decided exactly by the driver and skipped"],
}

PROPS["C07"] = {
    "module": "GstProofs.Props.C07",
    "theorems": [
        "GstProofs.C07.inv_sound", "GstProofs.C07.init", "GstProofs.C07.step_full", "GstProofs.C07.reach_full",
        "GstProofs.C07.reach_auto", "GstProofs.C07.step_partial", "GstProofs.C07.reach_partial",
        "GstProofs.C07.delete_frame", "GstProofs.C07.counts", "GstProofs.C07.setRow_frame", "GstProofs.C07.setArray_frame", "GstProofs.C07.setRow_readRow",
        "GstProofs.Db.deleteByUid_inv", "GstProofs.Db.setLocatorByUID_inv", "GstProofs.Db.setLocatorsByUIDs_inv",
        "GstProofs.Db.switchLoc_inv", "GstProofs.Db.fixNewName_spec", "GstProofs.Db.fixNames_spec",
        "GstProofs.Db.rename_inv", "GstProofs.Db.addColumns_inv", "GstProofs.Db.admissible_of_auto",
    ],
    "harnesses": ["vh_c07"],
    "level": "proof",
    "technique": "Lean 4 state-machine model of the Db table (uid map, names, columns, role table) with a decidable consistency invariant proved equivalent to its Prop form; invariant preservation proved for every one of the 23 operations (21 edits, whole-row write and read) and, by induction over the history, for every reachable state (side condition: explicit role numbers leave no gap - its negation is known finding F4); every generated history is replayed on the real Db/DbGrid and both the model state and the invariant (evaluated on the library's own state) are compared after each operation",
    "level_text": "Proof: from a consistent table every accepted editing operation (column addition with name de-duplication, deletion by uid/index/name/role, the four renamings, the five role assignments, role clearing and switching, sample addition/deletion, cell and whole-row value assignment) yields a consistent table, for all states and arguments, hence all histories; a value assignment changes exactly the addressed cells (setArray_frame, setRow_frame: every other cell keeps its value) and a row written is the row read back (setRow_readRow); the side condition on explicit role numbers is exactly the documented known finding F4 and is vacuous for automatic role numbers. The model is tied to Db/DbGrid op by op on generated histories (full observable state compared, and the decidable invariant run on the library's state).",
    "level_note": "Trusted: Lean kernel + 3 standard axioms; the hand-written state-machine (validated op by op against the library on every run); names restricted to the grammar [a-z0-9.-] in the harness (names are regular expressions in the library: known finding F32); termination of the renaming loops is by fuel in the model (a fuel exhaustion would show as a model/library difference, never observed).",
    "rule": "random histories (1-40 operations among 23 public operations incl. setArrayBySample/getArrayBySample, ~10% invalid arguments: bad indices, dead uids, unknown names, duplicate names, UNKNOWN locator) on Db and DbGrid; after each operation the full observable state (names, uids, role table, values, counts, and every designation: uid->col, col->role, name->col) is compared with the model and checked by the invariant; for value assignments the library's states before and after are also compared cell by cell (untouched cells unchanged, written cells hold the value). distinct = distinct history text; trivial = histories of fewer than 3 operations",
    "trivial": lambda line: line.count(" ; ") < 3,
    "trusted_base": TB_COMMON,
    "uncovered": ["refinement of the ten observers to an abstract table (observers are compared with the library per history, not proved)", "addColumns(tab), addSelection*, setColumn* (not modelled)", "explicit role numbers beyond the next free one (known finding F4: the statement is false there, witness in the proof file)"],
    "assumptions": ["column names drawn from [a-z0-9.-]"],
}

PROPS["C11"] = {
    "module": "GstProofs.Props.C11",
    "theorems": [
        "GstProofs.C11.prodMatMat", "GstProofs.C11.op_transpose", "GstProofs.C11.transpose_transpose",
        "GstProofs.C11.prodMatVec", "GstProofs.C11.prodVecMat", "GstProofs.C11.linear_combination",
        "GstProofs.C11.prodScalar", "GstProofs.C11.row_col_scaling", "GstProofs.C11.prodNorm_transpose",
        "GstProofs.C11.inverse_unique", "GstProofs.C11.checkSolve_sound", "GstProofs.C11.sort_perm",
        "GstProofs.C11.inverse_certificate_bound", "GstProofs.C11.solve_certificate_bound", "GstProofs.C11.inverse_certificate_exact",
        "GstProofs.LinAlg.toMatrix_mul", "GstProofs.LinAlg.toMatrix_id", "GstProofs.LinAlg.toMatrix_diag",
    ],
    "harnesses": ["vh_c11"],
    "level": "proof",
    "flavour": {"thorough": "asan"},
    "env": {"thorough": {"ASAN_OPTIONS": "detect_leaks=0"}},
    "technique": "Lean 4: every matrix operation of the model is its textbook entry-wise definition and is proved equal to the corresponding Mathlib Matrix operation for all shapes (bridge theorems); exact differential correspondence on integer/dyadic matrices for five storage classes and thread counts 1-16; residual certificates (checked in exact rational arithmetic) for inverse/solve/Cholesky/eigen; AddressSanitizer build in the thorough tier",
    "level_text": "Partial proof: products (all transposition flags), transposition, linear combinations, scalings, congruence products and vector products of the model are theorems (equal to Mathlib's Matrix operations, every shape); the model is tied to all storage classes by an exact differential run (sums and products are exact in doubles on the generated contents); inversion, solve, Cholesky and eigen-decomposition are checked by verified-definition residual certificates, whose meaning is a theorem for inversion and solve (a residual below eps bounds the distance to the true inverse / solution by the absolute row sums of the inverse times eps: inverse_certificate_bound, solve_certificate_bound); thread independence is observed (each case runs at a random thread count 1-16), not proved.",
    "level_note": "Trusted: Lean kernel + 3 standard axioms; Eigen/CSparse kernels are not modelled (only their results are compared/certified); OpenMP scheduling is observed only; log-determinant and simulation of CholeskyDense are not covered.",
    "rule": "random matrices 1-7 x 1-7 (square, non-square, 1xN, Nx1; dense or half-empty; small integers or dyadics k/4) in storage rect/square/symm/sparse-Eigen/sparse-cs at a random thread count in {1,2,4,8,16}; per matrix: transpose, mat-vec and vec-mat products with both flags, mat-mat product with the 4 flag combinations, linear combination, scalar ops, row/column scaling and division, row/column/diagonal assignment, congruence products, then invert/solve/Cholesky/eigen certificates on SPD matrices, solve/invert certificates on symmetric indefinite (bordered, zero diagonal term) and negative definite matrices, and 16 vector helpers. distinct = distinct request line; trivial = 1x1 matrices",
    "trivial": lambda line: " 1 1 " in line and line.split(" ")[1] not in ("v1", "v2", "vl"),
    "trusted_base": TB_COMMON + ["Mathlib Matrix library"],
    "uncovered": ["thread schedules (observed only)", "CholeskyDense log-determinant / simulate", "sparse cs setRow/setColumn (documented to update existing entries only)", "empty (0-row/0-column) matrices"],
    "assumptions": ["matrix contents are small integers/dyadics so that double arithmetic is exact for sums/products"],
}

_KRIG_TB = TB_COMMON + ["covariance values are an oracle computed by the library's plain single-pair API (Model::eval / eval0) — their validity is property C03",
                        "the linear solves (Eigen) are certified by residual, not modelled"]

PROPS["C01"] = {
    "module": "GstProofs.Props.C01",
    "theorems": [
        "GstProofs.C01.solution", "GstProofs.C01.unique", "GstProofs.C01.dual", "GstProofs.C01.variance",
        "GstProofs.C01.lhs_blocks", "GstProofs.C01.compress", "GstProofs.C01.compress_rhs", "GstProofs.C01.certificate",
        "GstProofs.Krig.lhsFull_symm", "GstProofs.Krig.kept_spec",
        "GstProofs.C01.block_weights", "GstProofs.C01.block_estimate",
    ],
    "harnesses": ["vh_c01"],
    "level": "proof",
    "technique": "Lean 4: kriging system model (flags, block assembly, heterotopic compression) with index theorems for all sizes + Mathlib matrix theorems (block equations, uniqueness, dual=primal, variance formulas) for any field and dimension; per-configuration certificate chain checked in exact rational arithmetic on the library's exported LHS/RHS/weights/dual vector/outputs against an independent covariance oracle",
    "level_text": "The algebraic clauses are theorems for every dimension; the assembly/compression index rules are theorems of the model; the library is tied to the model stage by stage on generated configurations (1-3D, 1-3 variables, heterotopic, measurement error, known mean / drift order 0-2 / external drift, nested anisotropic models, unique and moving neighbourhoods, point targets and blocks discretised by 1-3 points per axis): LHS and RHS to 2^-40, solves by residual 2^-30, estimate/stdev/varZ from the stage formulas.",
    "level_note": "Trusted: Lean kernel + 3 standard axioms; covariance oracle (plain API of the same library); Eigen inversion certified only (residual tolerance 2^-30, scaled by the exact condition number when that fails); blocks of rotated grids, matLC, Bayesian, DGM, image and factor-kriging branches are outside the model; exactly singular systems are excluded (exact rank test) and counted.",
    "rule": "random configurations: ndim 1-3, nvar 1-3, 4-14 samples at distinct dyadic locations, undefined-value patterns p in {0,.2,.45}, 1-3 nested structures among nugget/spherical/exponential/gaussian/cubic/matern with anisotropy+rotation and random PSD sill matrices, known mean or IRF order 0-2 with optional external drift, optional measurement-error column (undefined/zero/positive), unique or moving neighbourhood, 3 targets each (one configuration out of four: block kriging on grid cells, right-hand side and target variance averaged over the library's two discretisations through the plain single-pair covariance). distinct = distinct request line; trivial = none",
    "trivial": lambda line: False,
    "trusted_base": _KRIG_TB,
    "uncovered": ["per-cell block extensions, blocks of rotated grids", "matLC, collocated, Bayesian, DGM, image neighbourhood, factor kriging", "systems whose exact condition number exceeds 2^36 are skipped and counted"],
    "assumptions": ["systems whose exact rational rank is deficient are skipped", "targets for which the library reports failure (undefined outputs) are skipped and counted"],
}

PROPS["C02"] = {
    "module": "GstProofs.Props.C02",
    "theorems": [
        "GstProofs.C02.exact", "GstProofs.C02.exact_variance", "GstProofs.C02.unbiased", "GstProofs.C02.weights_sum_one",
        "GstProofs.C02.drift_shift", "GstProofs.C02.linear", "GstProofs.C02.perm", "GstProofs.C02.sk_bound", "GstProofs.C02.stdev_nonneg",
    ],
    "harnesses": ["vh_c02"],
    "level": "proof",
    "technique": "Lean 4 corollaries (Mathlib matrices, any dimension) of the kriging-system algebra: exactness, unbiasedness, drift shift, linearity, permutation invariance, simple-kriging variance bound; the same relations are applied metamorphically to the real library and checked in exact arithmetic",
    "level_text": "Every clause of the property is a theorem of the algebraic model; on the library each clause is exercised as a metamorphic relation between kriging runs (targets on data, permuted / translated copies, data plus drift combinations, linear combinations, weight sums).",
    "level_note": "Trusted as C01; translation invariance is tested (dyadic translations) and follows in the model from the covariance oracle depending on increments only (not separately proved); tolerances are 2^-20 of the data scale (ill-conditioned Gaussian models).",
    "rule": "random configurations as C01 (ndim 1-3, nvar 1-2, order -1..1, optional heterotopy and measurement errors) with 4 targets of which 2 coincide with data; 7 relations per configuration. distinct = distinct relation line",
    "trivial": lambda line: False,
    "trusted_base": _KRIG_TB,
    "uncovered": ["translation invariance of the drift basis for order 2 (tested only up to order 1)", "moving neighbourhoods (relations are run in unique neighbourhood)"],
    "assumptions": [],
}

PROPS["C13"] = {
    "module": "GstProofs.Props.C13",
    "theorems": [
        "GstProofs.C13.p_prime", "GstProofs.C13.det", "GstProofs.C13.next_range", "GstProofs.C13.unif_range",
        "GstProofs.C13.next_injective", "GstProofs.C13.streams_differ", "GstProofs.C13.exact_conditioning",
        "GstProofs.C13.clamp_bounds", "GstProofs.C13.simRank_injective", "GstProofs.C13.simRank_lt",
        "GstProofs.C13.gibbs_old_address_differs",
    ],
    "harnesses": ["vh_c13"],
    "level": "proof",
    "technique": "Lean 4 model of the congruential generator (primality of the modulus, range, injectivity of the step, determinism after seeding), of the conditioning step and of the final clamp of bounded Gaussian draws; exact differential correspondence of the generator stream; seed-reproducibility, seed/rank sensitivity, conditioning at data and bound membership observed on the real simulators",
    "level_text": "Partial proof: generator facts, determinism, exact conditioning at data (given exact kriging weights, C02) and bound membership of clamped draws are theorems; the generator stream of the library is compared exactly with the model; turning bands (conditional and not) and FFT simulators are run twice per seed (bit-identical), with different seeds / ranks (different), with targets on data (datum reproduced); bounded Gaussian draws are checked to lie in their bounds exactly, including bounds a few ulps apart.",
    "level_note": "Trusted: Lean kernel + 3 standard axioms; the simulators themselves are not modelled (only the generator, the conditioning formula and the clamp); the Gibbs sampler (bounds of every sample, with selections) and conditional plurigaussian simulation (facies at data, one or two underlying fields, several simulations) are exercised; the SPDE simulator is not; the std::mt19937 'new style' generator is library code.",
    "rule": "40 seeds (below / above the modulus, near 2^31, non-positive, multiples of the modulus) x 300 draws compared exactly with the model; 60 bound sets x 2000 bounded Gaussian draws; per generated model (1-2D, 1-3 nested structures): turning bands twice with the same seed after unrelated generator use, with another seed, several ranks, FFT twice, conditional turning bands with targets on the data; 30 / 400 configurations of the Gibbs sampler under per-sample intervals and of conditional plurigaussian simulation. distinct = distinct request line",
    "trivial": lambda line: False,
    "trusted_base": TB_COMMON,
    "uncovered": ["simulateSPDE and simbipgs are not exercised; the Gibbs and plurigaussian simulators are exercised (bounds, facies at data, reproducibility), not modelled", "floating-point rounding inside law_gaussian_between_bounds before the clamp"],
    "assumptions": [],
}

PROPS["C06"] = {
    "module": "GstProofs.Props.C06",
    "theorems": [
        "GstProofs.C06.closest_first", "GstProofs.C06.selection_sublist", "GstProofs.C06.quota",
        "GstProofs.C06.too_few", "GstProofs.C06.subset", "GstProofs.C06.knn_spec",
        "GstProofs.Neigh.servePass_spec", "GstProofs.Neigh.quotaLoop_spec",
        "GstProofs.C06.quota_total", "GstProofs.C06.quota_fair", "GstProofs.C06.quota_order", "GstProofs.Neigh.quotas_level",
    ],
    "harnesses": ["vh_c06"],
    "level": "proof",
    "technique": "Lean 4 transcription model of NeighMoving::_moving/_movingSectorNsmax/_movingSelect with theorems by induction (sorted permutation, sub-sequence selection, round-robin quota bounds, exact total, fairness and order of service, empty below nmini); exact differential correspondence with the library on an independently computed candidate list, with exact tie/near-tie exclusion; k-NN queries of the ball tree compared with the exhaustive specification",
    "level_text": "Partial proof: the selection logic is a proved-about transcription (closest first, subset, quotas never exceed sector content nor nmaxi, add up to nmaxi, differ by at most one between non-exhausted sectors, earlier sectors first, empty when fewer than nmini) and is compared exactly with the library for every generated target, with and without ball search / cross-validation / selections / anisotropy; the ball-tree algorithm itself is not modelled: its k-NN results are compared with the exhaustive sorted specification (correspondence only).",
    "level_note": "Trusted: Lean kernel + 3 standard axioms; admissibility of a candidate (distance, sector) is computed by the harness independently of the neighbourhood code (sector re-derived exactly in the driver for 1/2/4/8 sectors); candidates closer than the library's tie-breaking perturbation are skipped and counted.",
    "rule": "random point sets (5-300 points, 2-3D, dyadic coordinates), selections, undefined values, cross-validation, radii, anisotropy (+rotation), nmini/nmaxi/nsect (1,2,4,8,3,5,6)/nsmax, ball search with leaf sizes 1-40; 20 targets per set + 10 k-NN queries. distinct = distinct request line; trivial = fewer than 2 candidates",
    "trivial": lambda line: line.split(" ")[7].count(",") < 1 if line.startswith("n mov") else False,
    "trusted_base": TB_COMMON,
    "uncovered": ["ball-tree construction and query algorithm (not modelled; correspondence with the exhaustive k-NN only)", "additional pair checkers (faults, codes, benches)"],
    "assumptions": ["ties and near-ties in distance are excluded (exact test in the driver)", "points on sector boundaries are excluded for 2/4/8 sectors"],
}

PROPS["C12"] = {
    "module": "GstProofs.Props.C12",
    "theorems": [
        "GstProofs.C12.pairs", "GstProofs.C12.innerLoop_all", "GstProofs.C12.translate_invariant",
        "GstProofs.C12.var_symm", "GstProofs.C12.subL_comm_sq", "GstProofs.C12.lag_sound", "GstProofs.C12.lag_complete",
        "GstProofs.C12.lag_breaks_sound", "GstProofs.C12.lag_breaks_complete", "GstProofs.C12.lag_breaks_outside",
        "GstProofs.C12.classes_disjoint", "GstProofs.C12.lag_breaks_iff",
    ],
    "harnesses": ["vh_c12"],
    "level": "proof",
    "technique": "Lean 4 declarative pairwise definition of the experimental (cross-)variogram decided exactly on squared quantities + transcription of the pair loop proved to enumerate every pair once; symmetry and translation invariance as theorems; exact/2^-36 differential correspondence with Vario::computeFromDb on generated data sets and direction specifications",
    "level_text": "Partial proof: pair enumeration of the general algorithm, the exact characterisation of the lag assigned to a pair (regular lags: lag_sound / lag_complete; irregular classes with increasing breaks: lag_breaks_iff, the classes being disjoint), symmetry in the variables and translation invariance are theorems; the numbers of pairs (weights), mean distances and variogram values of the library are compared with the pairwise definition evaluated in exact rational arithmetic for each lag (pair weights exactly; values to 2^-36). The VARIOGRAM, ORDER4, POISSON, MADOGRAM and RODOGRAM estimators of the general (non-grid) algorithm are covered (square roots by a rational Newton iteration, compared to 2^-36), with regular lags and irregular classes; the mean of each variable reported by the variogram is compared with the weighted mean of the model.",
    "level_note": "Trusted: Lean kernel + 3 standard axioms; sqrt enters only the comparison of the mean distance (rational Newton enclosure), never a pair/lag decision; configurations with a lag / cone / cylinder decision within 2^-30 of its boundary are skipped and counted; Db::getWeight semantics (undefined weight = 1) is followed.",
    "rule": "random data sets (1-3D, 3-30 samples on dyadic lattices: regular, random, clustered; 1-3 variables with undefined cells; optional weights and selection), one direction with 2-8 lags of step odd/16 (a quarter of the configurations: irregular classes given by breaks, first break 0 or positive, sometimes a duplicated location), distance tolerance in {1/2,1/4,3/8}, angular tolerance in {90,70,50,35,20} degrees, lattice direction vectors, optional bench / cylinder; estimator drawn among variogram / order-4 / Poisson / madogram / rodogram; every (ivar,jvar) pair; plus 60 (quick) / 600 (thorough) small grids (2-3 D, undefined cells, optional weights and selection): grid-specialised algorithm along a node increment (axis, diagonal, knight move) against the general algorithm along the same direction with tight tolerances, pair weights exactly, distances and values to 2^-36. distinct = distinct request line; trivial = fewer than 3 active samples",
    "trivial": lambda line: False,
    "trusted_base": TB_COMMON,
    "uncovered": ["asymmetric estimators (covariance, covariogram) and general increments", "the grid-specialised algorithm is compared with the general one on the library (not modelled); vmap, vcloud", "dates, codes", "permutation invariance is exercised through the unsorted input order only"],
    "assumptions": ["boundary decisions excluded by exact margins"],
}

HOOK_COMMITS.append("ddd932bc7")

PROPS["C19"] = {
    "module": "GstProofs.Props.C19",
    "translators": [calc2lean.calc2lean],
    "theorems": [
        "GstProofs.C19.rollback_restores", "GstProofs.C19.finish_removes_temporaries", "GstProofs.C19.rollback_inv",
        "GstProofs.C19.rollbackPermOnly_leaks", "GstProofs.Calc.deleteAll_appended",
        "GstProofs.C19.calculators_clean_both_lists", "GstProofs.C19.calculators_register_their_variables",
        "GstProofs.C19.calculators_table_covers",
    ],
    "harnesses": ["vh_c19"],
    "level": "proof",
    "technique": "Lean 4 model of the calculator life cycle + a translator: the table of the calculators of /repo (does _rollback clean both variable lists? does a member create columns without registering them?) is regenerated from the source at every run and the premises of the restoration theorem are decided on it; on top of the Db model: roll-back restoration proved for any number of created variables and any failure point (universally quantified lists), plus the negation witness for the roll-back as shipped; fault-injection correspondence on the real calculators through a guarded hook (every tick, natural failures, re-run after failure) judged on the complete observable state of both data bases",
    "level_text": "Partial proof: restoration of columns, names, values and roles by the roll-back (both variable lists), removal of temporaries on success and preservation of the Db invariant are theorems of the model for every script length / failure index; on the library 14 calculators are run without fault, with two natural failures and with a fault injected at every hook tick, and re-run after each failure; the before/after states of both data bases are compared by the Lean driver (failure: identical content; success: input unchanged, pre-existing output content unchanged, only the Z role may move to the outputs).",
    "level_note": "Trusted: Lean kernel + 3 standard axioms; that addColumnsByConstant appends (name de-duplication keeps the existing names) is a hypothesis of the restoration theorem (`appended`), checked on a concrete instance and by the correspondence; hook = add-only code under GSTLEARN_VERIF; calculators not in the harness list (Eden, partition, substitution, grid-to-grid, simuPost, global, image) are not exercised.",
    "rule": "3 generated worlds (2-D, 1-2 variables, selection, prior extra columns with and without roles, names colliding with the calculators' output names) x 14 calculators x (no fault + 2 natural failures + every hook tick + re-run after each failure). distinct = distinct request line",
    "trivial": lambda line: False,
    "trusted_base": TB_COMMON + ["fault-injection hook (commit ddd932bc7, guarded by GSTLEARN_VERIF, add-only)"],
    "uncovered": ["calculators outside the harness list (their roll-back is covered by the regenerated table only)", "the translator reads the sources syntactically (regular expressions over member-function bodies)", "failures inside KrigingSystem after partial writes of result columns (values of created columns are not part of the content compared on failure since the columns are removed)"],
    "assumptions": [],
}

PROPS["C08"] = {
    "module": "GstProofs.Props.C08",
    "theorems": [
        "GstProofs.C08.rec_roundtrip", "GstProofs.C08.vec_roundtrip", "GstProofs.C08.vec_empty_roundtrip",
        "GstProofs.C08.readVecLines_skip", "GstProofs.C08.readRows_roundtrip", "GstProofs.C08.db_roundtrip",
        "GstProofs.C08.dbBody_roundtrip", "GstProofs.C08.readDims_roundtrip", "GstProofs.C08.grid_roundtrip",
    ],
    "harnesses": ["vh_c08"],
    "level": "proof",
    "technique": "Lean 4 token-level model of the neutral-file record layer (ASerializable: scalar records, vector records, comments, blank lines) and of the Db file layout, with write/read round-trip theorems for every well-formed content (any number of columns/rows, any legal tokens); differential correspondence: files written by the library are compared token by token with the model's serialisation and read back by the model's reader; for every other serialisable class the library is run through save / reload / save / reload / save and the Lean driver judges file identity, displays and 15-digit agreement",
    "level_text": "Partial proof: the record layer (scalar, vector, empty vector, comment skipping) and the complete Db and DbGrid layouts round-trip are theorems of the model for all contents; the model is tied to ASerializable / Db::_serialize / DbGrid::_serialize by comparing each generated Db and DbGrid file with the model's serialisation of the same object and by reading it back with the model reader. The per-class field order of the 24 other classes is not modelled: it is exercised on the library (generated instances, all dimensions 1-3, undefined values, 1e-9..1e21 magnitudes, container/prefix settings, short file names) by requiring file(gen1)=file(gen2) up to 2 units of the 15th digit, file(gen2)=file(gen3) exactly, identical displays, and grid geometry/values identity for the Zycor and IfpEn exchange formats.",
    "level_note": "Trusted: Lean kernel + 3 standard axioms; number formatting (operator<< with 15 digits) and parsing are not modelled - value tokens are taken from the file; fields that are neither serialised nor displayed are only seen through the third-generation comparison; the harness compares displays and files, not every getter.",
    "rule": "per iteration (dimension 1-3, container/prefix on or off): Db (0-4 extra columns with random roles, undefined and extreme values) also compared with the model serialisation; DbGrid (rotated or not), Model (1-2 variables, drifts, anisotropy), NeighUnique/Moving/Bench/Cell/Image, Vario, Polygons, Table, Rule, AnamHermite/DiscreteDD/Empirical, MeshETurbo/EStandard, DbMeshTurbo, DbLine, PolyLine2D, Faults, FracEnviron, Zycor and IfpEn grids. distinct = distinct request line",
    "trivial": lambda line: False,
    "trusted_base": TB_COMMON + ["text formatting/parsing of numbers by the C++ stream library"],
    "uncovered": ["per-class field order is not a theorem (exercised only)", "DbGraphO, MeshSpherical, DbMeshStandard, RuleShift/RuleShadow, AnamDiscreteIR, AnamUser, FracList are not generated", "getters not reflected in the display or the file"],
    "assumptions": ["derived quantities recomputed by a reader from 15-digit values may differ from the original by at most 2 units of the 15th significant digit"],
}

PROPS["C09"] = {
    "module": "GstProofs.Props.C09",
    "theorems": [
        "GstProofs.C09.readVecLines_spec", "GstProofs.C09.readVec_spec", "GstProofs.C09.readRows_spec",
        "GstProofs.C09.deserDb_consistent", "GstProofs.C09.deserDbBody_consistent", "GstProofs.C09.deserGrid_consistent", "GstProofs.C09.truncated_file",
    ],
    "harnesses": ["vh_c09"],
    "level": "proof",
    "technique": "Lean 4 model of the neutral-file readers (total functions: termination accepted by the kernel) with theorems over EVERY file content: the vector reader never returns more values than asked, every accepted Db file yields a consistent table whose size is bounded by the number of tokens of the file, hence every prefix/corruption is either rejected or consistent; correspondence: for every serialisable class (19 loaders incl. CSV, Zycor, IfpEn) byte prefixes and token corruptions of library-written files are offered to the real loader in a forked child (CPU alarm, 2 GB ceiling; AddressSanitizer+UBSan build in the thorough tier); loaded objects must display, save and reload, data bases must satisfy the C07 invariant (Lean `inv`), and the accept/reject decision on Db files is compared with the model reader",
    "level_text": "Partial proof: bounds, consistency and size-boundedness of the record layer and of the Db layout are theorems for all inputs; memory safety and absence of hangs of the C++ code cannot be stated in the model - they are observed on the library (sanitizers in the thorough tier) for prefixes at every byte of files up to 500 bytes (thorough) / 40 sampled bytes (quick) and 60-600 token corruptions per file and class. The per-class readers other than Db are exercised, not modelled.",
    "level_note": "Trusted: Lean kernel + 3 standard axioms; the C++ tokeniser (operator>>, getline) is the trusted front end of the model; ASan/UBSan and the 2 GB / 20 s limits define 'memory corruption', 'exhausts memory' and 'hang'; loaders not in the harness list (DbGraphO, DbMesh*, MeshSpherical, Anam other than Hermite, RuleShift/Shadow, F2G, BMP, LAS) are not exercised.",
    "rule": "per class: 1 (quick) / 3 (thorough) library-written valid files; mutants = every byte prefix (thorough) or 40 sampled prefixes, 60/600 token mutations (replacement by 21 hostile values incl. negative, huge, non-numeric, NA, comment; deletion; duplication; line deletion; half of them in the header third), wrong tag, binary garbage, garbage tail, empty file; plus a systematic pass over the header: each of the first 20 integer tokens replaced by 2^30, 2^31, 2^32, 46341 and -1 with the other counts left in place (products of individually plausible counts that wrap a 32-bit integer). distinct = distinct request line",
    "trivial": lambda line: " valid " in line,
    "flavour": {"thorough": "asan"},
    "env": {"thorough": {"ASAN_OPTIONS": "detect_leaks=0:max_allocation_size_mb=2048:hard_rss_limit_mb=6000:abort_on_error=1", "UBSAN_OPTIONS": "print_stacktrace=1"}},
    "trusted_base": TB_COMMON + ["AddressSanitizer/UBSan runtime (thorough tier)", "fork/alarm/rlimit harness"],
    "uncovered": ["memory safety itself is observed (sanitizers), not proved", "loaders outside the harness list", "binary formats"],
    "assumptions": ["limits: 20 s CPU alarm and 2 GB address space (plain) / 2 GB single allocation (ASan) per load"],
}

PROPS["C04"] = {
    "module": "GstProofs.Props.C04",
    "theorems": [
        "GstProofs.C04.wide_moving_all", "GstProofs.C04.loo_weights", "GstProofs.C04.loo_estimate",
        "GstProofs.C04.blockAverage_single", "GstProofs.C04.uk_from_sk", "GstProofs.C04.bayes_weights", "GstProofs.C04.bayes_estimate", "GstProofs.C04.collocated_weights", "GstProofs.C01.dual", "GstProofs.C06.knn_spec",
    ],
    "harnesses": ["vh_c04"],
    "level": "proof",
    "technique": "Lean 4 theorems giving, for each pair of code paths, the reason why the answers coincide in the model (a moving neighbourhood where no limit binds selects every candidate; leave-one-out weights and estimate from one column of the inverse of the complete system, any size; dual = primal; one-point block average = point value; k-NN specification) + differential correspondence: both paths of the real library run on the same generated input and compared by the Lean driver (2^-20 of the scale), ties of nearest samples decided in exact integer arithmetic and skipped",
    "level_text": "Partial proof: the algebraic identities behind unique=moving, cross-validation=leave-one-out, dual=primal and block(1 point)=point are theorems for all sizes; the universal-kriging weights of the algebraic calculator (simple kriging corrected through the Schur complement) solve the bordered system (theorem uk_from_sk); the Bayesian form of the calculator (posterior precision) is simple kriging of the residuals under the covariance Sigma + X S X' (theorems bayes_weights, bayes_estimate); its collocated form with a known mean gives the weights of cokriging with the collocated datum added to the data (theorem collocated_weights); optimised covariance matrices, the ball tree and the equality of the two paths of the library are tied by the differential run only. The cross-validation, collocated and Bayesian forms of the calculator are compared with the standard kriging function (leave-one-variable-set-out, collocated datum added to the data, kribayes) and the Bayesian form also with its definition (simple kriging under the covariance Sigma + X S X').",
    "level_note": "Trusted: Lean kernel + 3 standard axioms; for block kriging only the estimates are compared: the block variance term C(v,v) is evaluated by design between the regular discretisation and a randomly shifted copy (never C(0)), so the standard deviation differs from point kriging even with one discretisation point.",
    "rule": "random configurations (1-3D, 1-2 variables, known mean / order 0-1 drift, 6-14 samples, 3 off-lattice targets): covariance matrix optimised vs plain vs pairwise; unique vs wide moving neighbourhood; xvalid vs explicit leave-one-out (order <= 0); migrate ball tree vs exhaustive; moving neighbourhood ball tree vs standard (nmaxi nearest, no sector), then again with the same neighbourhood and data-base objects after the data locations have been exchanged in place; block(1 point) vs point; KrigingCalcul primal and dual vs kriging; its cross-validation form (all variables of one sample, or one of two) vs kriging with those values undefined; its collocated form (2 variables, second known at the target; known mean and drift) vs kriging with the datum added; its Bayesian form (random prior mean and full prior covariance on 1-6 drift coefficients, 3 targets) vs kribayes and vs simple kriging with the covariance Sigma + X S X'. distinct = distinct request line",
    "trivial": lambda line: False,
    "trusted_base": TB_COMMON,
    "uncovered": ["the collocated identity is a theorem for a known mean only (collocated_weights); with a drift it is compared on the library", "kribayes with two or more drift coefficients (known finding F98)", "the ball-tree algorithm itself (specified, not modelled)"],
    "assumptions": ["nearest-sample ties (exact integer test) are skipped and counted"],
}

PROPS["C05"] = {
    "module": "GstProofs.Props.C05",
    "theorems": [
        "GstProofs.C05.pairs_filter", "GstProofs.C05.pairTerm_some", "GstProofs.C05.vario_removed",
        "GstProofs.C05.moments_removed", "GstProofs.C01.compress", "GstProofs.C01.compress_rhs",
    ],
    "harnesses": ["vh_c05"],
    "level": "proof",
    "technique": "Lean 4 theorems that the models ignore masked / undefined samples (pairwise variogram definition over all samples = over the samples that count, for every lag and direction; statistics accumulation loop = loop over the filtered list; kriging system assembled from the compressed rows) + differential correspondence: every operation of the real library is run on a data base with masked samples / undefined values / undefined coordinates and on the physically reduced data base, the two answers are compared by the Lean driver; masked targets must keep the undefined value",
    "level_text": "Partial proof: removal-invariance of the variogram definition, of the statistics loop and of the kriging system assembly are theorems of the models for all inputs; the library is compared with itself (masked vs removed) for kriging (unique, moving), cross-validation, variograms, statistics, covariance and drift matrices, migration (point to grid with and without filling, point to point) and conditional turning-bands simulation, with selection, undefined values, undefined coordinates and their mixture; masked targets are checked to stay undefined.",
    "level_note": "Trusted: Lean kernel + 3 standard axioms. Two known findings (F70, F71) are reported on the current tree: undefined values still extend the simulation field, and undefined coordinates are not recognised by most operations.",
    "rule": "random configurations (1-3D, 1-2 variables, 10-18 samples of which ~30% masked / undefined, 5 targets some masked, known mean or order 0-1 drift); per configuration: kriging unique+moving, xvalid, variogram (3-6 lags), 6 statistics, covariance and drift matrices, migration of the first variable onto a coarse grid and onto the targets, conditional simtub (2 simulations, same seed). distinct = distinct request line",
    "trivial": lambda line: False,
    "trusted_base": TB_COMMON,
    "uncovered": ["SPDE, Gibbs and other simulators", "grid-specific variogram algorithm", "heterotopic removal is covered by the C01 compress theorems and its correspondence, not re-run here"],
    "assumptions": [],
}

PROPS["C10"] = {
    "module": "GstProofs.Props.C10",
    "translators": [cow2lean.cow2lean],
    "theorems": [
        "GstProofs.C10.detach_spec", "GstProofs.C10.step_refines", "GstProofs.C10.cow_refines",
        "GstProofs.C10.stale_reference_leaks", "GstProofs.C10.step_coherent", "GstProofs.C10.memo_fresh",
        "GstProofs.C10.memo_buggy_differs", "GstProofs.C10.seed_nonpositive_keeps", "GstProofs.C13.det",
        "GstProofs.C10.vectorT_writers_detach", "GstProofs.C10.vectorT_const_members_read_only",
        "GstProofs.C10.vectorT_escapes_known", "GstProofs.C10.vectorNumT_mutators_use_accessors",
        "GstProofs.C10.vectorT_table_covers_model",
    ],
    "harnesses": ["vh_c10"],
    "level": "proof",
    "technique": "Lean 4 refinement proofs + a translator: the table of the member functions of VectorT / VectorNumT (writes the shared buffer? detaches first? const member handing out mutable access?) is regenerated from the headers at every run and the premises of the refinement are decided on it (every writer detaches before its first access, const members only read, the only escapes are the two of known finding F73); (a) the copy-on-write vector (VectorT: shared buffers, detach before every mutator) refines plain value semantics for every operation sequence on any number of handles (invariant + commuting abstraction, induction over the history); (b) a lazily evaluated calculator with per-input cache invalidation answers, after any history of updates and queries, as a fresh object with the final inputs (coherence invariant); (c) the random stream after a positive seed depends on the seed only. Correspondence: random operation sequences on real VectorInt handles compared with the model; every scenario of the library run in a fresh child process and in a child that first executes a random prelude of other successful / failing calls; incremental vs fresh objects; copies vs sources",
    "level_text": "Partial proof: value semantics of the copy-on-write vector, history-independence of a cache-invalidating calculator and seed-determinism are theorems (all histories); that the real objects behave like these models is checked by correspondence: VectorInt against the model (operation sequences), KrigingCalcul / NeighMoving / Model setters as instances of the memo pattern (incremental vs fresh), and 8 library scenarios (kriging, cross-validation, simulations, variogram, optimised covariance matrices, random laws) fresh vs after a random prelude in separate processes.",
    "level_note": "Trusted: Lean kernel + 3 standard axioms; static/global state of the library is not enumerated by a translator: it is probed through the prelude runs only; documented global options (default space, file prefix) are restored by the prelude. Known finding F73: writable references taken before a copy.",
    "rule": "1500 (quick) / 20000 (thorough) operation sequences of length 2-14 on up to 14 handles (new, copy, assign, set through operator[] / setAt / at / iterator, push_back, resize, swap, clear, fill, insert, remove, push_front, front / back, operator<<); a third as many sequences on VectorDouble handles (copies, assignments, and six in-place helpers of VectorHelper: addInPlace, subtractInPlace, multiplyInPlace, multiplyConstant, addConstant, cumulateInPlace); 40 / 400 worlds x 8 scenarios fresh vs after 2-6 prelude calls drawn among 10 kinds (2 of them failing); per world: incremental KrigingCalcul over 4 targets, re-used moving neighbourhood forwards and backwards, model edited after use, Model and Db copies. distinct = distinct request line",
    "trivial": lambda line: False,
    "trusted_base": TB_COMMON + ["fork-based isolation of the fresh / after-prelude runs"],
    "uncovered": ["the translator reads the headers syntactically (comment stripping, brace matching, regular expressions): a write to the buffer through an alias it does not recognise would be missed by the table and seen only by the correspondence run", "global state not reached by the prelude kinds", "multi-threaded use (OpenMP paths run with one thread)", "objects other than Db / Model / KrigingCalcul / NeighMoving for copy and incremental checks"],
    "assumptions": [],
}

PROPS["C03"] = {
    "module": "GstProofs.Props.C03",
    "theorems": [
        "GstProofs.C03.spherical_bounds", "GstProofs.C03.spherical_beyond", "GstProofs.C03.cubic_bounds",
        "GstProofs.C03.triangle_bounds", "GstProofs.C03.wendland0_bounds", "GstProofs.C03.wendland1_bounds",
        "GstProofs.C03.wendland2_bounds", "GstProofs.C03.penta_bounds", "GstProofs.C03.reg1d_bounds",
        "GstProofs.C03.reg1d_beyond", "GstProofs.C03.redDist2_neg", "GstProofs.C03.rotation_preserves_norm",
        "GstProofs.C03.gamma_bounds", "GstProofs.C03.cauchy_bounds", "GstProofs.C03.maternHalfPoly_spec",
    ],
    "harnesses": ["vh_c03"],
    "level": "proof",
    "technique": "Lean 4 theorems on the closed forms of the polynomial structures (for every reduced distance: |C(h)| <= C(0) = 1, compact support, no jump at the range), evenness of the reduced distance and its invariance under rotations (Mathlib matrices, any dimension); certificate checking for what is not provable in the model: positive semi-definiteness of the library's covariance matrix of generated point sets is decided by an exact rational LDLt, closed forms are compared with the library (rational polynomials exactly, exp through proved-style alternating-series enclosures)",
    "level_text": "Partial proof: boundedness / support / continuity of 8 polynomial structures are theorems for all distances; positive definiteness for ALL point sets (Bochner) is not a theorem here - it is certified per generated instance by exact arithmetic (all structures offered by the factory in 1-3 D, anisotropy + rotation, 1-2 variables with positive semi-definite sills, conditional definiteness on first-order increments for LINEAR / ORDER1_GC / POWER); transcendental structures other than exponential and Gaussian have no closed-form comparison.",
    "level_note": "Trusted: Lean kernel + 3 standard axioms; the LDLt certificate checker (exact rational, soundness = classical Schur-complement argument, not proved in Lean); alternating-series enclosure of exp; structures of order >= 1 (ORDER3_GC, ORDER5_GC, SPLINE_GC, SPLINE2_GC) are not certified.",
    "rule": "every ECov offered by CovFactory in dimension 1, 2, 3 x 4 (quick) / 60 (thorough) repetitions: 6 closed-form probes along the first axis (unit sill, random range and parameter); in 2-3 D one anisotropic rotated unit-sill structure declared in one of five orders (constructor, ranges then angles, angles then ranges, rotation object then ranges, isotropic + angles then other ranges) probed 3 times along each rotated axis against the closed form at the range of that axis; one anisotropic rotated 1-2 variable model: 4 symmetry / bound / variogram-form probes and one 4-9 point covariance (or increment) matrix certified PSD with tau = 2^-36 of its scale. distinct = distinct request line",
    "trivial": lambda line: False,
    "trusted_base": TB_COMMON + ["exact LDLt certificate checker", "rational enclosure of exp"],
    "uncovered": ["positive definiteness for all point sets (only certified instances)", "generalised covariances of order >= 1", "Matern (parameter not 1/2, 3/2, 5/2) / Bessel / Gamma and Cauchy (non-integer exponent) / Stable (exponent not 1, 2) / Storkey / sine cardinal values: no rational closed form in the model", "covariances on the sphere", "non-stationary models"],
    "assumptions": [],
}

PROPS["C18"] = {
    "module": "GstProofs.Props.C18",
    "theorems": [
        "GstProofs.C18.rotation_roundtrip", "GstProofs.C18.factors_roundtrip", "GstProofs.C18.factors_whitened",
        "GstProofs.C18.rank_monotone", "GstProofs.C18.hermite_orthogonal_below_12",
        "GstProofs.C18.hermite_orthogonal", "GstProofs.C18.hermite_table_all", "GstProofs.C18.hermite_norm",
        "GstProofs.C18.hermite_centred", "GstProofs.C18.hermite_values",
        "GstProofs.Trans.E_stein", "GstProofs.Trans.H_deriv_succ", "GstProofs.Trans.H_succ", "GstProofs.Trans.toPoly_pmul",
        "GstProofs.C18.extend_roundtrip", "GstProofs.C18.extend_ends", "GstProofs.C18.extend_mono",
    ],
    "harnesses": ["vh_c18"],
    "level": "proof",
    "technique": "Lean 4 theorems (Mathlib matrices, any dimension): an orthogonal change of coordinates followed by its transpose is the identity and preserves norms; variables -> factors -> variables is the identity whenever the back-transformation is a left inverse of the forward one (centring included); factors built from an orthonormal eigen-basis scaled by inverse square roots of the eigenvalues have the identity as covariance; ranks are monotone; exact orthogonality table of the Hermite polynomials below degree 12 (integer arithmetic on Gaussian moments). Correspondence on the library: Hermite values against the model's recurrence, rotations, PCA and MAF round trips and whitening, normal-score monotonicity, Hermite and empirical anamorphosis raw -> Gaussian -> raw and monotonicity inside the reported practical interval, all judged by the Lean driver",
    "level_text": "Partial proof: the linear-algebra identities behind rotations and factor transforms and the monotonicity of ranks are theorems; Hermite orthogonality E[He_m He_n] = n! delta_mn is a theorem for every pair of degrees (Stein identity on the moment functional, induction), and the recurrence values compared with the library are the values of these polynomials; the anamorphosis inversion is numerical (root finding) and is tied by correspondence only, with the accuracy stated in the harness (1e-3 of the raw range for Hermite, 2e-2 for the empirical anamorphosis).",
    "level_note": "Trusted: Lean kernel + 3 standard axioms; the factor variance is checked with the n-1 divisor used by the library; fitted Hermite anamorphoses that are not increasing inside their practical interval are counted, not judged.",
    "rule": "per configuration: Hermite polynomial values at a random dyadic y for 1-14 degrees; 2-D / 3-D rotation with random angles (direct/inverse both ways, norm); 30-80 samples of 2-4 correlated variables: PCA and MAF (factors centred, unit variance, uncorrelated, Z->F->Z); normal scores (monotone; with a quarter of the samples undefined and optional weights: equal to the scores of the defined samples alone; unchanged by equal weights; symmetric about 0); Hermite (10-40 polynomials) and empirical (30-100 classes) anamorphoses fitted on 200 skewed values, 12 round trips each. distinct = distinct request line",
    "trivial": lambda line: False,
    "trusted_base": TB_COMMON,
    "uncovered": ["accuracy of the numerical inversion is a stated tolerance, not a theorem", "discrete anamorphoses (DD, IR), change of support"],
    "assumptions": ["anamorphosis round trips are required inside the practical interval reported by the fitted object"],
}

PROPS["C15"] = {
    "module": "GstProofs.Props.C15",
    "theorems": [
        "GstProofs.C15.w1_sum", "GstProofs.C15.w1_reproduces", "GstProofs.C15.w1_nonneg",
        "GstProofs.C15.w2_sum", "GstProofs.C15.w2_reproduces", "GstProofs.C15.w2_nonneg",
        "GstProofs.C15.gram_symmetric", "GstProofs.C15.gram_quadratic_nonneg",
        "GstProofs.C15.horner_eq", "GstProofs.C15.q_forms", "GstProofs.C15.polyM_comm", "GstProofs.C15.q_symm",
        "GstProofs.C15.polyMat_toMatrix",
    ],
    "harnesses": ["vh_c15"],
    "level": "proof",
    "technique": "Lean 4 theorems: the two forms of the precision operator agree for every shift operator, polynomial and vector ((Lambda p(S) Lambda) v = Lambda Horner(p,S)(Lambda v), Mathlib matrices, any size), a symmetric S gives a symmetric Q, and the executable polynomial of the driver is the Mathlib one (bridge); barycentric weights of segments and triangles sum to one, reproduce affine functions and are non-negative inside the element (all non-degenerate elements, all points); Gram-type matrices are symmetric with a non-negative quadratic form (any size). Correspondence / certificates on the library: each row of the projection matrix (turbo meshes 1-3 D incl. rotated, explicit triangulations) is checked in exact arithmetic (weights >= 0, sum 1, coordinates reproduced, empty row outside); matrix-free precision operator vs assembled sparse matrix on random vectors; exact symmetric-positive-definite certificate of the assembled precision matrix; exact residual of the sparse Cholesky solve; SPDE kriging through Cholesky vs the iterative solver",
    "level_text": "Partial proof: the equality of the explicit and matrix-free forms of the precision operator is a theorem for all sizes and degrees, and the library's assembled matrix Q and its matrix-free evaluation are compared with the model recomputed in exact arithmetic from the exported S, Lambda and coefficients (meshes up to 30 apices); the projection weights' properties are theorems for 1-D and 2-D elements (3-D tetrahedra are exercised, not proved); symmetry / positivity of Gram forms is a theorem, that the library's precision matrix is of that form is certified per instance (exact LDLt); operator / solver agreements are differential runs on generated meshes and Matern models.",
    "level_note": "Trusted: Lean kernel + 3 standard axioms; exact rational certificate checkers (LDLt, residual); the agreement Cholesky / iterative kriging is judged at 0.4 % of the largest estimate (the iterative solver stops at its own tolerance); log-likelihood through both solvers is compared at 3% (+0.03): known finding F78.",
    "rule": "per configuration: a turbo mesh (1-D, 2-D possibly rotated, 3-D; 3-6 nodes per axis) or an irregular triangulated strip; 12 points (2 outside) projected; a Matern model with nu + d/2 integer and anisotropic ranges: 3 random vectors through both precision operators, one linear solve with exact residual, SPD certificate (<= 40 apices); 8-15 data kriged through Cholesky and through the iterative solver; the conditional system solved by sparse Cholesky and by the matrix-free conjugate gradient (default options, exact residual recomputed every 3-9 iterations, user initial value), each answer judged by the solver's own stopping rule on the recomputed residual. distinct = distinct request line",
    "trivial": lambda line: False,
    "trusted_base": TB_COMMON + ["exact LDLt / residual certificate checkers"],
    "uncovered": ["the finite-element assembly of S and Lambda from the mesh geometry (only symmetry is checked on the exported matrices)", "tetrahedral weights (exercised only)", "multi-variable / multi-structure conditional operators", "meshes on the sphere"],
    "assumptions": [],
}

HOOK_COMMITS.append("f14078153")
HOOK_COMMITS.append("2003f06ff")

PROPS["C14"] = {
    "module": "GstProofs.Props.C14",
    "theorems": [
        "GstProofs.C14.white_noise_image", "GstProofs.C14.image_cov_psd", "GstProofs.C14.imageCov_toMatrix",
        "GstProofs.C14.precision_simulation", "GstProofs.C14.precision_certificate",
        "GstProofs.C14.mixing_sills", "GstProofs.C14.mixing_transposed_differs", "GstProofs.C14.bands_norm",
        "GstProofs.C14.equidistributed", "GstProofs.C14.uniform_mean_all_seeds",
        "GstProofs.C14.uniformAB_range", "GstProofs.C14.intUniform_range",
        "GstProofs.C14.withinSigmas_mono", "GstProofs.C14.withinSigmas_exact",
    ],
    "harnesses": ["vh_c14"],
    "level": "proof",
    "timeout": {"quick": 3000, "thorough": 14000},
    "technique": "Lean 4 theorems on the second-order algebra shared by the simulators (covariance of a linear image of a white noise = A At, positive semi-definite; simulation through the Cholesky factor of a precision matrix has covariance Q^-1; the turning-band mixing matrix V diag(sqrt lambda) reproduces the matrix of sills and the transposed variant does not; normalisation by 1/sqrt(nbands)) and on the congruential generator over ALL seeds (exact equidistribution of the k-th draw, supports of the uniform laws); deterministic certificates in exact rational arithmetic on the library's own linear maps (dense Cholesky, sparse-Cholesky and Chebyshev SPDE simulators applied to the unit vectors; turning-band mixing coefficients and normalisation observed through a guarded hook); Monte-Carlo correspondence for the laws themselves: empirical means / (cross-)covariances of turning bands (points and grids, 1-3 variables, nested anisotropic structures), FFT, spectral simulations and of 20 basic random laws, judged at 6 standard deviations by the Lean driver",
    "level_text": "Partial proof: what is algebra is a theorem (every size) and is tied to the library by exact certificates on its own matrices; that the simulated fields have the law of the model (turning-band, FFT and spectral constructions; rejection samplers of Law.cpp) is a statistical statement which no executable model can carry: it is examined on fixed-size samples (1500 / 6000 realisations per configuration, 60 000 / 400 000 draws per law) with an acceptance band of 6 standard deviations computed from the Gaussian fourth-moment formula (sample fourth moment for the laws), decided in exact arithmetic.",
    "level_note": "Trusted: Lean kernel + 3 standard axioms; the published turning-band / spectral / circulant-embedding representations (not proved); the Monte-Carlo part can only refute: a deviation smaller than the sampling error of the chosen sample size is not seen. Known finding F84 (turning-band mixing matrix uses the eigenvectors by rows: wrong cross-covariances for 2+ variables) is reported on the current tree; F83, F85-F90 were repaired.",
    "rule": "17 law checks (support, mean, variance) + per configuration (8 quick / 60 thorough; 1-3 D): turning bands of a 1-3 variable nested model (9 structure kinds, anisotropy + rotation, 60-200 bands) on 5 points or a small (possibly rotated) grid: count of realisations, mixing certificate per structure, normalisation, means and all (cross-)covariances of up to 6 points; FFT on a 12 / 6x6 / 4x4x4 grid (4 structure kinds, anisotropic): 5 nodes; spectral simulation (4 kinds): 5 points; dense Cholesky (precision and covariance forms) on 3-7 points; SPDE Matern operators on a 5-16 node mesh (sparse Cholesky exact, Chebyshev within 1/32); the turning-band pool holds spherical, exponential, Gaussian, cubic, Matern 3/8, 3/16, 1/2, 3/2, stable 1/2, 3/4, 3/2 and cardinal sine, and the first two configurations of every run are a lone Matern structure of smoothness 3/8 and 3/16 (mixture of exponentials with a Beta scale). distinct = distinct request line",
    "trivial": lambda line: False,
    "trusted_base": TB_COMMON + ["observation hook (commit f14078153, guarded by GSTLEARN_VERIF, add-only)", "Gaussian fourth-moment formula for the variance of an empirical covariance (turning-band fields with >= 60 bands are close to Gaussian; the band is 6 standard deviations wide)"],
    "uncovered": ["the law of the simulated fields beyond its first two moments", "that each 1-D band process has the turning-band covariance of its structure (observed through the Monte-Carlo run only)", "SPDE simulation end to end (mesh discretisation error is not a property of the code)", "simulations on the sphere, substitution / Boolean / plurigaussian simulators", "the std::mt19937 'new style' generator"],
    "assumptions": ["acceptance band of 6 standard deviations: a correct implementation fails a given comparison with probability < 2e-9"],
}

PROPS["C17"] = {
    "module": "GstProofs.Props.C17",
    "theorems": [
        "GstProofs.C17.truncated_psd", "GstProofs.C17.trunc_nonneg", "GstProofs.C17.clamp_within", "GstProofs.C17.clamp_idem",
        "GstProofs.C17.decode_encode", "GstProofs.C17.encode_injective", "GstProofs.C17.encode_range", "GstProofs.C17.encode_decode",
        "GstProofs.C17.cget_sound", "GstProofs.C17.cget_complete", "GstProofs.C17.equal_answers",
        "GstProofs.C17.affect_bounds", "GstProofs.C17.mergeLower_ge", "GstProofs.C17.mergeLower_ge_new",
        "GstProofs.C17.mergeUpper_le", "GstProofs.C17.mergeUpper_le_new",
        "GstProofs.C17.affect_within", "GstProofs.C17.affect_within_needs_side", "GstProofs.C17.affect_lower_only",
        "GstProofs.C17.affect_upper_only", "GstProofs.C17.equality_fixes",
        "GstProofs.C17.compress_defined", "GstProofs.C17.compress_sublist", "GstProofs.C17.compress_keeps",
    ],
    "harnesses": ["vh_c17"],
    "level": "proof",
    "technique": "Lean 4 theorems on the two mechanisms that make a fitted model valid whatever the input: a matrix of sills rebuilt from an eigen-basis with truncated (non-negative) eigenvalues is positive semi-definite (Mathlib matrices, any number of variables); a parameter clamped into its bounds satisfies them; executable model of the parameter bookkeeping of src/Core/model_auto.cpp (packing of the five designators of a parameter into one identifier, look-up of the user's constraints, merge of a constraint into bounds and initial value, compression of undefined parameters) with round-trip / injectivity / no-overflow / soundness / within-bounds theorems, tied to the library's own static functions through a GSTLEARN_VERIF hook (exact differential run). Output validation of the real fitting on generated experimental variograms (smooth, pure noise, constant, periodic, very few pairs; 1-2 variables, 1, 2 or 4 directions), random structures, constraints and options: every returned model is judged by the Lean driver (exact PSD certificate of each sill matrix, strictly positive ranges, each user constraint, isotropy / locked rotation, save + reload + kriging)",
    "level_text": "Partial proof: the theorems cover the sill truncation, the clamping mechanism and the parameter bookkeeping that carries the user's constraints to the optimiser (identifiers, look-up, merge into bounds and initial value, compression), not the optimiser (Gauss-Newton 'foxleg') itself; that whatever the optimiser returns is valid is checked on the library per instance.",
    "level_note": "Trusted: Lean kernel + 3 standard axioms; exact LDLt certificate. Known findings F79 (Matern parameter above 100 -> NaN covariance) and F80 (zero-sill model for a constant variable) are reported on the current tree. Contradictory user constraints are not generated.",
    "rule": "60 (quick) / 1500 (thorough) configurations: 6-80 points in 2-D, 5 data shapes, 1-2 variables, 1, 2 or 4 directions of 4-10 lags, 1-3 structures among nugget / spherical / exponential / Gaussian / cubic / Matern / linear, 0-4 non-contradictory constraints (range, sill, rotation-angle and third-parameter bounds and equalities, intervals of negative angles included; only on parameters the library infers), anisotropy and rotation allowed or not, one rotation shared by all structures or not; plus 1500 (quick) / 20000 (thorough) calls of each bookkeeping function through the hook (packing, merge with every defined/undefined combination, look-up in lists with several items for one parameter, compression). distinct = distinct request line",
    "trivial": lambda line: False,
    "trusted_base": TB_COMMON + ["exact LDLt certificate checker"],
    "uncovered": ["variogram-map fitting", "the optimiser itself", "constraints on tapering ranges", "3-D", "the list of parameters inferred for a given set of options (st_parid_alloc) is exercised through the fits, not modelled"],
    "assumptions": ["user constraints are mutually compatible"],
}
