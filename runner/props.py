"""Per-property configuration of the runner (theorem lists, harnesses, evidence wording)."""

TB_COMMON = [
    "Lean 4.33 kernel; axioms allowed: propext, Classical.choice, Quot.sound (audited by #print axioms at every run)",
    "Lean compiler/runtime executing the model driver (Int/Rat/String)",
    "correspondence harness (differential run on the real library; as strong as its generator)",
    "g++/libstdc++/Eigen as used to build /repo; floating-point rounding is not modelled",
]

PROPS = {}
NOT_YET = {}
HOOK_COMMITS = []

PROPS["C16"] = {
    "module": "GstProofs.Props.C16",
    "theorems": [
        "GstProofs.C16.rank_ind", "GstProofs.C16.rank_ind_inRange", "GstProofs.C16.ind_rank",
        "GstProofs.C16.indiceToRank_outside",
        "GstProofs.C16.ind_coord", "GstProofs.C16.cell_iff", "GstProofs.C16.rank_coord",
        "GstProofs.C16.outside_iff", "GstProofs.C16.mirror_range",
    ],
    "harnesses": ["vh_c16"],
    "level": "proof",
    "technique": "Lean 4 theorems about a transcription model of Grid.cpp (mixed-radix bijection by induction on the dimension, floor/cell characterisation, round trips under any invertible rotation) + exact-dyadic differential correspondence with the library",
    "level_text": "Every conversion of the property is a theorem about the Lean model for all dimensions, sizes, origins, meshes and invertible rotations; the model is tied to Grid.cpp/DbGrid by a differential run on generated grids (exact on integers, 2^-40 on coordinates).",
    "level_note": "Trusted: Lean kernel + 3 standard axioms, the hand-written transcription (validated by the correspondence run on every check), double rounding not modelled (cell-boundary cases within 2^-30 are skipped and counted).",
    "rule": "random grids (1-4D, dyadic origin/mesh, no rotation / multiples of 90 deg / arbitrary angles in 2-3D, "
            "small and large node counts); per grid: node round trips, arbitrary (also out-of-range) indices, points "
            "placed at known fractional cell positions, derived grids (multiple/divider/dilate, DbGrid coarse/refine), "
            "DbGrid coordinates, mirror indices. distinct = distinct request text; trivial = 1-node grids",
    "trivial": lambda line: False,
    "trusted_base": TB_COMMON + ["rotation enters the model as the matrix exported by the library (orthogonality is a hypothesis of the theorems, checked numerically by the driver)"],
    "uncovered": ["int overflow of ranks (harness probes sizes up to 2^24 only)", "floating-point rounding inside floor()"],
    "assumptions": ["cell-boundary points (exact margin < 2^-30) are excluded and counted as skipped"],
}
