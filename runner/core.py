"""
Runner core shared by every property check.

Steps of a check (see DESIGN.md §2.4):
  1. build libgstlearn from /repo's *working tree* with -DGSTLEARN_VERIF   (build/plain, flock'd)
  2. translators (property specific)                                     -> lean/GstGen/*.lean
  3. lake build of the property's proof module + the model driver
  4. audit: forbidden tokens, `#print axioms` of every theorem in props.json
  5. compile + run the property's harness (C++, in-process on the real library),
     pipe its request lines through the Lean driver, collect verdicts
  6. failing-input classification, known-findings filter, evidence, exit code
"""
import fcntl
import hashlib
import json
import os
import re
import subprocess
import sys
import time

VERIF = os.path.dirname(os.path.dirname(os.path.abspath(__file__)))
REPO = os.environ.get("VERIF_REPO", "/repo")
BUILD = os.path.join(VERIF, "build")
LEAN = os.path.join(VERIF, "lean")
HARNESS = os.path.join(VERIF, "harness")
EVID = os.path.join(VERIF, "evidence")
REPLAYS = os.path.join(VERIF, "replays")
GUARD = "GSTLEARN_VERIF"

ALLOWED_AXIOMS = {"propext", "Classical.choice", "Quot.sound"}
FORBIDDEN = re.compile(r"\bsorry\b|\badmit\b|^\s*axiom\s|native_decide|bv_decide|implemented_by|\bunsafe\s|maxHeartbeats\s+0")


def log(*a):
    print("[check]", *a, file=sys.stderr, flush=True)


def run(cmd, **kw):
    kw.setdefault("stdout", subprocess.PIPE)
    kw.setdefault("stderr", subprocess.STDOUT)
    kw.setdefault("text", True)
    return subprocess.run(cmd, **kw)


class Lock:
    def __init__(self, name):
        os.makedirs(BUILD, exist_ok=True)
        self.path = os.path.join(BUILD, name + ".lock")

    def __enter__(self):
        self.f = open(self.path, "w")
        fcntl.flock(self.f, fcntl.LOCK_EX)
        return self

    def __exit__(self, *a):
        fcntl.flock(self.f, fcntl.LOCK_UN)
        self.f.close()


# --------------------------------------------------------------------------------------
# 1. library build
# --------------------------------------------------------------------------------------
def build_library(flavour="plain"):
    """(Re)build the shared library from /repo's working tree. Returns (libdir, seconds, log)."""
    t0 = time.time()
    bdir = os.path.join(BUILD, flavour)
    flags = "-Wno-error -D%s -g1" % GUARD
    btype = "Release"
    if flavour == "asan":
        flags += " -fsanitize=address,undefined -fno-sanitize-recover=all -fno-omit-frame-pointer -O1"
        btype = "Debug"
    with Lock("lib-" + flavour):
        if not os.path.exists(os.path.join(bdir, "build.ninja")):
            r = run(["cmake", "-G", "Ninja", "-S", REPO, "-B", bdir, "-DCMAKE_BUILD_TYPE=" + btype,
                     "-DBUILD_TESTING=OFF", "-DBUILD_PYTHON=OFF", "-DBUILD_R=OFF", "-DBUILD_DOXYGEN=OFF",
                     "-DUSE_HDF5=OFF", "-DCMAKE_CXX_FLAGS=" + flags])
            if r.returncode != 0:
                return None, time.time() - t0, r.stdout
        r = run(["ninja", "-C", bdir, "shared"])
        if r.returncode != 0:
            return None, time.time() - t0, r.stdout[-6000:]
    libdir = os.path.join(bdir, btype)
    return libdir, time.time() - t0, ""


def compile_harness(name, flavour="plain", extra=()):
    """Compile harness/<name>.cpp against the freshly built library. Returns (exe, log)."""
    bdir = os.path.join(BUILD, flavour)
    libdir = os.path.join(bdir, "Debug" if flavour == "asan" else "Release")
    src = os.path.join(HARNESS, name + ".cpp")
    outdir = os.path.join(BUILD, "harness-" + flavour)
    os.makedirs(outdir, exist_ok=True)
    exe = os.path.join(outdir, name)
    cmd = ["g++", "-std=gnu++20", "-O1", "-g1", "-DOPENMP", "-D" + GUARD, "-fopenmp",
           "-I" + os.path.join(REPO, "include"), "-I" + bdir, "-I" + HARNESS,
           "-isystem", "/usr/include/eigen3",
           src, "-o", exe, "-L" + libdir, "-lgstlearnd" if flavour == "asan" else "-lgstlearn", "-Wl,-rpath," + libdir]
    if flavour == "asan":
        cmd[3:3] = ["-fsanitize=address,undefined", "-fno-sanitize-recover=all"]
    cmd += list(extra)
    with Lock("harness-" + name + "-" + flavour):
        r = run(cmd)
    if r.returncode != 0:
        return None, r.stdout[-6000:]
    return exe, ""


# --------------------------------------------------------------------------------------
# 3/4. Lean build + audit
# --------------------------------------------------------------------------------------
def lake_build(targets):
    with Lock("lake"):
        r = run(["lake", "build"] + list(targets), cwd=LEAN)
    return r.returncode == 0, r.stdout


def strip_comments(text):
    # remove /- … -/ (nested not needed here) and -- … comments
    text = re.sub(r"/-.*?-/", "", text, flags=re.S)
    text = re.sub(r"--.*", "", text)
    return text


def audit_sources(files):
    bad = []
    for f in files:
        try:
            txt = strip_comments(open(f).read())
        except OSError:
            continue
        for i, line in enumerate(txt.splitlines(), 1):
            if FORBIDDEN.search(line):
                bad.append("%s:%d: %s" % (os.path.relpath(f, VERIF), i, line.strip()[:100]))
    return bad


def lean_sources():
    out = []
    for root, _, fs in os.walk(LEAN):
        if ".lake" in root:
            continue
        for f in fs:
            if f.endswith(".lean"):
                out.append(os.path.join(root, f))
    return out


def audit_axioms(module, theorems):
    """`#print axioms` for each theorem. Returns dict thm -> list of axioms, or error string."""
    os.makedirs(os.path.join(BUILD, "audit"), exist_ok=True)
    f = os.path.join(BUILD, "audit", "Audit_%s.lean" % module.replace(".", "_"))
    with open(f, "w") as fh:
        fh.write("import %s\n" % module)
        for t in theorems:
            fh.write("#print axioms %s\n" % t)
    with Lock("lake"):
        r = run(["lake", "env", "lean", f], cwd=LEAN)
    res = {}
    out = r.stdout
    # messages look like:  'Name' depends on axioms: [a, b]   /  'Name' does not depend on any axioms
    for t in theorems:
        m = re.search(r"'%s' depends on axioms: \[(.*?)\]" % re.escape(t), out, flags=re.S)
        if m:
            res[t] = [a.strip() for a in m.group(1).replace("\n", " ").split(",") if a.strip()]
            continue
        if re.search(r"'%s' does not depend on any axioms" % re.escape(t), out):
            res[t] = []
            continue
        res[t] = None
    return res, out


# --------------------------------------------------------------------------------------
# 5. harness + driver
# --------------------------------------------------------------------------------------
def driver_exe():
    return os.path.join(LEAN, ".lake", "build", "bin", "gstmodel")


def run_harness(exe, env_extra, timeout):
    env = dict(os.environ)
    env.update(env_extra)
    env.setdefault("OMP_NUM_THREADS", "1")
    p = subprocess.run([exe], stdout=subprocess.PIPE, stderr=subprocess.PIPE, env=env, timeout=timeout)
    out = p.stdout.decode("utf-8", "replace")
    return p.returncode, out, p.stderr.decode("utf-8", "replace")[-4000:]


def run_driver(lines, timeout=3600):
    p = subprocess.run([driver_exe()], input=("\n".join(lines) + "\n").encode(), stdout=subprocess.PIPE,
                       stderr=subprocess.PIPE, timeout=timeout)
    return p.returncode, p.stdout.decode().splitlines(), p.stderr.decode()[-2000:]


def split_stream(text):
    """harness stdout -> (request lines, stats dict, notes)"""
    reqs, stats, notes = [], {}, []
    for ln in text.splitlines():
        if ln.startswith("#stat "):
            _, k, v = ln.split(" ", 2)
            try:
                stats[k] = stats.get(k, 0) + int(v)
            except ValueError:
                pass
        elif ln.startswith("#note "):
            notes.append(ln[6:])
        elif ln.startswith("#") or not ln.strip():
            continue
        elif " => " in ln or ln.endswith(" =>"):
            reqs.append(ln)
    return reqs, stats, notes


def sha(s):
    return hashlib.sha1(s.encode()).hexdigest()


# --------------------------------------------------------------------------------------
# 6. findings, replays, evidence
# --------------------------------------------------------------------------------------
def load_findings():
    p = os.path.join(VERIF, "known_findings.json")
    if not os.path.exists(p):
        return []
    return json.load(open(p)).get("findings", [])


def match_finding(findings, prop, line, verdict):
    """A known finding matches a violation when its property agrees and every regex of its signature
    matches the request line / verdict."""
    for f in findings:
        if f.get("status") != "known" or f.get("property") != prop:
            continue
        sig = f.get("signature", {})
        if "line" in sig and not re.search(sig["line"], line):
            continue
        if "verdict" in sig and not re.search(sig["verdict"], verdict):
            continue
        return f
    return None


def write_replay(prop, seed, idx, payload):
    d = os.path.join(REPLAYS, prop)
    os.makedirs(d, exist_ok=True)
    p = os.path.join(d, "%s-%d.json" % (seed, idx))
    json.dump(payload, open(p, "w"), indent=1)
    return p


def write_evidence(prop, ev):
    os.makedirs(EVID, exist_ok=True)
    json.dump(ev, open(os.path.join(EVID, prop + ".json"), "w"), indent=1)
