#!/usr/bin/env python3
"""Regenerates MANIFEST.json from runner/props.py (run by hand after editing props.py)."""
import json, os, sys
sys.path.insert(0, os.path.dirname(os.path.abspath(__file__)))
import props
V = os.path.dirname(os.path.dirname(os.path.abspath(__file__)))
ids = [json.loads(l)["id"] for l in open(os.path.join(V, "properties.jsonl"))]
checks = []
for pid in ids:
    if pid not in props.PROPS:
        continue
    c = props.PROPS[pid]
    checks.append({
        "property_id": pid,
        "quick_cmd": "./check %s --tier quick" % pid,
        "thorough_cmd": "./check %s --tier thorough" % pid,
        "evidence_file": "/verif/evidence/%s.json" % pid,
        "replay_cmd_template": "./check %s --replay {path}" % pid,
        "engine": "lean4-model+correspondence",
        "level_claimed": {"category": c["level"], "text": c["level_text"], "design_ref": "DESIGN.md §5 " + pid},
        "level_note": c["level_note"],
        "technique": c["technique"],
    })
na = [{"property_id": pid, "reason": props.NOT_YET.get(pid, "check not built yet; the Lean model for this property is planned in DESIGN.md §5 but nothing is claimed until it exists")}
      for pid in ids if pid not in props.PROPS]
m = {
    "version": 1,
    "setup_cmd": "python3 runner/setup.py",
    "hooks": {
        "guard": "GSTLEARN_VERIF",
        "enable": "checks build /repo into /verif/build/plain with -DCMAKE_CXX_FLAGS=-DGSTLEARN_VERIF (runner/core.py build_library)",
        "baseline_off_cmd": "cmake --build /repo/_build -j16 && ctest --test-dir /repo/_build -j8 --timeout 900",
        "source_commits": props.HOOK_COMMITS,
        "add_only": True,
    },
    "engines": [
        {"name": "lean4-model+correspondence", "path": "lean/ runner/ harness/ check",
         "serves_properties": [c["property_id"] for c in checks],
         "kind_free_text": "Lean 4 models (GstVerif) + theorems (GstProofs, audited axioms) + C++ correspondence harness piping exact dyadic observations of the real library through the compiled model driver"},
    ],
    "checks": checks,
    "not_applicable": na,
    "notes": "See DESIGN.md. Every check rebuilds libgstlearn from /repo's working tree, rebuilds the Lean proofs, audits axioms, then runs the differential correspondence.",
}
json.dump(m, open(os.path.join(V, "MANIFEST.json"), "w"), indent=1)
print("claimed:", [c["property_id"] for c in checks])
