#!/usr/bin/env python3
"""
Translator for property C10 (copy-on-write vectors): reads include/Basic/VectorT.hpp and VectorNumT.hpp of /repo's
working tree and regenerates lean/GstGen/CowTable.lean, a table with one row per member function:

    name, line, isConst, writes (touches the shared buffer through a non-const path), detaches (calls _detach()
    before the first use of the buffer), escapes (a const member handing out mutable access to the buffer)

The theorems of GstProofs/Props/C10.lean about that table (`vectorT_writers_detach`, …) are re-elaborated against what
the header says now.  Deliberately dumb: a member it cannot classify makes the translator fail loudly.
"""
import os, re, sys
sys.path.insert(0, os.path.dirname(os.path.abspath(__file__)))
import core

READ_ONLY_BUFFER_CALLS = {"size", "empty", "capacity", "cbegin", "cend", "crbegin", "crend", "get", "use_count"}
CAPACITY_ONLY = {"reserve"}


def strip_comments(t):
    t = re.sub(r"/\*.*?\*/", lambda m: "\n" * m.group(0).count("\n"), t, flags=re.S)
    t = re.sub(r"//[^\n]*", "", t)
    return t


def members(text, cls):
    """yield (header, body, line) for every function *definition* of class `cls` (in-class and out-of-class)."""
    t = strip_comments(text)
    t = re.sub(r"^[ \t]*#[^\n]*", "", t, flags=re.M)           # preprocessor lines (SWIG guards)
    out = []
    i, n, depth = 0, len(t), 0
    in_class = False
    class_depth = None
    start = 0                                                    # start of the current statement
    while i < n:
        c = t[i]
        if c == ";" and (depth == 0 or (in_class and depth == class_depth)):
            start = i + 1
        elif c == "{":
            head = t[start:i]
            at_member_level = (depth == 0) or (in_class and depth == class_depth)
            if at_member_level and re.search(r"\bclass\s+%s\b" % cls, head) and not in_class:
                in_class, class_depth = True, depth + 1
                depth += 1
                start = i + 1
            elif at_member_level and "(" in head and not re.search(r"\b(class|struct|namespace|enum)\b", re.sub(r"template\s*<[^>]*>", " ", head).split("(")[0]):
                # function definition: match the body
                j, d = i, 0
                while j < n:
                    if t[j] == "{": d += 1
                    elif t[j] == "}":
                        d -= 1
                        if d == 0: break
                    j += 1
                body = t[i + 1:j]
                line = t.count("\n", 0, i) + 1
                if in_class and depth == class_depth:
                    out.append((head.strip(), body, line))
                elif depth == 0 and re.search(r"\b%s\s*<\s*T\s*>\s*::" % cls, head):
                    out.append((head.strip(), body, line))
                i = j
                start = j + 1
            else:
                depth += 1
                start = i + 1
        elif c == "}":
            depth -= 1
            if in_class and depth < class_depth:
                in_class = False
            start = i + 1
        elif c == ":" and in_class and depth == class_depth and re.fullmatch(r"\s*(public|private|protected)\s*", t[start:i] or ""):
            start = i + 1
        i += 1
    return out


def classify(head, body, cls):
    h = re.sub(r"template\s*<[^>]*>", " ", head)
    h = re.sub(r"\s+", " ", h).strip()
    # drop a constructor initialiser list
    m = re.match(r"(.*?\))\s*(noexcept)?\s*:\s*[A-Za-z_]", h)
    sig = m.group(1) if m else h
    # name = identifier (or operator…) right before the parameter list
    if "operator" in sig:
        m = re.search(r"(operator\s*(?:\(\s*\))?[^(]*?)\s*\(", sig)
        if not m:
            raise ValueError("cannot find the operator name in: " + head[:120])
        name = re.sub(r"\s+", " ", m.group(1)).replace("operator ", "operator").strip()
    else:
        m = re.search(r"(~?[A-Za-z_]\w*)\s*\(", sig)
        if not m:
            raise ValueError("cannot find the name in: " + head[:120])
        name = m.group(1)
    ret = re.sub(r"%s\s*<\s*T\s*>\s*::\s*$" % cls, "", sig[:m.start()].replace("inline", "").replace("virtual", "").strip()).strip()
    is_const = bool(re.search(r"\)\s*const\b", h))
    is_ctor = name in (cls, "~" + cls)
    uses = [mm for mm in re.finditer(r"\b_v\b\s*(->\s*(\w+|operator\s*\[\])|\.\s*(\w+))?", body)]
    deref = [mm for mm in re.finditer(r"\*\s*(?:%s::)?_v\b" % cls, body)]
    detach_pos = body.find("_detach()")
    first_buf = None
    writes = False
    for mm in uses:
        callee = (mm.group(2) or mm.group(3) or "").replace(" ", "")
        if mm.group(3):                    # `_v.swap`, `_v.get()`, `_v.use_count()`: the handle, not the buffer
            continue
        if mm.group(1) is None:
            # bare `_v`: `_v = other._v` (handle), `std::swap(_v, …)`, `*_v` handled below
            continue
        if callee in READ_ONLY_BUFFER_CALLS or callee in CAPACITY_ONLY:
            continue
        if first_buf is None or mm.start() < first_buf: first_buf = mm.start()
        if not is_const: writes = True
    for mm in deref:
        if first_buf is None or mm.start() < first_buf: first_buf = mm.start()
        if not is_const: writes = True
    # a non-const member handing out a reference / pointer / iterator into the buffer writes too (already covered by
    # the `_v->` rule); a member of the derived class that never names `_v` relies on the parent's accessors
    detaches = detach_pos >= 0 and (first_buf is None or detach_pos < first_buf)
    escapes = is_const and bool(re.search(r"\b(Vector|T)\s*[&*]\s*$", ret)) and not re.search(r"\bconst\b", ret) and (bool(uses) or bool(deref))
    if is_ctor:
        writes = False                    # constructors build a fresh buffer
    return {"name": name, "const": is_const, "writes": writes and not is_ctor, "detaches": detaches, "escapes": escapes}


def lean_bool(b):
    return "true" if b else "false"


def cow2lean():
    try:
        rows = []
        for fname, cls in (("VectorT.hpp", "VectorT"), ("VectorNumT.hpp", "VectorNumT")):
            path = os.path.join(core.REPO, "include", "Basic", fname)
            text = open(path).read()
            ms = members(text, cls)
            if len(ms) < 10:
                return False, "cow2lean: only %d member definitions found in %s (parser out of date?)" % (len(ms), fname)
            for head, body, line in ms:
                r = classify(head, body, cls)
                if cls == "VectorNumT" and not r["const"] and r["writes"]:
                    pass          # a derived mutator naming `_v` directly must detach as well: same rule
                r["cls"], r["line"] = cls, line
                rows.append(r)
        names = [r["name"] for r in rows if r["cls"] == "VectorT"]
        for must in ("push_back", "resize", "operator[]", "operator=", "_detach", "fill", "setAt", "clear"):
            if must not in names:
                return False, "cow2lean: member %s of VectorT not found (parser out of date?)" % must
        out = ["/- GENERATED by runner/cow2lean.py from include/Basic/VectorT.hpp and VectorNumT.hpp of /repo — do not edit.",
               "   One row per member function definition; see the translator for the meaning of the columns. -/",
               "namespace GstGen", "",
               "structure Method where", "  cls : String", "  name : String", "  line : Nat", "  isConst : Bool",
               "  writes : Bool", "  detaches : Bool", "  escapes : Bool", "deriving Repr, DecidableEq", "",
               "def cowMethods : List Method := ["]
        for k, r in enumerate(rows):
            out.append('  { cls := "%s", name := "%s", line := %d, isConst := %s, writes := %s, detaches := %s, escapes := %s }%s'
                       % (r["cls"], r["name"], r["line"], lean_bool(r["const"]), lean_bool(r["writes"]), lean_bool(r["detaches"]),
                          lean_bool(r["escapes"]), "," if k + 1 < len(rows) else ""))
        out += ["]", "", "end GstGen", ""]
        dst = os.path.join(core.LEAN, "GstGen", "CowTable.lean")
        os.makedirs(os.path.dirname(dst), exist_ok=True)
        new = "\n".join(out)
        old = open(dst).read() if os.path.exists(dst) else None
        if old != new:
            open(dst, "w").write(new)
        nw = sum(1 for r in rows if r["writes"])
        return True, "cow2lean: %d members (%d writers, %d without detach, %d escapes)" % (
            len(rows), nw, sum(1 for r in rows if r["writes"] and not r["detaches"]), sum(1 for r in rows if r["escapes"]))
    except Exception as e:  # parse failure = broken tie, reported by the check
        return False, "cow2lean failed: %r" % (e,)


if __name__ == "__main__":
    ok, msg = cow2lean()
    print(ok, msg)
    sys.exit(0 if ok else 1)
