#!/usr/bin/env python3
"""Regenerates the generated parts of DESIGN.md (between `<!-- BEGIN GENERATED:x -->` / `<!-- END GENERATED:x -->`
markers) from runner/props.py, the module docstrings of lean/GstProofs/Props/C*.lean, known_findings.json and
seeded/*/meta.json.  Hand-written text outside the markers is left untouched."""
import glob, json, os, re, sys
sys.path.insert(0, os.path.dirname(os.path.abspath(__file__)))
import props
V = os.path.dirname(os.path.dirname(os.path.abspath(__file__)))


def titles():
    return {json.loads(l)["id"]: json.loads(l)["title"] for l in open(os.path.join(V, "properties.jsonl"))}


def docstring(pid):
    p = os.path.join(V, "lean", "GstProofs", "Props", pid + ".lean")
    if not os.path.exists(p):
        return ""
    m = re.search(r"/-!\s*\n#[^\n]*\n(.*?)\n-/", open(p).read(), flags=re.S)
    return m.group(1).strip() if m else ""


def wc(path):
    try:
        return sum(1 for _ in open(path))
    except OSError:
        return 0


def gen_props():
    T = titles()
    seeded = {}
    for d in sorted(glob.glob(os.path.join(V, "seeded", "*", "meta.json"))):
        m = json.load(open(d))
        seeded.setdefault(m.get("property"), []).append((os.path.basename(os.path.dirname(d)), m))
    F = json.load(open(os.path.join(V, "known_findings.json")))["findings"]
    out = []
    for pid in sorted(T):
        out.append("### %s — %s\n" % (pid, T[pid]))
        if pid not in props.PROPS:
            out.append("Not claimed: %s\n" % props.NOT_YET.get(pid, "no check yet"))
            continue
        c = props.PROPS[pid]
        out.append("**Level claimed**: %s.  %s\n" % (c["level"], c["level_text"]))
        out.append("**What the theorems say** (module docstring of `lean/GstProofs/Props/%s.lean`, %d lines):\n" % (pid, wc(os.path.join(V, "lean/GstProofs/Props/%s.lean" % pid))))
        ds = docstring(pid)
        out.append("\n".join("> " + l for l in ds.splitlines()) + "\n")
        out.append("**Theorems audited at every run** (`#print axioms`, only propext / Classical.choice / Quot.sound accepted): "
                   + ", ".join("`%s`" % t.replace("GstProofs.", "") for t in c["theorems"]) + ".\n")
        out.append("**Tie to the code**: %s\n" % c["technique"])
        out.append("**Correspondence run** (`harness/%s.cpp`): %s\n" % (", ".join(c["harnesses"]), c["rule"]))
        out.append("**Trusted / modelled, not verified**: %s\n" % c["level_note"])
        if c.get("uncovered"):
            out.append("**Not covered by a theorem**: " + "; ".join(c["uncovered"]) + ".\n")
        if c.get("assumptions"):
            out.append("**Assumptions**: " + "; ".join(c["assumptions"]) + ".\n")
        fs = [f for f in F if f["property"] == pid]
        if fs:
            out.append("**Findings**: " + ", ".join("%s (%s)" % (f["id"], f["status"]) for f in fs) + " — see §6.\n")
        for name, m in seeded.get(pid, []):
            out.append("**Seeded change** `seeded/%s`: %s  Needs: %s  Result: %s\n" % (name, m.get("summary", ""), m.get("needs_to_manifest", ""), m.get("detected_by", "")))
    return "\n".join(out)


def gen_findings():
    F = json.load(open(os.path.join(V, "known_findings.json")))["findings"]
    key = lambda f: int(re.sub(r"\D", "", f["id"]) or 0)
    rows = ["| id | property | status | repo commit | what failed |", "|---|---|---|---|---|"]
    for f in sorted(F, key=key):
        rows.append("| %s | %s | %s | %s | %s |" % (f["id"], f["property"], f["status"], f.get("commit", "") if f["status"] == "fixed" else "—", f["what"].replace("|", "\\|")))
    nk = sum(1 for f in F if f["status"] == "known")
    return "%d findings: %d repaired by a `fix:` commit in /repo, %d recorded as known.\n\n" % (len(F), len(F) - nk, nk) + "\n".join(rows)


def gen_seeded():
    rows = ["| seeded change | property | what it needs to manifest | outcome |", "|---|---|---|---|"]
    for d in sorted(glob.glob(os.path.join(V, "seeded", "*", "meta.json"))):
        m = json.load(open(d))
        rows.append("| `%s` | %s | %s | %s |" % (os.path.basename(os.path.dirname(d)), m.get("property"), m.get("needs_to_manifest", "").replace("|", "\\|"), m.get("detected_by", "").replace("|", "\\|")))
    return "\n".join(rows)


def gen_sizes():
    def tot(pat):
        return sum(wc(f) for f in glob.glob(os.path.join(V, pat), recursive=True))
    return ("Sizes today: models + drivers `lean/GstVerif` %d lines (core Lean only), proofs `lean/GstProofs` %d lines, "
            "harnesses `harness/` %d lines of C++, runner %d lines of Python; %d theorems are listed in `runner/props.py` and audited."
            % (tot("lean/GstVerif/**/*.lean"), tot("lean/GstProofs/**/*.lean"), tot("harness/*.[ch]pp"), tot("runner/*.py") + wc(os.path.join(V, "check")),
               sum(len(c["theorems"]) for c in props.PROPS.values())))


def main():
    p = os.path.join(V, "DESIGN.md")
    s = open(p).read()
    for name, fn in (("props", gen_props), ("findings", gen_findings), ("seeded", gen_seeded), ("sizes", gen_sizes)):
        b, e = "<!-- BEGIN GENERATED:%s -->" % name, "<!-- END GENERATED:%s -->" % name
        if b not in s:
            print("marker missing:", name)
            continue
        i, j = s.index(b) + len(b), s.index(e)
        s = s[:i] + "\n" + fn() + "\n" + s[j:]
    open(p, "w").write(s)
    print("DESIGN.md regenerated (%d lines)" % s.count("\n"))


if __name__ == "__main__":
    main()
