#!/usr/bin/env python3
"""setup_cmd: build everything the checks need from files on disk (offline)."""
import os, sys
sys.path.insert(0, os.path.dirname(os.path.abspath(__file__)))
import core, props

def main():
    libdir, dt, log = core.build_library("plain")
    print("library build: %.0fs -> %s" % (dt, libdir))
    if libdir is None:
        print(log); return 1
    for cfg in props.PROPS.values():
        for tr in cfg.get("translators", []):
            ok, msg = tr()
            print("translator", tr.__name__, ok)
    ok, out = core.lake_build(["GstVerif", "gstmodel"] + sorted({c["module"] for c in props.PROPS.values()}))
    print("lake build:", ok)
    if not ok:
        print(out[-5000:]); return 1
    for cfg in props.PROPS.values():
        for h in cfg["harnesses"]:
            exe, log = core.compile_harness(h, "plain", cfg.get("cxx_extra", ()))
            print("harness", h, "ok" if exe else "FAILED")
            if exe is None:
                print(log); return 1
    return 0

if __name__ == "__main__":
    sys.exit(main())
