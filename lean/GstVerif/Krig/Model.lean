import GstVerif.LinAlg.Mat
/-
  Model of the (co)kriging system of `KrigingSystem` (src/Estimation/KrigingSystem.cpp):
  `_flagDefine`, `_lhsCalcul`, `_lhsIsoToHetero`, `_rhsCalcul`, `_rhsIsoToHetero`, `_dualCalcul`,
  `_estimateEstim`, `_estimateStdv`, `_estimateVarZ` — properties C01 / C02 / C04 / C05.

  Covariances enter as *oracle tables* (computed by the harness through the plain single-pair API of
  the Model, not through the kriging code path); drift functions are recomputed exactly from the
  monomial exponents and the (dyadic) coordinates.  Equation order is the library's:
  (sample i, variable a) ↦ i + a·nech, drift equations (variable a, function l) ↦ nvar·nech + a·nbfl + l.
-/
namespace GstVerif.Krig
open GstVerif GstVerif.LinAlg

structure KIn where
  nvar : Nat
  nech : Nat
  nbfl : Nat                       -- number of drift functions (0 = known mean)
  z    : List (Option Q)           -- data, index i + a·nech
  verr : List (Option Q)           -- measurement-error variances (same indexing) or []
  coordOK : List Bool              -- per sample: all coordinates defined
  fextOK  : List Bool              -- per sample: all external drifts defined
  C   : Mat                        -- (nvar·nech)² covariances between data (oracle)
  C0  : Mat                        -- (nvar·nech) × nvar covariances data/target (oracle)
  C00 : Mat                        -- nvar × nvar target/target
  F   : Mat                        -- nech × nbfl drift functions at the samples
  F0  : List Q                     -- nbfl drift functions at the target
  mean : List Q                    -- nvar known means

def nd (k : KIn) : Nat := k.nvar * k.nech
def nfeq (k : KIn) : Nat := k.nvar * k.nbfl
def neq (k : KIn) : Nat := nd k + nfeq k

/-- `_flagDefine`: which equations are kept -/
def flags (k : KIn) : List Bool :=
  let dataFlag := (List.range (nd k)).map fun e =>
    let i := e % k.nech
    k.coordOK.getD i false && k.fextOK.getD i true && (k.z.getD e none).isSome
  -- a drift equation is suppressed only when no datum at all is defined in the neighbourhood
  let anyData := (List.range (nd k)).any fun e => (k.z.getD e none).isSome
  dataFlag ++ List.replicate (nfeq k) anyData

/-- drift coefficient of equation `ib` for datum (i, a): `evalDriftValue` (not linked, not combined) -/
def driftLhs (k : KIn) (e ib : Nat) : Q :=
  let i := e % k.nech
  let a := e / k.nech
  if ib / k.nbfl = a then k.F.get i (ib % k.nbfl) else 0

def driftRhs (k : KIn) (ib a : Nat) : Q :=
  if ib / k.nbfl = a then k.F0.getD (ib % k.nbfl) 0 else 0

/-- measurement-error variance added on the diagonal: only when defined and positive -/
def verrAdd (k : KIn) (p : Nat) : Q :=
  match k.verr.getD p none with
  | some v => if v > 0 then v else 0
  | none => 0

/-- `_lhsCalcul`: full system `[Σ + diag(verr) , X ; Xᵀ , 0]` -/
def lhsFull (k : KIn) : Mat :=
  Mat.ofFn (neq k) (neq k) fun p q =>
    if p < nd k ∧ q < nd k then
      k.C.get p q + (if p = q then verrAdd k p else 0)
    else if p < nd k then driftLhs k p (q - nd k)
    else if q < nd k then driftLhs k q (p - nd k)
    else 0

/-- `_rhsCalcul` (point estimation, no `matLC`) -/
def rhsFull (k : KIn) : Mat :=
  Mat.ofFn (neq k) k.nvar fun p a =>
    if p < nd k then k.C0.get p a else driftRhs k (p - nd k) a

/-- positions of the kept equations -/
def kept (k : KIn) : List Nat := (List.range (neq k)).filter fun p => (flags k).getD p false

/-- `_lhsIsoToHetero` / `_rhsIsoToHetero`: compression by the flags -/
def lhsC (k : KIn) : Mat := (lhsFull k).sub (kept k) (kept k)
def rhsC (k : KIn) : Mat := (rhsFull k).sub (kept k) (List.range k.nvar)

/-- `_getMean`: zero as soon as there is a drift -/
def meanOf (k : KIn) (a : Nat) : Q := if nfeq k > 0 then 0 else k.mean.getD a 0

/-- `_dualCalcul`: centred data on the kept data equations, zeros on the drift equations -/
def zext (k : KIn) : List Q :=
  (kept k).map fun p =>
    if p < nd k then (k.z.getD p none).getD 0 - meanOf k (p / k.nech) else 0

def col (M : Mat) (a : Nat) : List Q := (List.range M.r).map fun i => M.get i a

/-- `_estimateEstim` from the dual vector `zam = A⁻¹·zext` -/
def estimate (k : KIn) (zam : List Q) (a : Nat) : Q := dotQ (col (rhsC k) a) zam + meanOf k a

/-- `_estimateStdv`: variance before clipping, from the weights `wgt = A⁻¹·rhs` -/
def variance (k : KIn) (wgt : Mat) (a : Nat) : Q := k.C00.get a a - dotQ (col (rhsC k) a) (col wgt a)

/-- `_estimateVarZ` -/
def varZ (k : KIn) (wgt : Mat) (a : Nat) : Q :=
  let r := col (rhsC k) a
  let w := col wgt a
  let ndat := (kept k).length - nfeq k
  dotQ (r.take ndat) (w.take ndat) - dotQ (r.drop ndat) (w.drop ndat)

end GstVerif.Krig
