import GstVerif.Krig.Model
/- line protocol of the kriging model: certificate chain of C01 (also used by C02/C04/C05) -/
namespace GstVerif.Krig
open GstVerif GstVerif.LinAlg

def tolEntry : Q := pow2 (-40)
def tolSolve : Q := pow2 (-30)

def kvs (toks : List String) : List (String × String) :=
  toks.filterMap fun t => match t.splitOn "=" with | [k, v] => some (k, v) | _ => none

def look (m : List (String × String)) (k : String) : Option String := (m.find? (·.1 == k)).map (·.2)

def matOf (r c : Nat) (v : List Q) : Option Mat :=
  if v.length = r * c then some { r := r, c := c, e := chunkQ c r v } else none

def bitsOf (s : String) : List Bool := if s = "-" then [] else s.toList.map (· == '1')

/-- monomial `∏ x_d^p_d` -/
def monomial (x : List Q) (p : List Nat) : Q :=
  (List.zipWith (fun (xi : Q) (pi : Nat) => xi ^ pi) x p).foldl (· * ·) 1

/-- drift function `l` at a point: `m:<p0>.<p1>…` monomial, `e:<k>` external drift number k -/
def driftAt (spec : String) (x fext : List Q) : Option Q :=
  match spec.splitOn ":" with
  | ["m", ps] => do
      let p ← (ps.splitOn ".").mapM String.toNat?
      pure (monomial x p)
  | ["e", k] => do pure (fext.getD (← k.toNat?) 0)
  | _ => none

def firstBad (tol scale : Q) (A B : Mat) : Option (Nat × Nat) :=
  (List.range A.r).findSome? fun i => (List.range A.c).findSome? fun j =>
    if absQ (A.get i j - B.get i j) ≤ tol * scale then none else some (i, j)

def parseKIn (m : List (String × String)) : Option KIn := do
  let nvar ← (← look m "nvar").toNat?
  let nech ← (← look m "nech").toNat?
  let nbfl ← (← look m "nbfl").toNat?
  let z ← parseOQs? (← look m "z")
  let verr ← parseOQs? (← look m "verr")
  let n := nvar * nech
  let C ← matOf n n (← parseQs? (← look m "C"))
  let C0 ← matOf n nvar (← parseQs? (← look m "C0"))
  let C00 ← matOf nvar nvar (← parseQs? (← look m "C00"))
  let F ← matOf nech nbfl (← parseQs? (← look m "F"))
  let F0 ← parseQs? (← look m "F0")
  let mean ← parseQs? (← look m "mean")
  pure { nvar := nvar, nech := nech, nbfl := nbfl, z := z, verr := verr,
         coordOK := bitsOf (← look m "cok"), fextOK := bitsOf (← look m "fok"),
         C := C, C0 := C0, C00 := C00, F := F, F0 := F0, mean := mean }

/-- optional cross-check of the drift tables against exact recomputation -/
def driftCheck (m : List (String × String)) (k : KIn) : Option String := do
  let specs := (← look m "drift")
  if specs = "-" then none else
  let specs := specs.splitOn ","
  let ndim ← (← look m "ndim").toNat?
  let X ← parseQs? (← look m "X")
  let X0 ← parseQs? (← look m "X0")
  let nfex ← (← look m "nfex").toNat?
  let FE ← parseOQs? (← look m "fext")
  let FE0 ← parseOQs? (← look m "fext0")
  let bad := (List.range k.nech).findSome? fun i =>
    (List.range k.nbfl).findSome? fun l =>
      let x := (X.drop (i * ndim)).take ndim
      let fe := ((FE.drop (i * nfex)).take nfex).map (·.getD 0)
      if !(k.fextOK.getD i true && k.coordOK.getD i true) then none else
      match driftAt (specs.getD l "") x fe with
      | some v => if closeQ tolEntry v (k.F.get i l) then none else some s!"drift function {l} at sample {i}: exact={fmtRat v}"
      | none => some "unparsable drift spec"
  match bad with
  | some b => some b
  | none =>
    (List.range k.nbfl).findSome? fun l =>
      match driftAt (specs.getD l "") X0 (FE0.map (·.getD 0)) with
      | some v => if closeQ tolEntry v (k.F0.getD l 0) then none else some s!"drift function {l} at target: exact={fmtRat v}"
      | none => some "unparsable drift spec"

def handle (args : List String) (impl : List String) : String :=
  match args with
  | "krig" :: rest =>
    let m := kvs rest
    let o := kvs impl
    match parseKIn m with
    | none => "bad-op"
    | some k =>
      match driftCheck m k with
      | some msg => s!"bad stage=drift {msg}"
      | none =>
      let get := fun key => (look o key).bind parseQs?
      -- non-finite outputs: a violation unless the system is exactly singular (excluded input)
      let hasNan := o.any fun (_, v) => (v.splitOn "nan").length > 1 || (v.splitOn "inf").length > 1
      if hasNan then
        (if (lhsC k).rank < (lhsC k).r then "skip singular-system (library returned non-finite values)"
         else "bad stage=non-finite-output") else
      match (look o "nred").bind String.toNat?, get "lhs", get "rhs", get "wgt", get "zam",
            (look o "est").bind parseOQs?, (look o "std").bind parseOQs? with
      | some nred, some lhsv, some rhsv, some wgtv, some zam, some est, some std =>
        let keptL := kept k
        -- the library reported failure (undefined outputs): nothing to certify
        if est.all (·.isNone) then "skip kriging-reported-failure" else
        if nred ≠ keptL.length then s!"bad stage=flags model-nred={keptL.length} kept={fmtNats keptL}" else
        match matOf nred nred lhsv, matOf nred k.nvar rhsv, matOf nred k.nvar wgtv with
        | some lhs, some rhs, some wgt =>
          let A := lhsC k
          let B := rhsC k
          -- the property presupposes a solvable system: singular configurations are excluded exactly
          if A.rank < A.r then "skip singular-system" else
          let sc := maxQ 1 A.maxAbs
          match firstBad tolEntry sc A lhs with
          | some (i, j) => s!"bad stage=lhs entry=({i},{j}) model={fmtRat (A.get i j)} impl={fmtRat (lhs.get i j)}"
          | none =>
          match firstBad tolEntry (maxQ 1 B.maxAbs) B rhs with
          | some (i, j) => s!"bad stage=rhs entry=({i},{j}) model={fmtRat (B.get i j)} impl={fmtRat (rhs.get i j)}"
          | none =>
          -- weights solve the system the library assembled (backward-error certificate).  The library solves
          -- through the inverse matrix, whose residual grows with the condition number ("round-off proportional
          -- to the conditioning of the system"): when the base tolerance fails, the exact condition number
          -- kappa = |A| |A^-1| (infinity norms) is measured and 2^-44 kappa (about 500 units of round-off times
          -- kappa) is allowed instead
          let baseOK := (List.range k.nvar).all (fun a => checkSolve tolSolve lhs (col wgt a) (col rhs a)) &&
                        (zam.length = nred && checkSolve tolSolve lhs zam (zext k))
          let tolS : Q := if baseOK then tolSolve else
            match lhs.cond? with
            | some kappa => maxQ tolSolve (pow2 (-44) * kappa)
            | none => tolSolve
          if tolS ≥ pow2 (-8) then "skip ill-conditioned-system (condition number above 2^36)" else
          if !((List.range k.nvar).all fun a => checkSolve tolS lhs (col wgt a) (col rhs a)) then "bad stage=weights-residual"
          else if zam.length ≠ nred then "bad-op"
          else if !(checkSolve tolS lhs zam (zext k)) then "bad stage=dual-residual"
          else
            -- the outputs are scalar products: their round-off is relative to the size of the terms added
            let termsOf := fun (x y : List Q) => (List.zipWith (fun a b => absQ (a * b)) x y).sum
            let tolSolve := tolS
            let scz := maxQ 1 (vmaxAbs (k.z.map (·.getD 0)) + vmaxAbs k.mean) +
                       (List.range k.nvar).foldl (fun m a => maxQ m (termsOf (col (rhsC k) a) zam)) 0
            let badEst := (List.range k.nvar).find? fun a =>
              match est.getD a none with
              | some e => !(absQ (e - estimate k zam a) ≤ tolSolve * scz * (nred + 1 : Nat))
              | none => true
            match badEst with
            | some a => s!"bad stage=estimate var={a} model={fmtRat (estimate k zam a)}"
            | none =>
            let badStd := (List.range k.nvar).find? fun a =>
              match std.getD a none with
              | some s =>
                let v := variance k wgt a
                let scv := maxQ 1 (absQ (k.C00.get a a)) + termsOf (col (rhsC k) a) (col wgt a)
                if s < 0 then true
                else if v > tolSolve * scv then !(absQ (s * s - v) ≤ tolSolve * scv * 4)
                else !(s * s ≤ tolSolve * scv * 4)
              | none => true
            match badStd with
            | some a => s!"bad stage=stdev var={a} model-variance={fmtRat (variance k wgt a)}"
            | none =>
              match (look o "varz").bind parseOQs? with
              | some vz =>
                let badVz := (List.range k.nvar).find? fun a =>
                  match vz.getD a none with
                  | some v => !(absQ (v - varZ k wgt a) ≤ tolSolve * (maxQ 1 (absQ (k.C00.get a a)) + termsOf (col (rhsC k) a) (col wgt a)) * 4)
                  | none => true
                (match badVz with
                 | some a => s!"bad stage=varz var={a} model={fmtRat (varZ k wgt a)}"
                 | none => "ok")
              | none => "ok"
        | _, _, _ => "bad-op"
      | _, _, _, _, _, _, _ => "bad-op"
  | ["rel", "exact", z, est, sd, scale] =>
    match parseQ? z, parseQ? est, parseQ? sd, parseQ? scale with
    | some z, some e, some s, some sc =>
      if !(absQ (e - z) ≤ pow2 (-20) * sc) then s!"bad relation=exact estimate differs from datum by {fmtRat (e - z)}"
      else if !(0 ≤ s ∧ s * s ≤ pow2 (-20) * sc) then s!"bad relation=exact stdev={fmtRat s}"
      else "ok"
    | _, _, _, _ => "bad-op"
  | ["rel", "stdev", sd, c00, sk] =>
    match parseQ? sd, parseQ? c00 with
    | some s, some c =>
      if s < 0 then "bad relation=stdev negative"
      else if sk = "1" ∧ !(s * s ≤ c * (1 + pow2 (-30)) + pow2 (-40)) then s!"bad relation=sk-bound stdev^2={fmtRat (s*s)} c00={fmtRat c}"
      else "ok"
    | _, _ => (if sd = "nan" ∨ sd = "+inf" ∨ sd = "-inf" ∨ sd = "NA" then "bad relation=stdev not finite" else "bad-op")
  | ["rel", "wsum", w, target] =>
    match parseQs? w, target.toInt? with
    | some w, some t => if absQ (w.sum - t) ≤ pow2 (-24) * (1 + vmaxAbs w * w.length) then "ok" else s!"bad relation=unbiased sum={fmtRat w.sum}"
    | _, _ => "bad-op"
  -- two code paths of the library on the same input (C04, C05, C10): answers must agree
  | ["crash", what, how] => s!"bad pair={what} the operation ended abnormally ({how})"
  | ["pair", what, e1, e2, s1, s2, scale] =>
    match parseQs? e1, parseQs? e2, parseQs? s1, parseQs? s2, parseQ? scale with
    | some e1, some e2, some s1, some s2, some sc0 =>
      let sc := maxQ sc0 (maxQ (vmaxAbs e1) (vmaxAbs e2))
      let sv := maxQ (sc0 * sc0) (maxQ (vmaxAbs (s1.map fun x => x * x)) (vmaxAbs (s2.map fun x => x * x)))
      if e1.length != e2.length then s!"bad pair={what} answers of different sizes ({e1.length} vs {e2.length})"
      else if !(vclose (pow2 (-20) * sc) e1 e2) then
        let i := ((List.range e1.length).find? fun i => absQ (e1.getD i 0 - e2.getD i 0) > pow2 (-20) * sc).getD 0
        s!"bad pair={what} values differ at {i}: {fmtRat (e1.getD i 0)} vs {fmtRat (e2.getD i 0)}"
      else if !(vclose (pow2 (-20) * sv) (s1.map fun x => x * x) (s2.map fun x => x * x)) then
        let i := ((List.range s1.length).find? fun i => absQ (s1.getD i 0 * s1.getD i 0 - s2.getD i 0 * s2.getD i 0) > pow2 (-20) * sv).getD 0
        s!"bad pair={what} standard deviations differ at {i}: {fmtRat (s1.getD i 0)} vs {fmtRat (s2.getD i 0)}"
      else "ok"
    | _, _, _, _, _ => "bad-op"
  | ["rel", "same", e1, e2, s1, s2, scale] =>
    match parseQs? e1, parseQs? e2, parseQs? s1, parseQs? s2, parseQ? scale with
    | some e1, some e2, some s1, some s2, some sc0 =>
      -- extrapolating systems amplify the data scale: the tolerance follows the estimates as well
      let sc := maxQ sc0 (maxQ (vmaxAbs e1) (vmaxAbs e2))
      if !(vclose (pow2 (-20) * sc) e1 e2) then "bad relation=invariance estimates differ"
      else if !(vclose (pow2 (-20) * sc) (s1.map fun x => x * x) (s2.map fun x => x * x)) then "bad relation=invariance variances differ"
      else "ok"
    | _, _, _, _, _ => "bad-op"
  | ["rel", "shift", e1, e2, d, s1, s2, scale] =>
    match parseQs? e1, parseQs? e2, parseQs? d, parseQs? s1, parseQs? s2, parseQ? scale with
    | some e1, some e2, some d, some s1, some s2, some sc0 =>
      let sc := maxQ sc0 (maxQ (vmaxAbs e1) (vmaxAbs e2))
      if !(vclose (pow2 (-20) * sc) (List.zipWith (· + ·) e1 d) e2) then "bad relation=drift-shift estimates"
      else if !(vclose (pow2 (-20) * sc) (s1.map fun x => x * x) (s2.map fun x => x * x)) then "bad relation=drift-shift variances"
      else "ok"
    | _, _, _, _, _, _ => "bad-op"
  | ["rel", "linear", e1, e2, e3, a, b, scale] =>
    match parseQs? e1, parseQs? e2, parseQs? e3, parseQ? a, parseQ? b, parseQ? scale with
    | some e1, some e2, some e3, some a, some b, some sc0 =>
      let sc := maxQ sc0 (maxQ (maxQ (vmaxAbs e1) (vmaxAbs e2)) (vmaxAbs e3))
      if vclose (pow2 (-20) * sc) (List.zipWith (fun x y => a * x + b * y) e1 e2) e3 then "ok" else "bad relation=linearity"
    | _, _, _, _, _, _ => "bad-op"
  | _ => "bad-op"

end GstVerif.Krig
