import GstVerif.Basic.Proto
/-
  Model of the lazily evaluated calculators (KrigingCalcul, optimised covariance pre-processing,
  neighbourhood memo): inputs are set one by one, derived quantities are computed on demand and
  kept until one of the inputs they depend on changes (`resetLinkedTo…`).  Property C10: an object
  updated incrementally answers as a freshly built one with the same final content.
-/
namespace GstVerif.Memo

/-- two inputs (think LHS and RHS) and two cached results: `fa` depends on `a` only (e.g. the
inverse of the LHS), `fab` on both (e.g. the weights) -/
structure Obj (A B RA RAB : Type) where
  a : A
  b : B
  ca : Option RA
  cab : Option RAB

variable {A B RA RAB : Type} (fa : A → RA) (fab : RA → B → RAB)

inductive Op (A B : Type) where
  | setA (x : A)
  | setB (y : B)
  | getA
  | getAB

/-- `setA` invalidates both caches, `setB` only the second; getters fill the caches -/
def step (o : Obj A B RA RAB) : Op A B → Obj A B RA RAB
  | .setA x => { o with a := x, ca := none, cab := none }
  | .setB y => { o with b := y, cab := none }
  | .getA => { o with ca := some (o.ca.getD (fa o.a)) }
  | .getAB =>
    let ra := o.ca.getD (fa o.a)
    { o with ca := some ra, cab := some (o.cab.getD (fab ra o.b)) }

def answerAB (o : Obj A B RA RAB) : RAB := o.cab.getD (fab (o.ca.getD (fa o.a)) o.b)

/-- a buggy variant: changing `a` forgets to invalidate the result depending on both -/
def stepBuggy (o : Obj A B RA RAB) : Op A B → Obj A B RA RAB
  | .setA x => { o with a := x, ca := none }
  | op => step fa fab o op

end GstVerif.Memo
