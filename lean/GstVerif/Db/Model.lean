import GstVerif.Basic.Proto
/-
  Model of the `Db` table (src/Db/Db.cpp, PtrGeos.cpp, String.cpp name helpers) — property C07.

  State = three parallel lists indexed by column (`uids`, `names`, `cols`), the role table `loc`
  (per locator type, the ordered list of uids: position k ↔ role number k+1) and `nextUid`
  (`_uidcol.size()`).  `_uidcol[u] = c` of the C++ is `uids.idxOf u = c`; a deleted uid is absent.
  Values are `Option ℚ` (`none` = TEST).  Integers are `Int` as in the C++ (`int` arguments may be
  negative / out of range: the model rejects what the code rejects).
-/
namespace GstVerif.Db

abbrev Val := Option Q
def NLOC : Nat := 29      -- number of locator types (ELoc without UNKNOWN)
def SEL : Nat := 10       -- ELoc::SEL

structure State where
  grid    : Bool                 -- DbGrid: `mayChangeSampleNumber() = false`
  nech    : Nat
  nextUid : Nat
  uids    : List Nat
  names   : List String
  cols    : List (List Val)
  loc     : List (List Nat)      -- length NLOC
deriving Repr, BEq

def ncol (s : State) : Nat := s.uids.length

/-! ### designations -/

def idxOf? {α} [BEq α] (a : α) : List α → Option Nat
  | [] => none
  | x :: xs => if x == a then some 0 else (idxOf? a xs).map (· + 1)

/-- `isUIDValid`: `0 ≤ iuid < _uidcol.size()` (a deleted uid is still "valid") -/
def uidValid (s : State) (u : Int) : Bool := 0 ≤ u && u < s.nextUid
def colValid (s : State) (c : Int) : Bool := 0 ≤ c && c < (ncol s : Int)

/-- `getColIdxByUID` (−1 for invalid or deleted) -/
def colOfUid (s : State) (u : Int) : Int :=
  if uidValid s u then (match idxOf? u.toNat s.uids with | some c => c | none => -1) else -1

/-- `getUIDByColIdx` -/
def uidOfCol (s : State) (c : Int) : Int :=
  if colValid s c then (match s.uids[c.toNat]? with | some u => u | none => -1) else -1

/-- `std::regex_match(name, regex(pattern))` restricted to the name grammar of the harness
(lower-case letters, digits, `-` and `.`): the only special character is `.` = any character.
Names are *patterns* in every by-name access of the library. -/
def dotMatch : List Char → List Char → Bool
  | [], [] => true
  | p :: ps, c :: cs => (p == '.' || p == c) && dotMatch ps cs
  | _, _ => false

def nameMatch (pat name : String) : Bool := dotMatch pat.toList name.toList

def dedupS : List String → List String
  | [] => []
  | x :: xs => x :: (dedupS xs).filter (· != x)

/-- `expandNameList(pattern)`: the distinct column names matching the pattern, in column order -/
def expand (s : State) (pat : String) : List String := dedupS (s.names.filter (nameMatch pat))

/-- `getRankInList(_colNames, name)`: first column whose name matches `name` taken as a pattern -/
def firstMatchCol (s : State) (n : String) : Int :=
  match s.names.findIdx? (nameMatch n) with | some c => c | none => -1

/-- `getColIdx(name)` -/
def colOfName (s : State) (n : String) : Int :=
  match expand s n with | [] => -1 | e :: _ => firstMatchCol s e

/-- `_ids(name, false)` = `_getUIDsBasic(expandNameList(name))` -/
def idsOfName (s : State) (n : String) : List Int :=
  let ids := (expand s n).map (fun e => uidOfCol s (firstMatchCol s e))
  if ids.any (· < 0) then [] else ids

/-- `_ids(name, true)` / `getUID(name)`: exactly one match required -/
def uidOfName (s : State) (n : String) : Int :=
  match idsOfName s n with | [u] => u | _ => -1

def locList (s : State) (t : Nat) : List Nat := s.loc.getD t []

/-- `getLocatorByColIdx`: scan role types in enum order, first hit -/
def locOfColGo (s : State) (c : Int) : Nat → List (List Nat) → Option (Nat × Nat)
  | _, [] => none
  | t, l :: ls =>
    match idxOf? c (l.map (fun (u : Nat) => colOfUid s (u : Int))) with
    | some i => some (t, i)
    | none => locOfColGo s c (t + 1) ls

def locOfCol (s : State) (c : Int) : Option (Nat × Nat) := locOfColGo s c 0 s.loc

/-! ### name helpers (String.cpp) -/

def incr (n : String) (k : Nat := 1) : String := n ++ "." ++ toString k

/-- `correctNewNameForDuplicates(list, rank)`: rename `list[rank]` until unique -/
def fixNewName : Nat → List String → Nat → Option (List String)
  | 0, _, _ => none
  | fuel+1, l, rank =>
    match l[rank]? with
    | none => some l
    | some n =>
      if ((l.eraseIdx rank).contains n) then fixNewName fuel (l.set rank (incr n)) rank else some l

/-- inner `label_try` loop of `correctNamesForDuplicates` for position `i` given the (already
corrected) earlier names -/
def fixOne : Nat → List String → String → Option String
  | 0, _, _ => none
  | fuel+1, prev, n => if prev.contains n then fixOne fuel prev (incr n) else some n

/-- `correctNamesForDuplicates(list)`: left to right, each name renamed until it differs from all
previous ones.  `acc` holds the corrected prefix in reverse order. -/
def fixNamesGo : List String → List String → Option (List String)
  | acc, [] => some acc.reverse
  | acc, n :: rest =>
    match fixOne (acc.length + 1) acc n with
    | none => none
    | some n' => fixNamesGo (n' :: acc) rest

def fixNames (l : List String) : Option (List String) := fixNamesGo [] l

/-! ### role table helpers (PtrGeos) -/

/-- `findUIDInLocator` + `erase`: remove the first occurrence -/
def eraseFirst (u : Nat) (l : List Nat) : List Nat := l.erase u

/-- `p.resize(k+1)` (pads with uid 0) then `p[k] = u` -/
def setAt (l : List Nat) (k : Nat) (u : Nat) : List Nat :=
  let l' := if k < l.length then l else l ++ List.replicate (k + 1 - l.length) 0
  l'.set k u

def modifyLoc (loc : List (List Nat)) (t : Nat) (f : List Nat → List Nat) : List (List Nat) :=
  loc.modify t f

/-- `setLocatorByUID(iuid, locatorType, locatorIndex, cleanSameLocator)`;
`lt = -1` is `ELoc::UNKNOWN` -/
def setLocatorByUID (s : State) (u : Int) (lt : Int) (li : Int) (clean : Bool) : State :=
  if !(uidValid s u) || colOfUid s u < 0 then s else
  let loc0 := if clean && 0 ≤ lt then modifyLoc s.loc lt.toNat (fun _ => []) else s.loc
  let loc1 := loc0.map (eraseFirst u.toNat)
  let li' : Int := if li < 0 then (if 0 ≤ lt then ((loc1.getD lt.toNat []).length : Int) else 0) else li
  if lt < 0 then { s with loc := loc1 } else
  { s with loc := modifyLoc loc1 lt.toNat (fun l => setAt l li'.toNat u.toNat) }

/-- loop `for i: setLocatorByUID(iuids[i], t, auto ? -1 : li + i)` -/
def setLocatorsGo (s : State) (lt : Int) (auto : Bool) : Int → List Int → State
  | _, [] => s
  | li, u :: us => setLocatorsGo (setLocatorByUID s u lt (if auto then -1 else li) false) lt auto (li + 1) us

def setLocatorsByUIDs (s : State) (us : List Int) (lt li : Int) (clean : Bool) : State :=
  let s0 := if clean && 0 ≤ lt then { s with loc := modifyLoc s.loc lt.toNat (fun _ => []) } else s
  setLocatorsGo s0 lt (li < 0) li us

/-! ### editing operations -/

inductive Op where
  | addc (nadd : Int) (val : Val) (radix : String) (lt li : Int) (nechInit : Int)
  | delUid (u : Int) | delCol (c : Int) | delName (n : String) | delLoc (t : Nat)
  | nameUid (u : Int) (n : String) | nameCol (c : Int) (n : String)
  | nameName (old new : String) | nameLoc (t : Nat) (n : String)
  | locUid (u lt li : Int) (clean : Bool) | locCol (c lt li : Int) (clean : Bool)
  | locName (n : String) (lt li : Int) (clean : Bool)
  | locsUid (us : List Int) (lt li : Int) (clean : Bool)
  | locsCol (cs : List Int) (lt li : Int) (clean : Bool)
  | clearLoc (t : Nat) | switchLoc (tin tout : Nat)
  | addSamples (nadd : Int) (val : Val) | delSample (i : Int)
  | setArray (iech u : Int) (val : Val)
  | setRow (iech : Int) (vals : List Val)     -- setArrayBySample: one value per column, in column order
  | getRow (iech : Int) (seen : List Val)     -- getArrayBySample: reads only (`seen` = what the caller read)
deriving Repr

/-- `deleteColumnByUID` -/
def deleteByUid (s : State) (u : Int) : State :=
  if !(uidValid s u) then s else
  match idxOf? u.toNat s.uids with
  | none => s
  | some c =>
    { s with uids := s.uids.eraseIdx c, names := s.names.eraseIdx c, cols := s.cols.eraseIdx c,
             loc := s.loc.map (eraseFirst u.toNat) }

def multipleNames (radix : String) (n : Nat) : List String :=
  (List.range n).map (fun i => radix ++ "-" ++ toString (i + 1))   -- `generateMultipleNames`: delimiter "-"

/-- rename the columns `cs[i]` to `name.(i+1)` (`setName(list)`, `setNameByLocator`), then
`correctNamesForDuplicates` -/
def renameSeq (names : List String) (name : String) : Nat → List Int → List String
  | _, [] => names
  | i, c :: cs =>
    let names' := if 0 ≤ c ∧ c.toNat < names.length then names.set c.toNat (incr name (i + 1)) else names
    renameSeq names' name (i + 1) cs

def step (s : State) : Op → Option State
  | .addc nadd val radix lt li nechInit =>
    if nadd ≤ 0 then some s else
    let n := nadd.toNat
    -- `if (_nech <= 0) _nech = nechInit`: existing (empty) columns are resized and zero-filled
    let s := if s.nech = 0 then { s with nech := nechInit.toNat,
                                         cols := s.cols.map (fun _ => List.replicate nechInit.toNat (some 0)) } else s
    let newNames := if n = 1 then [radix] else multipleNames radix n
    match fixNames (s.names ++ newNames) with
    | none => none
    | some names' =>
      let newUids := (List.range n).map (· + s.nextUid)
      let s1 : State := { s with nextUid := s.nextUid + n, uids := s.uids ++ newUids, names := names',
                                 cols := s.cols ++ List.replicate n (List.replicate s.nech val) }
      if lt < 0 then some s1
      else some (setLocatorsByUIDs s1 (newUids.map (fun (u : Nat) => (u : Int))) lt li false)
  | .delUid u => some (deleteByUid s u)
  | .delCol c =>
    -- `deleteColumnByColIdx`: goes through `_ids(_colNames[icol], true)` (exactly one match required)
    if !(colValid s c) then some s else
    let u := uidOfName s (s.names.getD c.toNat "")
    if u < 0 then some s else some (deleteByUid s u)
  | .delName n => some ((idsOfName s n).foldl deleteByUid s)
  | .delLoc t =>
    -- downward loop over the role list (which shrinks as columns are deleted)
    some ((locList s t).reverse.foldl (fun st (u : Nat) => deleteByUid st (u : Int)) s)
  | .nameUid u n =>
    let c := colOfUid s u
    if c < 0 then some s else
    (fixNewName (s.names.length + 2) (s.names.set c.toNat n) c.toNat).map fun l => { s with names := l }
  | .nameCol c n =>
    if !(colValid s c) then some s else
    (fixNewName (s.names.length + 2) (s.names.set c.toNat n) c.toNat).map fun l => { s with names := l }
  | .nameName old new =>
    let c := colOfName s old
    if c < 0 then some s else
    (fixNewName (s.names.length + 2) (s.names.set c.toNat new) c.toNat).map fun l => { s with names := l }
  | .nameLoc t n =>
    let cs := (locList s t).map (fun (u : Nat) => colOfUid s (u : Int))
    if cs.isEmpty then some s else
    (fixNames (renameSeq s.names n 0 cs)).map fun l => { s with names := l }
  | .locUid u lt li clean => some (setLocatorByUID s u lt li clean)
  | .locCol c lt li clean =>
    if colValid s c then some (setLocatorByUID s (uidOfCol s c) lt li clean) else some s
  | .locName n lt li clean =>
    let us := idsOfName s n
    if us.isEmpty then some s else some (setLocatorsByUIDs s us lt li clean)
  | .locsUid us lt li clean => some (setLocatorsByUIDs s us lt li clean)
  | .locsCol cs lt li clean => some (setLocatorsByUIDs s (cs.map (uidOfCol s)) lt li clean)
  | .clearLoc t => some { s with loc := modifyLoc s.loc t (fun _ => []) }
  | .switchLoc tin tout =>
    if tin = tout then some s else
    let lin := locList s tin
    let lout := locList s tout
    let loc1 := modifyLoc s.loc tout (fun _ => lout ++ lin)
    some { s with loc := modifyLoc loc1 tin (fun _ => []) }
  | .addSamples nadd val =>
    if s.grid || nadd ≤ 0 then some s else
    some { s with nech := s.nech + nadd.toNat,
                  cols := s.cols.map (fun c => c ++ List.replicate nadd.toNat val) }
  | .delSample i =>
    if s.grid || !(0 ≤ i && i < (s.nech : Int)) then some s else
    some { s with nech := s.nech - 1, cols := s.cols.map (fun c => c.eraseIdx i.toNat) }
  | .setArray iech u val =>
    -- `setArray`: checks the sample index and the column of the uid
    let c := colOfUid s u
    if !(0 ≤ iech && iech < (s.nech : Int)) || c < 0 then some s else
    some { s with cols := s.cols.modify c.toNat (fun col => col.set iech.toNat val) }
  | .setRow iech vals =>
    -- `setArrayBySample`: the live uids in increasing order are the columns in order; sizes must match
    if vals.length ≠ ncol s || !(0 ≤ iech && iech < (s.nech : Int)) then some s else
    some { s with cols := (s.cols.zip vals).map (fun (cv : List Val × Val) => cv.1.set iech.toNat cv.2) }
  | .getRow _ _ => some s

/-- `getArrayBySample`: the value of every column at one sample, in column order (undefined when the
sample does not exist) -/
def readRow (s : State) (iech : Int) : List Val :=
  if 0 ≤ iech && iech < (s.nech : Int) then s.cols.map (fun col => (col[iech.toNat]?).getD none)
  else s.cols.map (fun _ => none)

/-- the cells `(column, sample)` a value assignment is entitled to change, with the value each must
hold afterwards (`none` for operations that are not value assignments) -/
def written (s : State) : Op → Option (List ((Nat × Nat) × Val))
  | .setArray iech u val =>
    if 0 ≤ iech && iech < (s.nech : Int) then
      let c := colOfUid s u
      if c < 0 then some [] else some [((c.toNat, iech.toNat), val)]
    else some []
  | .setRow iech vals =>
    if vals.length = ncol s && 0 ≤ iech && iech < (s.nech : Int) then
      some ((List.range vals.length).zip vals |>.map fun (cv : Nat × Val) => ((cv.1, iech.toNat), cv.2))
    else some []
  | .getRow _ _ => some []
  | _ => none

/-- "untouched cells keep their values, the written ones hold what was written": compares two tables of
the same shape cell by cell against the list of `written` -/
def frameOk (before after : State) (w : List ((Nat × Nat) × Val)) : Bool :=
  before.cols.length == after.cols.length &&
  (List.range before.cols.length).all fun c =>
    let b := before.cols.getD c []
    let a := after.cols.getD c []
    b.length == a.length &&
    (List.range b.length).all fun i =>
      match w.find? (fun e => e.1 == (c, i)) with
      | some e => a.getD i none == e.2
      | none => a.getD i none == b.getD i none

/-! ### the consistency invariant (decidable) -/

def allLt (n : Nat) (l : List Nat) : Bool := l.all (· < n)

def nodupB {α} [BEq α] : List α → Bool
  | [] => true
  | x :: xs => !(xs.contains x) && nodupB xs

/-- I1 uids distinct and below `nextUid`; I2 names distinct, one per column; I3 rectangular;
I4 every role entry is a live uid and no uid occurs twice among all roles (no phantom entry, no
column with two roles; role numbers are the list positions, hence consecutive from 1) -/
def inv (s : State) : Bool :=
  nodupB s.uids && allLt s.nextUid s.uids &&
  (s.names.length == s.uids.length) && nodupB s.names &&
  (s.cols.length == s.uids.length) && s.cols.all (fun c => c.length == s.nech) &&
  (s.loc.length == NLOC) && s.loc.flatten.all (fun u => s.uids.contains u) && nodupB s.loc.flatten

def invFailure (s : State) : String :=
  if !(nodupB s.uids && allLt s.nextUid s.uids) then "I1-uid-map"
  else if !((s.names.length == s.uids.length) && nodupB s.names) then "I2-names"
  else if !((s.cols.length == s.uids.length) && s.cols.all (fun c => c.length == s.nech)) then "I3-shape"
  else if !(s.loc.flatten.all (fun u => s.uids.contains u)) then "I4-phantom-role"
  else if !(nodupB s.loc.flatten) then "I4-two-roles"
  else if !(s.loc.length == NLOC) then "I4-table"
  else "ok"

/-- number of active samples (`isActive`): selection column = first SEL role, value ≠ 0 and defined -/
def activeCount (s : State) : Nat :=
  match (locList s SEL).head? with
  | none => s.nech
  | some u =>
    match idxOf? u s.uids with
    | none => 0
    | some c => ((s.cols.getD c []).filter (fun v => match v with | some q => q != 0 | none => false)).length

end GstVerif.Db
