import GstVerif.Db.Model
/-
  Line protocol of the Db model (property C07).  One line = one history:

    d hist <grid 0/1> <obs0> ; <op1> | <obs1> ; <op2> | <obs2> ; … =>

  (everything is on the request side: the observations are the implementation's.)
  obs := N=<ncol> E=<nech> U=<uidmax> names=a,b uids=0,1 loc=<t>:<u>,<u>/<t>:… vals=<col>/<col>… act=<n>
         cu=<col of uid 0..U-1> bycol=<t>:<i>,… idx=<col of each name> def=<isUIDDefined 0..U-1 as bits>
-/
namespace GstVerif.Db
open GstVerif

structure Obs where
  ncol : Nat
  nech : Nat
  umax : Nat
  names : List String
  uids : List Int
  loc : List (Nat × List Int)
  vals : List (List Val)
  act : Nat
  cu : List Int
  bycol : List (Option (Nat × Nat))
  idx : List Int
  defd : String

def kv (tok : String) : Option (String × String) :=
  match tok.splitOn "=" with
  | [k, v] => some (k, v)
  | _ => none

def parseLocTab (s : String) : Option (List (Nat × List Int)) :=
  if s = "-" then some [] else
  (s.splitOn "/").mapM fun e =>
    match e.splitOn ":" with
    | [t, us] => do pure ((← t.toNat?), (← parseInts? us))
    | _ => none

def parseByCol (s : String) : Option (List (Option (Nat × Nat))) :=
  if s = "-" then some [] else
  (s.splitOn ",").mapM fun e =>
    if e = "_" then some none else
    match e.splitOn ":" with
    | [t, i] => do pure (some ((← t.toNat?), (← i.toNat?)))
    | _ => none

def parseVals (s : String) : Option (List (List Val)) :=
  if s = "-" then some [] else
  (s.splitOn "/").mapM fun c => if c = "~" then some [] else parseOQs? c

def parseNames (s : String) : List String := if s = "-" then [] else s.splitOn ","

def parseObs (toks : List String) : Option Obs := do
  let m ← toks.mapM kv
  let get := fun k => (m.find? (·.1 == k)).map (·.2)
  pure {
    ncol := (← (← get "N").toNat?), nech := (← (← get "E").toNat?), umax := (← (← get "U").toNat?),
    names := parseNames (← get "names"), uids := (← parseInts? (← get "uids")),
    loc := (← parseLocTab (← get "loc")), vals := (← parseVals (← get "vals")),
    act := (← (← get "act").toNat?), cu := (← parseInts? (← get "cu")),
    bycol := (← parseByCol (← get "bycol")), idx := (← parseInts? (← get "idx")),
    defd := (let d := (← get "def"); if d = "-" then "" else d) }

/-- decode an observed state (used for the initial state and for the direct `inv` oracle) -/
def stateOfObs (grid : Bool) (o : Obs) : State :=
  let loc := (List.range NLOC).map fun t =>
    match o.loc.find? (·.1 == t) with
    | some (_, us) => us.map Int.toNat
    | none => []
  { grid := grid, nech := o.nech, nextUid := o.umax, uids := o.uids.map Int.toNat,
    names := o.names, cols := o.vals, loc := loc }

/-- consistency of the *designations* reported by the implementation with the content it reports:
every way of naming a column leads to the same column (I5 of DESIGN.md) -/
def designationsOk (s : State) (o : Obs) : Bool :=
  o.ncol == s.uids.length && o.nech == s.nech &&
  o.cu == (List.range s.nextUid).map (fun (u : Nat) => colOfUid s (u : Int)) &&
  o.bycol == (List.range (ncol s)).map (fun (c : Nat) => locOfCol s (c : Int)) &&
  o.act == activeCount s &&
  o.defd == String.ofList ((List.range s.nextUid).map fun (u : Nat) => if colOfUid s (u : Int) ≥ 0 then '1' else '0')

/-- the name of column `c` must designate column `c` -/
def namesDesignateOk (s : State) (o : Obs) : Bool :=
  o.idx == (List.range (ncol s)).map (fun (c : Nat) => (c : Int))

def parseLt (s : String) : Option Int := s.toInt?
def pb (s : String) : Option Bool := if s = "1" then some true else if s = "0" then some false else none

def parseOp : List String → Option Op
  | ["addc", n, v, radix, lt, li, ni] => do pure (.addc (← n.toInt?) (← parseOQ? v) radix (← lt.toInt?) (← li.toInt?) (← ni.toInt?))
  | ["delUid", u] => do pure (.delUid (← u.toInt?))
  | ["delCol", c] => do pure (.delCol (← c.toInt?))
  | ["delName", n] => some (.delName n)
  | ["delLoc", t] => do pure (.delLoc (← t.toNat?))
  | ["nameUid", u, n] => do pure (.nameUid (← u.toInt?) n)
  | ["nameCol", c, n] => do pure (.nameCol (← c.toInt?) n)
  | ["nameName", o, n] => some (.nameName o n)
  | ["nameLoc", t, n] => do pure (.nameLoc (← t.toNat?) n)
  | ["locUid", u, lt, li, c] => do pure (.locUid (← u.toInt?) (← lt.toInt?) (← li.toInt?) (← pb c))
  | ["locCol", u, lt, li, c] => do pure (.locCol (← u.toInt?) (← lt.toInt?) (← li.toInt?) (← pb c))
  | ["locName", n, lt, li, c] => do pure (.locName n (← lt.toInt?) (← li.toInt?) (← pb c))
  | ["locsUid", us, lt, li, c] => do pure (.locsUid (← parseInts? us) (← lt.toInt?) (← li.toInt?) (← pb c))
  | ["locsCol", us, lt, li, c] => do pure (.locsCol (← parseInts? us) (← lt.toInt?) (← li.toInt?) (← pb c))
  | ["clearLoc", t] => do pure (.clearLoc (← t.toNat?))
  | ["switchLoc", a, b] => do pure (.switchLoc (← a.toNat?) (← b.toNat?))
  | ["addSamples", n, v] => do pure (.addSamples (← n.toInt?) (← parseOQ? v))
  | ["delSample", i] => do pure (.delSample (← i.toInt?))
  | ["setArray", i, u, v] => do pure (.setArray (← i.toInt?) (← u.toInt?) (← parseOQ? v))
  | ["setRow", i, vs] => do pure (.setRow (← i.toInt?) (← parseOQs? vs))
  | ["getRow", i, vs] => do pure (.getRow (← i.toInt?) (← parseOQs? vs))
  | _ => none

def splitOnTok (sep : String) (toks : List String) : List (List String) :=
  let rec go (cur : List String) (acc : List (List String)) : List String → List (List String)
    | [] => (cur.reverse :: acc).reverse
    | t :: ts => if t = sep then go [] (cur.reverse :: acc) ts else go (t :: cur) acc ts
  go [] [] toks

def rowOf (s : State) : Op → List Val
  | .getRow i _ => readRow s i
  | _ => []

def sameState (a b : State) : Bool :=
  a.nech == b.nech && a.nextUid == b.nextUid && a.uids == b.uids && a.names == b.names &&
  a.cols == b.cols && a.loc == b.loc

def describe (s : State) : String :=
  s!"N={ncol s} E={s.nech} U={s.nextUid} names={",".intercalate s.names} uids={fmtNats s.uids} loc={s.loc.map fmtNats}"

/-- replay the history on the model; compare after every operation; evaluate the invariant and the
designation checks on the implementation's own state (direct oracle) -/
def runHistory (grid : Bool) (s0 : State) : Nat → List (List String) → String
  | k, [] => s!"ok steps={k}"
  | k, seg :: rest =>
    match splitOnTok "|" seg with
    | [opToks, obsToks] =>
      match parseOp opToks, parseObs obsToks with
      | some op, some o =>
        let si := stateOfObs grid o
        let opText := " ".intercalate opToks
        match step s0 op with
        | none => s!"bad-op model-diverges step={k + 1}"
        | some sm =>
          -- direct oracle on the implementation's state
          if !(inv si) then
            -- the model reproduces the padding of `PtrGeos::resize(k+1, 0)` for an explicit role
            -- number beyond the current count: tagged so that exactly this cause can be recognised
            let cause := if sameState sm si && (opText.startsWith "loc" || opText.startsWith "addc")
                         then " cause=explicit-role-number-beyond-count" else ""
            s!"bad step={k + 1} op={opText} inv={invFailure si}{cause}"
          else if !(designationsOk si o) then s!"bad step={k + 1} op={opText} inv=I5-designations"
          else if !(namesDesignateOk si o) then
            -- names are regular expressions in every by-name access: `a.1` also designates `a-1`
            let cause := if o.idx == si.names.map (colOfName si) then " cause=name-taken-as-regular-expression" else ""
            s!"bad step={k + 1} op={opText} inv=I5-name-designates-another-column{cause}"
          else if (match written s0 op with | some w => !(frameOk s0 si w) | none => false) then
            -- direct oracle on two successive implementation states (`s0` was checked equal to the previous one)
            s!"bad step={k + 1} op={opText} inv=I6-untouched-cells-or-written-value"
          else if (match op with | .getRow i seen => readRow s0 i != seen | _ => false) then
            s!"diff step={k + 1} op={opText} model-row: {(rowOf s0 op).map fun (v : Val) => (v.map fmtRat).getD "NA"}"
          else if sameState sm si then runHistory grid sm (k + 1) rest
          else s!"diff step={k + 1} op={opText} model: {describe sm}"
      | _, _ => "bad-op"
    | _ => "bad-op"

def handle (args : List String) (_impl : List String) : String :=
  match args with
  | "hist" :: g :: rest =>
    match splitOnTok ";" rest with
    | obs0 :: segs =>
      match parseObs obs0, pb g with
      | some o, some grid =>
        let s0 := stateOfObs grid o
        if !(inv s0) then s!"bad step=0 inv={invFailure s0}"
        else if !(designationsOk s0 o) then "bad step=0 inv=I5-designations"
        else runHistory grid s0 0 segs
      | _, _ => "bad-op"
    | _ => "bad-op"
  | _ => "bad-op"

end GstVerif.Db
