import GstVerif.LinAlg.Mat
/-
  Barycentric weights of a point in a simplex (projection of points on a mesh, src/Mesh/AMesh.cpp
  `_weightsInMesh`, src/LinearOp/ProjMatrix.cpp) — property C15.  Weights are ratios of signed
  volumes (Cramer's rule).
-/
namespace GstVerif.Mesh
open GstVerif

/-- 1-D segment `[a, b]` -/
def w1 (a b x : Q) : Q × Q := ((b - x) / (b - a), (x - a) / (b - a))

/-- twice the signed area of the triangle `(p, q, r)` -/
def area2 (px py qx qy rx ry : Q) : Q := (qx - px) * (ry - py) - (rx - px) * (qy - py)

/-- 2-D triangle `(a, b, c)`: weights of the three apices at `(x, y)` -/
def w2 (ax ay bx b_y cx cy x y : Q) : Q × Q × Q :=
  let d := area2 ax ay bx b_y cx cy
  (area2 x y bx b_y cx cy / d, area2 ax ay x y cx cy / d, area2 ax ay bx b_y x y / d)

/-! ### precision operator of the SPDE approach: `Q = Λ p(S) Λ`

`PrecisionOpCs::_build_Q` assembles the sparse matrix `Σ_k b_k S^k` by repeated products and scales
it on both sides by `Λ`; `PrecisionOp::_addEvalPower` applies `Λ`, then the polynomial by Horner's
scheme on vectors (`ClassicalPolynomial::evalOp`), then `Λ` again. -/
open GstVerif.LinAlg

/-- `Σ_k b_k S^k` (coefficients by increasing degree), by Horner's scheme on matrices -/
def polyMat (n : Nat) (S : Mat) : List Q → Mat
  | [] => Mat.ofFn n n fun _ _ => 0
  | b :: bs => Mat.lin b (Mat.id n) 1 (S.mul (polyMat n S bs))

/-- Horner's scheme on a vector: `p(S) v` without forming any power of `S` -/
def hornerVec (n : Nat) (S : Mat) : List Q → List Q → List Q
  | [], _ => List.replicate n 0
  | b :: bs, v => List.zipWith (· + ·) (v.map (b * ·)) (S.mulVec (hornerVec n S bs v))

/-- explicit form of the precision matrix -/
def precisionExplicit (n : Nat) (S : Mat) (lam b : List Q) : Mat :=
  ((Mat.diag lam).mul (polyMat n S b)).mul (Mat.diag lam)

/-- matrix-free form applied to a vector -/
def precisionFree (n : Nat) (S : Mat) (lam b v : List Q) : List Q :=
  List.zipWith (· * ·) lam (hornerVec n S b (List.zipWith (· * ·) lam v))

end GstVerif.Mesh
