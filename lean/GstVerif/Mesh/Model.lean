import GstVerif.Basic.Proto
/-
  Barycentric weights of a point in a simplex (projection of points on a mesh, src/Mesh/AMesh.cpp
  `_weightsInMesh`, src/LinearOp/ProjMatrix.cpp) — property C15.  Weights are ratios of signed
  volumes (Cramer's rule).
-/
namespace GstVerif.Mesh
open GstVerif

/-- 1-D segment `[a, b]` -/
def w1 (a b x : Q) : Q × Q := ((b - x) / (b - a), (x - a) / (b - a))

/-- twice the signed area of the triangle `(p, q, r)` -/
def area2 (px py qx qy rx ry : Q) : Q := (qx - px) * (ry - py) - (rx - px) * (qy - py)

/-- 2-D triangle `(a, b, c)`: weights of the three apices at `(x, y)` -/
def w2 (ax ay bx b_y cx cy x y : Q) : Q × Q × Q :=
  let d := area2 ax ay bx b_y cx cy
  (area2 x y bx b_y cx cy / d, area2 ax ay x y cx cy / d, area2 ax ay bx b_y x y / d)

end GstVerif.Mesh
