import GstVerif.Mesh.Model
/- line protocol of the mesh projection checks (C15), prefix `u`:
   u proj <ndim> <point> <apex coordinates, apex-major> <weights> =>
       the non-zero entries of one row of the projection matrix: weights >= 0, sum = 1, and
       Σ w_i apex_i = point (affine functions are reproduced)
   u outside <number of non-zero entries> =>          a point outside the mesh has an empty row
   u inside <kind> <point> <number of non-zero entries> =>   a centroid / apex / edge midpoint of the mesh has a non-empty row
-/
namespace GstVerif.Mesh
open GstVerif

def tol : Q := pow2 (-36)

def handle (args : List String) (_impl : List String) : String :=
  match args with
  | ["proj", ndim, pt, apices, ws] =>
    match ndim.toNat?, parseQs? pt, parseQs? apices, parseQs? ws with
    | some nd, some pt, some ap, some ws =>
      if pt.length ≠ nd ∨ ap.length ≠ nd * ws.length ∨ ws.isEmpty then "bad-op" else
      let scale := (pt ++ ap).foldl (fun m x => maxQ m (absQ x)) 1
      if ws.any (· < -tol) then s!"bad projection: negative weight {fmtQs ws}"
      else if absQ (ws.sum - 1) > tol then s!"bad projection: weights sum to {fmtRat ws.sum}"
      else
        let bad := (List.range nd).find? fun d =>
          let v := ((List.range ws.length).map fun i => ws.getD i 0 * ap.getD (i * nd + d) 0).sum
          absQ (v - pt.getD d 0) > tol * scale
        match bad with
        | none => "ok"
        | some d => s!"bad projection: coordinate {d} is not reproduced by the weights"
    | _, _, _, _ => "bad-op"
  | ["inside", what, pt, n] =>
    if n = "0" then s!"bad projection: a point of the mesh ({what} {pt}) has an empty row (no weight at all)" else "ok"
  -- u qform <n> <S row-major> <lambda> <b> <Q row-major> =>      Q = Λ p(S) Λ  (2^-36 of the largest entry)
  | ["qform", n, sv, lam, b, qv] =>
    match LinAlg.parseMat? n n sv, parseQs? lam, parseQs? b, LinAlg.parseMat? n n qv, n.toNat? with
    | some S, some lam, some b, some Qm, some nn =>
      if lam.length ≠ nn ∨ b.isEmpty then "bad-op" else
      let E := precisionExplicit nn S lam b
      let scale := maxQ 1 E.maxAbs
      -- S = D^{-1/2} G D^{-1/2} is computed in floating point: symmetric up to rounding
      let sscale := maxQ 1 S.maxAbs
      if !(S.close (pow2 (-40) * sscale) S.transpose) then "bad precision operator: the shift operator S is not symmetric (beyond 2^-40 of its largest entry)"
      else if E.close (pow2 (-36) * scale) Qm then "ok"
      else "bad precision operator: the assembled matrix Q differs from Lambda p(S) Lambda recomputed from the exported S, Lambda and coefficients"
    | _, _, _, _, _ => "bad-op"
  -- u qfree <n> <S> <lambda> <b> <v> => <Q v returned by the matrix-free operator>
  | ["qfree", n, sv, lam, b, v, out] =>
    match LinAlg.parseMat? n n sv, parseQs? lam, parseQs? b, parseQs? v, parseQs? out, n.toNat? with
    | some S, some lam, some b, some v, some out, some nn =>
      if lam.length ≠ nn ∨ v.length ≠ nn ∨ out.length ≠ nn then "bad-op" else
      let m := precisionFree nn S lam b v
      let scale := maxQ 1 (LinAlg.vmaxAbs m)
      if LinAlg.vclose (pow2 (-36) * scale) m out then "ok"
      else "bad precision operator: the matrix-free evaluation differs from Lambda Horner(p, S)(Lambda v)"
    | _, _, _, _, _, _ => "bad-op"
  | ["outside", n] => if n = "0" then "ok" else s!"bad projection: a point outside the mesh has {n} non-zero weights"
  | _ => "bad-op"

end GstVerif.Mesh
