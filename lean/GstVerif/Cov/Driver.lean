import GstVerif.Cov.Model
/- line protocol of the covariance model (C03), prefix `s`:
   s corr <TYPE> <dx> <range> <scadef> => <C(h) returned by the library for sill 1>
   s psd <n> <row-major values> <tau>  =>           (certificate: A + tau I has non-negative LDLt pivots)
   s bound <C0> <C(h)> <C(-h)> <gamma(h)> =>        (symmetry, |C(h)| <= C(0), variogram form)
-/
namespace GstVerif.Cov
open GstVerif GstVerif.LinAlg

def tol : Q := pow2 (-40)

/-- a parameter that is a natural number / a half of an odd natural number -/
def asNat? (p : Q) : Option Nat := if p.den = 1 ∧ p.num ≥ 0 then some p.num.toNat else none

def closedFormParam (ty : String) (param h : Q) : Option (Q × Q) :=
  let exact := fun (v : Q) => some (v, v)
  match ty with
  | "MATERN" =>
    match asNat? (2 * param) with
    | some twoNu =>
      match maternHalfPoly twoNu h with
      | some p => let (lo, hi) := expNegBounds h; some (p * lo, p * hi)
      | none => none
    | none => none
  | "STABLE" =>
    if param = 1 then some (expNegBounds h) else if param = 2 then some (expNegBounds (h * h)) else none
  | "GAMMA" => (asNat? param).bind fun a => if a = 0 then none else exact (gammaCov a h)
  | "CAUCHY" => (asNat? param).bind fun a => if a = 0 then none else exact (cauchyCov a h)
  | _ => none

def closedForm (tyParam : String) (h : Q) : Option (Q × Q) :=
  let exact := fun (v : Q) => some (v, v)
  match tyParam.splitOn "@" with
  | [ty, p] => (parseQ? p).bind fun param => closedFormParam ty param h
  | _ =>
  match tyParam with
  | "SPHERICAL" => exact (spherical h)
  | "CUBIC" => exact (cubic h)
  | "TRIANGLE" => exact (triangle h)
  | "WENDLAND0" => exact (wendland0 h)
  | "WENDLAND1" => exact (wendland1 h)
  | "WENDLAND2" => exact (wendland2 h)
  | "PENTA" => exact (penta h)
  | "REG1D" => exact (reg1d h)
  | "NUGGET" => exact (nugget h)
  | "EXPONENTIAL" => some (expNegBounds h)
  | "GAUSSIAN" => some (expNegBounds (h * h))
  | _ => none

def handle (args : List String) (_impl : List String) : String :=
  match args with
  | ["corr", ty, dx, range, scadef, c] =>
    match parseQ? dx, parseQ? range, parseQ? scadef, parseQ? c with
    | some dx, some range, some sc, some c =>
      if range ≤ 0 then "bad-op" else
      let h := absQ dx * sc / range
      match closedForm ty h with
      | none => "skip no-rational-closed-form"
      | some (lo, hi) =>
        if lo - tol ≤ c ∧ c ≤ hi + tol then "ok"
        else s!"bad {ty}: C(h) at reduced distance {fmtRat h} is {fmtRat c}, closed form in [{fmtRat lo}, {fmtRat hi}]"
    | _, _, _, _ => "bad-op"
  | ["psd", what, n, vals, tau] =>
    match n.toNat?, parseQs? vals, parseQ? tau with
    | some n, some vals, some tau =>
      if vals.length ≠ n * n then "bad-op" else
      let A := Mat.ofFn n n fun i j => vals.getD (i * n + j) 0
      if !(A.isSymm) then s!"bad {what}: covariance matrix is not symmetric"
      else if checkPSD tau A then "ok" else s!"bad {what}: covariance matrix is not positive semi-definite (exact LDLt of A + tau I has a negative pivot)"
    | _, _, _ => "bad-op"
  -- symmetric positive definite up to rounding: |A - At| <= 2^-40 scale, then (A + At)/2 certified
  | ["spd", what, n, vals] =>
    match n.toNat?, parseQs? vals with
    | some n, some vals =>
      if vals.length ≠ n * n then "bad-op" else
      let A := Mat.ofFn n n fun i j => vals.getD (i * n + j) 0
      let scale := maxQ (pow2 (-200)) A.maxAbs
      let asym := (List.range n).any fun i => (List.range n).any fun j => absQ (A.get i j - A.get j i) > pow2 (-40) * scale
      if asym then s!"bad {what}: matrix is not symmetric (beyond 2^-40 of its largest entry)"
      else
        let S := Mat.ofFn n n fun i j => (A.get i j + A.get j i) / 2
        -- strictly positive definite: S - tau I still positive semi-definite, tau = 2^-40 of the smallest diagonal term
        let dmin := (List.range n).foldl (fun m i => minQ m (S.get i i)) (S.get 0 0)
        if dmin ≤ 0 then s!"bad {what}: non-positive diagonal term"
        else if checkPSD (-(pow2 (-40) * dmin)) S then "ok" else s!"bad {what}: matrix is not positive definite (exact LDLt has a non-positive pivot)"
    | _, _ => "bad-op"
  -- s fit <what> <ranges> <constraints> <usable flags>: the model returned by the automatic fitting
  --   ranges: all strictly positive;  constraints: `;`-separated `U,value,bound` | `L,…` | `E,…` | `S,a,b` (two values that must be equal);
  --   usable: string of 0/1 flags (saved, reloaded, kriging ran) - all must be 1
  | ["fit", what, ranges, cons, usable] =>
    match parseQs? ranges with
    | none => "bad-op"
    | some rs =>
      if rs.any (· ≤ 0) then s!"bad fit {what}: a fitted range is not strictly positive ({fmtQs rs})" else
      let items := if cons = "-" then [] else cons.splitOn ";"
      let tolOf := fun (b : Q) => pow2 (-30) * maxQ 1 (absQ b)
      let bad := items.find? fun it =>
        match it.splitOn "," with
        | [k, v, b] =>
          match parseQ? v, parseQ? b with
          | some v, some b =>
            if k = "U" then v > b + tolOf b
            else if k = "L" then v < b - tolOf b
            else if k = "E" || k = "S" then absQ (v - b) > tolOf b
            else true
          | _, _ => true
        | _ => true
      match bad with
      | some it => s!"bad fit {what}: constraint violated by the returned model ({it})"
      | none => if usable.toList.all (· == '1') then "ok" else s!"bad fit {what}: the returned model is not usable (saved/reloaded/kriging = {usable})"
  | ["bound", what, c0, ch, chn, gam] =>
    match parseQ? c0, parseQ? ch, parseQ? chn, parseQ? gam with
    | some c0, some ch, some chn, some gam =>
      let t := tol * maxQ 1 (absQ c0)
      if ch ≠ chn then s!"bad {what}: C(h) differs from C(-h)"
      else if absQ ch > absQ c0 + t then s!"bad {what}: |C(h)| = {fmtRat (absQ ch)} exceeds C(0) = {fmtRat c0}"
      else if absQ (gam - (c0 - ch)) > t then s!"bad {what}: variogram form {fmtRat gam} differs from C(0)-C(h) = {fmtRat (c0 - ch)}"
      else "ok"
    | _, _, _, _ => "bad-op"
  | _ => "bad-op"

end GstVerif.Cov
