import GstVerif.LinAlg.Mat
/-
  Closed forms of the basic structures whose normalised correlation is a polynomial of the reduced
  distance `h = |x - y| / (range / scadef)` (src/Covariances/Cov*.cpp, `_evaluateCov`), rational
  enclosures of `exp(-x)` for the exponential and Gaussian structures, and the reduced distance
  under an anisotropy (property C03).
-/
namespace GstVerif.Cov
open GstVerif

/-- `_evaluateCov(h)` of the polynomial structures (argument: reduced distance `h ≥ 0`) -/
def spherical (h : Q) : Q := if h < 1 then 1 - (1/2) * h * (3 - h * h) else 0
def cubic (h : Q) : Q :=
  let h2 := h * h
  let c := if h < 1 then 1 - h2 * (7 + h * (-(35/4) + h2 * (7/2 - (3/4) * h2))) else 0
  if c < 0 then 0 else c
def triangle (h : Q) : Q := if 1 - h < 0 then 0 else 1 - h
def wendland0 (h : Q) : Q := if h < 1 then 1 - 2 * h + h * h else 0
def wendland1 (h : Q) : Q := if h < 1 then 1 - h * h * (10 - h * (20 - h * (15 - h * 4))) else 0
def wendland2 (h : Q) : Q :=
  if h < 1 then 1 - h * h * (28/3 - h * h * (70 - h * (448/3 - h * (140 - h * (64 - h * (35/3)))))) else 0
/-- `CovPenta` (valid up to 3-D) -/
def penta (h : Q) : Q :=
  if h < 1 then 1 - h * h * (22/3 - h * h * (33 - h * (77/2 - h * h * (33/2 - h * h * (11/2 - (5/6) * (h * h)))))) else 0
/-- `CovReg1D` (1-D only; `CovPenta` used to share this code: finding F74) -/
def reg1d (h : Q) : Q :=
  if h < 1 then 1 - 3 * h * (1 - h / 2 * (1 + h / 6))
  else if h < 2 then -2 + 3 * h * (1 - h / 2 * (1 - h / 6)) else 0
def nugget (h : Q) : Q := if h = 0 then 1 else 0

/-! ### rational enclosure of `exp(-x)`, `x ≥ 0` -/

/-- partial sum `Σ_{i<n} (-y)^i / i!` -/
def expSeries (y : Q) : Nat → Q × Q × Q      -- (sum, current term, index)
  | 0 => (0, 1, 0)
  | n+1 =>
    let (s, t, i) := expSeries y n
    (s + t, -t * y / (i + 1), i + 1)

def powQ (b : Q) : Nat → Q
  | 0 => 1
  | n+1 => b * powQ b n

/-- `(lo, hi)` with `lo ≤ exp(-x) ≤ hi`: argument halved `k` times until `≤ 1/2`, alternating
series cut after an odd / even number of terms, then squared back `k` times -/
def expNegBounds (x : Q) : Q × Q :=
  let k := (List.range 64).find? (fun k => x / powQ 2 k ≤ 1/2) |>.getD 64
  let y := x / powQ 2 k
  let lo0 := (expSeries y 18).1          -- last term added has odd index (negative): lower bound
  let hi0 := (expSeries y 19).1
  let sq := fun (v : Q) => (List.range k).foldl (fun a _ => a * a) v
  (sq (if lo0 < 0 then 0 else lo0), sq hi0)

/-! ### parametric structures with a rational or exponential closed form at particular parameters -/

/-- polynomial factor of the Matern correlation `2 (h/2)^ν K_ν(h) / Γ(ν)` for half-integer `ν`:
`ν = 1/2 : 1`, `ν = 3/2 : 1 + h`, `ν = 5/2 : 1 + h + h²/3` (times `exp(-h)`) -/
def maternHalfPoly (twoNu : Nat) (h : Q) : Option Q :=
  match twoNu with
  | 1 => some 1
  | 3 => some (1 + h)
  | 5 => some (1 + h + h * h / 3)
  | _ => none

/-- `CovGamma`: `1 / (1 + h)^α`, `CovCauchy`: `1 / (1 + h²)^α`, integer `α` -/
def gammaCov (alpha : Nat) (h : Q) : Q := 1 / powQ (1 + h) alpha
def cauchyCov (alpha : Nat) (h : Q) : Q := 1 / powQ (1 + h * h) alpha

/-! ### reduced distance under an anisotropy: `|S⁻¹ Rᵗ (x - y)|²` (squared: stays rational) -/
def redDist2 (R : List (List Q)) (scales : List Q) (d : List Q) : Q :=
  let v := R.map (fun row => (List.zipWith (· * ·) row d).sum)      -- rows of R = axes
  (List.zipWith (fun c s => (c / s) * (c / s)) v scales).sum

end GstVerif.Cov
