import GstVerif.Basic.Proto
/-
  Model of the parameter bookkeeping of the automatic fitting (property C17; src/Core/model_auto.cpp,
  src/Model/Constraints.cpp):
  * `encode` / `decode`  — `st_parid_encode` / `st_parid_decode`: a parameter is designated by five
    small integers packed in base `CONGRUENCY = 50`;
  * `cget`               — `constraints_get`: the value of the FIRST item of the user's constraint list
    designating that parameter (an equality serves both as lower and as upper bound);
  * `affect`             — `st_affect`: merge of one (default, lower, upper) triple into the bounds and
    the initial value of a parameter;
  * `compress`           — `st_compress_parid`: parameters left undefined are dropped, order kept.
  Undefined (`TEST`) is `none`.
-/
namespace GstVerif.Fit
open GstVerif

abbrev Val := Option Q

def CONG : Int := 50

structure Pid where
  imod : Int
  icov : Int
  icons : Int
  ivar : Int
  jvar : Int
deriving Repr, DecidableEq, BEq

def encode (f : Pid) : Int := (((f.imod * CONG + f.icov) * CONG + f.icons) * CONG + f.ivar) * CONG + f.jvar

/-- C integer division (truncation) as in the source -/
def decode (parid : Int) : Pid :=
  let v0 := parid
  let d0 := v0.tdiv CONG; let jvar := v0 - d0 * CONG
  let d1 := d0.tdiv CONG; let ivar := d0 - d1 * CONG
  let d2 := d1.tdiv CONG; let icons := d1 - d2 * CONG
  let d3 := d2.tdiv CONG; let icov := d2 - d3 * CONG
  let d4 := d3.tdiv CONG; let imod := d3 - d4 * CONG
  { imod, icov, icons, ivar, jvar }

def Pid.valid (f : Pid) : Bool :=
  decide ((0 ≤ f.imod ∧ f.imod < 50) ∧ (0 ≤ f.icov ∧ f.icov < 50) ∧ (0 ≤ f.icons ∧ f.icons < 50) ∧
    (0 ≤ f.ivar ∧ f.ivar < 50) ∧ (0 ≤ f.jvar ∧ f.jvar < 50))

/-! ### user constraints -/

/-- EConsType: LOWER = -1, DEFAULT = 0, UPPER = 1, EQUAL = 2;  EConsElem: SILL = 4 -/
structure Item where
  icase : Int
  igrf : Int
  icov : Int
  icons : Int
  iv1 : Int
  iv2 : Int
  value : Q
deriving Repr

def SILL : Int := 4

def Item.designates (it : Item) (igrf icov icons iv1 iv2 : Int) : Bool :=
  it.igrf == igrf && it.icov == icov && it.icons == icons && it.iv1 == iv1 && (icons != SILL || it.iv2 == iv2)

/-- does this item answer a request of kind `icase`? -/
def Item.answers (it : Item) (icase : Int) : Bool :=
  if it.icase == 2 then (icase == -1 || icase == 1) else icase == it.icase

def cget (items : List Item) (icase igrf icov icons iv1 iv2 : Int) : Val :=
  match items.find? (fun it => it.designates igrf icov icons iv1 iv2 && it.answers icase) with
  | some it => some it.value
  | none => none

/-! ### merge of one constraint into a parameter -/

structure Slot where
  param : Val
  lower : Val
  upper : Val
deriving Repr, DecidableEq, BEq

def mergeLower (cur new : Val) : Val :=
  match cur, new with
  | none, n => n
  | some c, none => some c
  | some c, some n => some (if n < c then c else n)      -- MAX(new, cur)

def mergeUpper (cur new : Val) : Val :=
  match cur, new with
  | none, n => n
  | some c, none => some c
  | some c, some n => some (if c < n then c else n)      -- MIN(new, cur)

/-- the current value when there is one, else the default of the constraint, else 0 -/
def initVal (cur d : Val) : Q :=
  match cur with
  | some p => p
  | none => d.getD 0

def affect (d l u : Val) (s : Slot) : Slot :=
  let lower := mergeLower s.lower l
  let upper := mergeUpper s.upper u
  let p0 : Q := initVal s.param d
  let p : Q := match lower, upper with
    | some lo, some up =>
      if p0 < lo || up < p0 then (if 0 < lo then (lo + up) / 2 else up / 2) else p0
    | some lo, none => if p0 < lo then lo + 1 else p0
    | none, some up => if up < p0 then up - 1 else p0
    | none, none => p0
  { param := some p, lower := lower, upper := upper }

/-- the constraints of the user applied to a fresh parameter (`st_model_auto_constraints_apply` on one rank) -/
def applyTo (items : List Item) (f : Pid) (s : Slot) : Slot :=
  affect (cget items 0 f.imod f.icov f.icons f.ivar f.jvar) (cget items (-1) f.imod f.icov f.icons f.ivar f.jvar)
    (cget items 1 f.imod f.icov f.icons f.ivar f.jvar) s

/-! ### compression -/

structure Row where
  parid : Int
  slot : Slot
deriving Repr, DecidableEq, BEq

def compress (rows : List Row) : List Row := rows.filter (fun r => r.slot.param.isSome)

end GstVerif.Fit
