import GstVerif.Fit.Model
/-
  a enc <imod> <icov> <icons> <ivar> <jvar> => <parid> <d0,d1,d2,d3,d4>     packing and unpacking of the library
  a aff <def> <lo> <up> <param> <lower> <upper> => <param'> <lower'> <upper'>  st_affect on one slot (NA = undefined)
  a cget <items> <icase> <igrf> <icov> <icons> <iv1> <iv2> => <value>        items: icase~igrf~icov~icons~iv1~iv2~value/…  (- = none)
  a cmp <parids> <params> <lowers> <uppers> => <n> <parids'> <params'> <lowers'> <uppers'>
-/
namespace GstVerif.Fit
open GstVerif

def fmtVal (v : Val) : String := match v with | none => "NA" | some q => fmtRat q

def parseItem? (s : String) : Option Item :=
  match s.splitOn "~" with
  | [a, b, c, d, e, f, v] => do
    pure { icase := ← a.toInt?, igrf := ← b.toInt?, icov := ← c.toInt?, icons := ← d.toInt?,
           iv1 := ← e.toInt?, iv2 := ← f.toInt?, value := ← parseQ? v }
  | _ => none

def parseItems? (s : String) : Option (List Item) :=
  if s = "-" then some [] else (s.splitOn "/").mapM parseItem?

def handle (args : List String) (impl : List String) : String :=
  match args, impl with
  | ["enc", a, b, c, d, e], [p, dec] =>
    match a.toInt?, b.toInt?, c.toInt?, d.toInt?, e.toInt?, p.toInt?, parseInts? dec with
    | some a, some b, some c, some d, some e, some p, some dec =>
      let f : Pid := { imod := a, icov := b, icons := c, ivar := d, jvar := e }
      if !f.valid then "skip field-out-of-range" else
      let g := decode p
      if encode f ≠ p then s!"bad parid: library {p}, model {encode f}"
      else if dec ≠ [g.imod, g.icov, g.icons, g.ivar, g.jvar] then s!"bad decode of {p}: library {dec}, model {[g.imod, g.icov, g.icons, g.ivar, g.jvar]}"
      else if g != f then s!"bad round-trip: {repr f} became {repr g}"
      else "ok"
    | _, _, _, _, _, _, _ => "bad-op"
  | ["aff", d, l, u, p0, l0, u0], [p1, l1, u1] =>
    match parseOQ? d, parseOQ? l, parseOQ? u, parseOQ? p0, parseOQ? l0, parseOQ? u0, parseOQ? p1, parseOQ? l1, parseOQ? u1 with
    | some d, some l, some u, some p0, some l0, some u0, some p1, some l1, some u1 =>
      let m := affect d l u { param := p0, lower := l0, upper := u0 }
      let r : Slot := { param := p1, lower := l1, upper := u1 }
      if m == r then "ok"
      else s!"bad merge of a constraint: library {fmtVal p1} {fmtVal l1} {fmtVal u1}, model {fmtVal m.param} {fmtVal m.lower} {fmtVal m.upper}"
    | _, _, _, _, _, _, _, _, _ => "bad-op"
  | ["cget", items, icase, igrf, icov, icons, iv1, iv2], [v] =>
    match parseItems? items, icase.toInt?, igrf.toInt?, icov.toInt?, icons.toInt?, iv1.toInt?, iv2.toInt?, parseOQ? v with
    | some items, some icase, some igrf, some icov, some icons, some iv1, some iv2, some v =>
      let m := cget items icase igrf icov icons iv1 iv2
      if m == v then "ok" else s!"bad constraint looked up: library {fmtVal v}, model {fmtVal m}"
    | _, _, _, _, _, _, _, _ => "bad-op"
  | ["cmp", ids, ps, ls, us], [n, ids', ps', ls', us'] =>
    match parseInts? ids, parseOQs? ps, parseOQs? ls, parseOQs? us, n.toNat?, parseInts? ids', parseOQs? ps', parseOQs? ls', parseOQs? us' with
    | some ids, some ps, some ls, some us, some n, some ids', some ps', some ls', some us' =>
      if ids.length ≠ ps.length || ps.length ≠ ls.length || ls.length ≠ us.length then "bad-op" else
      let rows := (List.range ids.length).map fun i =>
        ({ parid := ids.getD i 0, slot := { param := ps.getD i none, lower := ls.getD i none, upper := us.getD i none } } : Row)
      let out := compress rows
      -- the library compresses in place: only the first n entries are meaningful
      let got := (List.range n).map fun i =>
        ({ parid := ids'.getD i 0, slot := { param := ps'.getD i none, lower := ls'.getD i none, upper := us'.getD i none } } : Row)
      if out.length ≠ n then s!"bad compression: library keeps {n}, model {out.length}"
      else if out != got then "bad compression: kept rows differ"
      else "ok"
    | _, _, _, _, _, _, _, _, _ => "bad-op"
  | _, _ => "bad-op"

end GstVerif.Fit
