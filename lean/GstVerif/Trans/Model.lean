import GstVerif.Basic.Proto
/-
  Models for the data transforms (property C18):
  * probabilists' Hermite polynomials `He_n` by their recurrence (src/Polynomials/Hermite.cpp uses
    the normalised `η_n = (-1)^n He_n / sqrt(n!)`), as coefficient lists (integers) and as values;
  * moments of the standard Gaussian law (`E[y^k] = (k-1)!!`) and the expectation of a polynomial;
  * ranks (normal scores).
-/
namespace GstVerif.Trans
open GstVerif

/-- value of `He_0 … He_{n-1}` at `y`: `He_{k+1} = y He_k - k He_{k-1}` -/
def heValues (y : Q) : Nat → List Q
  | 0 => []
  | 1 => [1]
  | n+2 =>
    let prev := heValues y (n+1)
    let a := prev.getD n 0                      -- He_n
    let b := if n = 0 then 0 else prev.getD (n-1) 0
    prev ++ [y * a - (n : Q) * b]

/-- polynomials as coefficient lists (lowest degree first) -/
abbrev Poly := List Int

def padd : Poly → Poly → Poly
  | [], q => q
  | p, [] => p
  | a :: p, b :: q => (a + b) :: padd p q
def pscale (c : Int) (p : Poly) : Poly := p.map (c * ·)
def pshift (p : Poly) : Poly := 0 :: p                      -- multiply by y
def pmul : Poly → Poly → Poly
  | [], _ => []
  | a :: p, q => padd (pscale a q) (pshift (pmul p q))

/-- coefficients of `He_n` -/
def hePoly : Nat → Poly
  | 0 => [1]
  | 1 => [0, 1]
  | n+2 => padd (pshift (hePoly (n+1))) (pscale (-(n+1 : Int)) (hePoly n))

/-- `(k-1)!!` for even `k`, 0 for odd `k`: the moment `E[y^k]` of the standard Gaussian law -/
def gaussMoment : Nat → Int
  | 0 => 1
  | 1 => 0
  | k+2 => (k + 1 : Int) * gaussMoment k

/-- expectation of a polynomial under the standard Gaussian law -/
def expect (p : Poly) : Int := ((List.range p.length).map fun k => p.getD k 0 * gaussMoment k).sum

def fact : Nat → Int
  | 0 => 1
  | n+1 => (n + 1 : Int) * fact n

/-- orthogonality table up to degree `N`: `E[He_m He_n] = n! δ_mn` -/
def orthoTable (N : Nat) : Bool :=
  (List.range N).all fun m => (List.range N).all fun n =>
    expect (pmul (hePoly m) (hePoly n)) == (if m = n then fact n else 0)

/-- linear extension of a continuous anamorphosis between its practical bound `p` and its absolute
bound `a` (`AnamHermite::transformToRawValue` / `rawToTransformValue`, branches "outside the
practical interval"): the point `(a0, a1)` is joined to `(p0, p1)`:
`x ↦ a1 + (p1 − a1) (x − a0) / (p0 − a0)` -/
def extend (a0 p0 a1 p1 x : Q) : Q := a1 + (p1 - a1) * (x - a0) / (p0 - a0)

/-- number of elements of `l` strictly below `x` (rank used by the normal score transform) -/
def countBelow (l : List Q) (x : Q) : Nat := (l.filter (· < x)).length

end GstVerif.Trans
