import GstVerif.Trans.Model
/- line protocol of the transform models (C18), prefix `t`:
   t herm <y> <n> => <eta_0,…,eta_{n-1} of the library>      eta_k^2 k! = He_k(y)^2 and sign (-1)^k
   t mono <xs> <ys> =>                                       ys non-decreasing along increasing xs
   t close <what> <tol> <a> <b> =>                           |a_i - b_i| <= tol (round trips)
   t ext <what> <a0> <p0> <a1> <p1> <x> => <v>               v = linear extension between practical and absolute bounds
-/
namespace GstVerif.Trans
open GstVerif

def factQ : Nat → Q
  | 0 => 1
  | n+1 => (n + 1 : Q) * factQ n

def handle (args : List String) (impl : List String) : String :=
  match args, impl with
  | ["herm", y, n], [vals] =>
    match parseQ? y, n.toNat?, parseQs? vals with
    | some y, some n, some vals =>
      if vals.length ≠ n then "bad Hermite: wrong number of polynomials" else
      let he := heValues y n
      let bad := (List.range n).find? fun k =>
        let eta := vals.getD k 0
        let h := he.getD k 0
        let lhs := eta * eta * factQ k
        let rhs := h * h
        -- relative 2^-36 (the library accumulates square roots)
        let okMag := absQ (lhs - rhs) ≤ pow2 (-36) * maxQ 1 rhs
        let sgn : Q := if k % 2 = 0 then 1 else -1
        let okSign := eta * h * sgn ≥ 0 || absQ eta ≤ pow2 (-30)
        !(okMag && okSign)
      match bad with
      | none => "ok"
      | some k => s!"bad Hermite polynomial {k} at y={fmtRat y}: library {fmtRat (vals.getD k 0)}, He_k={fmtRat (he.getD k 0)}"
    | _, _, _ => "bad-op"
  -- t ext <what> <a_from> <p_from> <a_to> <p_to> <x> => <value returned by the library>
  | ["ext", what, a0, p0, a1, p1, x], [v] =>
    match parseQ? a0, parseQ? p0, parseQ? a1, parseQ? p1, parseQ? x, parseQ? v with
    | some a0, some p0, some a1, some p1, some x, some v =>
      if a0 = p0 then "skip degenerate-extension" else
      let m := extend a0 p0 a1 p1 x
      let scale := maxQ 1 (maxQ (absQ a1) (absQ p1))
      if absQ (m - v) ≤ pow2 (-36) * scale then "ok"
      else s!"bad {what}: beyond the practical bound the library returns {fmtApprox v}, the linear extension towards the absolute bound gives {fmtApprox m} (exact: {fmtRat v} vs {fmtRat m})"
    | _, _, _, _, _, _ => "bad-op"
  | ["mono", what, xs, ys], _ =>
    match parseQs? xs, parseQs? ys with
    | some xs, some ys =>
      if xs.length ≠ ys.length then "bad-op" else
      let pairs := xs.zip ys
      -- values on a plateau (tied data) are interpolated in floating point: a decrease of a few units
      -- of the last place is rounding, not a loss of monotonicity
      let slack := pow2 (-40) * ys.foldl (fun m v => maxQ m (absQ v)) 1
      let viol := pairs.any fun (x1, y1) => pairs.any fun (x2, y2) => x1 < x2 && y1 > y2 + slack
      if viol then s!"bad {what}: the transform is not monotone" else "ok"
    | _, _ => "bad-op"
  | ["close", what, tol, a, b], _ =>
    match parseQ? tol, parseQs? a, parseQs? b with
    | some tol, some a, some b =>
      if a.length ≠ b.length then s!"bad {what}: sizes differ ({a.length} vs {b.length})" else
      match (List.range a.length).find? fun i => absQ (a.getD i 0 - b.getD i 0) > tol with
      | none => "ok"
      | some i => s!"bad {what}: round trip differs at {i}: {fmtRat (a.getD i 0)} vs {fmtRat (b.getD i 0)} (tolerance {fmtRat tol})"
    | _, _, _ => "bad-op"
  | _, _ => "bad-op"

end GstVerif.Trans
