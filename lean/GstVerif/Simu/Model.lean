import GstVerif.LinAlg.Mat
import GstVerif.Rng.Model
/-
  Model of what the non-conditional simulators have in common (property C14).

  Every Gaussian simulator of the library is a linear map `A` applied to a vector of independent
  standard deviates (given its auxiliary random elements: band directions, frequencies, phases):
    * Cholesky of a covariance `C = L Lᵀ`  :  `A = L`               (`ACholesky::addLX`)
    * Cholesky of a precision  `Q = L Lᵀ`  :  `A = L⁻ᵀ`             (`ACholesky::_addSimulateToDest`)
    * polynomial approximation of `Q^{-1/2}` (`PrecisionOp::_addSimulateToDest`)
    * turning bands: `A = norme · (mixing ⊗ band processes)`, `norme = 1/√nbtuba`,
      `mixing = V diag(√λ)` built by `_createAIC` from the eigen-decomposition of the sills.
  The law of `A w` is centred Gaussian with covariance `A Aᵀ` (`imageCov`).  The model keeps that
  second-order algebra executable over ℚ so that the implementation's own matrices can be judged.
-/
namespace GstVerif.Simu
open GstVerif GstVerif.LinAlg

/-- covariance of the image `A w` of a white noise `w` -/
def imageCov (A : Mat) : Mat := A.mul A.transpose

/-- the simulated field has the prescribed covariance: `A Aᵀ ≈ C` entry-wise -/
def checkCovariance (tol : Q) (A C : Mat) : Bool :=
  A.r == C.r && C.r == C.c && (imageCov A).close (tol * maxQ 1 C.maxAbs) C

/-- the simulated field has the covariance prescribed by a precision matrix: `(A Aᵀ) Q ≈ I` -/
def checkPrecision (tol : Q) (A Qm : Mat) : Bool :=
  A.r == Qm.r && Qm.r == Qm.c && ((imageCov A).mul Qm).close tol (Mat.id Qm.r)

/-- diagnosis that identifies finding F84 among the failures of `checkCovariance` on the mixing
matrix `M` of the turning bands: `M Mᵀ` is not the matrix of sills `B`, but `B` is recovered when
the eigenvectors are read the other way round.  With `λ_j` the squared norm of column `j` of `M`
(`M = Vᵀ diag(√λ)`, `V` orthogonal), `B = V diag(λ) Vᵀ` amounts to
`(Mᵀ diag(λ) M)_ik = B_ik √(λ_i λ_k)`, tested without square roots (squares and signs). -/
def transposedEigenvectors (tol : Q) (M B : Mat) : Bool :=
  let n := M.r
  let lam := (List.range n).map fun j => sumRange n fun o => M.get o j * M.get o j
  let lmax := vmaxAbs lam
  let scale := maxQ 1 (B.maxAbs * B.maxAbs * lmax * lmax)
  M.r == M.c && B.r == n && B.c == n &&
  (List.range n).all fun i => (List.range n).all fun k =>
    let g := sumRange n fun j => M.get j i * lam.getD j 0 * M.get j k
    let b := B.get i k
    let ll := lam.getD i 0 * lam.getD k 0
    decide (absQ (g * g - b * b * ll) ≤ tol * scale ∧ g * b ≥ - (tol * scale))

/-- normalisation of a sum of `n` independent unit-variance band processes: the factor `s` applied
to the sum must satisfy `s² · n = 1` -/
def checkNorm (tol : Q) (s : Q) (n : Nat) : Bool := absQ (s * s * (n : Q) - 1) ≤ tol

/-- decision rule of the Monte-Carlo checks: `(est − target)² ≤ k² · var + slack²` (no square root) -/
def withinSigmas (k est target var slack : Q) : Bool :=
  (est - target) * (est - target) ≤ k * k * var + slack * slack

/-- variance of the empirical covariance of `n` independent centred Gaussian pairs -/
def gaussCovVar (cxy cxx cyy : Q) (n : Nat) : Q := (cxx * cyy + cxy * cxy) / (n : Q)

/-- uniform deviate on `[a, b]` (`law_uniform(a, b)`) from the generator state -/
def uniformAB (x : Nat) (a b : Q) : Q := a + Rng.unif x * (b - a)

end GstVerif.Simu
