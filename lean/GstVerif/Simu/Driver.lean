import GstVerif.Simu.Model
/- line protocol of the simulation-law model (C14), prefix `w`:
   w mc mean  <what> <n> <k> <estimate> <target> <variance of one draw> =>
   w mc cov   <what> <n> <k> <estimate> <Cxy> <Cxx> <Cyy> =>      (Gaussian pairs: var = (Cxx Cyy + Cxy²)/n)
   w mc range <what> <strict 0|1> <lo> <hi> <min observed> <max observed> =>
   w law cov  <what> <tol> <r> <c> <A row-major> <n> <C row-major> =>     A Aᵀ ≈ C
   w law prec <what> <tol> <r> <c> <A row-major> <n> <Q row-major> =>     (A Aᵀ) Q ≈ I
   w law norm <what> <s> <n> =>                                           s² n = 1
   w count <what> <expected> <got> =>
-/
namespace GstVerif.Simu
open GstVerif GstVerif.LinAlg

def handle (args : List String) (_impl : List String) : String :=
  match args with
  | ["mc", "mean", what, n, k, est, target, var1] =>
    match n.toNat?, parseQ? k, parseQ? est, parseQ? target, parseQ? var1 with
    | some n, some k, some est, some target, some v =>
      if n = 0 ∨ v < 0 then "bad-op" else
      let slack := pow2 (-30) * maxQ 1 (absQ target)
      if withinSigmas k est target (v / (n : Q)) slack then "ok"
      else s!"bad simulation {what}: the mean of {n} draws, {fmtApprox est}, is more than {fmtApprox k} standard deviations away from {fmtApprox target} (exact: {fmtRat est} vs {fmtRat target})"
    | _, _, _, _, _ => "bad-op"
  | ["mc", "cov", what, n, k, est, cxy, cxx, cyy] =>
    match n.toNat?, parseQ? k, parseQ? est, parseQ? cxy, parseQ? cxx, parseQ? cyy with
    | some n, some k, some est, some cxy, some cxx, some cyy =>
      if n = 0 ∨ cxx < 0 ∨ cyy < 0 then "bad-op" else
      let slack := pow2 (-20) * maxQ 1 (maxQ (absQ cxx) (absQ cyy))
      if withinSigmas k est cxy (gaussCovVar cxy cxx cyy n) slack then "ok"
      else s!"bad simulation {what}: the covariance estimated on {n} realisations, {fmtApprox est}, is more than {fmtApprox k} standard deviations away from the model value {fmtApprox cxy} (exact: {fmtRat est} vs {fmtRat cxy})"
    | _, _, _, _, _, _ => "bad-op"
  | ["mc", "range", what, strict, lo, hi, omin, omax] =>
    match parseQ? lo, parseQ? hi, parseQ? omin, parseQ? omax with
    | some lo, some hi, some omin, some omax =>
      let ok := if strict = "1" then decide (lo < omin ∧ omax < hi) else decide (lo ≤ omin ∧ omax ≤ hi)
      if ok then "ok" else s!"bad generator {what}: values [{fmtRat omin}, {fmtRat omax}] leave the support [{fmtRat lo}, {fmtRat hi}]"
    | _, _, _, _ => "bad-op"
  | ["law", "cov", what, tol, r, c, a, n, cm] =>
    match parseQ? tol, parseMat? r c a, parseMat? n n cm with
    | some tol, some A, some C =>
      if checkCovariance tol A C then "ok"
      else if what = "turning_bands_mixing" ∧ transposedEigenvectors (pow2 (-20)) A C then
        s!"bad simulation {what}: eigenvectors-transposed: the mixing matrix reproduces the sills only when the eigenvectors are read by columns (M Mt = Vt diag(lambda) V instead of V diag(lambda) Vt)"
      else s!"bad simulation {what}: the linear map applied to the white noise does not have the model covariance (A At differs from C)"
    | _, _, _ => "bad-op"
  | ["law", "prec", what, tol, r, c, a, n, qm] =>
    match parseQ? tol, parseMat? r c a, parseMat? n n qm with
    | some tol, some A, some Qm =>
      if checkPrecision tol A Qm then "ok"
      else s!"bad simulation {what}: the linear map applied to the white noise does not have the inverse of the precision matrix as covariance ((A At) Q differs from I)"
    | _, _, _ => "bad-op"
  | ["law", "norm", what, s, n] =>
    match parseQ? s, n.toNat? with
    | some s, some n => if checkNorm (pow2 (-40)) s n then "ok" else s!"bad simulation {what}: the normalisation factor squared times the number of bands is not 1"
    | _, _ => "bad-op"
  | ["count", what, expected, got] =>
    match expected.toNat?, got.toNat? with
    | some e, some g => if e = g then "ok" else s!"bad simulation {what}: {g} realisations returned, {e} requested"
    | _, _ => "bad-op"
  | _ => "bad-op"

end GstVerif.Simu
