import GstVerif.Basic.Proto
/-
  Dense matrices over ℚ as row lists, with every operation written as its textbook definition
  (entry-wise, by explicit finite sums).  Core Lean only: used by the compiled driver.
  The bridge to Mathlib's `Matrix` (all algebraic laws) is `GstProofs/LinAlg/Bridge.lean`.
-/
namespace GstVerif.LinAlg

structure Mat where
  r : Nat
  c : Nat
  e : List (List Q)       -- r rows of length c
deriving Repr, BEq

def Mat.get (A : Mat) (i j : Nat) : Q := (A.e.getD i []).getD j 0

/-- build from an entry function -/
def Mat.ofFn (r c : Nat) (f : Nat → Nat → Q) : Mat :=
  { r := r, c := c, e := (List.range r).map fun i => (List.range c).map fun j => f i j }

def sumRange (n : Nat) (f : Nat → Q) : Q := ((List.range n).map f).sum

def Mat.wf (A : Mat) : Bool := A.e.length == A.r && A.e.all (·.length == A.c)

def Mat.transpose (A : Mat) : Mat := Mat.ofFn A.c A.r fun i j => A.get j i
def Mat.add (A B : Mat) : Mat := Mat.ofFn A.r A.c fun i j => A.get i j + B.get i j
def Mat.smul (a : Q) (A : Mat) : Mat := Mat.ofFn A.r A.c fun i j => a * A.get i j
def Mat.lin (a : Q) (A : Mat) (b : Q) (B : Mat) : Mat := Mat.ofFn A.r A.c fun i j => a * A.get i j + b * B.get i j
def Mat.mul (A B : Mat) : Mat := Mat.ofFn A.r B.c fun i j => sumRange A.c fun k => A.get i k * B.get k j
def Mat.id (n : Nat) : Mat := Mat.ofFn n n fun i j => if i = j then 1 else 0
def Mat.diag (v : List Q) : Mat := Mat.ofFn v.length v.length fun i j => if i = j then v.getD i 0 else 0
def Mat.mulVec (A : Mat) (x : List Q) : List Q := (List.range A.r).map fun i => sumRange A.c fun k => A.get i k * x.getD k 0
def Mat.vecMul (x : List Q) (A : Mat) : List Q := (List.range A.c).map fun j => sumRange A.r fun k => x.getD k 0 * A.get k j
def Mat.op (t : Bool) (A : Mat) : Mat := if t then A.transpose else A
def Mat.addScalar (A : Mat) (v : Q) : Mat := Mat.ofFn A.r A.c fun i j => A.get i j + v
def Mat.scaleRows (A : Mat) (v : List Q) : Mat := Mat.ofFn A.r A.c fun i j => A.get i j * v.getD i 0
def Mat.scaleCols (A : Mat) (v : List Q) : Mat := Mat.ofFn A.r A.c fun i j => A.get i j * v.getD j 0
def Mat.divRows (A : Mat) (v : List Q) : Mat := Mat.ofFn A.r A.c fun i j => A.get i j / v.getD i 0
def Mat.divCols (A : Mat) (v : List Q) : Mat := Mat.ofFn A.r A.c fun i j => A.get i j / v.getD j 0
def Mat.setRow (A : Mat) (k : Nat) (v : List Q) : Mat := Mat.ofFn A.r A.c fun i j => if i = k then v.getD j 0 else A.get i j
def Mat.setCol (A : Mat) (k : Nat) (v : List Q) : Mat := Mat.ofFn A.r A.c fun i j => if j = k then v.getD i 0 else A.get i j
def Mat.setDiag (A : Mat) (v : List Q) : Mat := Mat.ofFn A.r A.c fun i j => if i = j then v.getD i 0 else 0
def Mat.sub (A : Mat) (rows cols : List Nat) : Mat := Mat.ofFn rows.length cols.length fun i j => A.get (rows.getD i 0) (cols.getD j 0)

def dotQ (x y : List Q) : Q := sumRange x.length fun k => x.getD k 0 * y.getD k 0

def Mat.maxAbs (A : Mat) : Q := A.e.foldl (fun m row => row.foldl (fun m x => maxQ m (absQ x)) m) 0
def vmaxAbs (v : List Q) : Q := v.foldl (fun m x => maxQ m (absQ x)) 0

def Mat.sameShape (A B : Mat) : Bool := A.r == B.r && A.c == B.c

/-- entry-wise closeness: `|A_ij − B_ij| ≤ tol` -/
def Mat.close (tol : Q) (A B : Mat) : Bool :=
  A.sameShape B && (List.range A.r).all fun i => (List.range A.c).all fun j => absQ (A.get i j - B.get i j) ≤ tol

def vclose (tol : Q) (x y : List Q) : Bool :=
  x.length == y.length && (List.range x.length).all fun i => absQ (x.getD i 0 - y.getD i 0) ≤ tol

def Mat.isSymm (A : Mat) : Bool := A.r == A.c && (List.range A.r).all fun i => (List.range A.c).all fun j => A.get i j == A.get j i
def Mat.isLower (A : Mat) : Bool := (List.range A.r).all fun i => (List.range A.c).all fun j => j ≤ i || A.get i j == 0

/-! ### parsing:  `r c v,v,v,…` row-major -/
def chunkQ (n : Nat) : Nat → List Q → List (List Q)
  | 0, _ => []
  | k+1, l => l.take n :: chunkQ n k (l.drop n)

def parseMat? (r c vals : String) : Option Mat := do
  let r ← r.toNat?
  let c ← c.toNat?
  let v ← parseQs? vals
  if v.length ≠ r * c then none else pure { r := r, c := c, e := chunkQ c r v }

def fmtMat (A : Mat) : String := s!"{A.r} {A.c} {fmtQs A.e.flatten}"

/-! ### certificate checkers (soundness theorems: GstProofs/LinAlg) -/

/-- `‖A·x − b‖∞ ≤ τ·(‖A‖∞·‖x‖∞·n + ‖b‖∞)` -/
def checkSolve (tau : Q) (A : Mat) (x b : List Q) : Bool :=
  let r := A.mulVec x
  let scale := A.maxAbs * vmaxAbs x * (A.c : Q) + vmaxAbs b
  vclose (tau * maxQ scale 1) r b

/-- `A·B ≈ I` and `B·A ≈ I` -/
def checkInverse (tau : Q) (A B : Mat) : Bool :=
  let n := A.r
  let scale := maxQ 1 (A.maxAbs * B.maxAbs * (n : Q))
  (A.mul B).close (tau * scale) (Mat.id n) && (B.mul A).close (tau * scale) (Mat.id n)

/-- `L` lower triangular, `L·Lᵀ ≈ A` -/
def checkCholesky (tau : Q) (A L : Mat) : Bool :=
  L.isLower && (L.mul L.transpose).close (tau * maxQ 1 (A.maxAbs * (A.r : Q))) A

/-- `VᵀV ≈ I`, `A·V ≈ V·diag d` -/
def checkEigen (tau : Q) (A V : Mat) (d : List Q) : Bool :=
  let n := A.r
  let sc := maxQ 1 (A.maxAbs * (n : Q))
  (V.transpose.mul V).close (tau * (n : Q)) (Mat.id n) && (A.mul V).close (tau * sc) (V.mul (Mat.diag d))

/-- exact `LDLᵀ` of a symmetric rational matrix without pivoting; `none` when a zero pivot meets a
non-zero column (the matrix is then not PSD or needs pivoting).  Returns the pivots `d`. -/
def ldlPivots : Nat → Mat → List Q → Option (List Q)
  | 0, _, acc => some acc.reverse
  | fuel+1, A, acc =>
    if A.r = 0 then some acc.reverse else
    let p := A.get 0 0
    let col := (List.range (A.r - 1)).map fun i => A.get (i + 1) 0
    if p = 0 then
      if col.all (· == 0) then
        ldlPivots fuel (Mat.ofFn (A.r - 1) (A.r - 1) fun i j => A.get (i + 1) (j + 1)) (0 :: acc)
      else none
    else
      let S := Mat.ofFn (A.r - 1) (A.r - 1) fun i j => A.get (i + 1) (j + 1) - A.get (i + 1) 0 * A.get 0 (j + 1) / p
      ldlPivots fuel S (p :: acc)

/-- PSD certificate: symmetric and every pivot of the exact `LDLᵀ` of `A + τ·I` is ≥ 0 -/
def checkPSD (tau : Q) (A : Mat) : Bool :=
  A.isSymm &&
  match ldlPivots (A.r + 1) (A.add (Mat.smul tau (Mat.id A.r))) [] with
  | some d => d.all (· ≥ 0)
  | none => false

/-- exact rank by fraction-free-less Gaussian elimination over ℚ (rows as lists) -/
def rankRows : Nat → List (List Q) → Nat
  | 0, _ => 0
  | fuel+1, rows =>
    match rows with
    | [] => 0
    | r0 :: _ =>
      if r0.isEmpty then 0 else
      -- find a row with non-zero first entry
      match rows.find? (fun r => r.headD 0 != 0) with
      | none => rankRows fuel (rows.map List.tail)
      | some piv =>
        let p := piv.headD 1
        let rest := (rows.filter (fun r => r != piv || r.headD 0 == 0)).filter (fun r => !(r == piv))
        let others := rows.eraseIdx ((rows.findIdx? (· == piv)).getD 0)
        let _ := rest
        let reduced := others.map fun r =>
          let f := r.headD 0 / p
          (List.zipWith (fun a b => a - f * b) r piv).tail
        1 + rankRows fuel reduced

def Mat.rank (A : Mat) : Nat := rankRows (A.c + 1) A.e

/-- exact inverse over ℚ by Gauss-Jordan elimination on the augmented rows `[A | I]`; `none` for a
singular (or non-square) matrix.  Only used to measure a condition number when a residual
certificate fails at its base tolerance. -/
def gaussJordan : Nat → Nat → List (List Q) → Option (List (List Q))
  | 0, _, rows => some rows
  | fuel+1, c, rows =>
    if c ≥ rows.length then some rows else
    -- pivot: first row at or below `c` with a non-zero entry in column `c`
    match (List.range rows.length).find? (fun i => i ≥ c && (rows.getD i []).getD c 0 != 0) with
    | none => none
    | some pi =>
      let prow := rows.getD pi []
      let p := prow.getD c 1
      let prow' := prow.map (· / p)
      let swapped := (rows.set pi (rows.getD c [])).set c prow'
      let cleared := (List.range swapped.length).map fun i =>
        let r := swapped.getD i []
        if i = c then r else
        let f := r.getD c 0
        if f = 0 then r else List.zipWith (fun a b => a - f * b) r prow'
      gaussJordan fuel (c + 1) cleared

def Mat.inverse? (A : Mat) : Option Mat :=
  if A.r ≠ A.c then none else
  let n := A.r
  let aug := (List.range n).map fun i => (List.range n).map (A.get i) ++ (List.range n).map (fun j => if i = j then (1 : Q) else 0)
  (gaussJordan (n + 1) 0 aug).map fun rows => { r := n, c := n, e := rows.map (·.drop n) }

/-- infinity norm (largest absolute row sum) -/
def Mat.normInf (A : Mat) : Q := A.e.foldl (fun m row => maxQ m (row.foldl (fun s x => s + absQ x) 0)) 0

/-- condition number `‖A‖∞ ‖A⁻¹‖∞` (exact), `none` for a singular matrix -/
def Mat.cond? (A : Mat) : Option Q := A.inverse?.map fun B => A.normInf * B.normInf

end GstVerif.LinAlg
