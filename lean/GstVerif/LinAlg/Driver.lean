import GstVerif.LinAlg.Mat
/- line protocol of the matrix / vector models (property C11; checkers reused by C01, C15, C17, C18) -/
namespace GstVerif.LinAlg
open GstVerif

def tolCert : Q := pow2 (-36)

def pbool (s : String) : Option Bool := if s = "1" then some true else if s = "0" then some false else none

def verdictM (model impl : Mat) : String :=
  if model == impl then "ok" else s!"bad model={fmtMat model}"
def verdictV (model impl : List Q) : String :=
  if model == impl then "ok" else s!"bad model={fmtQs model}"

/-! vector helpers (VectorHelper.cpp), undefined values absent -/
def vsum (x : List Q) : Q := x.sum
def vmean (x : List Q) : Q := x.sum / (x.length : Q)
def vvar (x : List Q) (byN : Bool) : Q :=
  let n : Q := x.length
  let m := x.sum / n
  let s2 := (x.map fun v => v * v).sum
  if byN then s2 / n - m * m else (s2 - n * m * m) / (n - 1)
def vmaxL (x : List Q) : Q := x.foldl maxQ (x.headD 0)
def vminL (x : List Q) : Q := x.foldl minQ (x.headD 0)
def vcumsum (x : List Q) (addZero : Bool) : List Q :=
  let go := (x.foldl (fun (acc : Q × List Q) v => (acc.1 + v, (acc.1 + v) :: acc.2)) (0, [])).2.reverse
  if addZero then 0 :: go else go
def vsort (x : List Q) (asc : Bool) : List Q :=
  if asc then x.mergeSort (fun a b => a ≤ b) else x.mergeSort (fun a b => a ≥ b)
def vorder (x : List Q) (asc : Bool) : List Nat :=
  let idx := List.range x.length
  if asc then idx.mergeSort (fun i j => x.getD i 0 ≤ x.getD j 0)
  else idx.mergeSort (fun i j => x.getD i 0 ≥ x.getD j 0)
def vunique (x : List Q) : List Q := (vsort x true).eraseDups
def visSorted (asc : Bool) : List Q → Bool
  | a :: b :: rest => (if asc then b > a else b < a) && visSorted asc (b :: rest)
  | _ => true
def vmedian (x : List Q) : Q :=
  let s := vsort x true
  let n := s.length
  if n % 2 = 1 then s.getD (n / 2) 0 else (s.getD (n / 2) 0 + s.getD (n / 2 - 1) 0) / 2

def handle (args : List String) (impl : List String) : String :=
  match args, impl with
  | ["mm", ta, tb, r1, c1, v1, r2, c2, v2], [r3, c3, v3] =>
    match pbool ta, pbool tb, parseMat? r1 c1 v1, parseMat? r2 c2 v2, parseMat? r3 c3 v3 with
    | some ta, some tb, some A, some B, some C => verdictM ((A.op ta).mul (B.op tb)) C
    | _, _, _, _, _ => "bad-op"
  | ["mv", t, r1, c1, v1, x], [y] =>
    match pbool t, parseMat? r1 c1 v1, parseQs? x, parseQs? y with
    | some t, some A, some x, some y => verdictV ((A.op t).mulVec x) y
    | _, _, _, _ => "bad-op"
  | ["vm", t, r1, c1, v1, x], [y] =>
    match pbool t, parseMat? r1 c1 v1, parseQs? x, parseQs? y with
    | some t, some A, some x, some y => verdictV (Mat.vecMul x (A.op t)) y
    | _, _, _, _ => "bad-op"
  | ["tr", r1, c1, v1], [r3, c3, v3] =>
    match parseMat? r1 c1 v1, parseMat? r3 c3 v3 with
    | some A, some C => verdictM A.transpose C
    | _, _ => "bad-op"
  | ["lin", a, r1, c1, v1, b, r2, c2, v2], [r3, c3, v3] =>
    match parseQ? a, parseQ? b, parseMat? r1 c1 v1, parseMat? r2 c2 v2, parseMat? r3 c3 v3 with
    | some a, some b, some A, some B, some C => verdictM (Mat.lin a A b B) C
    | _, _, _, _, _ => "bad-op"
  | [op, a, r1, c1, v1], [r3, c3, v3] =>
    match parseMat? r1 c1 v1, parseMat? r3 c3 v3 with
    | some A, some C =>
      if op = "scal" then (match parseQ? a with | some a => verdictM (Mat.smul a A) C | none => "bad-op")
      else if op = "adds" then (match parseQ? a with | some a => verdictM (A.addScalar a) C | none => "bad-op")
      else match parseQs? a with
        | none => "bad-op"
        | some v =>
          if op = "mrow" then verdictM (A.scaleRows v) C
          else if op = "mcol" then verdictM (A.scaleCols v) C
          else if op = "drow" then verdictM (A.divRows v) C
          else if op = "dcol" then verdictM (A.divCols v) C
          else if op = "setdiag" then verdictM (A.setDiag v) C
          else "bad-op"
    | _, _ => "bad-op"
  | ["norm", t, r1, c1, v1, r2, c2, v2], [r3, c3, v3] =>
    -- transpose = true: t(A)·M·A ; false: A·M·t(A)   (AMatrix::prodNormMatMatInPlace)
    match pbool t, parseMat? r1 c1 v1, parseMat? r2 c2 v2, parseMat? r3 c3 v3 with
    | some t, some A, some M, some C =>
      verdictM (if t then (A.transpose.mul M).mul A else (A.mul M).mul A.transpose) C
    | _, _, _, _ => "bad-op"
  | ["normv", t, r1, c1, v1, d], [r3, c3, v3] =>
    match pbool t, parseMat? r1 c1 v1, parseQs? d, parseMat? r3 c3 v3 with
    | some t, some A, some d, some C =>
      let n := if t then A.r else A.c
      let D := if d.isEmpty then Mat.id n else Mat.diag d
      verdictM (if t then (A.transpose.mul D).mul A else (A.mul D).mul A.transpose) C
    | _, _, _, _ => "bad-op"
  -- MatrixRectangular::sample(A, rowKeep, colKeep, flagInvertRow, flagInvertCol): empty list = all;
  -- inverted list = complement in increasing order; impl `- - -` = null pointer (nothing left)
  | ["samp", ir, ic, rows, cols, r1, c1, v1], [r3, c3, v3] =>
    match pbool ir, pbool ic, parseNats? rows, parseNats? cols, parseMat? r1 c1 v1 with
    | some ir, some ic, some rows, some cols, some A =>
      let pick := fun (n : Nat) (keep : List Nat) (inv : Bool) =>
        let base := if keep.isEmpty then List.range n else keep
        if inv then (List.range n).filter (fun i => !(base.contains i)) else base
      let rs := pick A.r rows ir
      let cs := pick A.c cols ic
      if rs.isEmpty || cs.isEmpty then (if r3 = "-" then "ok" else "bad model=null")
      else match parseMat? r3 c3 v3 with
        | some C => verdictM (A.sub rs cs) C
        | none => s!"bad model={fmtMat (A.sub rs cs)}"
    | _, _, _, _, _ => "bad-op"
  | ["sub", rows, cols, r1, c1, v1], [r3, c3, v3] =>
    match parseNats? rows, parseNats? cols, parseMat? r1 c1 v1, parseMat? r3 c3 v3 with
    | some rows, some cols, some A, some C => verdictM (A.sub rows cols) C
    | _, _, _, _ => "bad-op"
  | [op, k, v, r1, c1, v1], [r3, c3, v3] =>
    match k.toNat?, parseQs? v, parseMat? r1 c1 v1, parseMat? r3 c3 v3 with
    | some k, some v, some A, some C =>
      if op = "setrow" then verdictM (A.setRow k v) C
      else if op = "setcol" then verdictM (A.setCol k v) C
      else "bad-op"
    | _, _, _, _ => "bad-op"
  | ["inv", r1, c1, v1], [r3, c3, v3] =>
    match parseMat? r1 c1 v1, parseMat? r3 c3 v3 with
    | some A, some B => if checkInverse tolCert A B then "ok" else "bad inverse-certificate"
    | _, _ => "bad-op"
  | ["solve", r1, c1, v1, b], [x] =>
    match parseMat? r1 c1 v1, parseQs? b, parseQs? x with
    | some A, some b, some x => if checkSolve tolCert A x b then "ok" else "bad solve-certificate"
    | _, _, _ => "bad-op"
  | ["chol", r1, c1, v1], [r3, c3, v3] =>
    match parseMat? r1 c1 v1, parseMat? r3 c3 v3 with
    | some A, some L => if checkCholesky tolCert A L then "ok" else "bad cholesky-certificate"
    | _, _ => "bad-op"
  | ["eig", r1, c1, v1], [d, r3, c3, v3] =>
    match parseMat? r1 c1 v1, parseQs? d, parseMat? r3 c3 v3 with
    | some A, some d, some V => if checkEigen tolCert A V d then "ok" else "bad eigen-certificate"
    | _, _, _ => "bad-op"
  -- vectors
  | ["v1", op, x], [y] =>
    match parseQs? x, parseQ? y with
    | some x, some y =>
      let m : Option Q :=
        if op = "sum" then some (vsum x) else if op = "mean" then some (vmean x)
        else if op = "max" then some (vmaxL x) else if op = "min" then some (vminL x)
        else if op = "var" then some (vvar x false) else if op = "varn" then some (vvar x true)
        else if op = "median" then some (vmedian x) else if op = "norm2" then some (dotQ x x)
        else none
      match m with
      | some m => if m == y then "ok" else s!"bad model={fmtRat m}"
      | none => "bad-op"
    | _, _ => "bad-op"
  | ["v2", op, x, y], [z] =>
    match parseQs? x, parseQs? y with
    | some x, some y =>
      if op = "inner" then
        match parseQ? z with | some z => (if dotQ x y == z then "ok" else s!"bad model={fmtRat (dotQ x y)}") | none => "bad-op"
      else match parseQs? z with
        | none => "bad-op"
        | some z =>
          let f : Option (Q → Q → Q) :=
            if op = "add" then some (· + ·) else if op = "sub" then some (fun a b => b - a)   -- `subtract(veca, vecb)` is documented as vecb − veca
            else if op = "mul" then some (· * ·) else if op = "div" then some (· / ·) else none
          match f with
          | some f => verdictV (List.zipWith f x y) z
          | none => "bad-op"
    | _, _ => "bad-op"
  | ["vl", op, flag, x], [z] =>
    match pbool flag, parseQs? x with
    | some flag, some x =>
      if op = "sort" then (match parseQs? z with | some z => verdictV (vsort x flag) z | none => "bad-op")
      else if op = "cumsum" then (match parseQs? z with | some z => verdictV (vcumsum x flag) z | none => "bad-op")
      else if op = "unique" then (match parseQs? z with | some z => verdictV (vunique x) z | none => "bad-op")
      else if op = "order" then
        (match parseNats? z with | some z => (if vorder x flag == z then "ok" else s!"bad model={fmtNats (vorder x flag)}") | none => "bad-op")
      else if op = "issorted" then
        (match pbool z with | some z => (if visSorted flag x == z then "ok" else "bad model") | none => "bad-op")
      else "bad-op"
    | _, _ => "bad-op"
  | _, _ => "bad-op"

end GstVerif.LinAlg
