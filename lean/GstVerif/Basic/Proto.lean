/-
  Line-protocol helpers shared by all model drivers.

  Numbers cross the boundary exactly:
    * integers in decimal,
    * finite doubles as dyadics `m:e`  (value = m * 2^e, m ∈ ℤ, e ∈ ℤ),
    * `NA` for the library's TEST value,
    * rationals computed by the model are printed canonically by `fmtRat`
      (`m:e` with odd m when the denominator is a power of two, `p/q` otherwise),
  so textual equality of a model answer and an implementation answer is exact equality.
  Vectors are comma-separated in one token; the empty vector is `-`.
-/
namespace GstVerif

abbrev Q := Rat

def pow2 (e : Int) : Q :=
  if e ≥ 0 then ((2 : Q) ^ e.toNat) else 1 / ((2 : Q) ^ (-e).toNat)

/-- parse `m:e` (dyadic), `p/q`, or a plain integer -/
def parseQ? (s : String) : Option Q :=
  match s.splitOn ":" with
  | [m, e] => do
      let m ← m.toInt?
      let e ← e.toInt?
      pure ((m : Q) * pow2 e)
  | [x] =>
      match x.splitOn "/" with
      | [p, q] => do
          let p ← p.toInt?
          let q ← q.toNat?
          if q = 0 then none else pure (mkRat p q)
      | [p] => do let p ← p.toInt?; pure (p : Q)
      | _ => none
  | _ => none

/-- optional value: `NA` is the undefined value -/
def parseOQ? (s : String) : Option (Option Q) :=
  if s = "NA" then some none else (parseQ? s).map some

def parseList? {α} (f : String → Option α) (s : String) : Option (List α) :=
  if s = "-" then some [] else (s.splitOn ",").mapM f

def parseInts? (s : String) : Option (List Int) := parseList? String.toInt? s
def parseNats? (s : String) : Option (List Nat) := parseList? String.toNat? s
def parseQs?   (s : String) : Option (List Q)   := parseList? parseQ? s
def parseOQs?  (s : String) : Option (List (Option Q)) := parseList? parseOQ? s

/-- number of trailing zero bits of a positive natural, with fuel -/
def tz : Nat → Nat → Nat
  | 0, _ => 0
  | fuel+1, n => if n = 0 then 0 else if n % 2 = 0 then tz fuel (n / 2) + 1 else 0

def isPow2 (n : Nat) : Bool := n != 0 && (n &&& (n - 1)) == 0

/-- canonical text of a rational -/
def fmtRat (q : Q) : String :=
  if q = 0 then "0:0" else
  let d := q.den
  if isPow2 d then
    let k := tz 4096 d              -- d = 2^k
    if k = 0 then
      let a := q.num.natAbs
      let t := tz 4096 a
      let m : Int := q.num / ((2 : Int) ^ t)
      s!"{m}:{t}"
    else s!"{q.num}:-{k}"
  else s!"{q.num}/{d}"

/-- human-readable decimal approximation (6 decimals, truncated), for messages only -/
def fmtApprox (q : Q) : String :=
  let neg := q < 0
  let a := if neg then -q else q
  let scaled : Nat := ((a * 1000000).floor).toNat
  let ip := scaled / 1000000
  let fp := scaled % 1000000
  let fs := toString fp
  let pad := String.ofList (List.replicate (6 - fs.length) '0')
  (if neg then "-" else "") ++ toString ip ++ "." ++ pad ++ fs

def fmtOQ : Option Q → String
  | none => "NA"
  | some q => fmtRat q

def fmtList {α} (f : α → String) (l : List α) : String :=
  if l.isEmpty then "-" else ",".intercalate (l.map f)

def fmtInts (l : List Int) : String := fmtList toString l
def fmtNats (l : List Nat) : String := fmtList toString l
def fmtQs (l : List Q) : String := fmtList fmtRat l
def fmtBool (b : Bool) : String := if b then "1" else "0"

def absQ (q : Q) : Q := if q < 0 then -q else q
def maxQ (a b : Q) : Q := if a < b then b else a
def minQ (a b : Q) : Q := if a < b then a else b

/-- `|a - b| ≤ tol * max(1, |a|, |b|)` -/
def closeQ (tol a b : Q) : Bool :=
  absQ (a - b) ≤ tol * maxQ 1 (maxQ (absQ a) (absQ b))

/-- split a request line into blank-separated tokens -/
def tokens (line : String) : List String :=
  (line.trimAscii.toString.splitOn " ").filter (· ≠ "")

end GstVerif
