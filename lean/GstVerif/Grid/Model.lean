import GstVerif.Basic.Proto
/-
  Model of `Grid` (src/Basic/Grid.cpp): rank/indices/coordinates conversions and derived grids.
  Functional transcription; integers are unbounded `Int` (C++ `int`; overflow is outside the
  model and probed by the harness), reals are an arbitrary value type — executable instance ℚ.

  The rotation is carried as a pair of functions `rot`, `rinv` (C++: `_rotMat * v`, `_rotInv * v`);
  the executable instance uses `mulVec R` / `mulVec Rᵀ` with the matrix exported by the library.
-/
namespace GstVerif.Grid

/-! ### rank ↔ indices  (`Grid::indiceToRank`, `Grid::rankToIndice`) -/

/-- all indices inside `[0, nx_k)` and same length -/
def inRange : List Int → List Int → Bool
  | [], [] => true
  | n :: nx, i :: ind => (0 ≤ i && i < n) && inRange nx ind
  | _, _ => false

/-- Horner form used by the C++ loop: `ind[0] + nx[0]*(ind[1] + nx[1]*(…))` -/
def hornerRank : List Int → List Int → Int
  | n :: nx, i :: ind => i + n * hornerRank nx ind
  | _, _ => 0

/-- `Grid::indiceToRank`: `-1` as soon as one index is out of range -/
def indiceToRank (nx ind : List Int) : Int :=
  if inRange nx ind then hornerRank nx ind else -1

/-- `Grid::rankToIndice` loop: processes the last dimension first; `pre` is `nval` (product of
the `nx` of the lower dimensions).  Returns the indices and the remaining rank. C++ `/` on `int`
truncates toward zero (`Int.tdiv`). -/
def rankToIndiceGo (pre : Int) : List Int → Int → List Int × Int
  | [], rank => ([], rank)
  | n :: nx, rank =>
    let (inds, rank') := rankToIndiceGo (pre * n) nx rank
    let newind := Int.tdiv rank' pre
    (newind :: inds, rank' - newind * pre)

def rankToIndice (nx : List Int) (rank : Int) : List Int := (rankToIndiceGo 1 nx rank).1

def prodL : List Int → Int
  | [] => 1
  | n :: nx => n * prodL nx

/-! ### indices ↔ coordinates -/

section Real
variable {K : Type} [Add K] [Sub K] [Mul K] [Div K]

def zipAdd : List K → List K → List K
  | a :: as, b :: bs => (a + b) :: zipAdd as bs
  | _, _ => []
def zipSub : List K → List K → List K
  | a :: as, b :: bs => (a - b) :: zipSub as bs
  | _, _ => []
def zipMul : List K → List K → List K
  | a :: as, b :: bs => (a * b) :: zipMul as bs
  | _, _ => []
def zipDiv : List K → List K → List K
  | a :: as, b :: bs => (a / b) :: zipDiv as bs
  | _, _ => []

end Real

/-- grid-frame vector of `Grid::indicesToCoordinateInPlace`: `(indice + percent) * dx`
(`percent` empty ⇒ no shift) -/
def gridVec (dx : List Q) (ind : List Int) (percent : List Q) : List Q :=
  let base : List Q := ind.map (fun (i : Int) => (i : Q))
  let shifted := if percent.isEmpty then base else zipAdd base percent
  zipMul shifted dx

/-- `Grid::indicesToCoordinateInPlace` -/
def indicesToCoordinate (rot : List Q → List Q) (dx x0 : List Q)
    (ind : List Int) (percent : List Q) : List Q :=
  zipAdd (rot (gridVec dx ind percent)) x0

/-- per-axis index of `Grid::coordinateToIndicesInPlace` -/
def cellIndex (centered : Bool) (eps : Q) (w d : Q) : Int :=
  if centered then (w / d + 1/2 + eps).floor else (w / d + eps).floor

def cellIndices (centered : Bool) (eps : Q) : List Q → List Q → List Int
  | w :: ws, d :: ds => cellIndex centered eps w d :: cellIndices centered eps ws ds
  | _, _ => []

/-- `Grid::coordinateToIndicesInPlace`: indices and the `outside` flag -/
def coordinateToIndices (rinv : List Q → List Q) (nx : List Int) (dx x0 : List Q)
    (coor : List Q) (centered : Bool) (eps : Q) : List Int × Bool :=
  let w2 := rinv (zipSub coor x0)
  let ind := cellIndices centered eps w2 dx
  (ind, !(inRange nx ind))

/-- `Grid::coordinateToRank` -/
def coordinateToRank (rinv : List Q → List Q) (nx : List Int) (dx x0 : List Q)
    (coor : List Q) (centered : Bool) (eps : Q) : Int :=
  let (ind, out) := coordinateToIndices rinv nx dx x0 coor centered eps
  if out then -1 else indiceToRank nx ind

/-- `Grid::rankToCoordinates` -/
def rankToCoordinates (rot : List Q → List Q) (nx : List Int) (dx x0 : List Q)
    (rank : Int) (percent : List Q) : List Q :=
  indicesToCoordinate rot dx x0 (rankToIndice nx rank) percent

/-! ### matrices as row lists (executable rotation) -/

def dot : List Q → List Q → Q
  | a :: as, b :: bs => a * b + dot as bs
  | _, _ => 0

def mulVec (M : List (List Q)) (v : List Q) : List Q := M.map (fun row => dot row v)

def transpose : List (List Q) → List (List Q)
  | [] => []
  | r :: rs =>
    match rs with
    | [] => r.map (fun x => [x])
    | _ => List.zipWith (fun x col => x :: col) r (transpose rs)

/-! ### mirror index (`Grid::generateMirrorIndex`) -/

/-- one pass of the `while` body -/
def mirrorStep (nx ix : Int) : Int :=
  if ix < 0 then -ix else if ix > nx - 1 then 2 * (nx - 1) - ix else ix

/-- the loop with fuel; `mirror_terminates` (proofs) shows `|ix| + 1` steps always suffice for `nx ≥ 2`-/
def mirrorGo : Nat → Int → Int → Option Int
  | 0, _, _ => none
  | fuel+1, nx, ix =>
    if ix < 0 ∨ ix ≥ nx then mirrorGo fuel nx (mirrorStep nx ix) else some ix

def mirrorIndex (nx ix : Int) : Option Int := mirrorGo (ix.natAbs + 2) nx ix

/-! ### derived grids -/

structure Derived where
  nx : List Int
  dx : List Q
  x0 : List Q
deriving Repr

/-- `Grid::dilate` (mode = ±1).  `none` when the C++ returns early. -/
def dilate (rot : List Q → List Q) (nx : List Int) (dx x0 : List Q)
    (mode : Int) (nshift : List Int) : Option Derived :=
  if mode ≠ 1 ∧ mode ≠ -1 then none else
  let nx' := List.zipWith (fun n s => n + 2 * mode * s) nx nshift
  if nx'.any (· ≤ 0) then none else
  let ind := nshift.map (fun s => -mode * s)
  some { nx := nx', dx := dx, x0 := indicesToCoordinate rot dx x0 ind [] }

/-- specification of `Grid::multiple` (coarsening): node `j` of the result is the centre of the
block of parent cells `j·m … j·m+m−1` (flagCell) or parent node `j·m` (point matching).  -/
def multipleSpec (rot : List Q → List Q) (nx : List Int) (dx x0 : List Q)
    (nmult : List Int) (flagCell : Bool) : Derived :=
  let nx' := List.zipWith (fun n m => if flagCell then n / m else 1 + (n - 1) / m) nx nmult
  let dx' := List.zipWith (fun d (m : Int) => d * (m : Q)) dx nmult
  let zero := nx.map (fun _ => (0 : Int))
  let perc : List Q := nmult.map (fun (m : Int) => ((m : Q) - 1) / 2)
  let x0' := if flagCell then indicesToCoordinate rot dx x0 zero perc else x0
  { nx := nx', dx := dx', x0 := x0' }

/-- specification of `Grid::divider` (refinement): node 0 of the result is the centre of the
first sub-cell of parent cell 0 (flagCell) or parent node 0. -/
def dividerSpec (rot : List Q → List Q) (nx : List Int) (dx x0 : List Q)
    (nmult : List Int) (flagCell : Bool) : Derived :=
  let nx' := List.zipWith (fun n m => if flagCell then n * m else 1 + (n - 1) * m) nx nmult
  let dx' := List.zipWith (fun d (m : Int) => d / (m : Q)) dx nmult
  let zero := nx.map (fun _ => (0 : Int))
  let perc : List Q := nmult.map (fun (m : Int) => (1 / (m : Q) - 1) / 2)
  let x0' := if flagCell then indicesToCoordinate rot dx x0 zero perc else x0
  { nx := nx', dx := dx', x0 := x0' }

end GstVerif.Grid
