import GstVerif.Grid.Model
/- line-protocol front end of the Grid model (property C16) -/
namespace GstVerif.Grid
open GstVerif

def tolCoord : Q := pow2 (-40)
def marginFloor : Q := pow2 (-30)

def chunk (n : Nat) : Nat → List Q → List (List Q)
  | 0, _ => []
  | k+1, l => l.take n :: chunk n k (l.drop n)

/-- rotation token: `-` = no rotation, else row-major matrix -/
def parseRot (ndim : Nat) (s : String) : Option (Option (List (List Q))) :=
  if s = "-" then some none else do
    let l ← parseQs? s
    if l.length ≠ ndim * ndim then none else pure (some (chunk ndim ndim l))

def rotOf : Option (List (List Q)) → List Q → List Q
  | none => id
  | some R => mulVec R
def rinvOf : Option (List (List Q)) → List Q → List Q
  | none => id
  | some R => mulVec (transpose R)

def maxAbs (l : List Q) : Q := l.foldl (fun m x => maxQ m (absQ x)) 0

def closeVec (scale : Q) : List Q → List Q → Bool
  | [], [] => true
  | a :: as, b :: bs => absQ (a - b) ≤ tolCoord * scale && closeVec scale as bs
  | _, _ => false

def gridScale (nx : List Int) (dx x0 : List Q) : Q :=
  1 + maxAbs x0 + maxAbs dx * (1 + maxAbs (nx.map (fun (n : Int) => (n : Q))))

/-- distance of a rational to the nearest integer -/
def fracMargin (q : Q) : Q :=
  let f := q - (q.floor : Q)
  minQ f (1 - f)

def verdict (ok : Bool) (model : String) : String :=
  if ok then "ok" else s!"bad model={model}"

def parseBool? (s : String) : Option Bool :=
  if s = "1" then some true else if s = "0" then some false else none

/-- returns the verdict line for one request; `impl` is the text after `=>` -/
def handle (args : List String) (impl : List String) : String :=
  match args, impl with
  | ["r2i", nx, rank], [ind] =>
    match parseInts? nx, rank.toInt?, parseInts? ind with
    | some nx, some rank, some ind =>
      let m := rankToIndice nx rank
      verdict (m == ind) (fmtInts m)
    | _, _, _ => "bad-op"
  | ["i2r", nx, ind], [rank] =>
    match parseInts? nx, parseInts? ind, rank.toInt? with
    | some nx, some ind, some rank =>
      let m := indiceToRank nx ind
      verdict (m == rank) (toString m)
    | _, _, _ => "bad-op"
  | ["i2c", rot, nx, dx, x0, ind, perc], [coor] =>
    match parseInts? nx with
    | none => "bad-op"
    | some nx =>
    match parseRot nx.length rot, parseQs? dx, parseQs? x0, parseInts? ind, parseQs? perc, parseQs? coor with
    | some R, some dx, some x0, some ind, some perc, some coor =>
      let m := indicesToCoordinate (rotOf R) dx x0 ind perc
      let sc := gridScale (nx ++ ind) dx x0
      verdict (closeVec sc m coor) (fmtQs m)
    | _, _, _, _, _, _ => "bad-op"
  | ["r2c", rot, nx, dx, x0, rank, perc], [coor] =>
    match parseInts? nx with
    | none => "bad-op"
    | some nx =>
    match parseRot nx.length rot, parseQs? dx, parseQs? x0, rank.toInt?, parseQs? perc, parseQs? coor with
    | some R, some dx, some x0, some rank, some perc, some coor =>
      let m := rankToCoordinates (rotOf R) nx dx x0 rank perc
      verdict (closeVec (gridScale nx dx x0) m coor) (fmtQs m)
    | _, _, _, _, _, _ => "bad-op"
  | ["c2i", rot, nx, dx, x0, coor, cen, eps], [ind, out] =>
    match parseInts? nx with
    | none => "bad-op"
    | some nx =>
    match parseRot nx.length rot, parseQs? dx, parseQs? x0, parseQs? coor, parseBool? cen, parseQ? eps,
          parseInts? ind, parseBool? out with
    | some R, some dx, some x0, some coor, some cen, some eps, some ind, some out =>
      -- exact pre-floor values: drop the case when a decision is closer than 2^-30 to a boundary
      let w2 := rinvOf R (zipSub coor x0)
      let pre := (zipDiv w2 dx).map (fun v => v + (if cen then 1/2 else 0) + eps)
      if pre.any (fun v => fracMargin v < marginFloor) then "skip margin" else
      let (mi, mo) := coordinateToIndices (rinvOf R) nx dx x0 coor cen eps
      verdict (mi == ind && mo == out) s!"{fmtInts mi} {fmtBool mo}"
    | _, _, _, _, _, _, _, _ => "bad-op"
  | ["c2r", rot, nx, dx, x0, coor, cen, eps], [rank] =>
    match parseInts? nx with
    | none => "bad-op"
    | some nx =>
    match parseRot nx.length rot, parseQs? dx, parseQs? x0, parseQs? coor, parseBool? cen, parseQ? eps,
          rank.toInt? with
    | some R, some dx, some x0, some coor, some cen, some eps, some rank =>
      let w2 := rinvOf R (zipSub coor x0)
      let pre := (zipDiv w2 dx).map (fun v => v + (if cen then 1/2 else 0) + eps)
      if pre.any (fun v => fracMargin v < marginFloor) then "skip margin" else
      let m := coordinateToRank (rinvOf R) nx dx x0 coor cen eps
      verdict (m == rank) (toString m)
    | _, _, _, _, _, _, _ => "bad-op"
  | ["mirror", nx, ix], [v] =>
    match nx.toInt?, ix.toInt?, v.toInt? with
    | some nx, some ix, some v =>
      match mirrorIndex nx ix with
      | some m => verdict (m == v) (toString m)
      | none => "bad model=diverges"
    | _, _, _ => "bad-op"
  | [kind, rot, nx, dx, x0, nm, flag], [nx', dx', x0'] =>
    match parseInts? nx with
    | none => "bad-op"
    | some nx =>
    match parseRot nx.length rot, parseQs? dx, parseQs? x0, parseInts? nm, flag.toInt?,
          parseInts? nx', parseQs? dx', parseQs? x0' with
    | some R, some dx, some x0, some nm, some flag, some inx, some idx, some ix0 =>
      let d? : Option Derived :=
        if kind = "mult" then some (multipleSpec (rotOf R) nx dx x0 nm (flag != 0))
        else if kind = "div" then some (dividerSpec (rotOf R) nx dx x0 nm (flag != 0))
        else if kind = "dil" then dilate (rotOf R) nx dx x0 flag nm
        -- sub-grid from lower limits `nm` with `flag` kept nodes per dimension… encoded as:
        -- nm = lower indices, flag unused; upper limits are read from the answer's node counts
        else if kind = "subg" then some { nx := inx, dx := dx, x0 := indicesToCoordinate (rotOf R) dx x0 nm [] }
        else none
      match d? with
      | none => "bad-op"
      | some d =>
        let sc := gridScale (nx ++ d.nx) (dx ++ d.dx) x0
        verdict (d.nx == inx && closeVec sc d.dx idx && closeVec sc d.x0 ix0)
          s!"{fmtInts d.nx} {fmtQs d.dx} {fmtQs d.x0}"
    | _, _, _, _, _, _, _, _ => "bad-op"
  | _, _ => "bad-op"

end GstVerif.Grid
