import GstVerif.Calc.Model
import GstVerif.Db.Driver
/- line protocol for calculator atomicity (C19):
   c atomic <calc> <fault> <rc> | <obs dbin before> | <obs dbin after> | <obs dbout before> | <obs dbout after> =>
   an observation is the C07 observation or the single token `none` -/
namespace GstVerif.Calc
open GstVerif GstVerif.Db

def parseState (toks : List String) : Option (Option State) :=
  if toks == ["none"] then some none else (parseObs toks).map fun o => some (stateOfObs false o)

def handle (args : List String) (_impl : List String) : String :=
  match splitOnTok "|" args with
  | ("atomic" :: cname :: fault :: rc :: []) :: a1 :: a2 :: b1 :: b2 :: [] =>
    match parseState a1, parseState a2, parseState b1, parseState b2 with
    | some inA, some inB, some outA, some outB =>
      let failed := rc != "0"
      let chk := fun (nm : String) (x y : Option State) (isOut : Bool) =>
        match x, y with
        | none, none => none
        | some x, some y =>
          if !(inv y) then some s!"bad {cname} fault={fault}: {nm} inconsistent after the call ({invFailure y})"
          else if failed then
            (if sameContent x y then none else
              some s!"bad {cname} fault={fault}: failure reported but {nm} changed: names {y.names} cols={y.uids.length} (before {x.uids.length})")
          else if isOut then
            (if extendsContent x y [1] then none else some s!"bad {cname}: success but pre-existing content of {nm} changed")
          else (if sameContent x y then none else some s!"bad {cname}: success but the input data base changed: names {y.names}")
        | _, _ => some "bad-op"
      -- when the two data bases are the same object (cross-validation …) the harness sends `none` for dbin
      match chk "dbin" inA inB false with
      | some m => m
      | none =>
        match chk "dbout" outA outB true with
        | some m => m
        | none => "ok"
    | _, _, _, _ => "bad-op"
  | _ => "bad-op"

end GstVerif.Calc
