import GstVerif.Db.Model
/-
  Model of the calculator life cycle (src/Calculators/ACalculator.cpp, ACalcDbToDb.cpp,
  ACalcDbVarCreator.cpp) — property C19.

  A calculator is a script of tracked actions on a data base: variable creations (registered in the
  permanent or the temporary list), followed by the stages `run` and `postprocess`; a failure may
  occur after any action (universally quantified index).  On failure `rollback` deletes the
  registered variables (`_cleanVariableDb`); on success `postprocess` deletes the temporary ones.
-/
namespace GstVerif.Calc
open GstVerif GstVerif.Db

/-- variable creation `_addVariableDb(status, UNKNOWN, 0, n, val)`; `perm = true` ⇒ status 1 -/
structure AddVar where
  perm : Bool
  n : Nat
  val : Val
  radix : String := ""

structure CState where
  db : State
  permL : List Nat      -- `_listVariablePerm…`
  tempL : List Nat      -- `_listVariableTemp…`

/-- `_addVariableDb`: `addColumnsByConstant` then registration of the new uids -/
def addVar (c : CState) (a : AddVar) : Option CState :=
  match step c.db (.addc a.n a.val a.radix (-1) 0 1) with
  | none => none
  | some db' =>
    let newU := (List.range a.n).map (· + c.db.nextUid)
    some { db := db', permL := if a.perm then c.permL ++ newU else c.permL,
           tempL := if a.perm then c.tempL else c.tempL ++ newU }

def deleteAll (db : State) (us : List Nat) : State := us.foldl (fun st (u : Nat) => deleteByUid st (u : Int)) db

/-- `_rollback` as repaired: both lists are cleaned -/
def rollback (c : CState) : State := deleteAll (deleteAll c.db c.permL) c.tempL

/-- `_rollback` as shipped: only the permanent list -/
def rollbackPermOnly (c : CState) : State := deleteAll c.db c.permL

/-- successful end: `_cleanVariableDb(2)` -/
def finish (c : CState) : State := deleteAll c.db c.tempL

/-- run the first `k` creations of the script -/
def runPrefix : CState → List AddVar → Nat → Option CState
  | c, _, 0 => some c
  | c, [], _ => some c
  | c, a :: as, k+1 => (addVar c a).bind fun c' => runPrefix c' as k

/-- content equality of two data bases (the uid counter `nextUid`, which only grows, is not part of
the observable content) -/
def sameContent (a b : State) : Bool :=
  a.nech == b.nech && a.uids == b.uids && a.names == b.names && a.cols == b.cols && a.loc == b.loc

/-- success rule: every pre-existing column keeps uid, name and values; new columns are appended;
roles may change only for the new columns and for the role type `zloc` that the naming convention
hands over to the outputs -/
def extendsContent (before after : State) (zlocs : List Nat) : Bool :=
  before.nech == after.nech &&
  after.uids.take before.uids.length == before.uids &&
  after.names.take before.names.length == before.names &&
  after.cols.take before.cols.length == before.cols &&
  (List.range NLOC).all fun t =>
    zlocs.contains t ||
    (after.loc.getD t []).filter (fun u => before.uids.contains u) == (before.loc.getD t [])

end GstVerif.Calc
