import GstVerif.Basic.Proto
/-
  Model of the moving-neighbourhood selection (src/Neigh/NeighMoving.cpp: `_moving`,
  `_movingSectorNsmax`, `_movingSelect`, `ANeigh::_neighCompress`) and of the k-nearest-neighbour
  specification of the ball tree — property C06.

  A candidate is an admissible sample (active, not all-undefined, not the cross-validation target,
  accepted by the pair checkers, within the radius): its storage rank, its distance to the target
  (the library's anisotropic distance, an exact double) and its angular sector.  Candidates come in
  storage order; ties in distance are excluded by the harness/driver (exact separation test).
-/
namespace GstVerif.Neigh

structure Cand where
  rank : Nat
  dist : Q
  sect : Nat
deriving Repr, BEq

/-- stable insertion sort by distance (`VH::arrangeInPlace` = `std::stable_sort` on indices) -/
def insertByDist (c : Cand) : List Cand → List Cand
  | [] => [c]
  | x :: xs => if c.dist < x.dist then c :: x :: xs else x :: insertByDist c xs

def sortByDist : List Cand → List Cand
  | [] => []
  | c :: cs => insertByDist c (sortByDist cs)

/-- `_movingSectorNsmax`: inside each sector keep the first `nsmax` candidates (closest first) -/
def capSectors (nsmax : Nat) : List Cand → List Nat → List Cand
  -- second argument: running count per sector
  | [], _ => []
  | c :: cs, cnt =>
    let k := cnt.getD c.sect 0
    if k < nsmax then c :: capSectors nsmax cs (cnt.set c.sect (k + 1))
    else capSectors nsmax cs cnt

def countSect (nsect : Nat) (l : List Cand) : List Nat :=
  (List.range nsect).map fun s => (l.filter (·.sect == s)).length

/-- one pass of the `for isect` loop of `_movingSelect`: serve each sector that still has
candidates, stopping as soon as `nmaxi` is reached.  State: quotas, number served so far. -/
def servePass (nmaxi : Nat) (counts : List Nat) : Nat → List Nat → Nat → List Nat × Nat
  | _, [], number => ([], number)
  | s, q :: qs, number =>
    if number ≥ nmaxi then (q :: qs, number)
    else if q ≥ counts.getD s 0 then
      let (r, n') := servePass nmaxi counts (s + 1) qs number
      (q :: r, n')
    else
      let (r, n') := servePass nmaxi counts (s + 1) qs (number + 1)
      ((q + 1) :: r, n')

/-- the `while (number < nmaxi)` loop, with fuel (`quota_terminates` in the proofs: `nmaxi` passes
suffice whenever at least `nmaxi` candidates exist) -/
def quotaLoop (nmaxi : Nat) (counts : List Nat) : Nat → List Nat → Nat → List Nat
  | 0, q, _ => q
  | fuel+1, q, number =>
    if number ≥ nmaxi then q
    else
      let (q', n') := servePass nmaxi counts 0 q number
      quotaLoop nmaxi counts fuel q' n'

def quotas (nmaxi : Nat) (counts : List Nat) : List Nat :=
  quotaLoop nmaxi counts (nmaxi + 1) (counts.map fun _ => 0) 0

/-- keep, inside each sector, the first `q_s` candidates -/
def takeQuota (q : List Nat) : List Cand → List Nat → List Cand
  | [], _ => []
  | c :: cs, cnt =>
    let k := cnt.getD c.sect 0
    if k < q.getD c.sect 0 then c :: takeQuota q cs (cnt.set c.sect (k + 1))
    else takeQuota q cs cnt

def insertNat (a : Nat) : List Nat → List Nat
  | [] => [a]
  | x :: xs => if a ≤ x then a :: x :: xs else x :: insertNat a xs
def sortNat : List Nat → List Nat
  | [] => []
  | a :: as => insertNat a (sortNat as)

/-- `NeighMoving::_moving` followed by `_neighCompress`: `none` = fewer than `nmini` candidates
(empty neighbourhood); otherwise the selected storage ranks in increasing order.
`nechTotal` is the number of samples of the data base (first `nmini` test). -/
def moving (nmini nmaxi nsect nsmax nechTotal : Nat) (cands : List Cand) : Option (List Nat) :=
  if nechTotal < nmini then none else
  if cands.length < nmini then none else
  let sorted := sortByDist cands
  let capped := if nsect > 1 ∧ nsmax > 0 then capSectors nsmax sorted (List.replicate nsect 0) else sorted
  let kept :=
    if nmaxi = 0 then capped
    else if capped.length < nmaxi then capped
    else takeQuota (quotas nmaxi (countSect nsect capped)) capped (List.replicate nsect 0)
  some (sortNat (kept.map (·.rank)))

/-- the `k` nearest candidates in increasing distance order (specification of the ball-tree query) -/
def knn (k : Nat) (cands : List Cand) : List Nat := ((sortByDist cands).take k).map (·.rank)

/-- exact separation test: no two candidates closer than `gap` (ties and near-ties are excluded) -/
def separated (gap : Q) (cands : List Cand) : Bool :=
  let s := sortByDist cands
  (s.zip s.tail).all fun (a, b) => b.dist - a.dist > gap

/-- exact sector for `nsect ∈ {1,2,4,8}` from the sign pattern of the increment; `none` on a sector
boundary or for another `nsect` (then the sector is an input) -/
def exactSector (nsect : Nat) (dx dy : Q) : Option Nat :=
  if nsect ≤ 1 then some 0 else
  if dx = 0 ∨ dy = 0 ∨ absQ dx = absQ dy then
    (if dy = 0 ∧ dx > 0 then some 0 else none)
  else
    let oct : Nat :=
      if dx > 0 ∧ dy > 0 then (if dy < dx then 0 else 1)
      else if dx < 0 ∧ dy > 0 then (if -dx < dy then 2 else 3)
      else if dx < 0 ∧ dy < 0 then (if -dy < -dx then 4 else 5)
      else (if dx < -dy then 6 else 7)
    if nsect = 8 then some oct else if nsect = 4 then some (oct / 2) else if nsect = 2 then some (oct / 4) else none

end GstVerif.Neigh
