import GstVerif.Neigh.Model
/- line protocol of the neighbourhood models (C06; reused by C04/C05) -/
namespace GstVerif.Neigh
open GstVerif

def mkCands : List Nat → List Q → List Nat → List Cand
  | r :: rs, d :: ds, s :: ss => { rank := r, dist := d, sect := s } :: mkCands rs ds ss
  | _, _, _ => []

def handle (args : List String) (impl : List String) : String :=
  match args, impl with
  -- n mov nmini nmaxi nsect nsmax nechTotal ranks dists sects dxs dys => selected ranks (or -)
  | ["mov", nmini, nmaxi, nsect, nsmax, ntot, ranks, dists, sects, dxs, dys], [sel] =>
    match nmini.toNat?, nmaxi.toNat?, nsect.toNat?, nsmax.toNat?, ntot.toNat?,
          parseNats? ranks, parseQs? dists, parseNats? sects, parseQs? dxs, parseQs? dys, parseNats? sel with
    | some nmini, some nmaxi, some nsect, some nsmax, some ntot, some ranks, some dists, some sects,
      some dxs, some dys, some sel =>
      let cands := mkCands ranks dists sects
      let dmax := dists.foldl maxQ 0
      -- the library adds distmax·i·1e-9 to the i-th candidate before sorting: require a larger gap
      let gap := dmax * (cands.length + 1 : Nat) * (1 / 500000000 : Q)
      if !(separated gap cands) then "skip near-tie" else
      -- sectors: exact recomputation where the sector count allows it (independent of atan)
      let badSect := (List.range cands.length).find? fun i =>
        match exactSector nsect (dxs.getD i 0) (dys.getD i 0) with
        | some s => s != sects.getD i 0
        | none => false
      let onBoundary := nsect > 1 && (List.range cands.length).any fun i =>
        (nsect == 2 || nsect == 4 || nsect == 8) && (exactSector nsect (dxs.getD i 0) (dys.getD i 0)).isNone
      if onBoundary then "skip sector-boundary" else
      match badSect with
      | some i => s!"bad sector of candidate {ranks.getD i 0}: exact={(exactSector nsect (dxs.getD i 0) (dys.getD i 0)).getD 99}"
      | none =>
        match moving nmini nmaxi nsect nsmax ntot cands with
        | none => if sel.isEmpty then "ok" else "bad model=empty-neighbourhood"
        | some m => if m == sel then "ok" else s!"bad model={fmtNats m}"
    | _, _, _, _, _, _, _, _, _, _, _ => "bad-op"
  -- n knn k ranks dists => indices in increasing distance order
  | ["knn", k, ranks, dists], [idx] =>
    match k.toNat?, parseNats? ranks, parseQs? dists, parseNats? idx with
    | some k, some ranks, some dists, some idx =>
      let cands := mkCands ranks dists (ranks.map fun _ => 0)
      if !(separated 0 cands) then "skip tie" else
      let m := knn k cands
      if m == idx then "ok" else s!"bad model={fmtNats m}"
    | _, _, _, _ => "bad-op"
  | _, _ => "bad-op"

end GstVerif.Neigh
