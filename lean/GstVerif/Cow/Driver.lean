import GstVerif.Cow.Model
/- line protocol of the copy-on-write vector model (C10):
   o seq <op>;<op>;… => <content of handle 0>|<content of handle 1>|…      (`-` = empty vector)
   ops: new:<ints> copy:<h> assign:<h>:<g> set:<h>:<i>:<v> push:<h>:<v> resize:<h>:<n> swap:<h>:<g>
        clear:<h> fill:<h>:<v>:<n> insert:<h>:<i>:<v> remove:<h>:<i> pushfront:<h>:<v> front:<h>:<v> back:<h>:<v> append:<h>:<ints> -/
namespace GstVerif.Cow
open GstVerif

def parseOp (t : String) : Option Op :=
  match t.splitOn ":" with
  | ["new", v] => (parseInts? v).map Op.new
  | ["copy", h] => h.toNat?.map Op.copy
  | ["assign", h, g] => do pure (Op.assign (← h.toNat?) (← g.toNat?))
  | ["set", h, i, v] => do pure (Op.set (← h.toNat?) (← i.toNat?) (← v.toInt?))
  | ["push", h, v] => do pure (Op.push (← h.toNat?) (← v.toInt?))
  | ["resize", h, n] => do pure (Op.resize (← h.toNat?) (← n.toNat?))
  | ["swap", h, g] => do pure (Op.swap (← h.toNat?) (← g.toNat?))
  | ["clear", h] => do pure (Op.upd (← h.toNat?) .clear)
  | ["fill", h, v, n] => do pure (Op.upd (← h.toNat?) (.fill (← v.toInt?) (← n.toNat?)))
  | ["insert", h, i, v] => do pure (Op.upd (← h.toNat?) (.insert (← i.toNat?) (← v.toInt?)))
  | ["remove", h, i] => do pure (Op.upd (← h.toNat?) (.remove (← i.toNat?)))
  | ["pushfront", h, v] => do pure (Op.upd (← h.toNat?) (.pushFront (← v.toInt?)))
  | ["front", h, v] => do pure (Op.upd (← h.toNat?) (.front (← v.toInt?)))
  | ["back", h, v] => do pure (Op.upd (← h.toNat?) (.back (← v.toInt?)))
  | ["append", h, w] => do pure (Op.upd (← h.toNat?) (.append (← parseInts? w)))
  | ["vhadd", h, w] => do pure (Op.upd (← h.toNat?) (.addL (← parseInts? w)))
  | ["vhsub", h, w] => do pure (Op.upd (← h.toNat?) (.subL (← parseInts? w)))
  | ["vhmul", h, w] => do pure (Op.upd (← h.toNat?) (.mulL (← parseInts? w)))
  | ["vhscale", h, c] => do pure (Op.upd (← h.toNat?) (.scale (← c.toInt?)))
  | ["vhshift", h, c] => do pure (Op.upd (← h.toNat?) (.shift (← c.toInt?)))
  | ["vhcum", h] => do pure (Op.upd (← h.toNat?) .cumsum)
  | _ => none

def fmtVals (vals : List Buf) : String := "|".intercalate (vals.map fmtInts)

def handle (args : List String) (impl : List String) : String :=
  match args, impl with
  | ["seq", ops], [obs] =>
    match (ops.splitOn ";").mapM parseOp with
    | some ops =>
      let spec := runSpec ops
      let conc := abs (run ops)
      if conc != spec then s!"bad-op model-inconsistent"     -- excluded by theorem cow_refines
      else if fmtVals spec = obs then "ok" else s!"bad handles differ from value semantics: expected {fmtVals spec}"
    | none => "bad-op"
  -- `T& r = v[0]; w = v; r = 9;` : value semantics keeps w[0] (first argument)
  | ["stale", expected], [obs] =>
    if expected = obs then "ok" else s!"bad a copy shows {obs} after a write through a reference taken on its source before the copy (value semantics: {expected})"
  | _, _ => "bad-op"

end GstVerif.Cow
