import GstVerif.Basic.Proto
/-
  Model of `VectorT<T>` (include/Basic/VectorT.hpp): handles sharing reference-counted buffers,
  copy = share, every mutator detaches first (`_detach`: allocate a private copy when the buffer
  is shared).  Property C10: copies are independent of their source.

  Concrete state: a heap of buffers and, per handle, the index of its buffer.
  Abstract state (specification): the value of each handle (plain value semantics).
-/
namespace GstVerif.Cow

abbrev Buf := List Int

structure St where
  heap : List Buf
  hnd  : List Nat          -- handle i uses buffer `hnd[i]`
deriving Repr, BEq

/-- buffer-level updates performed by the other mutators of `VectorT` (each of them detaches first) -/
inductive Upd where
  | clear                          -- clear()
  | fill (v : Int) (n : Nat)       -- fill(value, size): resize when size > 0, then overwrite every cell
  | insert (i : Nat) (v : Int)     -- insert(i, value), i ≤ size
  | remove (i : Nat)               -- remove(i), i < size
  | pushFront (v : Int)            -- push_front
  | front (v : Int) | back (v : Int)   -- front() = v / back() = v on a non-empty vector
  | append (w : Buf)               -- operator<<(VectorT) / insert(end, first, last)
  -- in-place helpers of VectorHelper applied to a (possibly shared) vector: they must write to a private copy
  | addL (w : Buf) | subL (w : Buf) | mulL (w : Buf)   -- addInPlace / subtractInPlace / multiplyInPlace (same sizes)
  | scale (c : Int) | shift (c : Int) | cumsum         -- multiplyConstant / addConstant / cumulateInPlace
deriving Repr

inductive Op where
  | upd    (h : Nat) (u : Upd)       -- any of the above on handle h
  | new    (v : Buf)                 -- VectorT(vec): a new handle on a new buffer
  | copy   (h : Nat)                 -- VectorT(const VectorT&): a new handle sharing h's buffer
  | assign (h g : Nat)               -- h = g : h shares g's buffer
  | set    (h i : Nat) (v : Int)     -- h[i] = v / setAt
  | push   (h : Nat) (v : Int)       -- push_back
  | resize (h n : Nat)               -- resize(n) (new cells are 0)
  | swap   (h g : Nat)               -- std::swap of the two pointers
deriving Repr

/-- `_v.use_count() > 1`: another handle uses the buffer of `h` -/
def shared (s : St) (h : Nat) : Bool :=
  (List.range s.hnd.length).any fun g => g != h && s.hnd.getD g 0 == s.hnd.getD h 0

def bufOf (s : St) (h : Nat) : Buf := s.heap.getD (s.hnd.getD h 0) []

/-- `_detach`: when the buffer of `h` is shared, `h` gets a private copy appended to the heap -/
def detach (s : St) (h : Nat) : St :=
  let b := s.hnd.getD h 0
  if shared s h then { heap := s.heap ++ [s.heap.getD b []], hnd := s.hnd.set h s.heap.length }
  else s

def setBuf (s : St) (h : Nat) (f : Buf → Buf) : St :=
  let s' := detach s h
  let b := s'.hnd.getD h 0
  { s' with heap := s'.heap.set b (f (s'.heap.getD b [])) }

def resizeBuf (n : Nat) (b : Buf) : Buf := b.take n ++ List.replicate (n - b.length) 0

def applyUpd : Upd → Buf → Buf
  | .clear, _ => []
  | .fill v n, b => List.replicate (if n > 0 then n else b.length) v
  | .insert i v, b => if i ≤ b.length then b.take i ++ v :: b.drop i else b
  | .remove i, b => if i < b.length then b.eraseIdx i else b
  | .pushFront v, b => v :: b
  | .front v, b => if b.isEmpty then b else b.set 0 v
  | .back v, b => if b.isEmpty then b else b.set (b.length - 1) v
  | .append w, b => b ++ w
  | .addL w, b => if w.length = b.length then List.zipWith (· + ·) b w else b
  | .subL w, b => if w.length = b.length then List.zipWith (· - ·) b w else b
  | .mulL w, b => if w.length = b.length then List.zipWith (· * ·) b w else b
  | .scale c, b => b.map (· * c)
  | .shift c, b => b.map (· + c)
  | .cumsum, b => (b.foldl (fun (acc : List Int × Int) x => (acc.1 ++ [x + acc.2], x + acc.2)) ([], 0)).1

/-- one operation; operations on handles that do not exist are ignored -/
def step (s : St) : Op → St
  | .upd h u => if h < s.hnd.length then setBuf s h (applyUpd u) else s
  | .new v => { heap := s.heap ++ [v], hnd := s.hnd ++ [s.heap.length] }
  | .copy h => if h < s.hnd.length then { s with hnd := s.hnd ++ [s.hnd.getD h 0] } else s
  | .assign h g => if h < s.hnd.length ∧ g < s.hnd.length then { s with hnd := s.hnd.set h (s.hnd.getD g 0) } else s
  | .set h i v => if h < s.hnd.length then setBuf s h (fun b => if i < b.length then b.set i v else b) else s
  | .push h v => if h < s.hnd.length then setBuf s h (fun b => b ++ [v]) else s
  | .resize h n => if h < s.hnd.length then setBuf s h (resizeBuf n) else s
  | .swap h g => if h < s.hnd.length ∧ g < s.hnd.length then
      { s with hnd := (s.hnd.set h (s.hnd.getD g 0)).set g (s.hnd.getD h 0) } else s

def init : St := ⟨[], []⟩
def run (ops : List Op) : St := ops.foldl step init

/-- abstraction: the value seen through each handle -/
def abs (s : St) : List Buf := (List.range s.hnd.length).map (bufOf s)

/-! ### specification: plain values -/
def stepSpec (vals : List Buf) : Op → List Buf
  | .upd h u => if h < vals.length then vals.set h (applyUpd u (vals.getD h [])) else vals
  | .new v => vals ++ [v]
  | .copy h => if h < vals.length then vals ++ [vals.getD h []] else vals
  | .assign h g => if h < vals.length ∧ g < vals.length then vals.set h (vals.getD g []) else vals
  | .set h i v => if h < vals.length then vals.set h (let b := vals.getD h []; if i < b.length then b.set i v else b) else vals
  | .push h v => if h < vals.length then vals.set h (vals.getD h [] ++ [v]) else vals
  | .resize h n => if h < vals.length then vals.set h (resizeBuf n (vals.getD h [])) else vals
  | .swap h g => if h < vals.length ∧ g < vals.length then (vals.set h (vals.getD g [])).set g (vals.getD h []) else vals

def runSpec (ops : List Op) : List Buf := ops.foldl stepSpec []

/-! ### a writable reference taken before a copy (`T& r = v[i]`, `data()`, `getVector()`):
the later write goes to the buffer, whoever shares it by then -/
def writeThroughRef (s : St) (b i : Nat) (v : Int) : St :=
  { s with heap := s.heap.set b ((s.heap.getD b []).set i v) }

end GstVerif.Cow
