import GstVerif.Vario.Model
/- line protocol of the variogram specification (C12) -/
namespace GstVerif.Vario
open GstVerif

def kvs (toks : List String) : List (String × String) :=
  toks.filterMap fun t => match t.splitOn "=" with | [k, v] => some (k, v) | _ => none
def look (m : List (String × String)) (k : String) : Option String := (m.find? (·.1 == k)).map (·.2)

def chunk {α} (n : Nat) : Nat → List α → List (List α)
  | 0, _ => []
  | k+1, l => l.take n :: chunk n k (l.drop n)

def tolG : Q := pow2 (-36)
def margin : Q := pow2 (-30)

def handle (args : List String) (impl : List String) : String :=
  match args with
  | "vario" :: rest =>
    let m := kvs rest
    let o := kvs impl
    let r : Option String := do
      let ndim ← (← look m "ndim").toNat?
      let nvar ← (← look m "nvar").toNat?
      let nech ← (← look m "nech").toNat?
      let X ← parseQs? (← look m "X")
      let Z ← parseOQs? (← look m "Z")
      let W ← parseOQs? (← look m "W")
      let act := (← look m "act").toList.map (· == '1')
      let codir ← parseQs? (← look m "codir")
      let psmin ← parseQ? (← look m "psmin")
      let bench ← parseOQ? (← look m "bench")
      let cyl ← parseOQ? (← look m "cylrad")
      let npas ← (← look m "npas").toNat?
      let dpas ← parseQ? (← look m "dpas")
      let toldis ← parseQ? (← look m "toldis")
      let breaks ← (match look m "breaks" with | some b => parseQs? b | none => some [])
      let iv ← (← look m "ivar").toNat?
      let jv ← (← look m "jvar").toNat?
      let sw ← parseQs? (← look o "sw")
      let hh ← parseOQs? (← look o "hh")
      let gg ← parseOQs? (← look o "gg")
      let xs := chunk ndim nech X
      let samples : List Sample := (List.range nech).map fun i =>
        { x := xs.getD i [], z := (List.range nvar).map (fun a => Z.getD (i + a * nech) none),
          w := W.getD i none, active := act.getD i false }
      let d : Dir := { codir := codir, psmin2 := psmin * psmin, bench := bench, cylrad := cyl,
                       npas := npas, dpas := dpas, toldis := toldis, order4 := (look m "calc") == some "order4", breaks := breaks,
                       est := (match look m "calc" with | some "poisson" => 2 | some "madogram" => 3 | some "rodogram" => 4 | _ => 0) }
      -- exclude configurations with a decision too close to a boundary (exact margins)
      let ps := pairsOf (samples.filter usable)
      let risky := ps.any fun (a, b) =>
        let delta := subL a.x b.x
        let d2 := dotL delta delta
        let prod := d2 * dotL codir codir
        d2 > 0 && (!(lagMarginOK d d2 margin) ||
          absQ (sq (dotL delta codir) - d.psmin2 * prod) ≤ margin * prod ||
          (match cyl with | some c => c > 0 && absQ (d2 * prod - d2 * sq (dotL delta codir) - sq c * prod) ≤ margin * prod | none => false))
      if risky then pure "skip decision-margin" else
      if sw.length ≠ npas then pure s!"bad number of lags {sw.length}" else
      -- the mean of the variable reported by the variogram (when the harness gives it)
      let meanBad := match look o "mean" with
        | some t => (match parseOQ? t, meanOf iv samples with
            | some (some mi), some mm => !(closeQ (pow2 (-40)) mm mi)
            | some none, none => false
            | some (some _), none => false      -- no defined value: the library leaves 0
            | _, _ => true)
        | none => false
      if meanBad then pure s!"bad mean of variable {iv}: model={(meanOf iv samples).map fmtRat}" else
      let bad := (List.range npas).findSome? fun k =>
        let (msw, mgg0, terms) := lagDef d iv jv k samples
        let mgg := if d.est = 2 && !d.order4 then (poissonLag d iv jv k samples).2 else mgg0
        -- Poisson pair weights w1 w2 / (w1 + w2) are not dyadic: compared to 2^-40 (all the others exactly)
        if (if d.est = 2 then !(closeQ (pow2 (-40)) msw (sw.getD k 0)) else msw != sw.getD k 0) then some s!"bad lag={k} pair weight: model={fmtRat msw} impl={fmtRat (sw.getD k 0)}"
        else match mgg, gg.getD k none with
          | none, none => none
          | some g, some gi =>
            if !(closeQ tolG g gi) then some s!"bad lag={k} value: model={fmtRat g}"
            else
              let mh := (terms.map fun (w, d2) => w * sqrtQ d2).sum / msw
              match hh.getD k none with
              | some hi => if closeQ (pow2 (-30)) mh hi then none else some s!"bad lag={k} mean distance: model={fmtRat mh}"
              | none => some s!"bad lag={k} mean distance undefined"
          | _, _ => some s!"bad lag={k} defined/undefined mismatch"
      pure (bad.getD "ok")
    r.getD "bad-op"
  | _ => "bad-op"

end GstVerif.Vario
