import GstVerif.Basic.Proto
/-
  Pairwise definition of the experimental (cross-)variogram (specification side of C12) and the
  pair loop of `Vario::_calculateGeneralSolution1` (src/Variogram/Vario.cpp), `DirParam::getLagRank`,
  `BiTargetCheckGeometry::isOK`.  All decisions are made on squared quantities, hence exactly in ℚ
  for dyadic coordinates (no square root is needed to decide a pair or its lag).
-/
namespace GstVerif.Vario

structure Sample where
  x : List Q
  z : List (Option Q)
  w : Option Q          -- weight column (`Db::getWeight`: undefined counts as 1, negative as 0)
  active : Bool

structure Dir where
  codir : List Q
  psmin2 : Q            -- cos²(tolerance angle)
  bench : Option Q
  cylrad : Option Q
  npas : Nat
  dpas : Q
  toldis : Q
  order4 : Bool := false   -- ECalcVario::ORDER4: ½((Δz)(Δz'))² instead of ½(Δz)(Δz')
  breaks : List Q := []    -- irregular lag classes: class k = ]breaks[k], breaks[k+1]]  (empty: regular lags)
  est : Nat := 0           -- estimator when `order4` is off: 0 variogram, 2 Poisson, 3 madogram, 4 rodogram

def sq (a : Q) : Q := a * a
def dotL : List Q → List Q → Q
  | a :: as, b :: bs => a * b + dotL as bs
  | _, _ => 0
def subL : List Q → List Q → List Q
  | a :: as, b :: bs => (a - b) :: subL as bs
  | _, _ => []

/-- `BiTargetCheckGeometry::isOK`, decided on squares: angular tolerance, cylinder, bench -/
def keepPair (d : Dir) (p1 p2 : Sample) : Bool :=
  let delta := subL p1.x p2.x
  let dn1 := dotL delta delta
  if dn1 = 0 then true else
  let dn2 := dotL d.codir d.codir
  let dproj := dotL delta d.codir
  let prod := dn1 * dn2
  -- ps = dproj / sqrt(prod);  |ps| < psmin  ⇔  dproj² < psmin²·prod
  let angOK := !(prod > 0 ∧ sq dproj < d.psmin2 * prod)
  let cylOK := match d.cylrad with
    | some c => if c > 0 ∧ prod > 0 then !(dn1 * prod - dn1 * sq dproj > sq c * prod) else true
    | none => true
  let benchOK := match d.bench with
    | some b => if b > 0 then !(absQ (delta.getLastD 0) > b) else true
    | none => true
  angOK && cylOK && benchOK

/-- `DirParam::getLagRank` (regular lags) on the squared distance `d2`:
`k = floor(d/dpas + 1/2)` and `|d − k·dpas| ≤ toldis·dpas`; `none` when rejected -/
def lagRankGo (d : Dir) (d2 : Q) : Nat → Nat → Option Nat
  | 0, _ => none
  | fuel+1, k =>
    -- k is the rank iff (k − 1/2)·dpas ≤ d < (k + 1/2)·dpas
    let up := ((k : Q) + 1/2) * d.dpas
    if d2 < sq up then
      let lo := ((k : Q) - d.toldis) * d.dpas
      let hi := ((k : Q) + d.toldis) * d.dpas
      let inTol := (lo ≤ 0 ∨ sq lo ≤ d2) ∧ d2 ≤ sq hi
      if inTol ∧ k < d.npas then some k else none
    else lagRankGo d d2 fuel (k + 1)

/-- irregular classes (`DirParam::getLagRank`, branch `!getFlagRegular()`), on the squared distance:
the first class `k` with `breaks[k] < dist ≤ breaks[k+1]` -/
def lagBreaksGo : List Q → Q → Nat → Option Nat
  | b0 :: b1 :: rest, d2, k =>
    if (b0 < 0 ∨ sq b0 < d2) ∧ (0 ≤ b1 ∧ d2 ≤ sq b1) then some k else lagBreaksGo (b1 :: rest) d2 (k + 1)
  | _, _, _ => none

def lagRank (d : Dir) (d2 : Q) : Option Nat :=
  if d.breaks.length < 2 then lagRankGo d d2 (d.npas + 2) 0
  else (lagBreaksGo d.breaks d2 0).filter (· < d.npas)

/-- is the lag decision at a safe distance from every boundary (relative margin on squares)? -/
def lagMarginOK (d : Dir) (d2 : Q) (m : Q) : Bool :=
  if 2 ≤ d.breaks.length then d.breaks.all fun b => absQ (d2 - sq b) > m * (1 + sq b) else
  (List.range (d.npas + 2)).all fun k =>
    let b1 := sq (((k : Q) + 1/2) * d.dpas)
    let lo := ((k : Q) - d.toldis) * d.dpas
    let b2 := if lo ≤ 0 then 0 else sq lo
    let b3 := sq (((k : Q) + d.toldis) * d.dpas)
    absQ (d2 - b1) > m * (1 + b1) ∧ (b2 = 0 ∨ absQ (d2 - b2) > m * (1 + b2)) ∧ absQ (d2 - b3) > m * (1 + b3)

/-- rational square root by Newton iteration (upper approximation, relative error < 2^-60 after
enough steps); only used to compare the mean distance `hh`, never to decide a pair -/
def sqrtQ (q : Q) : Q :=
  if q ≤ 0 then 0 else
  let x0 : Q := if q < 1 then 1 else q
  let rec it : Nat → Q → Q
    | 0, x => x
    | n+1, x =>
      let y := (x + q / x) / 2
      -- keep numerators small: round to 2^-70 relative
      let s : Q := pow2 70
      it n ((y * s).ceil / s)
  it 80 x0

/-- the other estimators of `AVario` built on the product `v = (Δz)(Δz')` of the increments of the two variables:
0 variogram `v/2`, 2 Poisson (`v/2` with the pair weight `w₁w₂/(w₁+w₂)`), 3 madogram `√|v| / 2`,
4 rodogram `|v|^¼ / 2` (square roots by `sqrtQ`: compared with a tolerance, never decisive) -/
def pairValue (d_order4 : Bool) (est : Nat) (v : Q) : Q :=
  if d_order4 then v * v / 2
  else if est = 3 then sqrtQ (absQ v) / 2
  else if est = 4 then sqrtQ (sqrtQ (absQ v)) / 2
  else v / 2

def pairWeight (est : Nat) (w1 w2 : Q) : Q :=
  if est = 2 then (if w1 + w2 = 0 then 0 else w1 * w2 / (w1 + w2)) else w1 * w2

/-- `Db::getWeight`: 1 when undefined, 0 when negative -/
def weightOf (s : Sample) : Q := match s.w with | none => 1 | some w => if w < 0 then 0 else w

def usable (s : Sample) : Bool := s.active

/-- all unordered pairs (i < j) of a list -/
def pairsOf {α} : List α → List (α × α)
  | [] => []
  | a :: as => as.map (fun b => (a, b)) ++ pairsOf as

/-- contribution of one pair to lag `k`, variables `(iv, jv)`: (weight, weight·value) or none -/
def pairTerm (d : Dir) (iv jv k : Nat) (p : Sample × Sample) : Option (Q × Q × Q) :=
  let (p1, p2) := p
  if !(usable p1 && usable p2) then none else
  if !(keepPair d p1 p2) then none else
  let delta := subL p1.x p2.x
  let d2 := dotL delta delta
  match lagRank d d2 with
  | none => none
  | some kk =>
    if kk ≠ k then none else
    match p1.z.getD iv none, p2.z.getD iv none, p1.z.getD jv none, p2.z.getD jv none with
    | some z11, some z12, some z21, some z22 =>
      let ww := pairWeight d.est (weightOf p1) (weightOf p2)
      let v := (z12 - z11) * (z22 - z21)
      some (ww, ww * pairValue d.order4 d.est v, d2)
    | _, _, _, _ => none

/-- the definition: for lag `k`, `sw = Σ w_i w_j`, `gg = Σ w_i w_j ½(Δz)(Δz') / sw` over the pairs
falling in the lag and direction; the third component lists (weight, squared distance) for `hh` -/
def lagDef (d : Dir) (iv jv k : Nat) (samples : List Sample) : Q × Option Q × List (Q × Q) :=
  let terms := (pairsOf samples).filterMap (pairTerm d iv jv k)
  let sw := (terms.map (·.1)).sum
  let sg := (terms.map (·.2.1)).sum
  (sw, if sw > 0 then some (sg / sw) else none, terms.map fun t => (t.1, t.2.2))

/-- weighted mean of a variable over the active samples where it is defined (`Vario::_getStatistics`) -/
def meanOf (iv : Nat) (samples : List Sample) : Option Q :=
  let ts := samples.filterMap fun s =>
    if !(usable s) then none else
    match s.w, s.z.getD iv none with
    | some w, some z => if w < 0 then none else some (w, w * z)
    | none, some z => some (1, z)
    | _, none => none
  let sw := (ts.map (·.1)).sum
  if sw > 0 then some ((ts.map (·.2)).sum / sw) else none

/-- the Poisson variogram of the library: every pair of the lag also contributes `−mean/2` (unweighted)
before the division by the sum of the pair weights -/
def poissonLag (d : Dir) (iv jv k : Nat) (samples : List Sample) : Q × Option Q :=
  let terms := (pairsOf samples).filterMap (pairTerm d iv jv k)
  let sw := (terms.map (·.1)).sum
  let sg := (terms.map (·.2.1)).sum
  let m := (meanOf iv samples).getD 0
  (sw, if sw > 0 then some ((sg - (terms.length : Q) * m / 2) / sw) else none)

/-! ### the pair loop of the implementation -/

/-- inner loop `for jjech > iiech`: stops at the first `x_i − x_j > maxdist` (signed difference of
the first coordinates, samples pre-sorted by first coordinate) -/
def innerLoop (maxdist : Q) (xi : Q) (a : Sample) : List Sample → List (Sample × Sample)
  | [] => []
  | b :: bs => if xi - b.x.headD 0 > maxdist then [] else (a, b) :: innerLoop maxdist xi a bs

def pairLoop (maxdist : Q) : List Sample → List (Sample × Sample)
  | [] => []
  | a :: as => innerLoop maxdist (a.x.headD 0) a as ++ pairLoop maxdist as

end GstVerif.Vario
