import GstVerif.NF.Model
/- line protocol of the neutral-file model (C08, C09).  File contents travel as tokens with the
   token `¶` standing for a line break. -/
namespace GstVerif.NF
open GstVerif

def splitLines (toks : List String) : List Line :=
  let rec go (cur : Line) (acc : List Line) : List String → List Line
    | [] => (cur.reverse :: acc).reverse
    | t :: ts => if t = "¶" then go [] (cur.reverse :: acc) ts else go (t :: cur) acc ts
  go [] [] toks

def dropTrailingEmpty (l : List Line) : List Line := (l.reverse.dropWhile (·.isEmpty)).reverse

def chunkS (n : Nat) : Nat → List String → List Line
  | 0, _ => []
  | k+1, l => l.take n :: chunkS n k (l.drop n)

/-- unit of the 15th significant decimal digit of `x > 0`: `10^(⌊log10 x⌋ - 14)` -/
def ulp15 (x : Q) : Q :=
  let rec up (fuel : Nat) (p : Q) : Q := match fuel with
    | 0 => p
    | f+1 => if p * 10 ≤ x then up f (p * 10) else p
  let rec down (fuel : Nat) (p : Q) : Q := match fuel with
    | 0 => p
    | f+1 => if x < p then down f (p / 10) else p
  let p := if 1 ≤ x then up 400 1 else down 400 1
  p / 100000000000000

def handle (args : List String) (impl : List String) : String :=
  match args with
  -- f dbser <ncol> <nech> <locators> <names> <values row-major, comma separated> => <file tokens>
  | ["dbser", ncol, nech, locs, names, vals] =>
    match ncol.toNat?, nech.toNat? with
    | some ncol, some nech =>
      let d : DbFile := { ncol := ncol, nech := nech, locators := if locs = "-" then [] else locs.splitOn ",",
                          names := if names = "-" then [] else names.splitOn ",",
                          rows := chunkS ncol nech (if vals = "-" then [] else vals.splitOn ",") }
      let file := dropTrailingEmpty (splitLines impl)
      let model := dropTrailingEmpty (serDb d)
      if file != model then
        let i := ((file.zip model).findIdx? fun (a, b) => a != b).getD (min file.length model.length)
        s!"bad line {i}: model={model.getD i []} file={file.getD i []}"
      else if deserDb file != some d then "bad reading the file back (model reader) does not give the object"
      else "ok"
    | _, _ => "bad-op"
  -- f gridser <ndim> <nx,x0,dx,angle per dimension> <ncol> <nech> <locators> <names> <values> => <file tokens>
  | ["gridser", ndim, dimt, ncol, nech, locs, names, vals] =>
    match ndim.toNat?, ncol.toNat?, nech.toNat? with
    | some ndim, some ncol, some nech =>
      let dt := if dimt = "-" then [] else dimt.splitOn ","
      if dt.length ≠ 4 * ndim then "bad-op" else
      let dims := (List.range ndim).map fun i => (dt.getD (4 * i) "", dt.getD (4 * i + 1) "", dt.getD (4 * i + 2) "", dt.getD (4 * i + 3) "")
      let d : DbFile := { ncol := ncol, nech := nech, locators := if locs = "-" then [] else locs.splitOn ",",
                          names := if names = "-" then [] else names.splitOn ",",
                          rows := chunkS ncol nech (if vals = "-" then [] else vals.splitOn ",") }
      let g : GridFile := { dims := dims, db := d }
      let file := dropTrailingEmpty (splitLines impl)
      let model := dropTrailingEmpty (serGridWith (toString ndim) (toString ncol) (toString nech) g)
      if file != model then
        let i := ((file.zip model).findIdx? fun (a, b) => a != b).getD (min file.length model.length)
        s!"bad line {i}: model={model.getD i []} file={file.getD i []}"
      else if deserGrid file != some g then "bad reading the grid file back (model reader) does not give the object"
      else "ok"
    | _, _, _ => "bad-op"
  -- two numeric tokens of the files of the original and of the reloaded object
  | ["dig15", cls, a, b] =>
    match parseQ? a, parseQ? b with
    | some a, some b =>
      let m := maxQ (absQ a) (absQ b)
      if a = b then "ok"
      else if absQ (a - b) ≤ 2 * ulp15 m then "ok"   -- half a unit of text rounding on each side + recomputation
      else s!"bad {cls}: values differ beyond the 15th significant digit after save/reload"
    | _, _ => "bad-op"
  -- f load <class> <outcome> <mutation> <detail> => [file tokens when abnormal]
  | ["load", cls, outcome, kind, detail] =>
    if outcome = "refused" then "ok refused"
    else if outcome = "loaded" then "ok loaded"
    else if outcome = "unusable" then s!"bad {cls}: object returned for a damaged file is not usable ({detail}) mutation={kind}"
    else s!"bad {cls}: loader {outcome} on a damaged file ({detail}) mutation={kind}"
  | ["same", cls, what, a, b] => if a = b then "ok" else s!"bad {cls}: {what} differs after save/reload"
  -- f load <expect 0/1> => <file tokens>: model reader accepts / rejects like the library (C09)
  | ["dbload", accepted] =>
    let file := splitLines impl
    -- a file cut right after its tag: the library tests the stream state (`Db` then end of file is
    -- refused, `Db` + line break is accepted), which the token protocol cannot tell apart
    if (file.map List.length).sum ≤ 1 then "skip nothing-after-the-tag" else
    match deserDb file with
    | some d =>
      -- the library also bounds the announced counts by the number of bytes left (not modelled):
      -- only a table without column can announce more samples than the file holds
      if d.ncol = 0 && d.nech > 0 then "skip byte-bound-not-modelled"
      else if accepted = "1" then "ok" else "diff model accepts a file the library rejects"
    | none => if accepted = "0" then "ok" else "diff model rejects a file the library accepts"
  | _ => "bad-op"

end GstVerif.NF
