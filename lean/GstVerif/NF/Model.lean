import GstVerif.Db.Model
/-
  Token-level model of the neutral-file record layer (include/Basic/ASerializable.hpp:
  `_recordWrite`, `_recordWriteVec`, `_commentWrite`, `_recordRead`, `_recordReadVec(InPlace)`) and of
  `Db::_serialize` / `Db::_deserialize` — properties C08 and C09.

  A file is a list of lines, a line a list of blank-separated tokens (`operator>>` / `getline`
  semantics of the C++ streams are the trusted tokeniser).  Number formatting is outside the model:
  values are carried as their text tokens.
-/
namespace GstVerif.NF
open GstVerif GstVerif.Db

abbrev Line := List String

/-- decimal integer text (kernel-reducible replacement of `String.toInt?`) -/
def natOfChars : List Char → Nat → Option Nat
  | [], acc => some acc
  | c :: cs, acc => if '0' ≤ c ∧ c ≤ '9' then natOfChars cs (acc * 10 + (c.toNat - 48)) else none

def parseInt? (s : String) : Option Int :=
  match s.toList with
  | [] => none
  | '-' :: r => if r.isEmpty then none else (natOfChars r 0).map fun n => -(n : Int)
  | r => (natOfChars r 0).map fun n => (n : Int)

def isDigitC (c : Char) : Bool := '0' ≤ c && c ≤ '9'

/-- `std::stringstream(word) >> int` as used by `_recordRead<int>`: optional sign, then the longest
run of digits (what follows is ignored: `12abc` and `1.5` read as 12 and 1); no digit = failure;
a value beyond the `int` range is clamped (the stream sets failbit, which `_recordRead` does not see
when the whole token was consumed) -/
def parseCInt? (s : String) : Option Int :=
  let cs := s.toList
  let (neg, r) : Bool × List Char := match cs with
    | '-' :: r => (true, r)
    | '+' :: r => (false, r)
    | r => (false, r)
  let ds := r.takeWhile isDigitC
  if ds.isEmpty then none else
  let n : Nat := ds.foldl (fun a c => a * 10 + (c.toNat - 48)) 0
  let v : Int := if neg then -(n : Int) else (n : Int)
  let rest := r.dropWhile isDigitC
  if v > 2147483647 then (if rest.isEmpty then some 2147483647 else none)
  else if v < -2147483648 then (if rest.isEmpty then some (-2147483648) else none)
  else some v

/-- reading position: remaining tokens of the current line, then the following lines -/
structure Stream where
  cur  : Line
  rest : List Line
deriving Repr, BEq

/-- `word[0] == '#'` -/
def isComment (t : String) : Bool := match t.toList with | '#' :: _ => true | _ => false

/-- `is >> word` with comment skipping (`_recordRead`): next significant token, or `none` at end of
file (the C++ then *succeeds* with the default value) -/
def nextWord : Line → List Line → Option (String × Stream)
  | t :: cur, rest =>
    if isComment t then
      (match rest with
       | [] => none
       | l :: ls => nextWord l ls)
    else some (t, ⟨cur, rest⟩)
  | [], rest =>
    match rest with
    | [] => none
    | l :: ls => nextWord l ls

/-- `_recordRead<T>`: the token, or the default value of the type at end of file -/
def readRec (dflt : String) (s : Stream) : String × Stream :=
  match nextWord s.cur s.rest with
  | some r => r
  | none => (dflt, ⟨[], []⟩)

def sigTokens (l : Line) : Line := l.takeWhile (fun t => !isComment t)
def isDataLine (l : Line) : Bool := match l with | [] => false | t :: _ => !isComment t

/-- `_recordReadVec` / `_recordReadVecInPlace`: line based.  The remainder of the current line is
the first line examined; blank and comment lines are skipped; the first data line must hold exactly
`n` tokens before its trailing comment.  `none` = the C++ returns false. -/
def readVecLines (n : Nat) : List Line → Option (Line × List Line)
  | [] => if n = 0 then some ([], []) else none        -- end of file: zero values read
  | l :: ls =>
    if isDataLine l then
      (let toks := sigTokens l
       if toks.length = n then some (toks, ls) else none)
    else readVecLines n ls

def readVec (n : Nat) (s : Stream) : Option (Line × Stream) :=
  if n = 0 then some ([], s)      -- zero values: nothing is consumed (the empty line is skipped later)
  else (readVecLines n (s.cur :: s.rest)).map fun (toks, ls) => (toks, ⟨[], ls⟩)

/-! ### writers -/

def titleToks (title : String) : Line := (title.splitOn " ").filter (· ≠ "")

/-- `_recordWrite(os, title, val)` with a non-empty title: one line `val # title` -/
def writeRec (title val : String) : Line := val :: "#" :: titleToks title
def writeComment (title : String) : Line := "#" :: titleToks title
/-- `_recordWriteVec(os, title, vec)`: optional comment line, then the values on one line -/
def writeVec (title : String) (vec : Line) : List Line :=
  (if title = "" then [] else [writeComment title]) ++ [vec]

/-- legal value token: what survives a write/read cycle unchanged -/
def tokOK (t : String) : Bool := t ≠ "" && !isComment t && !(t.toList.any (· == ' '))

/-! ### Db -/

/-- abstract content of a serialised Db -/
structure DbFile where
  ncol : Nat
  nech : Nat
  locators : Line
  names : Line
  rows : List Line          -- nech rows of ncol value tokens
deriving Repr, BEq, DecidableEq

/-- `Db::_serialize`; `ncolT`, `nechT` are the decimal texts of the two counts -/
def serDbWith (ncolT nechT : String) (d : DbFile) : List Line :=
  [["Db"], writeRec "Number of variables" ncolT, writeRec "Number of samples" nechT]
  ++ writeVec "Locators" d.locators ++ writeVec "Names" d.names ++ [writeComment "Array of values"] ++ d.rows

def readRows (ncol : Nat) : Nat → Stream → Option (List Line × Stream)
  | 0, s => some ([], s)
  | k+1, s =>
    match readVec ncol s with
    | none => none
    | some (r, s') => (readRows ncol k s').map fun (rs, s'') => (r :: rs, s'')

def serDb (d : DbFile) : List Line := serDbWith (toString d.ncol) (toString d.nech) d

/-- `Db::_deserialize` (after the type tag) up to the decoding of locators: `none` = failure reported -/
def deserDbBody (s0 : Stream) : Option DbFile :=
  let (ncolT, s1) := readRec "0" s0
  let (nechT, s2) := readRec "0" s1
  match parseCInt? ncolT, parseCInt? nechT with
  | some ncolI, some nechI =>
    if ncolI < 0 ∨ nechI < 0 then none else
    let ncol := ncolI.toNat
    let nech := nechI.toNat
    let hdr : Option (Line × Line × Stream) :=
      if ncol > 0 then
        (match readVec ncol s2 with
         | none => none
         | some (locs, s3) =>
           match readVec ncol s3 with
           | none => none
           | some (names, s4) => some (locs, names, s4))
      else some ([], [], s2)
    match hdr with
    | none => none
    | some (locs, names, s4) =>
      -- without columns there is no value to read, whatever the announced number of samples
      if ncol = 0 then some { ncol := 0, nech := nech, locators := [], names := [], rows := [] } else
      match readRows ncol nech s4 with
      | none => none
      | some (rows, _) => some { ncol := ncol, nech := nech, locators := locs, names := names, rows := rows }
  | _, _ => none

/-- a neutral file holding a Db: the type tag, then the body -/
def deserDb (lines : List Line) : Option DbFile :=
  match lines with
  | [] => none
  | first :: rest =>
    match nextWord first rest with
    | none => none                                   -- empty file: the type tag is missing
    | some (tag, s0) => if tag ≠ "Db" then none else deserDbBody s0

/-! ### DbGrid: `DbGrid::_serialize` writes the space dimension, one line `NX X0 DX ANGLE` per
dimension, then the Db part; `DbGrid::_deserialize` reads them back token by token -/

structure GridFile where
  dims : List (String × String × String × String)      -- (nx, x0, dx, angle) as written
  db : DbFile
deriving Repr, BEq, DecidableEq

def dimLine (q : String × String × String × String) : Line := [q.1, q.2.1, q.2.2.1, q.2.2.2]

def serGridWith (ndimT ncolT nechT : String) (g : GridFile) : List Line :=
  [["DbGrid"], writeRec "Space Dimension" ndimT, writeComment "Grid characteristics (NX,X0,DX,ANGLE)"]
  ++ g.dims.map dimLine ++ (serDbWith ncolT nechT g.db).tail

/-- `ndim` times the four `_recordRead` of the loop -/
def readDims : Nat → Stream → List (String × String × String × String) × Stream
  | 0, s => ([], s)
  | k+1, s =>
    let (a, s1) := readRec "0" s
    let (b, s2) := readRec "0" s1
    let (c, s3) := readRec "0" s2
    let (d, s4) := readRec "0" s3
    let (rest, s5) := readDims k s4
    ((a, b, c, d) :: rest, s5)

def deserGrid (lines : List Line) : Option GridFile :=
  match lines with
  | [] => none
  | first :: rest =>
    match nextWord first rest with
    | none => none
    | some (tag, s0) =>
      if tag ≠ "DbGrid" then none else
      let (ndimT, s1) := readRec "0" s0
      match parseCInt? ndimT with
      | some ndimI =>
        if ndimI < 0 then none else
        let (dims, s2) := readDims ndimI.toNat s1
        -- every number of nodes must be a positive integer (`Invalid number of grid nodes`)
        if dims.any (fun q => match parseCInt? q.1 with | some n => n ≤ 0 | none => true) then none else
        (deserDbBody s2).map fun db => { dims := dims, db := db }
      | none => none

/-- size events of the reader: every buffer it allocates from header counts -/
def allocations (d : DbFile) : List Nat := [d.ncol, d.ncol, d.nech * d.ncol]

end GstVerif.NF
