import GstVerif.Basic.Proto
/-
  Model of the "old style" random generator of src/Basic/Law.cpp (properties C13, C14, C10):
    random_product = (unsigned) (105 * Random_value);  Random_value = random_product % 20000159;
    u = Random_value / 20000159
  and of the conditioning step of conditional simulations.
-/
namespace GstVerif.Rng

def P : Nat := 20000159
def FACTOR : Nat := 105

/-- one draw: new state (the product wraps modulo 2^32 as an `unsigned int`) -/
def next (x : Nat) : Nat := (FACTOR * x % 2 ^ 32) % P

/-- the uniform deviate returned for the new state -/
def unif (x : Nat) : Q := (next x : Q) / (P : Q)

/-- `law_set_random_seed`: non-positive seeds are ignored -/
def setSeed (state : Nat) (seed : Int) : Nat := if seed > 0 then seed.toNat else state

def iter : Nat → Nat → Nat
  | 0, x => x
  | k+1, x => iter k (next x)

/-- the states visited by `n` draws -/
def stream : Nat → Nat → List Nat
  | 0, _ => []
  | k+1, x => next x :: stream k (next x)

/-- `law_int_uniform(mini, maxi)`: `mini + floor(u * (maxi - mini + 1))` -/
def intUniform (x : Nat) (mini maxi : Int) : Int :=
  mini + (unif x * ((maxi - mini + 1 : Int) : Q)).floor

/-- conditioning of a simulation by kriging (`_simulateCalcul`):
`simc(x) = s(x) − Σ_j w_j (s(x_j) − z_j)` -/
def condition (s0 : Q) (w s z : List Q) : Q :=
  s0 - ((List.zipWith (fun wj d => wj * d) w (List.zipWith (· - ·) s z))).sum

/-- clamp used by the repaired `law_gaussian_between_bounds` -/
def clamp (lo hi x : Q) : Q := if x < lo then lo else if x > hi then hi else x

/-- `Db::getSimRank(isimu, ivar, icase, nbsimu, nvar)`: address of the column holding simulation
`isimu` of variable `ivar` of Gaussian system `icase` -/
def simRank (isimu ivar icase nbsimu nvar : Nat) : Nat := isimu + nbsimu * (ivar + nvar * icase)

/-- address used by `AGibbs::storeResult` before the repair of F91: `icase + nsize * isimu` with
`icase = ivar + nvar * ipgs`, `nsize = npgs * nvar` -/
def gibbsRankOld (isimu ivar ipgs npgs nvar : Nat) : Nat := (ivar + nvar * ipgs) + (npgs * nvar) * isimu

end GstVerif.Rng
