import GstVerif.Rng.Model
/- line protocol for the generator / simulation relations (C13, C14, C10) -/
namespace GstVerif.Rng
open GstVerif

def handle (args : List String) (impl : List String) : String :=
  match args, impl with
  | ["stream", seed, n], [states, us] =>
    match seed.toInt?, n.toNat?, parseNats? states, parseQs? us with
    | some seed, some n, some st, some us =>
      let x0 := setSeed 43241421 seed
      let m := stream n x0
      if m != st then s!"bad model-states={fmtNats (m.take 5)}…"
      else if !((m.zip us).all fun (x, u) => absQ (u - (x : Q) / (P : Q)) ≤ pow2 (-52)) then "bad uniform deviates"
      else if !(us.all fun u => 0 ≤ u ∧ u < 1) then "bad uniform outside [0,1)"
      else "ok"
    | _, _, _, _ => "bad-op"
  | ["intu", seed, mini, maxi, n], [vals] =>
    match seed.toInt?, mini.toInt?, maxi.toInt?, n.toNat?, parseInts? vals with
    | some seed, some mini, some maxi, some n, some vals =>
      let x0 := setSeed 43241421 seed
      let rec go : Nat → Nat → List Int
        | 0, _ => []
        | k+1, x => intUniform x mini maxi :: go k (next x)
      let m := go n x0
      if m == vals then "ok" else s!"bad model={fmtInts (m.take 8)}…"
    | _, _, _, _, _ => "bad-op"
  | ["same", _what, a, b], [] => if a = b then "ok" else "bad two runs with the same seed differ"
  | ["differ", _what, a, b], [] => if a ≠ b then "ok" else "bad two runs that must differ are identical"
  | ["inbounds", lo, hi, vals], [] =>
    match parseOQ? lo, parseOQ? hi, parseQs? vals with
    | some lo, some hi, some vals =>
      let bad := vals.find? fun v => (match lo with | some l => v < l | none => false) || (match hi with | some h => v > h | none => false)
      match bad with
      | some v => s!"bad value {fmtRat v} outside its bounds"
      | none => "ok"
    | _, _, _ => "bad-op"
  | ["atdata", z, v, scale], [] =>
    match parseQ? z, parseQ? v, parseQ? scale with
    | some z, some v, some sc => if absQ (z - v) ≤ pow2 (-20) * sc then "ok" else s!"bad conditional simulation differs from datum by {fmtRat (v - z)}"
    | _, _, _ => "bad-op"
  | _, _ => "bad-op"

end GstVerif.Rng
