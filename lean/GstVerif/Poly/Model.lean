import GstVerif.Basic.Proto
/-
  Model of the point-in-polygon code (src/Polygon/PolyElem.cpp, Polygons.cpp, `db_polygon`).
  Transcription over ℚ (every double is a rational; the comparisons of the C++ are exact
  comparisons of doubles except for the computed `xinter`, see DESIGN.md C20).
-/
namespace GstVerif.Poly

abbrev Pt := Q × Q

/-- body of the loop of `PolyElem::inside` for the edge `a → b`; `inter` is the running counter -/
def edgeStep (xx yy : Q) (inter : Nat) (a b : Pt) : Nat :=
  let xj0 := a.1; let yj0 := a.2; let xj1 := b.1; let yj1 := b.2
  let dx := xj1 - xj0
  let dy := yj1 - yj0
  -- horizontal segment containing the point: `inter = 1; continue`
  if dy = 0 ∧ yy = yj0 ∧ ((xj1 > xj0 ∧ xx > xj0 ∧ xx < xj1) ∨ (xj1 < xj0 ∧ xx < xj0 ∧ xx > xj1)) then 1
  else
    let strad : Prop := dy ≠ 0 ∧ ((yj0 > yy ∧ yj1 < yy) ∨ (yj0 < yy ∧ yj1 > yy))
    let xinter := (dx * yy + dy * xj0 - dx * yj0) / dy
    let i1 := if strad ∧ xinter > xx then inter + 1 else inter
    if strad ∧ xinter = xx then 1
    else
      let i2 := if yy = yj0 ∧ yj0 > yj1 ∧ xx < xj0 then i1 + 1 else i1
      let i3 := if yy = yj1 ∧ yj1 > yj0 ∧ xx < xj1 then i2 + 1 else i2
      if xx = xj0 ∧ yy = yj0 then 1 else i3

/-- the loop over consecutive vertices `j = 0 … np-2` -/
def loopEdges (xx yy : Q) : Nat → List Pt → Nat
  | inter, a :: b :: rest => loopEdges xx yy (edgeStep xx yy inter a b) (b :: rest)
  | inter, _ => inter

/-- `PolyElem::inside` on the stored vertex list -/
def insideElem (pts : List Pt) (xx yy : Q) : Bool := loopEdges xx yy 0 pts % 2 != 0

/-- `PolyElem::_isClosed` / `closePolyElem` (tolerance `eps5` = the double EPSILON5) -/
def isClosed (eps5 : Q) (pts : List Pt) : Bool :=
  match pts.head?, pts.getLast? with
  | some f, some l => absQ (f.1 - l.1) ≤ eps5 && absQ (f.2 - l.2) ≤ eps5
  | _, _ => true

def closePoly (eps5 : Q) (pts : List Pt) : List Pt :=
  match pts.head? with
  | some f => if isClosed eps5 pts then pts else pts ++ [f]
  | none => pts

/-! ### specification side -/

/-- the half-open crossing rule: the edge is counted iff `y_low < yy ≤ y_high` and the point is
strictly left of the edge at ordinate `yy` (division-free) -/
def halfOpen (xx yy : Q) (a b : Pt) : Bool :=
  if a.2 < b.2 then
    decide (a.2 < yy ∧ yy ≤ b.2 ∧ (xx - a.1) * (b.2 - a.2) < (yy - a.2) * (b.1 - a.1))
  else if b.2 < a.2 then
    decide (b.2 < yy ∧ yy ≤ a.2 ∧ (xx - b.1) * (a.2 - b.2) < (yy - b.2) * (a.1 - b.1))
  else false

/-- strict crossing of the rightward ray from `(xx, yy)` by the edge (generic ray: `yy` is not
the ordinate of a vertex) -/
def strictCross (xx yy : Q) (a b : Pt) : Bool :=
  if a.2 < b.2 then
    decide (a.2 < yy ∧ yy < b.2 ∧ (xx - a.1) * (b.2 - a.2) < (yy - a.2) * (b.1 - a.1))
  else if b.2 < a.2 then
    decide (b.2 < yy ∧ yy < a.2 ∧ (xx - b.1) * (a.2 - b.2) < (yy - b.2) * (a.1 - b.1))
  else false

def countEdges (f : Pt → Pt → Bool) : List Pt → Nat
  | a :: b :: rest => (if f a b then 1 else 0) + countEdges f (b :: rest)
  | _ => 0

/-- the point lies on the closed segment `[a, b]` -/
def onSegment (xx yy : Q) (a b : Pt) : Bool :=
  decide ((xx - a.1) * (b.2 - a.2) = (yy - a.2) * (b.1 - a.1)) &&
  decide (minQ a.1 b.1 ≤ xx ∧ xx ≤ maxQ a.1 b.1 ∧ minQ a.2 b.2 ≤ yy ∧ yy ≤ maxQ a.2 b.2)

def onBoundary (xx yy : Q) : List Pt → Bool
  | a :: b :: rest => onSegment xx yy a b || onBoundary xx yy (b :: rest)
  | _ => false

/-! ### independent oracle: winding number by exact quadrant counting -/

def quadrant (dx dy : Q) : Int :=
  if dx > 0 ∧ dy ≥ 0 then 0 else if dx ≤ 0 ∧ dy > 0 then 1 else if dx < 0 ∧ dy ≤ 0 then 2 else 3

/-- quarter turns of the edge `a → b` seen from `p` (off the edge) -/
def quarterTurns (xx yy : Q) (a b : Pt) : Int :=
  let ax := a.1 - xx; let ay := a.2 - yy; let bx := b.1 - xx; let by' := b.2 - yy
  let d := (quadrant bx by' - quadrant ax ay) % 4
  if d = 0 then 0 else if d = 1 then 1 else if d = 3 then -1
  else if ax * by' - ay * bx > 0 then 2 else -2

def windingQuarters (xx yy : Q) : List Pt → Int
  | a :: b :: rest => quarterTurns xx yy a b + windingQuarters xx yy (b :: rest)
  | _ => 0

/-- winding number of a closed vertex list around an off-boundary point -/
def winding (pts : List Pt) (xx yy : Q) : Int := windingQuarters xx yy pts / 4

/-! ### polygon sets -/

structure Elem where
  pts  : List Pt
  zmin : Option Q
  zmax : Option Q

/-- `PolyElem::inside3D` (`zz = none` is TEST) -/
def inside3D (e : Elem) (zz : Option Q) : Bool :=
  match zz with
  | none => true
  | some z =>
    (match e.zmin with | some m => !(z < m) | none => true) &&
    (match e.zmax with | some m => !(z > m) | none => true)

/-- one polygon passes: vertical limits and the 2-D test on the closed outline -/
def elemInside (eps5 : Q) (e : Elem) (xx yy : Q) (zz : Option Q) : Bool :=
  inside3D e zz && insideElem (closePoly eps5 e.pts) xx yy

/-- `Polygons::inside`, union rule: loop with early `return true` -/
def insideUnion (eps5 : Q) (xx yy : Q) (zz : Option Q) : List Elem → Bool
  | [] => false
  | e :: es => if elemInside eps5 e xx yy zz then true else insideUnion eps5 xx yy zz es

/-- `Polygons::inside`, nested rule: counter then parity -/
def nestedCount (eps5 : Q) (xx yy : Q) (zz : Option Q) : List Elem → Nat
  | [] => 0
  | e :: es => (if elemInside eps5 e xx yy zz then 1 else 0) + nestedCount eps5 xx yy zz es

def polygonsInside (eps5 : Q) (els : List Elem) (xx yy : Q) (zz : Option Q) (nested : Bool) : Bool :=
  if nested then nestedCount eps5 xx yy zz els % 2 != 0 else insideUnion eps5 xx yy zz els

/-- `db_polygon`: selection value per sample (`active` = previous selection) -/
def dbPolygon (eps5 : Q) (els : List Elem) (flagSel flagPeriod nested : Bool)
    (samples : List (Bool × Q × Q × Option Q)) : List Bool :=
  samples.map fun (act, x, y, z) =>
    if !flagSel || act then
      let s := polygonsInside eps5 els x y z nested
      if flagPeriod then
        s || polygonsInside eps5 els (x - 360) y z nested || polygonsInside eps5 els (x + 360) y z nested
      else s
    else false

end GstVerif.Poly
