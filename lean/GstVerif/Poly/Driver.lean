import GstVerif.Poly.Model
/- line-protocol front end of the polygon model (property C20) -/
namespace GstVerif.Poly
open GstVerif

def bits (l : List Bool) : String := String.ofList (l.map fun b => if b then '1' else '0')

def zipPts : List Q → List Q → List Pt
  | x :: xs, y :: ys => (x, y) :: zipPts xs ys
  | _, _ => []

/-- parse `npoly` groups of 4 tokens: xs ys zmin zmax -/
def parseElems : Nat → List String → Option (List Elem × List String)
  | 0, rest => some ([], rest)
  | n+1, xs :: ys :: zmin :: zmax :: rest => do
    let xs ← parseQs? xs
    let ys ← parseQs? ys
    let zmin ← parseOQ? zmin
    let zmax ← parseOQ? zmax
    let (es, rest) ← parseElems n rest
    pure ({ pts := zipPts xs ys, zmin := zmin, zmax := zmax } :: es, rest)
  | _, _ => none

def anyOnBoundary (eps5 : Q) (els : List Elem) (x y : Q) (period : Bool) : Bool :=
  els.any fun e =>
    let c := closePoly eps5 e.pts
    onBoundary x y c || (period && (onBoundary (x - 360) y c || onBoundary (x + 360) y c))

def cmpBits (model : List (Option Bool)) (impl : String) : String :=
  let il := impl.toList
  if il.length ≠ model.length then "bad-op"
  else
    let pairs := model.zip il
    let bad := pairs.any fun (m, c) => match m with | none => false | some b => (if b then '1' else '0') ≠ c
    let nskip := (model.filter (· == none)).length
    let ms := String.ofList (model.map fun m => match m with | none => '_' | some true => '1' | some false => '0')
    if bad then s!"bad model={ms}"
    else if nskip = model.length then "skip all-on-boundary"
    else s!"ok skipped={nskip}"

def handle (args : List String) (impl : List String) : String :=
  match args, impl with
  | ["elem", eps5, xs, ys, qxs, qys], [ans] =>
    match parseQ? eps5, parseQs? xs, parseQs? ys, parseQs? qxs, parseQs? qys with
    | some eps5, some xs, some ys, some qxs, some qys =>
      let c := closePoly eps5 (zipPts xs ys)
      let qs := zipPts qxs qys
      -- second, unrelated oracle: odd winding number (exact quadrant counting)
      let disagree := qs.any fun (x, y) =>
        !(onBoundary x y c) && (insideElem c x y != (winding c x y % 2 != 0))
      if disagree then "bad oracle: half-open model and winding number disagree" else
      let model := qs.map fun (x, y) => if onBoundary x y c then none else some (insideElem c x y)
      cmpBits model ans
    | _, _, _, _, _ => "bad-op"
  | "set" :: eps5 :: nested :: npoly :: rest, [ans] =>
    match parseQ? eps5, nested.toNat?, npoly.toNat? with
    | some eps5, some nested, some npoly =>
      match parseElems npoly rest with
      | some (els, [qxs, qys, qzs]) =>
        match parseQs? qxs, parseQs? qys, parseOQs? qzs with
        | some qxs, some qys, some qzs =>
          let qs := (zipPts qxs qys).zip qzs
          let model := qs.map fun ((x, y), z) =>
            if anyOnBoundary eps5 els x y false then none
            else some (polygonsInside eps5 els x y z (nested != 0))
          cmpBits model ans
        | _, _, _ => "bad-op"
      | _ => "bad-op"
    | _, _, _ => "bad-op"
  | "dbsel" :: eps5 :: fsel :: fper :: nested :: npoly :: rest, [ans] =>
    match parseQ? eps5, fsel.toNat?, fper.toNat?, nested.toNat?, npoly.toNat? with
    | some eps5, some fsel, some fper, some nested, some npoly =>
      match parseElems npoly rest with
      | some (els, [acts, qxs, qys, qzs]) =>
        match parseNats? acts, parseQs? qxs, parseQs? qys, parseOQs? qzs with
        | some acts, some qxs, some qys, some qzs =>
          let samples := (acts.zip ((zipPts qxs qys).zip qzs)).map fun (a, ((x, y), z)) => (a != 0, x, y, z)
          let sel := dbPolygon eps5 els (fsel != 0) (fper != 0) (nested != 0) samples
          let model := (samples.zip sel).map fun ((act, x, y, _), s) =>
            if (fsel == 0 || act) && anyOnBoundary eps5 els x y (fper != 0) then none else some s
          cmpBits model ans
        | _, _, _, _ => "bad-op"
      | _ => "bad-op"
    | _, _, _, _, _ => "bad-op"
  | _, _ => "bad-op"

end GstVerif.Poly
