import GstVerif.Grid.Driver
import GstVerif.Poly.Driver
import GstVerif.Db.Driver
import GstVerif.LinAlg.Driver
import GstVerif.Krig.Driver
import GstVerif.Rng.Driver
import GstVerif.Neigh.Driver
import GstVerif.Vario.Driver
import GstVerif.Calc.Driver
import GstVerif.NF.Driver
import GstVerif.Cow.Driver
import GstVerif.Cov.Driver
import GstVerif.Trans.Driver
import GstVerif.Mesh.Driver
import GstVerif.Simu.Driver
import GstVerif.Fit.Driver
/-
  gstmodel: line-protocol driver.  One request per input line:
      <model> <op> <args…> => <implementation's answer…>
  One verdict per output line: `ok …`, `skip …`, `bad …`, `bad-op`.
-/
open GstVerif

def splitArrow (toks : List String) : List String × List String :=
  let pre := toks.takeWhile (· ≠ "=>")
  let post := (toks.dropWhile (· ≠ "=>")).drop 1
  (pre, post)

/-- a numeric token (or comma-separated vector) holding a NaN or an infinity produced by the
implementation: never a legal answer of the numerical operations of the models below -/
def nonFinite (t : String) : Bool :=
  (t.splitOn ",").any fun x => x = "nan" || x = "+inf" || x = "-inf"

def numericModels : List String := ["g", "p", "m", "k", "r", "n", "v", "s", "t", "u", "w"]

def dispatch0 (req impl : List String) : String :=
  match req with
  | "g" :: args => Grid.handle args impl
  | "p" :: args => Poly.handle args impl
  | "d" :: args => Db.handle args impl
  | "m" :: args => LinAlg.handle args impl
  | "k" :: args => Krig.handle args impl
  | "r" :: args => Rng.handle args impl
  | "n" :: args => Neigh.handle args impl
  | "v" :: args => Vario.handle args impl
  | "c" :: args => Calc.handle args impl
  | "f" :: args => NF.handle args impl
  | "o" :: args => Cow.handle args impl
  | "s" :: args => Cov.handle args impl
  | "t" :: args => Trans.handle args impl
  | "u" :: args => Mesh.handle args impl
  | "w" :: args => Simu.handle args impl
  | "a" :: args => Fit.handle args impl
  | _ => "bad-op"

/-- a request of a numerical model which its handler cannot parse because the implementation
answered NaN / infinity is a violation, not a protocol error (handlers that expect non-finite
answers - e.g. kriging of an exactly singular system - see them first) -/
def dispatch (line : String) : String :=
  let (req, impl) := splitArrow (tokens line)
  let v := dispatch0 req impl
  if v = "bad-op" && (match req with | m :: _ => numericModels.contains m | [] => false)
      && (req ++ impl).any nonFinite then
    "bad non-finite value (NaN or infinity) returned by the implementation"
  else v

partial def loop (h : IO.FS.Stream) (out : IO.FS.Stream) : IO Unit := do
  let line ← h.getLine
  if line.isEmpty then return ()
  out.putStrLn (dispatch line)
  loop h out

def main : IO Unit := do
  let out ← IO.getStdout
  loop (← IO.getStdin) out
