import GstGen.CowTable
