import GstGen.CowTable
import GstGen.CalcTable
