import GstProofs.Krig.Algebra
import GstProofs.Krig.Bound
/-!
# C02 — Kriging is exact, unbiased, linear and invariant under relabelling

All clauses are corollaries in the algebraic model of C01 (any field / ℝ for the order clauses).
The correspondence run applies the same relations to the real library (targets on data, permuted
copies, translated copies, data plus drift combinations, linear combinations of data sets).
-/
namespace GstProofs.C02
open Matrix GstProofs.Krig

variable {K : Type*} [Field K] {n p m : Type*} [Fintype n] [Fintype p] [Fintype m]
  [DecidableEq n] [DecidableEq p] [DecidableEq m]

/-- exactness: target = datum `i` ⇒ weights = indicator of `i`, estimate = `z i` -/
theorem exact (A : Matrix m m K) (z : m → K) (i : m) (hA : IsUnit A.det) :
    (A⁻¹ *ᵥ (fun j => A j i)) ⬝ᵥ z = z i := by
  rw [exact_weights A i hA, exact_estimate]

/-- … and the estimation variance `σ0² − rhsᵀw` is zero when `σ0² = A i i` -/
theorem exact_variance (A : Matrix m m K) (i : m) (hA : IsUnit A.det) :
    A i i - (fun j => A j i) ⬝ᵥ (A⁻¹ *ᵥ (fun j => A j i)) = 0 := by
  rw [exact_weights A i hA]
  simp [dotProduct, Pi.single_apply]

/-- unbiasedness: the weights reproduce every drift function (`Xᵀλ = X0`); for the constant drift
they sum to one -/
theorem unbiased (S : Matrix n n K) (X : Matrix n p K) (lam S0 : n → K) (nu X0 : p → K)
    (h : (fromBlocks S X Xᵀ 0) *ᵥ (Sum.elim lam nu) = Sum.elim S0 X0) : Xᵀ *ᵥ lam = X0 :=
  ((block_system S X lam S0 nu X0).mp h).2

theorem weights_sum_one (lam : n → K) (X : Matrix n Unit K) (X0 : Unit → K)
    (hX : ∀ i, X i () = 1) (hX0 : X0 () = 1) (h : Xᵀ *ᵥ lam = X0) : ∑ i, lam i = 1 := by
  have := congrFun h ()
  simp only [mulVec, dotProduct, transpose_apply, hX, one_mul, hX0] at this
  exact this

/-- adding a combination of drift functions to the data adds the same combination to the estimate
(the weights and hence the standard deviations do not depend on the data at all) -/
theorem drift_shift (X : Matrix n p K) (lam z : n → K) (X0 beta : p → K) (h : Xᵀ *ᵥ lam = X0) :
    lam ⬝ᵥ (z + X *ᵥ beta) = lam ⬝ᵥ z + X0 ⬝ᵥ beta := Krig.drift_shift X lam z X0 beta h

/-- linearity in the data -/
theorem linear (lam z1 z2 : n → K) (a b : K) :
    lam ⬝ᵥ (a • z1 + b • z2) = a * (lam ⬝ᵥ z1) + b * (lam ⬝ᵥ z2) := estimate_linear lam z1 z2 a b

/-- relabelling the samples permutes the weights and leaves estimate (and `rhsᵀw`, hence the
standard deviation) unchanged -/
theorem perm (A : Matrix m m K) (b w z : m → K) (e : m ≃ m) (h : A *ᵥ w = b) :
    (A.submatrix e e) *ᵥ (w ∘ e) = b ∘ e ∧ (w ∘ e) ⬝ᵥ (z ∘ e) = w ⬝ᵥ z ∧
    (b ∘ e) ⬝ᵥ (w ∘ e) = b ⬝ᵥ w :=
  ⟨perm_weights A b w e h, perm_estimate w z e, perm_estimate b w e⟩

/-- with a known mean the squared standard deviation never exceeds the a-priori variance -/
theorem sk_bound {n : Type*} [Fintype n] [DecidableEq n] (S : Matrix n n ℝ) (S0 : n → ℝ) (s00 : ℝ)
    (hS : S.PosSemidef) : s00 - S0 ⬝ᵥ (S⁻¹ *ᵥ S0) ≤ s00 := sk_variance_le S S0 s00 hS

/-- the standard deviation is a non-negative real whatever the variance computed (clip + sqrt) -/
theorem stdev_nonneg (v : ℝ) : 0 ≤ stdevOf v := Krig.stdev_nonneg v

/-! non-vacuity: a 2-point simple kriging system over ℚ -/
example : IsUnit (!![2, 1; 1, 2] : Matrix (Fin 2) (Fin 2) ℚ).det := by
  simp [Matrix.det_fin_two]; norm_num

end GstProofs.C02
