import GstVerif.Rng.Model
import Mathlib.Tactic.NormNum.Prime
import Mathlib.Data.Nat.Prime.Basic
import Mathlib.Data.Nat.GCD.Basic
import Mathlib.Tactic.Linarith
import Mathlib.Tactic.Ring
import Mathlib.Algebra.Order.Field.Basic
import Mathlib.Data.Nat.ModEq
/-!
# C13 — Simulations are reproducible from their seed and honour their conditioning

Proved on the model of the old-style generator (`GstVerif/Rng/Model.lean`):
* determinism: whatever the incoming generator state, a procedure that first sets a positive seed
  sees the same stream;
* range: from any state not a multiple of `p = 20000159` (prime) every later state is in `[1, p)`,
  hence every uniform deviate is in `(0, 1)`;
* different seeds below `p` give streams that differ at *every* draw (the step is injective);
* conditioning: with exact kriging weights (indicator of the datum, C02) the conditioned value at
  a datum is the datum, for every simulation;
* the final clamp keeps bounded Gaussian draws inside their bounds.
Seeds congruent modulo `p` give identical streams: documented as known finding F23 (witness below).
-/
namespace GstProofs.C13
open GstVerif GstVerif.Rng

theorem p_prime : Nat.Prime P := by unfold P; norm_num

/-- determinism: the stream after `setSeed s` (s > 0) does not depend on the previous state -/
theorem det (st st' : Nat) (seed : Int) (h : seed > 0) (n : Nat) :
    stream n (setSeed st seed) = stream n (setSeed st' seed) := by
  simp [setSeed, h]

theorem next_small (x : Nat) (h : x < P) : next x = FACTOR * x % P := by
  unfold next
  have : FACTOR * x < 2 ^ 32 := by unfold FACTOR; unfold P at h; omega
  rw [Nat.mod_eq_of_lt this]

theorem next_lt (x : Nat) : next x < P := by
  unfold next; exact Nat.mod_lt _ (by unfold P; omega)

theorem coprime_factor : Nat.Coprime FACTOR P := by
  unfold FACTOR
  exact (Nat.Coprime.symm ((Nat.Prime.coprime_iff_not_dvd p_prime).mpr (by unfold P; omega)))

/-- a state in `[1, p)` is followed by a state in `[1, p)`: the generator never reaches 0 and the
uniform deviate is never 0 or 1 -/
theorem next_range (x : Nat) (h0 : 0 < x) (h1 : x < P) : 0 < next x ∧ next x < P := by
  refine ⟨?_, next_lt x⟩
  rw [next_small x h1]
  rcases Nat.eq_zero_or_pos (FACTOR * x % P) with hz | hz
  · exfalso
    have hd : P ∣ FACTOR * x := Nat.dvd_of_mod_eq_zero hz
    have : P ∣ x := (Nat.Coprime.dvd_of_dvd_mul_left coprime_factor.symm hd)
    exact absurd (Nat.le_of_dvd h0 this) (by omega)
  · exact hz

theorem unif_range (x : Nat) (h0 : 0 < x) (h1 : x < P) : 0 < unif x ∧ unif x < 1 := by
  obtain ⟨a, b⟩ := next_range x h0 h1
  unfold unif
  have hp : (0 : Q) < (P : Q) := by unfold P; norm_num
  constructor
  · exact div_pos (by exact_mod_cast a) hp
  · rw [div_lt_one hp]; exact_mod_cast b

/-- the step is injective on `[0, p)`: two different states never merge -/
theorem next_injective (x y : Nat) (hx : x < P) (hy : y < P) (h : next x = next y) : x = y := by
  rw [next_small x hx, next_small y hy] at h
  have h' : Nat.ModEq P (FACTOR * x) (FACTOR * y) := h
  have := Nat.ModEq.cancel_left_of_coprime (Nat.Coprime.symm coprime_factor) h'
  unfold Nat.ModEq at this
  rwa [Nat.mod_eq_of_lt hx, Nat.mod_eq_of_lt hy] at this

/-- different seeds in `[1, p)` give streams that differ at every position -/
theorem streams_differ : ∀ (n : Nat) (x y : Nat), x < P → y < P → x ≠ y → iter n x ≠ iter n y
  | 0, x, y, _, _, h => h
  | n+1, x, y, hx, hy, h => by
    simp only [iter]
    exact streams_differ n (next x) (next y) (next_lt x) (next_lt y)
      (fun e => h (next_injective x y hx hy e))

/-- conditioning: at a target coinciding with datum `i` (weights = indicator of `i`, property C02)
the conditioned simulation equals the datum whatever the non-conditional simulation -/
theorem exact_conditioning (s z : List Q) (i : Nat) (hi : i < s.length) (hl : s.length = z.length) :
    condition (s.getD i 0) ((List.range s.length).map fun j => if j = i then (1 : Q) else 0) s z
      = z.getD i 0 := by
  unfold condition
  have key : ∀ (k : Nat) (s z : List Q), s.length = z.length →
      (List.zipWith (fun wj d => wj * d)
        ((List.range' k s.length).map fun j => if j = i then (1 : Q) else 0)
        (List.zipWith (· - ·) s z)).sum
      = if k ≤ i ∧ i < k + s.length then s.getD (i - k) 0 - z.getD (i - k) 0 else 0 := by
    intro k s
    induction s generalizing k with
    | nil => intro z _; simp
    | cons a s ih =>
      intro z hz
      cases z with
      | nil => simp at hz
      | cons b z =>
        simp only [List.length_cons, Nat.add_right_cancel_iff] at hz
        simp only [List.length_cons, List.range'_succ, List.map_cons, List.zipWith_cons_cons,
          List.sum_cons]
        rw [ih (k + 1) z hz]
        by_cases hk : k = i
        · subst hk
          simp
        · have hne : ¬ (k = i) := hk
          simp only [hne, if_false, zero_mul, zero_add]
          by_cases hc : k + 1 ≤ i ∧ i < k + 1 + s.length
          · have hc' : k ≤ i ∧ i < k + (s.length + 1) := by omega
            simp only [hc, hc', and_self, if_true]
            have : i - k = (i - (k + 1)) + 1 := by omega
            rw [this]; simp
          · have hc' : ¬ (k ≤ i ∧ i < k + (s.length + 1)) := by omega
            simp [hc, hc']
  have := key 0 s z hl
  rw [List.range_eq_range'] 
  rw [this]
  simp [hi]

/-- bounded draws: the final clamp returns a value inside `[lo, hi]` -/
theorem clamp_bounds (lo hi x : Q) (h : lo ≤ hi) : lo ≤ clamp lo hi x ∧ clamp lo hi x ≤ hi := by
  unfold clamp
  split
  · exact ⟨le_refl _, h⟩
  · split
    · exact ⟨h, le_refl _⟩
    · constructor <;> linarith

/-- witness of known finding F23: seeds 1 and 1 + p are different seeds with identical streams -/
example : next 1 = next (1 + P) := by decide
/-- … and a seed that is a multiple of p freezes the generator at 0 (then `log 0` in `law_gaussian`) -/
example : next P = 0 ∧ next 0 = 0 := by decide
/-! non-vacuity -/
example : stream 3 (setSeed 5 132) = [13860, 1455300, 12805387] := by decide

/-! ### addresses of the simulated columns -/

/-- the address stays inside the block of `nbsimu * nvar * ncase` columns -/
theorem simRank_lt (isimu ivar icase nbsimu nvar ncase : Nat) (h1 : isimu < nbsimu) (h2 : ivar < nvar)
    (h3 : icase < ncase) : simRank isimu ivar icase nbsimu nvar < nbsimu * (nvar * ncase) := by
  unfold simRank
  have a : ivar + nvar * icase < nvar * ncase := by
    calc ivar + nvar * icase < nvar + nvar * icase := by omega
      _ = nvar * (icase + 1) := by ring
      _ ≤ nvar * ncase := Nat.mul_le_mul_left _ (by omega)
  calc isimu + nbsimu * (ivar + nvar * icase) < nbsimu + nbsimu * (ivar + nvar * icase) := by omega
    _ = nbsimu * (ivar + nvar * icase + 1) := by ring
    _ ≤ nbsimu * (nvar * ncase) := Nat.mul_le_mul_left _ (by omega)

/-- two different (simulation, variable, system) triples never share a column: the values of one
simulation are never read as those of another -/
theorem simRank_injective (nbsimu nvar : Nat) (i1 v1 c1 i2 v2 c2 : Nat)
    (hi1 : i1 < nbsimu) (hi2 : i2 < nbsimu) (hv1 : v1 < nvar) (hv2 : v2 < nvar)
    (h : simRank i1 v1 c1 nbsimu nvar = simRank i2 v2 c2 nbsimu nvar) : i1 = i2 ∧ v1 = v2 ∧ c1 = c2 := by
  unfold simRank at h
  have hi : i1 = i2 := by
    have e1 : (i1 + nbsimu * (v1 + nvar * c1)) % nbsimu = i1 := by
      rw [Nat.add_mul_mod_self_left]; exact Nat.mod_eq_of_lt hi1
    have e2 : (i2 + nbsimu * (v2 + nvar * c2)) % nbsimu = i2 := by
      rw [Nat.add_mul_mod_self_left]; exact Nat.mod_eq_of_lt hi2
    rw [h] at e1; omega
  subst hi
  have hb : 0 < nbsimu := by omega
  have h2 : v1 + nvar * c1 = v2 + nvar * c2 := by
    have := Nat.add_left_cancel h
    exact Nat.eq_of_mul_eq_mul_left hb this
  have hv : v1 = v2 := by
    have e1 : (v1 + nvar * c1) % nvar = v1 := by
      rw [Nat.add_mul_mod_self_left]; exact Nat.mod_eq_of_lt hv1
    have e2 : (v2 + nvar * c2) % nvar = v2 := by
      rw [Nat.add_mul_mod_self_left]; exact Nat.mod_eq_of_lt hv2
    rw [h2] at e1; omega
  subst hv
  have hn : 0 < nvar := by omega
  have h3 : nvar * c1 = nvar * c2 := Nat.add_left_cancel h2
  exact ⟨rfl, rfl, Nat.eq_of_mul_eq_mul_left hn h3⟩

/-- finding F91 (repaired): the Gibbs sampler stored its results at another address than the one
every reader uses as soon as there are two Gaussian fields and two simulations -/
theorem gibbs_old_address_differs :
    gibbsRankOld 1 0 0 1 2 ≠ simRank 1 0 0 2 2 ∧ gibbsRankOld 0 1 0 1 2 = simRank 1 0 0 2 2 := by
  decide

end GstProofs.C13
