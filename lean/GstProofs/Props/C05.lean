import GstProofs.Props.C01
import GstProofs.Props.C12
/-!
# C05 — masked or undefined samples never influence a result

Model-level reasons why a computation over a data base holding masked / undefined samples equals
the computation over the data base from which they were physically removed:

* experimental variogram: a pair contributes only when both samples are active and carry the two
  variables involved, so the pairwise definition over all samples equals the definition over the
  samples that count (`vario_removed`, any number of samples, any lag / direction);
* statistics: the accumulation loop that skips masked and undefined values equals the loop over the
  list from which they were removed (`moments_removed`);
* kriging: the system is assembled from the compressed list of (sample, variable) rows that are
  active and defined (`GstProofs.C01.compress`, `compress_rhs`).

The equality of the two runs of the library is the correspondence part (`harness/vh_c05.cpp`).
-/
namespace GstProofs.C05
open GstVerif GstVerif.Vario

/-- filtering elements on which `g` is `none` anyway does not change a `filterMap` -/
theorem filterMap_filter_none {α β} (g : α → Option β) (p : α → Bool)
    (h : ∀ a, p a = false → g a = none) : ∀ l : List α, (l.filter p).filterMap g = l.filterMap g
  | [] => rfl
  | a :: as => by
    cases hp : p a with
    | true => simp [List.filter, hp, List.filterMap_cons, filterMap_filter_none g p h as]
    | false => simp [List.filter, hp, List.filterMap_cons, h a hp, filterMap_filter_none g p h as]

/-- pairs whose contribution is `none` as soon as one member fails `p`: removing the failing
elements first gives the same contributions -/
theorem pairs_filter {α β} (f : α × α → Option β) (p : α → Bool)
    (h1 : ∀ a b, p a = false → f (a, b) = none) (h2 : ∀ a b, p b = false → f (a, b) = none) :
    ∀ l : List α, (pairsOf (l.filter p)).filterMap f = (pairsOf l).filterMap f
  | [] => rfl
  | a :: as => by
    have ih := pairs_filter f p h1 h2 as
    cases hp : p a with
    | true =>
      simp only [List.filter, hp, pairsOf, List.filterMap_append, List.filterMap_map, ih]
      congr 1
      exact filterMap_filter_none (f ∘ fun b => (a, b)) p (fun b hb => h2 a b hb) as
    | false =>
      simp only [List.filter, hp, pairsOf, List.filterMap_append, List.filterMap_map, ih]
      simp
      intro b _
      exact h1 a b hp

/-- a sample counts for the variables `(iv, jv)` when it is active and both values are defined -/
def counts (iv jv : Nat) (s : Sample) : Bool :=
  usable s && (s.z.getD iv none).isSome && (s.z.getD jv none).isSome

/-- a pair contributes only when both samples count -/
theorem pairTerm_some (d : Dir) (iv jv k : Nat) (a b : Sample) (t : Q × Q × Q)
    (h : pairTerm d iv jv k (a, b) = some t) : counts iv jv a = true ∧ counts iv jv b = true := by
  unfold pairTerm at h
  simp only at h
  split at h
  · simp at h
  · split at h
    · simp at h
    · split at h
      · simp at h
      · split at h
        · simp at h
        · split at h
          · simp_all [counts]
          · simp at h

theorem pairTerm_none_left (d : Dir) (iv jv k : Nat) (a b : Sample) (h : counts iv jv a = false) :
    pairTerm d iv jv k (a, b) = none := by
  cases hp : pairTerm d iv jv k (a, b) with
  | none => rfl
  | some t => have := (pairTerm_some d iv jv k a b t hp).1; simp_all

theorem pairTerm_none_right (d : Dir) (iv jv k : Nat) (a b : Sample) (h : counts iv jv b = false) :
    pairTerm d iv jv k (a, b) = none := by
  cases hp : pairTerm d iv jv k (a, b) with
  | none => rfl
  | some t => have := (pairTerm_some d iv jv k a b t hp).2; simp_all

/-- **Variogram: masked samples and samples where a variable is undefined can be removed.** -/
theorem vario_removed (d : Dir) (iv jv k : Nat) (samples : List Sample) :
    lagDef d iv jv k (samples.filter (counts iv jv)) = lagDef d iv jv k samples := by
  unfold lagDef
  rw [pairs_filter (pairTerm d iv jv k) (counts iv jv)
    (fun a b h => pairTerm_none_left d iv jv k a b h)
    (fun a b h => pairTerm_none_right d iv jv k a b h) samples]

/-! ### statistics: the accumulation loop of `dbStatisticsMono` -/

structure Obs where
  active : Bool
  z : Option Q

/-- one step of the loop: `if (!isActive) continue; if (FFFF(z)) continue; accumulate` -/
def accum (acc : Nat × Q × Q) (o : Obs) : Nat × Q × Q :=
  if o.active then
    match o.z with
    | some v => (acc.1 + 1, acc.2.1 + v, acc.2.2 + v * v)
    | none => acc
  else acc

def moments (l : List Obs) : Nat × Q × Q := l.foldl accum (0, 0, 0)
def obsCounts (o : Obs) : Bool := o.active && o.z.isSome

theorem foldl_removed : ∀ (l : List Obs) (acc : Nat × Q × Q),
    (l.filter obsCounts).foldl accum acc = l.foldl accum acc
  | [], _ => rfl
  | o :: os, acc => by
    cases ha : o.active <;> cases hz : o.z <;>
      simp [List.filter, obsCounts, ha, hz, accum, foldl_removed os]

/-- **Statistics: count, sum and sum of squares ignore masked and undefined values.** -/
theorem moments_removed (l : List Obs) : moments (l.filter obsCounts) = moments l :=
  foldl_removed l _

/-- non-vacuity: a masked sample and an undefined value are ignored -/
example : moments [⟨true, some 2⟩, ⟨false, some 100⟩, ⟨true, none⟩, ⟨true, some 3⟩] = (2, 5, 13) := by
  decide +kernel

end GstProofs.C05
