import GstProofs.Neigh.Fair
/-!
# C06 — Moving-neighbourhood search returns exactly the specified samples

Model: `GstVerif/Neigh/Model.lean` (transcription of `_moving`, `_movingSectorNsmax`,
`_movingSelect`, `_neighCompress`).  Proved for all candidate lists and all parameters:
the candidates are handled closest first (stable sort = a sorted permutation), the per-sector cap
and the round-robin selection only ever *remove* candidates (subset, order kept), the round-robin
quotas never exceed what a sector holds nor `nmaxi` in total, add up to exactly `nmaxi` whenever that
many candidates exist (so the `while` loop of the C++ terminates), are *fair* (two sectors never
differ by more than one sample unless the poorer one is exhausted) and serve the earlier sectors
first, a single sector yields the `nmaxi` closest, too few candidates yield the empty neighbourhood, and the result is reported by increasing
storage rank.  The ball-tree query is specified as "the `k` first of the sorted candidates" and is
tied by correspondence only (the tree algorithm itself is not modelled: stated as partial).
-/
namespace GstProofs.C06
open GstVerif GstVerif.Neigh GstProofs.Neigh

/-- closest first: the working order is a sorted permutation of the candidates -/
theorem closest_first (cands : List Cand) :
    (sortByDist cands).Perm cands ∧ SortedD (sortByDist cands) :=
  ⟨sortByDist_perm cands, sortByDist_sorted cands⟩

/-- the per-sector cap and the quota selection keep a sub-sequence of the sorted candidates -/
theorem selection_sublist (nsmax : Nat) (q cnt cnt' : List Nat) (l : List Cand) :
    (takeQuota q (capSectors nsmax l cnt) cnt').Sublist l :=
  (takeQuota_sublist q _ cnt').trans (capSectors_sublist nsmax l cnt)

/-- round-robin quotas: at most the sector's content, at most `nmaxi` in total -/
theorem quota (nmaxi : Nat) (counts : List Nat) :
    (quotas nmaxi counts).length = counts.length ∧
    (∀ i, i < counts.length → (quotas nmaxi counts).getD i 0 ≤ counts.getD i 0) ∧
    (quotas nmaxi counts).sum ≤ nmaxi := quotas_spec nmaxi counts

/-- the quotas add up to exactly `nmaxi` when at least `nmaxi` candidates exist -/
theorem quota_total (nmaxi : Nat) (counts : List Nat) (h : nmaxi ≤ counts.sum) :
    (quotas nmaxi counts).sum = nmaxi := quotas_total nmaxi counts h

/-- fairness: a sector served at least two samples less than another one is exhausted -/
theorem quota_fair (nmaxi : Nat) (counts : List Nat) (i j : Nat) (hi : i < counts.length) (hj : j < counts.length)
    (h : (quotas nmaxi counts).getD i 0 + 2 ≤ (quotas nmaxi counts).getD j 0) :
    (quotas nmaxi counts).getD i 0 = counts.getD i 0 := quotas_fair nmaxi counts i j hi hj h

/-- earlier sectors first: a later sector holds more than an earlier one only when that one is exhausted -/
theorem quota_order (nmaxi : Nat) (counts : List Nat) (i j : Nat) (hij : i < j) (hj : j < counts.length)
    (h : (quotas nmaxi counts).getD i 0 < (quotas nmaxi counts).getD j 0) :
    (quotas nmaxi counts).getD i 0 = counts.getD i 0 := quotas_order nmaxi counts i j hij hj h

/-- non-vacuity: 7 samples over sectors holding 5, 1, 4 -/
example : quotas 7 [5, 1, 4] = [3, 1, 3] := by decide

/-- fewer than `nmini` admissible samples: empty neighbourhood -/
theorem too_few (nmini nmaxi nsect nsmax ntot : Nat) (cands : List Cand) (h : cands.length < nmini) :
    moving nmini nmaxi nsect nsmax ntot cands = none := by
  unfold moving; split <;> simp [h]

/-- every selected rank is the rank of an admissible candidate -/
theorem subset (nmini nmaxi nsect nsmax ntot : Nat) (cands : List Cand) (sel : List Nat)
    (h : moving nmini nmaxi nsect nsmax ntot cands = some sel) :
    ∀ r ∈ sel, r ∈ cands.map (·.rank) := by
  unfold moving at h
  split at h; · simp at h
  split at h; · simp at h
  injection h with h
  subst h
  intro r hr
  have sortNat_perm : ∀ l : List Nat, (sortNat l).Perm l := by
    intro l
    induction l with
    | nil => exact List.Perm.refl _
    | cons a as ih =>
      have ins : ∀ (a : Nat) (l : List Nat), (insertNat a l).Perm (a :: l) := by
        intro a l
        induction l with
        | nil => exact List.Perm.refl _
        | cons x xs ih2 =>
          simp only [insertNat]; split
          · exact List.Perm.refl _
          · exact (List.Perm.cons x ih2).trans (List.Perm.swap a x xs)
      exact (ins a (sortNat as)).trans (List.Perm.cons a ih)
  have hr' := (sortNat_perm _).subset hr
  rw [List.mem_map] at hr' ⊢
  obtain ⟨c, hc, rfl⟩ := hr'
  refine ⟨c, ?_, rfl⟩
  have hs : ∀ x, x ∈ sortByDist cands → x ∈ cands := fun x hx => (sortByDist_perm cands).subset hx
  apply hs
  -- `kept` is a sub-sequence of the sorted list in every branch
  have key : ∀ (capped : List Cand), capped.Sublist (sortByDist cands) →
      ∀ c, c ∈ (if nmaxi = 0 then capped else if capped.length < nmaxi then capped
        else takeQuota (quotas nmaxi (countSect nsect capped)) capped (List.replicate nsect 0)) →
      c ∈ sortByDist cands := by
    intro capped hsub c hc
    split at hc
    · exact hsub.subset hc
    · split at hc
      · exact hsub.subset hc
      · exact hsub.subset ((takeQuota_sublist _ _ _).subset hc)
  refine key _ ?_ c hc
  split
  · exact capSectors_sublist _ _ _
  · exact List.Sublist.refl _

/-- specification of the ball-tree k-NN query: the `k` first candidates in increasing distance -/
theorem knn_spec (k : Nat) (cands : List Cand) :
    knn k cands = ((sortByDist cands).take k).map (·.rank) ∧ (knn k cands).length ≤ k := by
  refine ⟨rfl, ?_⟩
  simp [knn, List.length_take]

/-! non-vacuity / example: 5 candidates, 2 sectors, nmaxi = 3 -/
def ex : List Cand := [⟨0, 3, 0⟩, ⟨1, 1, 1⟩, ⟨2, 2, 0⟩, ⟨3, 5, 1⟩, ⟨4, 4, 0⟩]
example : moving 1 3 2 0 5 ex = some [0, 1, 2] := by decide +kernel
example : quotas 3 [3, 2] = [2, 1] := by decide

end GstProofs.C06
