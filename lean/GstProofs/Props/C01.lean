import GstProofs.Krig.Algebra
import GstProofs.Krig.ModelBridge
import GstProofs.C11Reuse
/-!
# C01 — Kriging output is the solution of the documented (co)kriging system

Three layers.
1. *Index theorems* (`ModelBridge`): the model's full system is the block matrix
   `[Σ + diag(verr)  X ; Xᵀ 0]` in the library's equation order and its compressed form is the
   restriction to the defined (sample, variable) pairs — all sizes, all heterotopy patterns.
2. *Algebra* (`Algebra`, any field, any dimensions): block equations, uniqueness of the solution,
   dual = primal, the two variance formulas.
   Block targets: the weights and the estimate are the averages of the point-kriging ones over the
   discretisation of the block (`block_weights`, `block_estimate`).
3. *Certificates*: the driver checks on every generated configuration that the library's LHS/RHS
   equal the model's (built from an independent covariance oracle) and that its weights, dual
   vector, estimate, standard deviation and variance of the estimator satisfy the stage equations
   with a backward error ≤ 2⁻³⁰ (`checkSolve_sound` says what acceptance means).
-/
namespace GstProofs.C01
open Matrix GstProofs.Krig GstVerif GstVerif.Krig GstVerif.LinAlg

variable {K : Type*} [Field K] {n p : Type*} [Fintype n] [Fintype p] [DecidableEq n] [DecidableEq p]

/-- the solution of `[Σ X; Xᵀ 0][λ; ν] = [Σ0; X0]` (Kriging.md with `ν = −μ`) is *the* vector
returned as `A⁻¹·rhs`, and it satisfies both kriging equations -/
theorem solution (S : Matrix n n K) (X : Matrix n p K) (S0 : n → K) (X0 : p → K)
    (hA : IsUnit (fromBlocks S X Xᵀ 0).det) :
    let w := (fromBlocks S X Xᵀ 0)⁻¹ *ᵥ (Sum.elim S0 X0)
    let lam := w ∘ Sum.inl
    let nu := w ∘ Sum.inr
    S *ᵥ lam + X *ᵥ nu = S0 ∧ Xᵀ *ᵥ lam = X0 := by
  intro w lam nu
  have hw : (fromBlocks S X Xᵀ 0) *ᵥ w = Sum.elim S0 X0 := by
    simp only [w]; rw [mulVec_mulVec, mul_nonsing_inv _ hA, one_mulVec]
  have hsplit : w = Sum.elim lam nu := by
    ext i; cases i <;> rfl
  rw [hsplit] at hw
  exact (block_system S X lam S0 nu X0).mp hw

theorem unique {m : Type*} [Fintype m] [DecidableEq m] (A : Matrix m m K) (w b : m → K)
    (hA : IsUnit A.det) (h : A *ᵥ w = b) : w = A⁻¹ *ᵥ b := solution_unique A w b hA h

/-- the estimate computed in dual form equals the weighted sum of the (centred) data -/
theorem dual {m : Type*} [Fintype m] [DecidableEq m] (A : Matrix m m K) (b z : m → K) (hs : Aᵀ = A) :
    b ⬝ᵥ (A⁻¹ *ᵥ z) = (A⁻¹ *ᵥ b) ⬝ᵥ z := dual_primal A b z hs

/-- **block kriging**: the right-hand side of a block target is the average of the point right-hand
sides over the discretisation of the block (`_rhsCalculBlock`); the weights, hence the estimate, are
then the averages of the point-kriging weights / estimates over the same discretisation -/
theorem block_weights {m : Type*} [Fintype m] [DecidableEq m] {d : Type*} [Fintype d]
    (A : Matrix m m K) (b : d → m → K) (c : K) :
    A⁻¹ *ᵥ (c • ∑ k, b k) = c • ∑ k, A⁻¹ *ᵥ b k := by
  rw [Matrix.mulVec_smul, Matrix.mulVec_sum]

theorem block_estimate {m : Type*} [Fintype m] [DecidableEq m] {d : Type*} [Fintype d]
    (A : Matrix m m K) (b : d → m → K) (z : m → K) (c : K) :
    (A⁻¹ *ᵥ (c • ∑ k, b k)) ⬝ᵥ z = c * ∑ k, (A⁻¹ *ᵥ b k) ⬝ᵥ z := by
  rw [block_weights, smul_dotProduct, sum_dotProduct, smul_eq_mul]

/-- returned variance = variance of the estimation error; `varZ` = variance of the estimator -/
theorem variance (S : Matrix n n K) (X : Matrix n p K) (lam S0 : n → K) (nu X0 : p → K) (s00 : K)
    (h1 : S *ᵥ lam + X *ᵥ nu = S0) (h2 : Xᵀ *ᵥ lam = X0) :
    s00 - (S0 ⬝ᵥ lam + X0 ⬝ᵥ nu) = s00 - 2 * (lam ⬝ᵥ S0) + lam ⬝ᵥ (S *ᵥ lam) ∧
    S0 ⬝ᵥ lam - X0 ⬝ᵥ nu = lam ⬝ᵥ (S *ᵥ lam) := variance_forms S X lam S0 nu X0 s00 h1 h2

/-- index theorems of the assembled system (model = library's loops) -/
theorem lhs_blocks (k : KIn) :
    (∀ p q, p < nd k → q < nd k →
        (lhsFull k).get p q = k.C.get p q + (if p = q then verrAdd k p else 0)) ∧
    (∀ p ib, p < nd k → ib < nfeq k → (lhsFull k).get p (nd k + ib) = driftLhs k p ib ∧
        (lhsFull k).get (nd k + ib) p = driftLhs k p ib) ∧
    (∀ a b, a < nfeq k → b < nfeq k → (lhsFull k).get (nd k + a) (nd k + b) = 0) :=
  ⟨lhsFull_data k, lhsFull_drift k, lhsFull_zero k⟩

/-- heterotopy: the compressed system is the full system restricted to the kept equations -/
theorem compress (k : KIn) (i j : Nat) (hi : i < (kept k).length) (hj : j < (kept k).length) :
    (lhsC k).get i j = (lhsFull k).get ((kept k).getD i 0) ((kept k).getD j 0) := lhsC_entry k i j hi hj

theorem compress_rhs (k : KIn) (i a : Nat) (hi : i < (kept k).length) (ha : a < k.nvar) :
    (rhsC k).get i a = (rhsFull k).get ((kept k).getD i 0) a := rhsC_entry k i a hi ha

/-- what an accepted residual certificate means -/
theorem certificate (tau : Q) (A : Mat) (x b : List Q) (h : checkSolve tau A x b = true) :
    ∀ i, i < (A.mulVec x).length →
      absQ ((A.mulVec x).getD i 0 - b.getD i 0) ≤ tau * maxQ (A.maxAbs * vmaxAbs x * (A.c : Q) + vmaxAbs b) 1 :=
  GstProofs.checkSolve_sound' tau A x b h

end GstProofs.C01
