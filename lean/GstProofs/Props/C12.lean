import GstVerif.Vario.Model
import Mathlib.Tactic.Linarith
import Mathlib.Tactic.Ring
/-!
# C12 — Experimental variograms equal their pairwise definition

`GstVerif/Vario/Model.lean` holds the *definition* (`lagDef`: sums over all unordered pairs that
pass the direction test and fall in the lag) and a transcription of the pair loop of
`_calculateGeneralSolution1`.  Proved here:
* the pair loop, on samples pre-sorted by first coordinate, enumerates every unordered pair exactly
  once (its pruning test on the *signed* coordinate difference never fires);
* a pair's contribution is symmetric in the two variables and in the two samples;
* translating all coordinates changes nothing;
* the lag assigned to a pair is characterised exactly (`lag_sound`, `lag_complete`): lag `k` if and
  only if the distance lies in `[(k−½)dpas, (k+½)dpas)`, within the tolerance, `k < npas`.
The library is tied to `lagDef` by the correspondence run (pair weights exactly, values to 2⁻³⁶).
-/
namespace GstProofs.C12
open GstVerif GstVerif.Vario

def SortedX : List Sample → Prop
  | [] => True
  | a :: as => (∀ b ∈ as, a.x.headD 0 ≤ b.x.headD 0) ∧ SortedX as

theorem innerLoop_all (maxdist xi : Q) (a : Sample) (h0 : 0 ≤ maxdist) :
    ∀ bs : List Sample, (∀ b ∈ bs, xi ≤ b.x.headD 0) → innerLoop maxdist xi a bs = bs.map (fun b => (a, b))
  | [], _ => rfl
  | b :: bs, h => by
    have hb : xi ≤ b.x.headD 0 := h b List.mem_cons_self
    have : ¬ (xi - b.x.headD 0 > maxdist) := by
      intro hc; linarith
    simp only [innerLoop, this, if_false, List.map_cons]
    rw [innerLoop_all maxdist xi a h0 bs (fun c hc => h c (List.mem_cons_of_mem _ hc))]

/-- the pair loop visits each unordered pair of the (sorted) samples exactly once, in the order of
the definition: the pruning `x_i − x_j > maxdist` is dead for sorted samples -/
theorem pairs (maxdist : Q) (h0 : 0 ≤ maxdist) : ∀ l : List Sample, SortedX l → pairLoop maxdist l = pairsOf l
  | [], _ => rfl
  | a :: as, h => by
    simp only [pairLoop, pairsOf]
    rw [innerLoop_all maxdist _ a h0 as h.1, pairs maxdist h0 as h.2]

theorem subL_comm_sq (x y : List Q) : dotL (subL x y) (subL x y) = dotL (subL y x) (subL y x) := by
  induction x generalizing y with
  | nil => cases y <;> simp [subL, dotL]
  | cons a as ih =>
    cases y with
    | nil => simp [subL, dotL]
    | cons b bs => simp only [subL, dotL]; rw [ih bs]; ring

theorem subL_translate (t : List Q) : ∀ x y : List Q, x.length = t.length → y.length = t.length →
    subL (List.zipWith (· + ·) x t) (List.zipWith (· + ·) y t) = subL x y := by
  induction t with
  | nil => intro x y hx hy; cases x <;> cases y <;> simp_all [subL]
  | cons c cs ih =>
    intro x y hx hy
    cases x with
    | nil => simp at hx
    | cons a as =>
      cases y with
      | nil => simp at hy
      | cons b bs =>
        simp only [List.zipWith_cons_cons, subL]
        rw [ih as bs (by simpa using hx) (by simpa using hy)]
        congr 1; ring

def translate (t : List Q) (s : Sample) : Sample := { s with x := List.zipWith (· + ·) s.x t }

/-- translation of all coordinates: the direction test, the lag and the contribution of every pair
are unchanged -/
theorem translate_invariant (d : Dir) (iv jv k : Nat) (t : List Q) (p1 p2 : Sample)
    (h1 : p1.x.length = t.length) (h2 : p2.x.length = t.length) :
    pairTerm d iv jv k (translate t p1, translate t p2) = pairTerm d iv jv k (p1, p2) := by
  simp only [pairTerm, keepPair, translate, usable, weightOf, subL_translate t p1.x p2.x h1 h2]

/-- symmetry in the two variables -/
theorem var_symm (d : Dir) (iv jv k : Nat) (p : Sample × Sample) :
    pairTerm d iv jv k p = pairTerm d jv iv k p := by
  obtain ⟨p1, p2⟩ := p
  simp only [pairTerm]
  split; · rfl
  split; · rfl
  cases lagRank d (dotL (subL p1.x p2.x) (subL p1.x p2.x)) with
  | none => rfl
  | some kk =>
    simp only
    split; · rfl
    cases p1.z.getD iv none <;> cases p2.z.getD iv none <;> cases p1.z.getD jv none <;>
      cases p2.z.getD jv none <;> simp [mul_comm]

/-! ### the lag of a pair (`DirParam::getLagRank`, decided on squared distances) -/

/-- tolerance window of lag `k`: `|d − k·dpas| ≤ toldis·dpas`, on squares -/
def InTol (d : Dir) (d2 : Q) (k : Nat) : Prop :=
  ((((k : Q) - d.toldis) * d.dpas ≤ 0) ∨ Vario.sq (((k : Q) - d.toldis) * d.dpas) ≤ d2) ∧
  d2 ≤ Vario.sq (((k : Q) + d.toldis) * d.dpas)

theorem lagRankGo_sound (d : Dir) (d2 : Q) : ∀ (fuel k0 r : Nat), lagRankGo d d2 fuel k0 = some r →
    k0 ≤ r ∧ d2 < Vario.sq (((r : Q) + 1/2) * d.dpas) ∧
    (∀ j, k0 ≤ j → j < r → Vario.sq (((j : Q) + 1/2) * d.dpas) ≤ d2) ∧ InTol d d2 r ∧ r < d.npas
  | 0, _, _, h => by simp [lagRankGo] at h
  | fuel+1, k0, r, h => by
    simp only [lagRankGo] at h
    split at h
    · rename_i hlt
      split at h
      · rename_i hin
        injection h with h; subst h
        exact ⟨le_refl _, hlt, fun j h1 h2 => by omega, ⟨hin.1.1, hin.1.2⟩, hin.2⟩
      · simp at h
    · rename_i hge
      obtain ⟨a, b, c, e, f⟩ := lagRankGo_sound d d2 fuel (k0 + 1) r h
      refine ⟨by omega, b, ?_, e, f⟩
      intro j h1 h2
      by_cases hj : j = k0
      · subst hj; exact not_lt.mp hge
      · exact c j (by omega) h2

/-- **the lag returned for a pair is the one its distance falls in**: `lagRank d² = k` only if
`(k − ½)·dpas ≤ dist < (k + ½)·dpas` (stated on squares: every nearer half-lag boundary is below
`d²`, the next one above), `|dist − k·dpas| ≤ toldis·dpas` and `k < npas` -/
theorem lag_sound (d : Dir) (d2 : Q) (k : Nat) (hreg : d.breaks.length < 2) (h : lagRank d d2 = some k) :
    d2 < Vario.sq (((k : Q) + 1/2) * d.dpas) ∧ (∀ j, j < k → Vario.sq (((j : Q) + 1/2) * d.dpas) ≤ d2) ∧
    InTol d d2 k ∧ k < d.npas := by
  simp only [lagRank, if_pos hreg] at h
  obtain ⟨_, b, c, e, f⟩ := lagRankGo_sound d d2 _ 0 k h
  exact ⟨b, fun j hj => c j (Nat.zero_le _) hj, e, f⟩

theorem lagRankGo_complete (d : Dir) (d2 : Q) (r : Nat) (hup : d2 < Vario.sq (((r : Q) + 1/2) * d.dpas))
    (hin : InTol d d2 r) (hr : r < d.npas) : ∀ (fuel k0 : Nat), k0 ≤ r → r < k0 + fuel →
    (∀ j, k0 ≤ j → j < r → Vario.sq (((j : Q) + 1/2) * d.dpas) ≤ d2) → lagRankGo d d2 fuel k0 = some r
  | 0, k0, h1, h2, _ => by omega
  | fuel+1, k0, h1, h2, hlow => by
    simp only [lagRankGo]
    by_cases hk : k0 = r
    · subst hk
      simp only [hup, if_true]
      have : (((((k0 : Q) - d.toldis) * d.dpas ≤ 0) ∨ Vario.sq (((k0 : Q) - d.toldis) * d.dpas) ≤ d2) ∧
          d2 ≤ Vario.sq (((k0 : Q) + d.toldis) * d.dpas)) ∧ k0 < d.npas := ⟨⟨hin.1, hin.2⟩, hr⟩
      simp [this]
    · have hlt : ¬ (d2 < Vario.sq (((k0 : Q) + 1/2) * d.dpas)) := not_lt.mpr (hlow k0 (le_refl _) (by omega))
      simp only [hlt, if_false]
      exact lagRankGo_complete d d2 r hup hin hr fuel (k0 + 1) (by omega) (by omega)
        (fun j a b => hlow j (by omega) b)

/-- … and conversely every pair whose distance falls in lag `k < npas` within the tolerance is
assigned to lag `k` -/
theorem lag_complete (d : Dir) (d2 : Q) (k : Nat) (hup : d2 < Vario.sq (((k : Q) + 1/2) * d.dpas))
    (hlow : ∀ j, j < k → Vario.sq (((j : Q) + 1/2) * d.dpas) ≤ d2) (hin : InTol d d2 k) (hk : k < d.npas)
    (hreg : d.breaks.length < 2) :
    lagRank d d2 = some k := by
  simp only [lagRank, if_pos hreg]
  exact lagRankGo_complete d d2 k hup hin hk (d.npas + 2) 0 (Nat.zero_le _) (by omega)
    (fun j _ b => hlow j b)

/-! non-vacuity: three collinear samples -/
def s3 : List Sample := [⟨[0], [some 1], none, true⟩, ⟨[1], [some 3], none, true⟩, ⟨[2], [some 2], none, true⟩]
def d1 : Dir := ⟨[1], 0, none, none, 3, 1, 1/2, false, [], 0⟩
def d1o : Dir := ⟨[1], 0, none, none, 3, 1, 1/2, true, [], 0⟩
example : SortedX s3 := by simp [SortedX, s3]
example : (lagDef d1 0 0 1 s3).1 = 2 ∧ (lagDef d1 0 0 1 s3).2.1 = some (5/4) := by decide +kernel
/-- order-4 variogram of the same data: ½(2⁴ + 1⁴)/2 = 17/4 -/
example : (lagDef d1o 0 0 1 s3).2.1 = some (17/4) := by decide +kernel

/-! ### irregular lag classes (`breaks`) -/

/-- class `k` of a list of breaks (on squares): `breaks[k] < dist ≤ breaks[k+1]` -/
def InClass (bs : List Q) (d2 : Q) (k : Nat) : Prop :=
  ∃ b0 b1, bs[k]? = some b0 ∧ bs[k + 1]? = some b1 ∧ (b0 < 0 ∨ Vario.sq b0 < d2) ∧ (0 ≤ b1 ∧ d2 ≤ Vario.sq b1)

theorem lagBreaksGo_sound : ∀ (bs : List Q) (d2 : Q) (k0 r : Nat), lagBreaksGo bs d2 k0 = some r →
    k0 ≤ r ∧ InClass bs d2 (r - k0) ∧ ∀ j, j < r - k0 → ¬ InClass bs d2 j
  | [], _, _, _, h => by simp [lagBreaksGo] at h
  | [_], _, _, _, h => by simp [lagBreaksGo] at h
  | b0 :: b1 :: rest, d2, k0, r, h => by
    simp only [lagBreaksGo] at h
    split at h
    · rename_i hin
      injection h with h; subst h
      refine ⟨le_refl _, ?_, fun j hj => by omega⟩
      rw [Nat.sub_self]
      exact ⟨b0, b1, rfl, rfl, hin.1, hin.2⟩
    · rename_i hout
      obtain ⟨h1, h2, h3⟩ := lagBreaksGo_sound (b1 :: rest) d2 (k0 + 1) r h
      refine ⟨by omega, ?_, ?_⟩
      · obtain ⟨c0, c1, e0, e1, hc⟩ := h2
        have : r - k0 = (r - (k0 + 1)) + 1 := by omega
        rw [this]
        exact ⟨c0, c1, by simpa using e0, by simpa using e1, hc⟩
      · intro j hj
        cases j with
        | zero =>
          rintro ⟨c0, c1, e0, e1, hc⟩
          simp only [List.getElem?_cons_zero, Option.some.injEq, zero_add, List.getElem?_cons_succ] at e0 e1
          subst e0; subst e1
          exact hout hc
        | succ i =>
          rintro ⟨c0, c1, e0, e1, hc⟩
          exact h3 i (by omega) ⟨c0, c1, by simpa using e0, by simpa using e1, hc⟩

theorem lagBreaksGo_complete : ∀ (bs : List Q) (d2 : Q) (k0 r : Nat), InClass bs d2 r →
    (∀ j, j < r → ¬ InClass bs d2 j) → lagBreaksGo bs d2 k0 = some (k0 + r)
  | [], _, _, _, ⟨_, _, e0, _, _⟩, _ => by simp at e0
  | [_], _, _, _, ⟨_, _, _, e1, _⟩, _ => by simp at e1
  | b0 :: b1 :: rest, d2, k0, r, hin, hfirst => by
    simp only [lagBreaksGo]
    cases r with
    | zero =>
      obtain ⟨c0, c1, e0, e1, hc⟩ := hin
      simp only [List.getElem?_cons_zero, Option.some.injEq, zero_add, List.getElem?_cons_succ] at e0 e1
      subst e0; subst e1
      rw [if_pos hc]; rfl
    | succ i =>
      have h0 : ¬ ((b0 < 0 ∨ Vario.sq b0 < d2) ∧ (0 ≤ b1 ∧ d2 ≤ Vario.sq b1)) := by
        intro hc
        exact hfirst 0 (by omega) ⟨b0, b1, rfl, rfl, hc.1, hc.2⟩
      rw [if_neg h0]
      have := lagBreaksGo_complete (b1 :: rest) d2 (k0 + 1) i
        (by obtain ⟨c0, c1, e0, e1, hc⟩ := hin; exact ⟨c0, c1, by simpa using e0, by simpa using e1, hc⟩)
        (fun j hj ⟨c0, c1, e0, e1, hc⟩ => hfirst (j + 1) (by omega) ⟨c0, c1, by simpa using e0, by simpa using e1, hc⟩)
      rw [this]; congr 1; omega

/-- **irregular classes**: the lag returned is the first class `]breaks[k], breaks[k+1]]` holding the
distance, among the `npas` classes -/
theorem lag_breaks_sound (d : Dir) (d2 : Q) (k : Nat) (hirr : 2 ≤ d.breaks.length) (h : lagRank d d2 = some k) :
    InClass d.breaks d2 k ∧ (∀ j, j < k → ¬ InClass d.breaks d2 j) ∧ k < d.npas := by
  simp only [lagRank, if_neg (by omega : ¬ d.breaks.length < 2)] at h
  cases hb : lagBreaksGo d.breaks d2 0 with
  | none => simp [hb] at h
  | some r =>
    rw [hb] at h
    simp only [Option.filter] at h
    split at h
    · rename_i hlt
      injection h with h; subst h
      obtain ⟨_, h2, h3⟩ := lagBreaksGo_sound d.breaks d2 0 r hb
      exact ⟨by simpa using h2, fun j hj => h3 j (by simpa using hj), by simpa using hlt⟩
    · cases h

/-- … and every distance lying in a class `k < npas` (and in none before it) is assigned to `k`:
no pair of the first class is lost, none outside every class is kept -/
theorem lag_breaks_complete (d : Dir) (d2 : Q) (k : Nat) (hirr : 2 ≤ d.breaks.length)
    (hin : InClass d.breaks d2 k) (hfirst : ∀ j, j < k → ¬ InClass d.breaks d2 j) (hk : k < d.npas) :
    lagRank d d2 = some k := by
  simp only [lagRank, if_neg (by omega : ¬ d.breaks.length < 2)]
  have := lagBreaksGo_complete d.breaks d2 0 k hin hfirst
  rw [this]
  simp [Option.filter, hk]

/-- a distance below the first break (or beyond the last) belongs to no lag -/
theorem lag_breaks_outside (d : Dir) (d2 : Q) (hirr : 2 ≤ d.breaks.length)
    (hout : ∀ k, ¬ InClass d.breaks d2 k) : lagRank d d2 = none := by
  cases h : lagRank d d2 with
  | none => rfl
  | some k => exact absurd (lag_breaks_sound d d2 k hirr h).1 (hout k)

/-- non-vacuity: classes ]1,2], ]2,3.5]; distances 0.5 (none), 1.5 (class 0), 3 (class 1) -/
def db : Dir := ⟨[1], 0, none, none, 2, 1, 1/2, false, [1, 2, 7/2], 0⟩
example : lagRank db (1/4) = none ∧ lagRank db (9/4) = some 0 ∧ lagRank db 9 = some 1 ∧ lagRank db 16 = none := by
  decide +kernel

/-! ### irregular classes: disjointness and exact characterisation -/

theorem sq_mono_nonneg {a b : Q} (ha : 0 ≤ a) (hab : a ≤ b) : Vario.sq a ≤ Vario.sq b := by
  unfold Vario.sq; nlinarith

/-- for non-negative increasing breaks the classes are disjoint: a distance lies in at most one class, so the lag
returned (`lag_breaks_sound`) is THE class of the distance and every distance of class `k` is given lag `k` -/
theorem classes_disjoint (bs : List Q) (hpos : ∀ b ∈ bs, 0 ≤ b) (hinc : bs.Pairwise (· < ·)) (d2 : Q) (j k : Nat)
    (hj : InClass bs d2 j) (hk : InClass bs d2 k) : j = k := by
  by_contra hne
  rcases Nat.lt_or_gt_of_ne hne with h | h
  · -- j < k: d² ≤ b_{j+1}² ≤ b_k² < d²
    obtain ⟨_, b1, _, e1, _, h1⟩ := hj
    obtain ⟨c0, _, f0, _, g0, _⟩ := hk
    have hb1 : b1 ∈ bs := List.mem_of_getElem? e1
    have hc0 : c0 ∈ bs := List.mem_of_getElem? f0
    have hle : b1 ≤ c0 := by
      rcases Nat.lt_or_ge (j + 1) k with hlt | hge
      · have := List.pairwise_iff_getElem.1 hinc (j + 1) k (by
          rcases List.getElem?_eq_some_iff.1 e1 with ⟨hh, _⟩; exact hh) (by
          rcases List.getElem?_eq_some_iff.1 f0 with ⟨hh, _⟩; exact hh) hlt
        rcases List.getElem?_eq_some_iff.1 e1 with ⟨h1', e1'⟩
        rcases List.getElem?_eq_some_iff.1 f0 with ⟨h0', f0'⟩
        rw [e1', f0'] at this
        exact le_of_lt this
      · have : j + 1 = k := by omega
        subst this
        rw [e1] at f0; injection f0 with f0; rw [f0]
    have hc0pos := hpos c0 hc0
    rcases g0 with g | g
    · linarith
    · have := sq_mono_nonneg (hpos b1 hb1) hle
      linarith [h1.2]
  · obtain ⟨_, b1, _, e1, _, h1⟩ := hk
    obtain ⟨c0, _, f0, _, g0, _⟩ := hj
    have hb1 : b1 ∈ bs := List.mem_of_getElem? e1
    have hc0 : c0 ∈ bs := List.mem_of_getElem? f0
    have hle : b1 ≤ c0 := by
      rcases Nat.lt_or_ge (k + 1) j with hlt | hge
      · have := List.pairwise_iff_getElem.1 hinc (k + 1) j (by
          rcases List.getElem?_eq_some_iff.1 e1 with ⟨hh, _⟩; exact hh) (by
          rcases List.getElem?_eq_some_iff.1 f0 with ⟨hh, _⟩; exact hh) hlt
        rcases List.getElem?_eq_some_iff.1 e1 with ⟨h1', e1'⟩
        rcases List.getElem?_eq_some_iff.1 f0 with ⟨h0', f0'⟩
        rw [e1', f0'] at this
        exact le_of_lt this
      · have : k + 1 = j := by omega
        subst this
        rw [e1] at f0; injection f0 with f0; rw [f0]
    rcases g0 with g | g
    · linarith [hpos c0 hc0]
    · have := sq_mono_nonneg (hpos b1 hb1) hle
      linarith [h1.2]

/-- **exact characterisation for irregular classes**: with non-negative increasing breaks, a pair is given lag `k`
if and only if `k < npas` and its distance lies in class `k` -/
theorem lag_breaks_iff (d : Dir) (d2 : Q) (k : Nat) (hirr : 2 ≤ d.breaks.length)
    (hpos : ∀ b ∈ d.breaks, 0 ≤ b) (hinc : d.breaks.Pairwise (· < ·)) :
    lagRank d d2 = some k ↔ (InClass d.breaks d2 k ∧ k < d.npas) := by
  constructor
  · intro h
    obtain ⟨a, _, c⟩ := lag_breaks_sound d d2 k hirr h
    exact ⟨a, c⟩
  · rintro ⟨hin, hk⟩
    exact lag_breaks_complete d d2 k hirr hin
      (fun j hj hjc => by have := classes_disjoint d.breaks hpos hinc d2 j k hjc hin; omega) hk

end GstProofs.C12
