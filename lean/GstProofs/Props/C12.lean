import GstVerif.Vario.Model
import Mathlib.Tactic.Linarith
import Mathlib.Tactic.Ring
/-!
# C12 — Experimental variograms equal their pairwise definition

`GstVerif/Vario/Model.lean` holds the *definition* (`lagDef`: sums over all unordered pairs that
pass the direction test and fall in the lag) and a transcription of the pair loop of
`_calculateGeneralSolution1`.  Proved here:
* the pair loop, on samples pre-sorted by first coordinate, enumerates every unordered pair exactly
  once (its pruning test on the *signed* coordinate difference never fires);
* a pair's contribution is symmetric in the two variables and in the two samples;
* translating all coordinates changes nothing.
The library is tied to `lagDef` by the correspondence run (pair weights exactly, values to 2⁻³⁶).
-/
namespace GstProofs.C12
open GstVerif GstVerif.Vario

def SortedX : List Sample → Prop
  | [] => True
  | a :: as => (∀ b ∈ as, a.x.headD 0 ≤ b.x.headD 0) ∧ SortedX as

theorem innerLoop_all (maxdist xi : Q) (a : Sample) (h0 : 0 ≤ maxdist) :
    ∀ bs : List Sample, (∀ b ∈ bs, xi ≤ b.x.headD 0) → innerLoop maxdist xi a bs = bs.map (fun b => (a, b))
  | [], _ => rfl
  | b :: bs, h => by
    have hb : xi ≤ b.x.headD 0 := h b List.mem_cons_self
    have : ¬ (xi - b.x.headD 0 > maxdist) := by
      intro hc; linarith
    simp only [innerLoop, this, if_false, List.map_cons]
    rw [innerLoop_all maxdist xi a h0 bs (fun c hc => h c (List.mem_cons_of_mem _ hc))]

/-- the pair loop visits each unordered pair of the (sorted) samples exactly once, in the order of
the definition: the pruning `x_i − x_j > maxdist` is dead for sorted samples -/
theorem pairs (maxdist : Q) (h0 : 0 ≤ maxdist) : ∀ l : List Sample, SortedX l → pairLoop maxdist l = pairsOf l
  | [], _ => rfl
  | a :: as, h => by
    simp only [pairLoop, pairsOf]
    rw [innerLoop_all maxdist _ a h0 as h.1, pairs maxdist h0 as h.2]

theorem subL_comm_sq (x y : List Q) : dotL (subL x y) (subL x y) = dotL (subL y x) (subL y x) := by
  induction x generalizing y with
  | nil => cases y <;> simp [subL, dotL]
  | cons a as ih =>
    cases y with
    | nil => simp [subL, dotL]
    | cons b bs => simp only [subL, dotL]; rw [ih bs]; ring

theorem subL_translate (t : List Q) : ∀ x y : List Q, x.length = t.length → y.length = t.length →
    subL (List.zipWith (· + ·) x t) (List.zipWith (· + ·) y t) = subL x y := by
  induction t with
  | nil => intro x y hx hy; cases x <;> cases y <;> simp_all [subL]
  | cons c cs ih =>
    intro x y hx hy
    cases x with
    | nil => simp at hx
    | cons a as =>
      cases y with
      | nil => simp at hy
      | cons b bs =>
        simp only [List.zipWith_cons_cons, subL]
        rw [ih as bs (by simpa using hx) (by simpa using hy)]
        congr 1; ring

def translate (t : List Q) (s : Sample) : Sample := { s with x := List.zipWith (· + ·) s.x t }

/-- translation of all coordinates: the direction test, the lag and the contribution of every pair
are unchanged -/
theorem translate_invariant (d : Dir) (iv jv k : Nat) (t : List Q) (p1 p2 : Sample)
    (h1 : p1.x.length = t.length) (h2 : p2.x.length = t.length) :
    pairTerm d iv jv k (translate t p1, translate t p2) = pairTerm d iv jv k (p1, p2) := by
  simp only [pairTerm, keepPair, translate, usable, weightOf, subL_translate t p1.x p2.x h1 h2]

/-- symmetry in the two variables -/
theorem var_symm (d : Dir) (iv jv k : Nat) (p : Sample × Sample) :
    pairTerm d iv jv k p = pairTerm d jv iv k p := by
  obtain ⟨p1, p2⟩ := p
  simp only [pairTerm]
  split; · rfl
  split; · rfl
  cases lagRank d (dotL (subL p1.x p2.x) (subL p1.x p2.x)) with
  | none => rfl
  | some kk =>
    simp only
    split; · rfl
    cases p1.z.getD iv none <;> cases p2.z.getD iv none <;> cases p1.z.getD jv none <;>
      cases p2.z.getD jv none <;> simp [mul_comm]

/-! non-vacuity: three collinear samples -/
def s3 : List Sample := [⟨[0], [some 1], none, true⟩, ⟨[1], [some 3], none, true⟩, ⟨[2], [some 2], none, true⟩]
def d1 : Dir := ⟨[1], 0, none, none, 3, 1, 1/2, false⟩
def d1o : Dir := ⟨[1], 0, none, none, 3, 1, 1/2, true⟩
example : SortedX s3 := by simp [SortedX, s3]
example : (lagDef d1 0 0 1 s3).1 = 2 ∧ (lagDef d1 0 0 1 s3).2.1 = some (5/4) := by decide +kernel
/-- order-4 variogram of the same data: ½(2⁴ + 1⁴)/2 = 17/4 -/
example : (lagDef d1o 0 0 1 s3).2.1 = some (17/4) := by decide +kernel

end GstProofs.C12
