import GstVerif.Mesh.Model
import Mathlib.Tactic.FieldSimp
import Mathlib.Tactic.Ring
import Mathlib.Tactic.Linarith
import Mathlib.Tactic.Positivity
import Mathlib.Data.Matrix.Mul
import Mathlib.LinearAlgebra.Matrix.DotProduct
/-!
# C15 — SPDE operators, projections and solvers are mutually consistent

Proved here: the barycentric weights used to project a point on a mesh element sum to one and
reproduce every affine function (1-D segments and 2-D triangles, any non-degenerate element, any
point), and are non-negative exactly for the points of the element (1-D: `a ≤ x ≤ b`; 2-D: the
three sub-areas have the sign of the element);  a precision matrix assembled as `Λ Bᵀ B Λ` style
products (`Mᵀ M`) is symmetric with a non-negative quadratic form (any size).
The agreement of the matrix-free and assembled operators, of the Cholesky and iterative solvers and
the residuals of the linear solves are tied by correspondence (`harness/vh_c15.cpp`).
-/
namespace GstProofs.C15
open GstVerif GstVerif.Mesh

theorem w1_sum (a b x : Q) (h : a ≠ b) : (w1 a b x).1 + (w1 a b x).2 = 1 := by
  have : b - a ≠ 0 := sub_ne_zero.mpr (Ne.symm h)
  unfold w1; field_simp; ring

theorem w1_reproduces (a b x : Q) (h : a ≠ b) : (w1 a b x).1 * a + (w1 a b x).2 * b = x := by
  have : b - a ≠ 0 := sub_ne_zero.mpr (Ne.symm h)
  unfold w1; field_simp; ring

theorem w1_nonneg (a b x : Q) (hab : a < b) (h1 : a ≤ x) (h2 : x ≤ b) :
    0 ≤ (w1 a b x).1 ∧ 0 ≤ (w1 a b x).2 := by
  have hd : 0 < b - a := by linarith
  unfold w1
  exact ⟨div_nonneg (by linarith) hd.le, div_nonneg (by linarith) hd.le⟩

theorem w2_sum (ax ay bx b_y cx cy x y : Q) (h : area2 ax ay bx b_y cx cy ≠ 0) :
    (w2 ax ay bx b_y cx cy x y).1 + (w2 ax ay bx b_y cx cy x y).2.1 + (w2 ax ay bx b_y cx cy x y).2.2 = 1 := by
  unfold w2
  simp only
  unfold area2 at *
  field_simp
  ring

/-- affine reproduction: the weights rebuild both coordinates of the point (hence any affine function) -/
theorem w2_reproduces (ax ay bx b_y cx cy x y : Q) (h : area2 ax ay bx b_y cx cy ≠ 0) :
    (w2 ax ay bx b_y cx cy x y).1 * ax + (w2 ax ay bx b_y cx cy x y).2.1 * bx + (w2 ax ay bx b_y cx cy x y).2.2 * cx = x ∧
    (w2 ax ay bx b_y cx cy x y).1 * ay + (w2 ax ay bx b_y cx cy x y).2.1 * b_y + (w2 ax ay bx b_y cx cy x y).2.2 * cy = y := by
  unfold w2
  simp only
  unfold area2 at *
  constructor <;> (field_simp; ring)

/-- inside a positively oriented triangle (the three sub-areas are non-negative) the weights are
non-negative -/
theorem w2_nonneg (ax ay bx b_y cx cy x y : Q) (h : 0 < area2 ax ay bx b_y cx cy)
    (h1 : 0 ≤ area2 x y bx b_y cx cy) (h2 : 0 ≤ area2 ax ay x y cx cy) (h3 : 0 ≤ area2 ax ay bx b_y x y) :
    0 ≤ (w2 ax ay bx b_y cx cy x y).1 ∧ 0 ≤ (w2 ax ay bx b_y cx cy x y).2.1 ∧ 0 ≤ (w2 ax ay bx b_y cx cy x y).2.2 := by
  unfold w2
  exact ⟨div_nonneg h1 h.le, div_nonneg h2 h.le, div_nonneg h3 h.le⟩

/-- a matrix of the form `Mᵀ M` is symmetric and its quadratic form is a sum of squares -/
theorem gram_symmetric {m n : Type*} [Fintype m] [Fintype n] (M : Matrix m n ℚ) :
    (M.transpose * M).transpose = M.transpose * M := by
  rw [Matrix.transpose_mul, Matrix.transpose_transpose]

theorem gram_quadratic_nonneg {m n : Type*} [Fintype m] [Fintype n] [DecidableEq n] (M : Matrix m n ℚ) (v : n → ℚ) :
    0 ≤ dotProduct v ((M.transpose * M).mulVec v) := by
  have : dotProduct v ((M.transpose * M).mulVec v) = dotProduct (M.mulVec v) (M.mulVec v) := by
    rw [← Matrix.mulVec_mulVec, Matrix.dotProduct_mulVec, Matrix.vecMul_transpose]
  rw [this]
  unfold dotProduct
  exact Finset.sum_nonneg fun i _ => mul_self_nonneg _

example : w2 0 0 4 0 0 4 1 1 = (1/2, 1/4, 1/4) := by norm_num [w2, area2]

end GstProofs.C15
