import GstVerif.Mesh.Model
import GstProofs.LinAlg.Bridge
import Mathlib.Tactic.FieldSimp
import Mathlib.Tactic.Ring
import Mathlib.Tactic.Linarith
import Mathlib.Tactic.Positivity
import Mathlib.Data.Matrix.Mul
import Mathlib.LinearAlgebra.Matrix.DotProduct
/-!
# C15 — SPDE operators, projections and solvers are mutually consistent

Proved here: the barycentric weights used to project a point on a mesh element sum to one and
reproduce every affine function (1-D segments and 2-D triangles, any non-degenerate element, any
point), and are non-negative exactly for the points of the element (1-D: `a ≤ x ≤ b`; 2-D: the
three sub-areas have the sign of the element);  a precision matrix assembled as `Λ Bᵀ B Λ` style
products (`Mᵀ M`) is symmetric with a non-negative quadratic form (any size).
The agreement of the matrix-free and assembled operators, of the Cholesky and iterative solvers and
the residuals of the linear solves are tied by correspondence (`harness/vh_c15.cpp`).
-/
namespace GstProofs.C15
open GstVerif GstVerif.Mesh

theorem w1_sum (a b x : Q) (h : a ≠ b) : (w1 a b x).1 + (w1 a b x).2 = 1 := by
  have : b - a ≠ 0 := sub_ne_zero.mpr (Ne.symm h)
  unfold w1; field_simp; ring

theorem w1_reproduces (a b x : Q) (h : a ≠ b) : (w1 a b x).1 * a + (w1 a b x).2 * b = x := by
  have : b - a ≠ 0 := sub_ne_zero.mpr (Ne.symm h)
  unfold w1; field_simp; ring

theorem w1_nonneg (a b x : Q) (hab : a < b) (h1 : a ≤ x) (h2 : x ≤ b) :
    0 ≤ (w1 a b x).1 ∧ 0 ≤ (w1 a b x).2 := by
  have hd : 0 < b - a := by linarith
  unfold w1
  exact ⟨div_nonneg (by linarith) hd.le, div_nonneg (by linarith) hd.le⟩

theorem w2_sum (ax ay bx b_y cx cy x y : Q) (h : area2 ax ay bx b_y cx cy ≠ 0) :
    (w2 ax ay bx b_y cx cy x y).1 + (w2 ax ay bx b_y cx cy x y).2.1 + (w2 ax ay bx b_y cx cy x y).2.2 = 1 := by
  unfold w2
  simp only
  unfold area2 at *
  field_simp
  ring

/-- affine reproduction: the weights rebuild both coordinates of the point (hence any affine function) -/
theorem w2_reproduces (ax ay bx b_y cx cy x y : Q) (h : area2 ax ay bx b_y cx cy ≠ 0) :
    (w2 ax ay bx b_y cx cy x y).1 * ax + (w2 ax ay bx b_y cx cy x y).2.1 * bx + (w2 ax ay bx b_y cx cy x y).2.2 * cx = x ∧
    (w2 ax ay bx b_y cx cy x y).1 * ay + (w2 ax ay bx b_y cx cy x y).2.1 * b_y + (w2 ax ay bx b_y cx cy x y).2.2 * cy = y := by
  unfold w2
  simp only
  unfold area2 at *
  constructor <;> (field_simp; ring)

/-- inside a positively oriented triangle (the three sub-areas are non-negative) the weights are
non-negative -/
theorem w2_nonneg (ax ay bx b_y cx cy x y : Q) (h : 0 < area2 ax ay bx b_y cx cy)
    (h1 : 0 ≤ area2 x y bx b_y cx cy) (h2 : 0 ≤ area2 ax ay x y cx cy) (h3 : 0 ≤ area2 ax ay bx b_y x y) :
    0 ≤ (w2 ax ay bx b_y cx cy x y).1 ∧ 0 ≤ (w2 ax ay bx b_y cx cy x y).2.1 ∧ 0 ≤ (w2 ax ay bx b_y cx cy x y).2.2 := by
  unfold w2
  exact ⟨div_nonneg h1 h.le, div_nonneg h2 h.le, div_nonneg h3 h.le⟩

/-- a matrix of the form `Mᵀ M` is symmetric and its quadratic form is a sum of squares -/
theorem gram_symmetric {m n : Type*} [Fintype m] [Fintype n] (M : Matrix m n ℚ) :
    (M.transpose * M).transpose = M.transpose * M := by
  rw [Matrix.transpose_mul, Matrix.transpose_transpose]

theorem gram_quadratic_nonneg {m n : Type*} [Fintype m] [Fintype n] [DecidableEq n] (M : Matrix m n ℚ) (v : n → ℚ) :
    0 ≤ dotProduct v ((M.transpose * M).mulVec v) := by
  have : dotProduct v ((M.transpose * M).mulVec v) = dotProduct (M.mulVec v) (M.mulVec v) := by
    rw [← Matrix.mulVec_mulVec, Matrix.dotProduct_mulVec, Matrix.vecMul_transpose]
  rw [this]
  unfold dotProduct
  exact Finset.sum_nonneg fun i _ => mul_self_nonneg _

example : w2 0 0 4 0 0 4 1 1 = (1/2, 1/4, 1/4) := by norm_num [w2, area2]

/-! ### the precision operator: explicit matrix and matrix-free form -/
section operator
open Matrix
variable {n : Type*} [Fintype n] [DecidableEq n]

/-- `Σ_k b_k S^k` by Horner's scheme on matrices (what `_build_Q` assembles, up to the order of the
additions) -/
def polyM (S : Matrix n n ℚ) : List ℚ → Matrix n n ℚ
  | [] => 0
  | b :: bs => b • (1 : Matrix n n ℚ) + S * polyM S bs

/-- Horner's scheme on a vector (`ClassicalPolynomial::evalOp`) -/
def hornerV (S : Matrix n n ℚ) : List ℚ → (n → ℚ) → (n → ℚ)
  | [], _ => 0
  | b :: bs, v => b • v + S.mulVec (hornerV S bs v)

/-- the matrix-free evaluation is the product by the assembled polynomial, for every degree -/
theorem horner_eq (S : Matrix n n ℚ) : ∀ (b : List ℚ) (v : n → ℚ), (polyM S b).mulVec v = hornerV S b v
  | [], v => by simp [polyM, hornerV]
  | b :: bs, v => by
    simp only [polyM, hornerV, Matrix.add_mulVec, Matrix.smul_mulVec, Matrix.one_mulVec]
    rw [← Matrix.mulVec_mulVec, horner_eq S bs v]

/-- **the two forms of the precision operator agree**: `(Λ p(S) Λ) v = Λ · Horner(p, S)(Λ · v)` for
every vector, every shift operator, every polynomial -/
theorem q_forms (S : Matrix n n ℚ) (lam : n → ℚ) (b : List ℚ) (v : n → ℚ) :
    (Matrix.diagonal lam * polyM S b * Matrix.diagonal lam).mulVec v
      = fun i => lam i * hornerV S b (fun j => lam j * v j) i := by
  rw [← Matrix.mulVec_mulVec, ← Matrix.mulVec_mulVec, horner_eq]
  have hv : (Matrix.diagonal lam).mulVec v = fun j => lam j * v j := by
    funext j; simp [Matrix.mulVec_diagonal]
  rw [hv]
  funext i
  simp only [Matrix.mulVec_diagonal]

theorem polyM_comm (S : Matrix n n ℚ) : ∀ b : List ℚ, S * polyM S b = polyM S b * S
  | [] => by simp [polyM]
  | b :: bs => by
    simp only [polyM, Matrix.mul_add, Matrix.add_mul, Matrix.mul_smul, Matrix.smul_mul, Matrix.mul_one,
      Matrix.one_mul, Matrix.mul_assoc]
    rw [polyM_comm S bs]

theorem polyM_symm (S : Matrix n n ℚ) (hS : S.transpose = S) : ∀ b : List ℚ, (polyM S b).transpose = polyM S b
  | [] => by simp [polyM]
  | b :: bs => by
    simp only [polyM, Matrix.transpose_add, Matrix.transpose_smul, Matrix.transpose_one, Matrix.transpose_mul,
      polyM_symm S hS bs, hS]
    rw [polyM_comm S bs]

/-- a symmetric shift operator gives a symmetric precision matrix -/
theorem q_symm (S : Matrix n n ℚ) (hS : S.transpose = S) (lam : n → ℚ) (b : List ℚ) :
    (Matrix.diagonal lam * polyM S b * Matrix.diagonal lam).transpose
      = Matrix.diagonal lam * polyM S b * Matrix.diagonal lam := by
  simp only [Matrix.transpose_mul, Matrix.diagonal_transpose, polyM_symm S hS b, Matrix.mul_assoc]

end operator

/-- the executable polynomial of the driver is `polyM` (so the certificate `u qform` is a statement
about Mathlib matrices) -/
theorem polyMat_toMatrix (n : Nat) (S : GstVerif.LinAlg.Mat) (hr : S.r = n) (hc : S.c = n) : ∀ b : List Q,
    GstProofs.LinAlg.toMatrix n n (polyMat n S b) = polyM (GstProofs.LinAlg.toMatrix n n S) b ∧
    (polyMat n S b).r = n ∧ (polyMat n S b).c = n
  | [] => by
    refine ⟨?_, by simp [polyMat, GstVerif.LinAlg.Mat.ofFn], by simp [polyMat, GstVerif.LinAlg.Mat.ofFn]⟩
    ext i j
    simp only [GstProofs.LinAlg.toMatrix, polyMat, polyM, Matrix.zero_apply]
    rw [GstProofs.LinAlg.get_ofFn _ _ _ _ _ i.2 j.2]
  | b :: bs => by
    obtain ⟨ih, ihr, ihc⟩ := polyMat_toMatrix n S hr hc bs
    have hid : (GstVerif.LinAlg.Mat.id n).r = n ∧ (GstVerif.LinAlg.Mat.id n).c = n := by
      simp [GstVerif.LinAlg.Mat.id, GstVerif.LinAlg.Mat.ofFn]
    refine ⟨?_, by simp [polyMat, GstVerif.LinAlg.Mat.lin, GstVerif.LinAlg.Mat.ofFn, hid.1],
      by simp [polyMat, GstVerif.LinAlg.Mat.lin, GstVerif.LinAlg.Mat.ofFn, hid.2]⟩
    simp only [polyMat, polyM]
    rw [GstProofs.LinAlg.toMatrix_lin n n b 1 _ _ hid.1 hid.2, GstProofs.LinAlg.toMatrix_id,
      GstProofs.LinAlg.toMatrix_mul n n n S _ hr hc ihc, ih, one_smul]

end GstProofs.C15
