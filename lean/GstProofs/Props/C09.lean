import GstVerif.NF.Model
/-
  C09 — loaders fail cleanly on malformed or truncated files.

  The theorems quantify over EVERY file content (any list of lines of any tokens): whatever the
  reader of the model accepts is a consistent table whose size is bounded by the size of the file,
  and the reader is a total function (Lean accepted its structural recursion: it terminates on every
  input).  Truncated files (every prefix of every valid file) are a special case.
-/
namespace GstProofs.C09
open GstVerif GstVerif.NF

/-- number of tokens of a list of lines / of a reading position -/
def total (ls : List Line) : Nat := (ls.map List.length).sum
def stotal (s : Stream) : Nat := s.cur.length + total s.rest

@[simp] theorem total_nil : total [] = 0 := rfl
@[simp] theorem total_cons (l : Line) (ls : List Line) : total (l :: ls) = l.length + total ls := by
  simp [total]

theorem sigTokens_le (l : Line) : (sigTokens l).length ≤ l.length := by
  unfold sigTokens; exact (List.takeWhile_sublist _).length_le

/-- the vector reader returns exactly the number of values asked for — never more — taken from
the lines it consumed -/
theorem readVecLines_spec (n : Nat) : ∀ (ls : List Line) (t : Line) (r : List Line),
    readVecLines n ls = some (t, r) → t.length = n ∧ t.length + total r ≤ total ls
  | [], t, r, h => by
    unfold readVecLines at h
    split at h
    · simp at h; obtain ⟨rfl, rfl⟩ := h; simp_all
    · simp at h
  | l :: ls, t, r, h => by
    unfold readVecLines at h
    split at h
    · simp only at h
      split at h
      · simp at h; obtain ⟨rfl, rfl⟩ := h
        rename_i hlen
        exact ⟨hlen, by have := sigTokens_le l; simp; omega⟩
      · simp at h
    · have := readVecLines_spec n ls t r h
      exact ⟨this.1, by simp; omega⟩

theorem readVec_spec (n : Nat) (s s' : Stream) (t : Line) (h : readVec n s = some (t, s')) :
    t.length = n ∧ t.length + stotal s' ≤ stotal s := by
  unfold readVec at h
  split at h
  · simp at h; obtain ⟨rfl, rfl⟩ := h; simp_all
  · cases hr : readVecLines n (s.cur :: s.rest) with
    | none => simp [hr] at h
    | some p =>
      obtain ⟨t', r⟩ := p
      simp [hr] at h; obtain ⟨rfl, rfl⟩ := h
      have := readVecLines_spec n _ _ _ hr
      exact ⟨this.1, by simp [stotal] at *; omega⟩

/-- rows: exactly `k` rows of exactly `ncol` values, all taken from the file -/
theorem readRows_spec (ncol : Nat) : ∀ (k : Nat) (s s' : Stream) (rows : List Line),
    readRows ncol k s = some (rows, s') →
    rows.length = k ∧ (∀ r ∈ rows, r.length = ncol) ∧ k * ncol + stotal s' ≤ stotal s
  | 0, s, s', rows, h => by
    simp [readRows] at h; obtain ⟨rfl, rfl⟩ := h; simp
  | k+1, s, s', rows, h => by
    unfold readRows at h
    cases hv : readVec ncol s with
    | none => simp [hv] at h
    | some p =>
      obtain ⟨r, s1⟩ := p
      simp only [hv] at h
      cases hr : readRows ncol k s1 with
      | none => simp [hr] at h
      | some q =>
        obtain ⟨rs, s2⟩ := q
        simp [hr] at h; obtain ⟨rfl, rfl⟩ := h
        have h1 := readVec_spec ncol s s1 r hv
        have h2 := readRows_spec ncol k s1 s2 rs hr
        refine ⟨by simp [h2.1], ?_, ?_⟩
        · intro x hx
          rcases List.mem_cons.mp hx with rfl | hx
          · exact h1.1
          · exact h2.2.1 x hx
        · have : (k + 1) * ncol = k * ncol + ncol := Nat.succ_mul k ncol
          omega

/-- consistency rules of a table read from a file (the ones `Db` maintains through its API:
one locator and one name per column, `nech` values per column) -/
def Consistent (d : DbFile) : Prop :=
  d.locators.length = d.ncol ∧ d.names.length = d.ncol ∧
  (d.ncol = 0 → d.rows = []) ∧ (0 < d.ncol → d.rows.length = d.nech) ∧ ∀ r ∈ d.rows, r.length = d.ncol

theorem nextWord_total : ∀ (cur : Line) (rest : List Line) (t : String) (s : Stream),
    nextWord cur rest = some (t, s) → stotal s < cur.length + total rest
  | t0 :: cur, rest, t, s, h => by
    unfold nextWord at h
    split at h
    · cases rest with
      | nil => simp at h
      | cons l ls =>
        have := nextWord_total l ls t s h
        simp at *; omega
    · simp at h; obtain ⟨rfl, rfl⟩ := h; simp [stotal]
  | [], rest, t, s, h => by
    unfold nextWord at h
    cases rest with
    | nil => simp at h
    | cons l ls =>
      have := nextWord_total l ls t s h
      simp at *; omega

theorem readRec_total (d : String) (s : Stream) : stotal (readRec d s).2 ≤ stotal s := by
  unfold readRec
  cases h : nextWord s.cur s.rest with
  | none => simp [stotal]
  | some p => obtain ⟨t, s'⟩ := p; have := nextWord_total _ _ _ _ h; simp [stotal] at *; omega

/-- the body of a Db (what follows the type tag), from any reading position -/
theorem deserDbBody_consistent (s0 : Stream) (d : DbFile) (h : deserDbBody s0 = some d) :
    Consistent d ∧ d.ncol * d.nech + 2 * d.ncol ≤ stotal s0 ∨ (Consistent d ∧ d.ncol = 0) := by
  unfold deserDbBody at h
  have t1 := readRec_total "0" s0
  have t2 := readRec_total "0" (readRec "0" s0).2
  generalize (readRec "0" s0) = r1 at *
  obtain ⟨ncolT, s1⟩ := r1
  simp only at h t1 t2
  generalize (readRec "0" s1) = r2 at *
  obtain ⟨nechT, s2⟩ := r2
  simp only at h t2
  cases hn : parseCInt? ncolT with
  | none => simp [hn] at h
  | some ncolI =>
    cases he : parseCInt? nechT with
    | none => simp [hn, he] at h
    | some nechI =>
      simp only [hn, he] at h
      split at h
      · simp at h
      · by_cases hz : ncolI.toNat > 0
        · simp only [hz, if_true] at h
          cases hv1 : readVec ncolI.toNat s2 with
          | none => simp [hv1] at h
          | some q1 =>
            obtain ⟨locs, s3⟩ := q1
            simp only [hv1] at h
            cases hv2 : readVec ncolI.toNat s3 with
            | none => simp [hv2] at h
            | some q2 =>
              obtain ⟨names, s4⟩ := q2
              simp only [hv2] at h
              have hne : ¬ ncolI.toNat = 0 := by omega
              simp only [hne, if_false] at h
              cases hr : readRows ncolI.toNat nechI.toNat s4 with
              | none => simp [hr] at h
              | some q3 =>
                obtain ⟨rows, s5⟩ := q3
                simp [hr] at h; subst h
                have a1 := readVec_spec _ _ _ _ hv1
                have a2 := readVec_spec _ _ _ _ hv2
                have a3 := readRows_spec _ _ _ _ _ hr
                left
                refine ⟨⟨a1.1, a2.1, by intro e; simp at e; omega, fun _ => a3.1, a3.2.1⟩, ?_⟩
                have : ncolI.toNat * nechI.toNat = nechI.toNat * ncolI.toNat := Nat.mul_comm _ _
                show ncolI.toNat * nechI.toNat + 2 * ncolI.toNat ≤ stotal s0
                omega
        · simp only [hz, if_false] at h
          have hne : ncolI.toNat = 0 := by omega
          simp [hne] at h; subst h
          right
          exact ⟨⟨rfl, rfl, fun _ => rfl, by intro h; simp at h, by intro r hr; simp at hr⟩, rfl⟩

/-- **Every accepted file gives a consistent table no larger than the file.**  (all inputs) -/
theorem deserDb_consistent (file : List Line) (d : DbFile) (h : deserDb file = some d) :
    Consistent d ∧ d.ncol * d.nech + 2 * d.ncol ≤ total file ∨ (Consistent d ∧ d.ncol = 0) := by
  unfold deserDb at h
  cases file with
  | nil => simp at h
  | cons first rest =>
    simp only at h
    cases h0 : nextWord first rest with
    | none => simp [h0] at h
    | some p0 =>
      obtain ⟨tag, s0⟩ := p0
      simp only [h0] at h
      split at h
      · simp at h
      · have t0 := nextWord_total _ _ _ _ h0
        rcases deserDbBody_consistent s0 d h with hb | hb
        · left; refine ⟨hb.1, ?_⟩; simp only [total_cons]; omega
        · right; exact hb

/-- the same for a grid file: the table part of every accepted DbGrid file is consistent -/
theorem deserGrid_consistent (file : List Line) (g : GridFile) (h : deserGrid file = some g) :
    Consistent g.db := by
  unfold deserGrid at h
  cases file with
  | nil => simp at h
  | cons first rest =>
    simp only at h
    cases h0 : nextWord first rest with
    | none => simp [h0] at h
    | some p0 =>
      obtain ⟨tag, s0⟩ := p0
      simp only [h0] at h
      split at h
      · simp at h
      · generalize (readRec "0" s0) = r1 at h
        obtain ⟨ndimT, s1⟩ := r1
        simp only at h
        cases hn : parseCInt? ndimT with
        | none => simp [hn] at h
        | some ndimI =>
          simp only [hn] at h
          split at h
          · simp at h
          · generalize (readDims ndimI.toNat s1) = r2 at h
            obtain ⟨dims, s2⟩ := r2
            simp only at h
            split at h
            · simp at h
            · cases hb : deserDbBody s2 with
              | none => simp [hb] at h
              | some db =>
                simp [hb] at h; subst h
                rcases deserDbBody_consistent s2 db hb with hc | hc <;> exact hc.1

/-- interrupted write: every prefix (cut at any line, and inside any line at any token) of any
file is either rejected or gives a consistent table -/
theorem truncated_file (file : List Line) (k j : Nat) (d : DbFile)
    (h : deserDb (file.take k ++ [(file.getD k []).take j]) = some d) : Consistent d := by
  rcases deserDb_consistent _ _ h with h | h <;> exact h.1

/-- the size bound is not vacuous: a header announcing a huge table over a short file is rejected -/
example : deserDb [["Db"], ["2", "#", "ncol"], ["1000000000", "#", "nech"], ["#", "Locators"],
    ["x1", "z1"], ["#", "Names"], ["a", "b"], ["1", "2"]] = none := by decide +kernel

example : deserDb [["Db"], ["2", "#", "ncol"], ["1", "#", "nech"], ["#", "Locators"],
    ["x1", "z1"], ["#", "Names"], ["a", "b"], ["1", "2"]]
    = some { ncol := 2, nech := 1, locators := ["x1", "z1"], names := ["a", "b"], rows := [["1", "2"]] } := by
  decide +kernel

end GstProofs.C09
