import GstProofs.Db.Step
/-!
# C07 — A Db stays a consistent table under any sequence of edits

Model: `GstVerif/Db/Model.lean`.  `inv` is the decidable consistency predicate (unique names, one
uid per column, rectangular content, every role entry a live column, no column with two roles —
role numbers are list positions, hence consecutive from one).  The same `inv` is evaluated by the
driver on the *library's* state after every operation of every generated history.

Proved here for ALL histories of ALL 21 editing operations of the model (column addition, the four
deletions, the four renamings, the five role assignments, role clearing and switching, sample
addition / deletion, value assignment): from a consistent table every accepted operation yields a
consistent table (`step_full`), hence every reachable state is consistent (`reach_full`, induction
on the history, no bound on its length).  The only side condition is `Admissible`: an *explicit*
role number must not exceed by more than one the number of roles of that type held by the other
columns.  That condition is exactly what the unchanged library needs (known finding F4: beyond it
the role list is padded with uid 0 — witnessed below as the negation of the statement without the
condition); every operation that leaves the role number to the library (`locatorIndex < 0`)
satisfies it in every state (`reach_auto`).  The duplicate-correcting name helpers are proved to
return duplicate-free lists whatever the names proposed (`Db.fixNewName_spec`, `Db.fixNames_spec`).
-/
namespace GstProofs.C07
open GstVerif GstVerif.Db GstProofs.Db

/-- the decidable predicate run on the library's state is the Prop invariant -/
theorem inv_sound (s : State) : inv s = true ↔ Inv s := inv_iff s

/-- an empty Db (or DbGrid) is consistent -/
theorem init (g : Bool) : Inv { grid := g, nech := 0, nextUid := 0, uids := [], names := [], cols := [],
                                loc := List.replicate NLOC [] } := by
  rw [← inv_iff]; cases g <;> decide

/-- one step of any operation -/
theorem step_full (s s' : State) (op : Op) (h : Inv s) (ha : Admissible s op)
    (hs : step s op = some s') : Inv s' := step_inv s s' op h ha hs

/-- every history of editing operations, from any consistent state -/
theorem reach_full (ops : List Op) (s s' : State) (ha : AdmissiblePath s ops)
    (h : Inv s) (hs : ops.foldlM (fun st op => step st op) s = some s') : Inv s' :=
  reach ops s s' ha h hs

/-- … in particular every history whose role numbers are left to the library -/
theorem reach_auto (ops : List Op) (s s' : State) (ha : ∀ op ∈ ops, AutoRank op = true)
    (h : Inv s) (hs : ops.foldlM (fun st op => step st op) s = some s') : Inv s' :=
  GstProofs.Db.reach_auto ops s s' ha h hs

/-- the operations covered in the first version of this file (kept: no side condition at all) -/
theorem step_partial (s s' : State) (op : Op) (hc : Covered op = true) (h : Inv s)
    (hs : step s op = some s') : Inv s' := step_inv_covered s s' op hc h hs

theorem reach_partial (ops : List Op) (s s' : State) (hc : ∀ op ∈ ops, Covered op = true)
    (h : Inv s) (hs : ops.foldlM (fun st op => step st op) s = some s') : Inv s' :=
  reach_covered ops s s' hc h hs

/-- deleting a column never disturbs the others: their uid, name and values are unchanged -/
theorem delete_frame (s : State) (u : Int) (c : Nat) (hv : uidValid s u = true)
    (hc : idxOf? u.toNat s.uids = some c) :
    (deleteByUid s u).uids = s.uids.eraseIdx c ∧ (deleteByUid s u).names = s.names.eraseIdx c ∧
    (deleteByUid s u).cols = s.cols.eraseIdx c ∧ (deleteByUid s u).nech = s.nech := by
  simp [deleteByUid, hv, hc]

/-- reported counts match the content -/
theorem counts (s : State) (h : Inv s) :
    ncol s = s.names.length ∧ ncol s = s.cols.length ∧ ∀ c ∈ s.cols, c.length = s.nech :=
  ⟨h.namesLen.symm, h.colsLen.symm, h.colsRect⟩

/-! ### witness of known finding F4 (negation of the full statement on the model = the library) -/
def s2 : State := { grid := false, nech := 1, nextUid := 2, uids := [0, 1], names := ["a", "b"],
                    cols := [[some 1], [some 2]], loc := List.replicate NLOC [] }
example : inv s2 = true := by decide
/-- `setLocatorByUID(uid 1, Z, rank 3)`: ranks 1 and 2 are padded with uid 0 (two roles for column 0) -/
example : inv (setLocatorByUID s2 1 1 2 false) = false := by decide
/-- … and that call is exactly what `Admissible` excludes: rank 2 (0-based) with no other Z role -/
example : ¬ Admissible s2 (.locUid 1 1 2 false) := by
  simp only [Admissible, RankOK, rolesBefore]; decide
/-- the next free rank is admissible -/
example : Admissible s2 (.locUid 1 1 0 false) := by
  simp only [Admissible, RankOK, rolesBefore]; decide
/-- with the automatic rank the table stays consistent -/
example : inv (setLocatorByUID s2 1 1 (-1) false) = true := by decide

/-! ### non-vacuity -/
example : (step s2 (.delUid 0)).map inv = some true := by decide

/-! ### value assignments: untouched cells keep their values -/

/-- the value of one cell (undefined outside the table) -/
def cell (s : State) (c i : Nat) : Val := ((s.cols.getD c []).getD i none)

/-- `setArrayBySample` writes exactly one row: cell `(c, i)` afterwards holds `vals[c]` on the addressed
sample and its previous value everywhere else — for every table, sample index and list of values -/
theorem setRow_frame (s s' : State) (iech : Int) (vals : List Val) (h : Inv s)
    (hs : step s (.setRow iech vals) = some s') (c i : Nat) (hc : c < ncol s) (hi : i < s.nech) :
    cell s' c i =
      if vals.length = ncol s ∧ 0 ≤ iech ∧ iech < (s.nech : Int) ∧ i = iech.toNat then vals.getD c none
      else cell s c i := by
  have hcl : c < s.cols.length := by rw [h.colsLen]; exact hc
  have hrect : (s.cols[c]).length = s.nech := h.colsRect _ (List.getElem_mem hcl)
  simp only [step] at hs
  split at hs <;> injection hs with hs <;> subst hs
  · rename_i hg
    have : ¬ (vals.length = ncol s ∧ 0 ≤ iech ∧ iech < (s.nech : Int) ∧ i = iech.toNat) := by
      intro hh
      simp [hh.1, hh.2.1, hh.2.2.1] at hg
    rw [if_neg this]
  · rename_i hg
    have hl : vals.length = ncol s := by
      by_contra hne; exact hg (by simp [hne])
    have hr : 0 ≤ iech ∧ iech < (s.nech : Int) := by
      by_contra hne
      apply hg
      simp only [Bool.or_eq_true, Bool.not_eq_true', Bool.and_eq_false_iff, decide_eq_false_iff_not]
      right
      by_cases h0 : 0 ≤ iech
      · right; exact fun hlt => hne ⟨h0, hlt⟩
      · left; exact h0
    have hcv : c < vals.length := by rw [hl]; exact hc
    have hz : (s.cols.zip vals)[c]? = some (s.cols[c], vals[c]) := by
      rw [List.zip_eq_zipWith, List.getElem?_zipWith, List.getElem?_eq_getElem hcl, List.getElem?_eq_getElem hcv]
    simp only [cell, List.getD_eq_getElem?_getD, List.getElem?_map, hz, Option.map_some, Option.getD_some,
      List.getElem?_eq_getElem hcl, List.getElem?_eq_getElem hcv]
    by_cases hie : i = iech.toNat
    · rw [if_pos ⟨hl, hr.1, hr.2, hie⟩]
      subst hie
      simp [hrect, hi]
    · rw [if_neg (fun hh => hie hh.2.2.2)]
      simp [Ne.symm hie]

/-- `setArray` writes exactly one cell: the one of the column holding that uid, at that sample; refused
arguments (unknown uid, sample out of range) change nothing -/
theorem setArray_frame (s s' : State) (iech u : Int) (val : Val) (h : Inv s)
    (hs : step s (.setArray iech u val) = some s') (c i : Nat) (hc : c < ncol s) (hi : i < s.nech) :
    cell s' c i =
      if 0 ≤ iech ∧ iech < (s.nech : Int) ∧ colOfUid s u = (c : Int) ∧ i = iech.toNat then val
      else cell s c i := by
  have hcl : c < s.cols.length := by rw [h.colsLen]; exact hc
  have hrect : (s.cols[c]).length = s.nech := h.colsRect _ (List.getElem_mem hcl)
  simp only [step] at hs
  split at hs <;> injection hs with hs <;> subst hs
  · rename_i hg
    have : ¬ (0 ≤ iech ∧ iech < (s.nech : Int) ∧ colOfUid s u = (c : Int) ∧ i = iech.toNat) := by
      intro hh
      simp [hh.1, hh.2.1, hh.2.2.1] at hg
      omega
    rw [if_neg this]
  · rename_i hg
    simp only [Bool.or_eq_true, Bool.not_eq_true', Bool.and_eq_false_iff, decide_eq_false_iff_not,
      decide_eq_true_eq, not_or, not_not, Int.not_lt] at hg
    have hr : 0 ≤ iech ∧ iech < (s.nech : Int) := ⟨hg.1.1, by omega⟩
    simp only [cell, List.getD_eq_getElem?_getD, List.getElem?_modify, List.getElem?_eq_getElem hcl,
      Option.getD_some]
    by_cases hcu : colOfUid s u = (c : Int)
    · have hcc : (colOfUid s u).toNat = c := by omega
      by_cases hie : i = iech.toNat
      · rw [if_pos ⟨hr.1, hr.2, hcu, hie⟩]
        subst hie
        simp [hcc, hrect, hi]
      · rw [if_neg (fun hh => hie hh.2.2.2)]
        simp [hcc, Ne.symm hie]
    · rw [if_neg (fun hh => hcu hh.2.2.1)]
      have hcc : (colOfUid s u).toNat ≠ c := by omega
      simp [hcc]

/-- non-vacuity: a 2×2 table, one row written -/
example : (step { grid := false, nech := 2, nextUid := 2, uids := [0, 1], names := ["a", "b"],
                  cols := [[some 1, some 2], [some 3, some 4]], loc := List.replicate NLOC [] }
              (.setRow 1 [some 7, none])).map (·.cols) = some [[some 1, some 7], [some 3, none]] := by decide

/-! ### a row written is the row read -/

/-- what was written is read back: after an accepted whole-row write, reading the same sample returns the values
given, in column order ("every designation of a column refers to the same data") -/
theorem setRow_readRow (s s' : State) (iech : Int) (vals : List Val) (h : Inv s)
    (hs : step s (.setRow iech vals) = some s') (hl : vals.length = ncol s)
    (h0 : 0 ≤ iech) (h1 : iech < (s.nech : Int)) : readRow s' iech = vals := by
  have hne : s'.nech = s.nech := by
    simp only [step] at hs
    split at hs <;> injection hs with hs <;> subst hs <;> rfl
  apply List.ext_getElem?
  intro c
  have hlen : (readRow s' iech).length = s'.cols.length := by
    unfold readRow; split <;> simp
  have hinv' : Inv s' := step_full s s' _ h (by trivial) hs
  by_cases hc : c < ncol s
  · have hi : iech.toNat < s.nech := by omega
    have hcell := setRow_frame s s' iech vals h hs c iech.toNat hc hi
    rw [if_pos ⟨hl, h0, h1, rfl⟩] at hcell
    have hcl' : c < s'.cols.length := by
      rw [hinv'.colsLen]
      simp only [step] at hs
      split at hs <;> injection hs with hs <;> subst hs <;> exact hc
    have hcv : c < vals.length := by rw [hl]; exact hc
    unfold readRow
    rw [if_pos (by simp [h0, hne, h1])]
    simp only [List.getElem?_map, List.getElem?_eq_getElem hcl', Option.map_some, List.getElem?_eq_getElem hcv]
    simp only [cell, List.getD_eq_getElem?_getD, List.getElem?_eq_getElem hcl', Option.getD_some,
      List.getElem?_eq_getElem hcv] at hcell
    rw [hcell]
  · have hcl' : ¬ c < s'.cols.length := by
      rw [hinv'.colsLen]
      simp only [step] at hs
      split at hs <;> injection hs with hs <;> subst hs <;> exact hc
    have : ¬ c < (readRow s' iech).length := by rw [hlen]; exact hcl'
    rw [List.getElem?_eq_none (by omega), List.getElem?_eq_none (by rw [hl]; omega)]

end GstProofs.C07
