import GstVerif.Trans.Model
import GstProofs.Trans.Hermite
import Mathlib.Algebra.Polynomial.Eval.Defs
import Mathlib.LinearAlgebra.Matrix.DotProduct
import Mathlib.Data.Matrix.Mul
import Mathlib.Tactic.Ring
import Mathlib.Tactic.FieldSimp
import Mathlib.Tactic.Linarith
/-!
# C18 — data transforms and their inverses compose to the identity

* change of coordinates of a rotation: applying an orthogonal matrix then its transpose returns
  the vector (any dimension) — `rotation_roundtrip`;
* factor transforms (PCA, MAF): when the back-transformation matrix is a left inverse of the
  forward one, variables → factors → variables is the identity, centring included
  (`factors_roundtrip`); with an orthonormal eigen-basis and scaling by the inverse square roots of
  the eigenvalues the factors have the identity as covariance (`factors_whitened`);
* normal scores: the rank is monotone in the value (`rank_monotone`), so any non-decreasing
  quantile function applied to it gives a non-decreasing transform;
* Hermite polynomials: orthogonality `E[He_m He_n] = n! δ_mn` under the Gaussian law for EVERY pair of
  degrees (`hermite_orthogonal`, `hermite_table_all`: the coefficient lists of the model are polynomials of
  `ℤ[X]`, the expectation is the moment functional, Stein's identity and `He_n' = n He_{n-1}` give the
  result by induction — `GstProofs/Trans/Hermite.lean`); the values computed by the three-term recurrence
  (the quantity compared with the library) are the values of these polynomials (`hermite_values`);
  the earlier finite table (`hermite_orthogonal_below_12`, by evaluation) is kept as a cross-check.
The anamorphosis round trips (numerical inversion) are tied by correspondence only.
-/
namespace GstProofs.C18
open GstVerif GstVerif.Trans Matrix

variable {n : Type*} [Fintype n] [DecidableEq n]

/-- rotate, then rotate back -/
theorem rotation_roundtrip (R : Matrix n n ℚ) (hR : R.transpose * R = 1) (v : n → ℚ) :
    R.transpose.mulVec (R.mulVec v) = v := by
  rw [Matrix.mulVec_mulVec, hR, Matrix.one_mulVec]

/-- variables → factors → variables, with centring -/
theorem factors_roundtrip (F B : Matrix n n ℚ) (hBF : B * F = 1) (m z : n → ℚ) :
    B.mulVec (F.mulVec (z - m)) + m = z := by
  rw [Matrix.mulVec_mulVec, hBF, Matrix.one_mulVec]; simp

/-- factors built from an orthonormal eigen-basis `U` of `C = U Λ Uᵀ`, scaled by `S` with
`S Λ S = 1`, have the identity as covariance matrix -/
theorem factors_whitened (U L S C : Matrix n n ℚ) (hU : U.transpose * U = 1)
    (hC : C = U * L * U.transpose) (hS : S * L * S = 1) (hSt : S.transpose = S) :
    (S * U.transpose) * C * (S * U.transpose).transpose = 1 := by
  rw [hC, Matrix.transpose_mul, Matrix.transpose_transpose, hSt]
  calc S * U.transpose * (U * L * U.transpose) * (U * S)
      = S * (U.transpose * U) * L * (U.transpose * U) * S := by simp only [Matrix.mul_assoc]
    _ = S * L * S := by rw [hU]; simp
    _ = 1 := hS

/-- the rank (number of values strictly below) is monotone -/
theorem rank_monotone (l : List Q) (a b : Q) (h : a ≤ b) : countBelow l a ≤ countBelow l b := by
  unfold countBelow
  induction l with
  | nil => simp
  | cons x xs ih =>
    simp only [List.filter]
    by_cases h1 : x < a
    · have h2 : x < b := lt_of_lt_of_le h1 h
      simp [h1, h2]; exact ih
    · by_cases h2 : x < b
      · simp [h1, h2]; omega
      · simp [h1, h2]; exact ih

/-- exact orthogonality of the Hermite polynomials of degree < 12 under the Gaussian law -/
theorem hermite_orthogonal_below_12 : orthoTable 12 = true := by decide +kernel

/-- **orthogonality for every pair of degrees** (statement on the executable definitions of the model) -/
theorem hermite_orthogonal (m n : Nat) :
    expect (pmul (hePoly m) (hePoly n)) = if m = n then fact n else 0 := by
  rw [GstProofs.Trans.expect_eq, GstProofs.Trans.toPoly_pmul]
  exact GstProofs.Trans.E_H_mul m n

/-- the table is true at every size -/
theorem hermite_table_all (N : Nat) : orthoTable N = true := by
  unfold orthoTable
  simp only [List.all_eq_true, List.mem_range, beq_iff_eq]
  intro m _ n _
  exact hermite_orthogonal m n

/-- `He_n` has norm `n!` and is centred for `n ≥ 1` -/
theorem hermite_norm (n : Nat) : expect (pmul (hePoly n) (hePoly n)) = fact n := by
  simpa using hermite_orthogonal n n

theorem hermite_centred (n : Nat) : expect (hePoly (n + 1)) = 0 := by
  have h := hermite_orthogonal (n + 1) 0
  rw [GstProofs.Trans.expect_eq, GstProofs.Trans.toPoly_pmul] at h
  rw [GstProofs.Trans.expect_eq]
  have h0 : GstProofs.Trans.toPoly (hePoly 0) = 1 := GstProofs.Trans.H_zero
  rw [h0, mul_one] at h
  simpa using h

/-- the values produced by the recurrence are the values of the polynomials `He_k` at `y` -/
theorem hermite_values (y : Q) (n : Nat) :
    (heValues y n).length = n ∧
    ∀ k, k < n → (heValues y n).getD k 0 = Polynomial.eval₂ (Int.castRingHom ℚ) y (GstProofs.Trans.H k) := by
  induction n using Nat.strong_induction_on with
  | _ n ih =>
    match n with
    | 0 => exact ⟨rfl, fun k hk => absurd hk (Nat.not_lt_zero k)⟩
    | 1 =>
      refine ⟨rfl, fun k hk => ?_⟩
      have : k = 0 := by omega
      subst this
      simp [heValues, GstProofs.Trans.H_zero]
    | n + 2 =>
      obtain ⟨hl, hv⟩ := ih (n + 1) (by omega)
      have hlen : (heValues y (n + 2)).length = n + 2 := by simp [heValues, hl]
      refine ⟨hlen, fun k hk => ?_⟩
      by_cases hk' : k < n + 1
      · have : (heValues y (n + 2)).getD k 0 = (heValues y (n + 1)).getD k 0 := by
          simp only [heValues, List.getD_eq_getElem?_getD]
          rw [List.getElem?_append_left (by rw [hl]; exact hk')]
        rw [this]; exact hv k hk'
      · have hkn : k = n + 1 := by omega
        subst hkn
        have hlast : (heValues y (n + 2)).getD (n + 1) 0 =
            y * (heValues y (n + 1)).getD n 0 -
              (n : Q) * (if n = 0 then 0 else (heValues y (n + 1)).getD (n - 1) 0) := by
          simp only [heValues, List.getD_eq_getElem?_getD]
          rw [List.getElem?_append_right (by rw [hl])]
          simp [hl]
        rw [hlast, hv n (by omega)]
        cases n with
        | zero => simp [GstProofs.Trans.H_one, GstProofs.Trans.H_zero]
        | succ j =>
          rw [if_neg (by omega), Nat.add_sub_cancel, hv j (by omega), GstProofs.Trans.H_rec j]
          simp [Polynomial.eval₂_sub, Polynomial.eval₂_mul]

/-- recurrence values agree with the coefficient form (anchor): `He_4(2) = 16 - 24 + 3` -/
example : (heValues 2 5).getD 4 0 = -5 := by decide +kernel
example : hePoly 4 = [3, 0, -6, 0, 1] := by decide +kernel

/-! ### extension of a continuous anamorphosis beyond its practical interval -/

/-- raw → Gaussian → raw (and conversely) is the identity on the extension zone: the two linear
extensions joining the practical bound to the absolute bound are inverse of each other -/
theorem extend_roundtrip (a0 p0 a1 p1 x : Q) (h0 : p0 ≠ a0) (h1 : p1 ≠ a1) :
    extend a1 p1 a0 p0 (extend a0 p0 a1 p1 x) = x := by
  unfold extend
  have e0 : p0 - a0 ≠ 0 := sub_ne_zero.mpr h0
  have e1 : p1 - a1 ≠ 0 := sub_ne_zero.mpr h1
  field_simp
  ring

/-- the extension joins the two bounds … -/
theorem extend_ends (a0 p0 a1 p1 : Q) (h0 : p0 ≠ a0) :
    extend a0 p0 a1 p1 a0 = a1 ∧ extend a0 p0 a1 p1 p0 = p1 := by
  unfold extend
  have e0 : p0 - a0 ≠ 0 := sub_ne_zero.mpr h0
  constructor
  · simp
  · field_simp; ring

/-- … and is increasing when the practical bounds are on the same side of the absolute ones -/
theorem extend_mono (a0 p0 a1 p1 x y : Q) (h0 : p0 < a0) (h1 : p1 < a1) (hxy : x ≤ y) :
    extend a0 p0 a1 p1 x ≤ extend a0 p0 a1 p1 y := by
  unfold extend
  have e0 : p0 - a0 < 0 := by linarith
  have e1 : p1 - a1 < 0 := by linarith
  -- the slope `(p1 − a1) / (p0 − a0)` is positive
  have hs : 0 < (p1 - a1) / (p0 - a0) := by rw [← neg_div_neg_eq]; exact div_pos (by linarith) (by linarith)
  have hx : (p1 - a1) * (x - a0) / (p0 - a0) = (p1 - a1) / (p0 - a0) * (x - a0) := by ring
  have hy : (p1 - a1) * (y - a0) / (p0 - a0) = (p1 - a1) / (p0 - a0) * (y - a0) := by ring
  rw [hx, hy]
  nlinarith

end GstProofs.C18
