import GstVerif.NF.Model
import Mathlib.Tactic.Linarith
/-!
# C08 — Saving and reloading an object gives back an equivalent object

Token-level model of the neutral-file record layer and of the `Db` reader/writer
(`GstVerif/NF/Model.lean`).  Proved: a record written by `_recordWrite` is read back by
`_recordRead` whatever follows it; a vector line written by `_recordWriteVec` is read back by
`_recordReadVec` after any number of pending comments; and `Db::_deserialize ∘ Db::_serialize` is the
identity on every well-formed table (all sizes), with the side condition on tokens made explicit
(`tokOK`: non-empty, no blank, not starting with `#`) — a column name violating it is *not*
reloadable (format limitation, see DESIGN.md).  Number formatting (15 significant digits) and the
other serialisable classes are tied by the correspondence run only.
-/
namespace GstProofs.C08
open GstVerif GstVerif.NF

theorem tokOK_notComment (t : String) (h : tokOK t = true) : isComment t = false := by
  simp only [tokOK, Bool.and_eq_true, Bool.not_eq_true'] at h
  exact h.1.2

theorem nextWord_data (t : String) (cur : Line) (rest : List Line) (h : isComment t = false) :
    nextWord (t :: cur) rest = some (t, ⟨cur, rest⟩) := by
  cases rest <;> simp [nextWord, h]

theorem nextWord_comment (t : String) (cur l : Line) (ls : List Line) (h : isComment t = true) :
    nextWord (t :: cur) (l :: ls) = nextWord l ls := by
  simp [nextWord, h]

theorem nextWord_nil (l : Line) (ls : List Line) : nextWord [] (l :: ls) = nextWord l ls := by
  simp [nextWord]

/-- a value written with its title is read back, and what follows is untouched -/
theorem rec_roundtrip (title v : String) (pre : Line) (rest : List Line) (hv : tokOK v = true)
    (hpre : ∀ t ∈ pre.head?, isComment t = true) :
    readRec "0" ⟨pre, writeRec title v :: rest⟩ = (v, ⟨"#" :: titleToks title, rest⟩) := by
  have hc := tokOK_notComment v hv
  unfold readRec writeRec
  cases pre with
  | nil => simp only [nextWord_nil, nextWord_data _ _ _ hc]
  | cons p ps =>
    have : isComment p = true := hpre p (by simp)
    simp only [nextWord_comment _ _ _ _ this, nextWord_data _ _ _ hc]

theorem sigTokens_all_ok : ∀ l : Line, (∀ t ∈ l, tokOK t = true) → sigTokens l = l
  | [], _ => rfl
  | t :: ts, h => by
    have h1 := tokOK_notComment t (h t List.mem_cons_self)
    have ih := sigTokens_all_ok ts (fun x hx => h x (List.mem_cons_of_mem _ hx))
    simp only [sigTokens] at ih ⊢
    simp [List.takeWhile, h1, ih]

/-- comment and blank lines in front of a data line are skipped by the vector reader -/
theorem readVecLines_skip (n : Nat) : ∀ (junk : List Line) (l : Line) (rest : List Line),
    (∀ j ∈ junk, isDataLine j = false) → l ≠ [] → (∀ t ∈ l, tokOK t = true) → l.length = n →
    readVecLines n (junk ++ l :: rest) = some (l, rest)
  | [], l, rest, _, hne, hok, hlen => by
    have hd : isDataLine l = true := by
      cases l with
      | nil => exact absurd rfl hne
      | cons t ts => simp [isDataLine, tokOK_notComment t (hok t List.mem_cons_self)]
    simp [readVecLines, hd, sigTokens_all_ok l hok, hlen]
  | j :: junk, l, rest, hj, hne, hok, hlen => by
    have : isDataLine j = false := hj j List.mem_cons_self
    simp only [List.cons_append, readVecLines, this, Bool.false_eq_true, if_false]
    exact readVecLines_skip n junk l rest (fun x hx => hj x (List.mem_cons_of_mem _ hx)) hne hok hlen

/-- a vector written with its title is read back after any pending comment remainder -/
theorem vec_roundtrip (title : String) (vec : Line) (cur : Line) (rest : List Line) (n : Nat)
    (hcur : isDataLine cur = false) (hne : vec ≠ []) (hok : ∀ t ∈ vec, tokOK t = true)
    (hlen : vec.length = n) (ht : title ≠ "") :
    readVec n ⟨cur, writeVec title vec ++ rest⟩ = some (vec, ⟨[], rest⟩) := by
  have hn0 : n ≠ 0 := by
    intro e; subst e; exact hne (List.length_eq_zero_iff.mp hlen)
  unfold readVec writeVec
  simp only [hn0, ht, if_false, List.cons_append, List.nil_append]
  have := readVecLines_skip n [cur, writeComment title] vec rest
    (by intro j hj
        simp only [List.mem_cons, List.not_mem_nil, or_false] at hj
        rcases hj with rfl | rfl
        · exact hcur
        · simp [isDataLine, writeComment]; decide +kernel) hne hok hlen
  simp only [List.cons_append, List.nil_append] at this
  simp [this]

/-- an empty vector: the reader consumes nothing, and what the writer produced for it (comment
line + empty line) is junk that every later reader skips -/
theorem vec_empty_roundtrip (title : String) (s : Stream) :
    readVec 0 s = some ([], s) ∧ ∀ j ∈ writeVec title [], isDataLine j = false := by
  refine ⟨by simp [readVec], ?_⟩
  intro j hj
  unfold writeVec at hj
  by_cases ht : title = ""
  · simp [ht] at hj; subst hj; simp [isDataLine]
  · simp only [ht, if_false, List.cons_append, List.nil_append, List.mem_cons, List.not_mem_nil,
      or_false] at hj
    have hHash : isComment "#" = true := by decide +kernel
    rcases hj with rfl | rfl
    · simp [isDataLine, writeComment, hHash]
    · simp [isDataLine]

/-- rows (possibly preceded by comment / blank lines) -/
theorem readRows_roundtrip (ncol : Nat) (hpos : 0 < ncol) : ∀ (rows : List Line) (cur : Line)
    (junk tail : List Line), isDataLine cur = false → (∀ j ∈ junk, isDataLine j = false) →
    (∀ r ∈ rows, r.length = ncol ∧ ∀ t ∈ r, tokOK t = true) →
    ∃ s', readRows ncol rows.length ⟨cur, junk ++ rows ++ tail⟩ = some (rows, s')
  | [], cur, junk, tail, _, _, _ => ⟨_, rfl⟩
  | r :: rows, cur, junk, tail, hcur, hjunk, hr => by
    obtain ⟨hl, hok⟩ := hr r List.mem_cons_self
    have hne : r ≠ [] := by intro e; subst e; simp at hl; omega
    have h1 : readVec ncol ⟨cur, junk ++ (r :: rows) ++ tail⟩ = some (r, ⟨[], rows ++ tail⟩) := by
      unfold readVec
      rw [if_neg (by omega : ¬ ncol = 0)]
      have := readVecLines_skip ncol (cur :: junk) r (rows ++ tail)
        (by intro j hj
            rcases List.mem_cons.mp hj with rfl | hj
            · exact hcur
            · exact hjunk j hj) hne hok hl
      simp only [List.cons_append, List.append_assoc] at this ⊢
      simp [this]
    obtain ⟨s', ih⟩ := readRows_roundtrip ncol hpos rows [] [] tail (by simp [isDataLine])
      (by simp) (fun x hx => hr x (List.mem_cons_of_mem _ hx))
    simp only [List.nil_append] at ih
    exact ⟨s', by simp only [List.length_cons, readRows, h1, ih, Option.map_some]⟩

/-- the body of a Db (after the type tag) is read back from what `Db::_serialize` wrote -/
theorem dbBody_roundtrip (d : DbFile) (ncolT nechT : String)
    (hn : parseCInt? ncolT = some (d.ncol : Int)) (he : parseCInt? nechT = some (d.nech : Int))
    (hnt : tokOK ncolT = true) (het : tokOK nechT = true)
    (hpos : 0 < d.ncol)
    (hl : d.locators.length = d.ncol ∧ ∀ t ∈ d.locators, tokOK t = true)
    (hm : d.names.length = d.ncol ∧ ∀ t ∈ d.names, tokOK t = true)
    (hr : d.rows.length = d.nech ∧ ∀ r ∈ d.rows, r.length = d.ncol ∧ ∀ t ∈ r, tokOK t = true) :
    deserDbBody ⟨[], (serDbWith ncolT nechT d).tail⟩ = some d := by
  have hlne : d.locators ≠ [] := by intro e; rw [e] at hl; simp at hl; omega
  have hmne : d.names ≠ [] := by intro e; rw [e] at hm; simp at hm; omega
  have c1 := tokOK_notComment ncolT hnt
  have c2 := tokOK_notComment nechT het
  obtain ⟨s', hrows⟩ := readRows_roundtrip d.ncol hpos d.rows [] [writeComment "Array of values"] []
    (by simp [isDataLine]) (by intro j hj; simp at hj; subst hj; simp [isDataLine, writeComment]; decide +kernel) hr.2
  rw [hr.1, List.append_nil] at hrows
  -- the two vector headers
  have hv1 := vec_roundtrip "Locators" d.locators ("#" :: titleToks "Number of samples")
    (writeVec "Names" d.names ++ [writeComment "Array of values"] ++ d.rows) d.ncol
    (by simp [isDataLine]; decide +kernel) hlne hl.2 hl.1 (by decide)
  have hv2 := vec_roundtrip "Names" d.names []
    ([writeComment "Array of values"] ++ d.rows) d.ncol
    (by simp [isDataLine]) hmne hm.2 hm.1 (by decide)
  have hHash : isComment "#" = true := by decide +kernel
  unfold deserDbBody serDbWith
  simp only [List.cons_append, List.nil_append, List.tail_cons]
  generalize hT : (writeVec "Locators" d.locators ++ writeVec "Names" d.names ++
      [writeComment "Array of values"] ++ d.rows) = T
  rw [rec_roundtrip "Number of variables" ncolT [] _ hnt (by simp)]
  simp only []
  rw [rec_roundtrip "Number of samples" nechT ("#" :: titleToks "Number of variables") _ het
      (by intro t ht; simp at ht; subst ht; exact hHash)]
  simp only [hn, he]
  have hnn : ¬ ((d.ncol : Int) < 0 ∨ (d.nech : Int) < 0) := by omega
  simp only [hnn, if_false, Int.toNat_natCast, hpos, if_true]
  subst hT
  rw [show (writeVec "Locators" d.locators ++ writeVec "Names" d.names ++
      [writeComment "Array of values"] ++ d.rows)
      = writeVec "Locators" d.locators ++ (writeVec "Names" d.names ++ [writeComment "Array of values"] ++ d.rows) by
        simp [List.append_assoc]]
  rw [hv1]
  simp only []
  rw [show (writeVec "Names" d.names ++ [writeComment "Array of values"] ++ d.rows)
      = writeVec "Names" d.names ++ ([writeComment "Array of values"] ++ d.rows) by simp [List.append_assoc]]
  rw [hv2]
  have hne0 : ¬ d.ncol = 0 := by omega
  simp only [hne0, if_false, hrows]

/-- **Db round trip**: reading what `Db::_serialize` wrote gives back the same table -/
theorem db_roundtrip (d : DbFile) (ncolT nechT : String)
    (hn : parseCInt? ncolT = some (d.ncol : Int)) (he : parseCInt? nechT = some (d.nech : Int))
    (hnt : tokOK ncolT = true) (het : tokOK nechT = true)
    (hpos : 0 < d.ncol)
    (hl : d.locators.length = d.ncol ∧ ∀ t ∈ d.locators, tokOK t = true)
    (hm : d.names.length = d.ncol ∧ ∀ t ∈ d.names, tokOK t = true)
    (hr : d.rows.length = d.nech ∧ ∀ r ∈ d.rows, r.length = d.ncol ∧ ∀ t ∈ r, tokOK t = true) :
    deserDb (serDbWith ncolT nechT d) = some d := by
  have hb := dbBody_roundtrip d ncolT nechT hn he hnt het hpos hl hm hr
  have hDb : isComment "Db" = false := by decide +kernel
  have hs : serDbWith ncolT nechT d = ["Db"] :: (serDbWith ncolT nechT d).tail := by simp [serDbWith]
  rw [hs]
  unfold deserDb
  simp only [nextWord_data _ _ _ hDb]
  simp only [show ("Db" : String) ≠ "Db" ↔ False by simp, if_false]
  exact hb

/-! ### DbGrid -/

/-- reading one line `NX X0 DX ANGLE`, whatever precedes it on the current line being a comment -/
theorem readDims_roundtrip : ∀ (dims : List (String × String × String × String)) (pre : Line) (rest : List Line),
    (∀ t ∈ pre.head?, isComment t = true) →
    (∀ q ∈ dims, tokOK q.1 = true ∧ tokOK q.2.1 = true ∧ tokOK q.2.2.1 = true ∧ tokOK q.2.2.2 = true) →
    dims ≠ [] →
    readDims dims.length ⟨pre, dims.map dimLine ++ rest⟩ = (dims, ⟨[], rest⟩)
  | [], _, _, _, _, hne => absurd rfl hne
  | q :: qs, pre, rest, hpre, hok, _ => by
    obtain ⟨a, b, c, e⟩ := q
    obtain ⟨ha, hb, hc, he⟩ := hok (a, b, c, e) List.mem_cons_self
    have ca := tokOK_notComment a ha
    have cb := tokOK_notComment b hb
    have cc := tokOK_notComment c hc
    have ce := tokOK_notComment e he
    have r1 : readRec "0" ⟨pre, [a, b, c, e] :: (qs.map dimLine ++ rest)⟩ = (a, ⟨[b, c, e], qs.map dimLine ++ rest⟩) := by
      unfold readRec
      cases pre with
      | nil => simp only [nextWord_nil, nextWord_data _ _ _ ca]
      | cons p ps =>
        have : isComment p = true := hpre p (by simp)
        simp only [nextWord_comment _ _ _ _ this, nextWord_data _ _ _ ca]
    have r2 : ∀ (t : String) (cur : Line) (rs : List Line), isComment t = false →
        readRec "0" ⟨t :: cur, rs⟩ = (t, ⟨cur, rs⟩) := by
      intro t cur rs ht
      unfold readRec
      simp only [nextWord_data _ _ _ ht]
    simp only [List.length_cons, readDims, List.map_cons, dimLine, List.cons_append]
    rw [r1]
    simp only []
    rw [r2 b _ _ cb]
    simp only []
    rw [r2 c _ _ cc]
    simp only []
    rw [r2 e _ _ ce]
    simp only []
    cases qs with
    | nil => simp [readDims]
    | cons q2 qs2 =>
      have ih := readDims_roundtrip (q2 :: qs2) [] rest (by simp)
        (fun q hq => hok q (List.mem_cons_of_mem _ hq)) (by simp)
      simp only [List.length_cons] at ih
      simp only [List.length_cons]
      rw [ih]

/-- **DbGrid round trip**: the grid header (space dimension, one line per dimension) and the table
part written by `DbGrid::_serialize` are read back by `DbGrid::_deserialize` -/
theorem grid_roundtrip (g : GridFile) (ndimT ncolT nechT : String)
    (hd : parseCInt? ndimT = some (g.dims.length : Int)) (hdt : tokOK ndimT = true) (hdim : g.dims ≠ [])
    (hok : ∀ q ∈ g.dims, tokOK q.1 = true ∧ tokOK q.2.1 = true ∧ tokOK q.2.2.1 = true ∧ tokOK q.2.2.2 = true)
    (hnx : ∀ q ∈ g.dims, ∃ n : Int, parseCInt? q.1 = some n ∧ 0 < n)
    (hn : parseCInt? ncolT = some (g.db.ncol : Int)) (he : parseCInt? nechT = some (g.db.nech : Int))
    (hnt : tokOK ncolT = true) (het : tokOK nechT = true)
    (hpos : 0 < g.db.ncol)
    (hl : g.db.locators.length = g.db.ncol ∧ ∀ t ∈ g.db.locators, tokOK t = true)
    (hm : g.db.names.length = g.db.ncol ∧ ∀ t ∈ g.db.names, tokOK t = true)
    (hr : g.db.rows.length = g.db.nech ∧ ∀ r ∈ g.db.rows, r.length = g.db.ncol ∧ ∀ t ∈ r, tokOK t = true) :
    deserGrid (serGridWith ndimT ncolT nechT g) = some g := by
  have hb := dbBody_roundtrip g.db ncolT nechT hn he hnt het hpos hl hm hr
  have hTag : isComment "DbGrid" = false := by decide +kernel
  have hHash : isComment "#" = true := by decide +kernel
  unfold deserGrid serGridWith
  simp only [List.cons_append, List.nil_append]
  rw [nextWord_data _ _ _ hTag]
  simp only [show ("DbGrid" : String) ≠ "DbGrid" ↔ False by simp, if_false]
  rw [rec_roundtrip "Space Dimension" ndimT [] _ hdt (by simp)]
  simp only [hd]
  have hnn : ¬ ((g.dims.length : Int) < 0) := by omega
  simp only [hnn, if_false, Int.toNat_natCast]
  -- the comment line is skipped by the first read of the loop
  have hskip : ∀ (rest : List Line),
      readDims g.dims.length ⟨"#" :: titleToks "Space Dimension", writeComment "Grid characteristics (NX,X0,DX,ANGLE)" :: (g.dims.map dimLine ++ rest)⟩
        = (g.dims, ⟨[], rest⟩) := by
    intro rest
    cases hg : g.dims with
    | nil => exact absurd hg hdim
    | cons q qs =>
      obtain ⟨a, b, c, e⟩ := q
      have hq := hok (a, b, c, e) (by rw [hg]; exact List.mem_cons_self)
      obtain ⟨ha, hb', hc, he'⟩ := hq
      have ca := tokOK_notComment a ha
      have cb := tokOK_notComment b hb'
      have cc := tokOK_notComment c hc
      have ce := tokOK_notComment e he'
      have r1 : readRec "0" ⟨"#" :: titleToks "Space Dimension", writeComment "Grid characteristics (NX,X0,DX,ANGLE)" :: ([a, b, c, e] :: (qs.map dimLine ++ rest))⟩
          = (a, ⟨[b, c, e], qs.map dimLine ++ rest⟩) := by
        unfold readRec writeComment
        rw [nextWord_comment _ _ _ _ hHash, nextWord_comment _ _ _ _ hHash, nextWord_data _ _ _ ca]
      have r2 : ∀ (t : String) (cur : Line) (rs : List Line), isComment t = false →
          readRec "0" ⟨t :: cur, rs⟩ = (t, ⟨cur, rs⟩) := by
        intro t cur rs ht
        unfold readRec
        simp only [nextWord_data _ _ _ ht]
      simp only [List.length_cons, readDims, List.map_cons, dimLine, List.cons_append]
      rw [r1]
      simp only []
      rw [r2 b _ _ cb]
      simp only []
      rw [r2 c _ _ cc]
      simp only []
      rw [r2 e _ _ ce]
      simp only []
      cases qs with
      | nil => simp [readDims]
      | cons q2 qs2 =>
        have ih := readDims_roundtrip (q2 :: qs2) [] rest (by simp)
          (fun q hq => hok q (by rw [hg]; exact List.mem_cons_of_mem _ hq)) (by simp)
        simp only [List.length_cons] at ih
        simp only [List.length_cons]
        rw [ih]
  rw [hskip]
  simp only []
  simp only [hb, Option.map_some]
  split
  · rename_i hc
    exfalso
    rw [List.any_eq_true] at hc
    obtain ⟨q, hq, hv⟩ := hc
    obtain ⟨n, hp, hpos'⟩ := hnx q hq
    simp only [hp] at hv
    simp at hv; omega
  · cases g; rfl

/-! non-vacuity: a 2×2 table with an undefined cell -/
def ex : DbFile := ⟨2, 2, ["x1", "z1"], ["east", "grade"], [["1", "NA"], ["2.5", "7"]]⟩
example : deserDb (serDbWith "2" "2" ex) = some ex := by decide +kernel
/-- a 2 x 1 grid holding one variable -/
def exg : GridFile := ⟨[("2", "0", "1", "0"), ("1", "0.5", "2", "30")], ⟨1, 2, ["z1"], ["grade"], [["3"], ["NA"]]⟩⟩
example : deserGrid (serGridWith "2" "1" "2" exg) = some exg := by decide +kernel
/-- a grid file announcing a non-positive number of nodes is rejected -/
example : deserGrid (serGridWith "1" "1" "2" ⟨[("0", "0", "1", "0")], ⟨1, 2, ["z1"], ["grade"], [["3"], ["NA"]]⟩⟩) = none := by
  decide +kernel
/-- a name containing a blank is split into two tokens by the tokeniser: the file is rejected -/
example : deserDb (serDbWith "2" "1" ⟨2, 1, ["x1", "z1"], ["east", "my", "var"], [["1", "2"]]⟩) = none := by decide +kernel

end GstProofs.C08
