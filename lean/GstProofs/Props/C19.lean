import GstProofs.Calc.Rollback
import GstGen.CalcTable
import GstProofs.Db.Ops
/-!
# C19 — A calculation either completes or leaves its data bases untouched

Model: `GstVerif/Calc/Model.lean` (calculator life cycle on top of the C07 Db model).
`rollback_restores`: whatever the number of variables a calculator has appended to a data base
(permanent or temporary, any failure point — the lists are universally quantified), deleting the
registered variables gives back the original columns, names, values and roles.
`rollbackPermOnly_leaks` is the negation for the roll-back as it was shipped (known finding F24,
repaired): temporary variables survived.
The library is tied by the fault-injection run: every tick of the guarded hook, natural failures,
and a re-run after each failure.
-/
namespace GstProofs.C19
open GstVerif GstVerif.Db GstVerif.Calc GstProofs.Calc GstProofs.Db

theorem deleteAll_append (s : State) (a b : List Nat) : deleteAll (deleteAll s a) b = deleteAll s (a ++ b) := by
  simp [deleteAll, List.foldl_append]

/-- roll-back restores the data base: `c.db` is the original content `(U, Nm, C)` followed by the
variables registered in the two lists, in creation order -/
theorem rollback_restores (c : CState) (U : List Nat) (Nm : List String) (C : List (List Val))
    (Nn : List String) (Cn : List (List Val))
    (h : appended c.db U Nm C (c.permL ++ c.tempL) Nn Cn)
    (hfresh : ∀ u ∈ c.permL ++ c.tempL, u ∉ U) (hnd : (c.permL ++ c.tempL).Nodup)
    (hlt : ∀ u ∈ c.permL ++ c.tempL, u < c.db.nextUid)
    (hloc : ∀ u ∈ c.permL ++ c.tempL, u ∉ c.db.loc.flatten) :
    (rollback c).uids = U ∧ (rollback c).names = Nm ∧ (rollback c).cols = C ∧
    (rollback c).loc = c.db.loc ∧ (rollback c).nech = c.db.nech := by
  unfold rollback
  rw [deleteAll_append]
  exact deleteAll_appended _ Nn Cn c.db U Nm C h hfresh hnd hlt hloc

/-- success path: `_cleanVariableDb(2)` removes exactly the temporary variables when they were
created last -/
theorem finish_removes_temporaries (c : CState) (U : List Nat) (Nm : List String) (C : List (List Val))
    (Nn : List String) (Cn : List (List Val))
    (h : appended c.db U Nm C c.tempL Nn Cn)
    (hfresh : ∀ u ∈ c.tempL, u ∉ U) (hnd : c.tempL.Nodup)
    (hlt : ∀ u ∈ c.tempL, u < c.db.nextUid) (hloc : ∀ u ∈ c.tempL, u ∉ c.db.loc.flatten) :
    (finish c).uids = U ∧ (finish c).names = Nm ∧ (finish c).cols = C := by
  have := deleteAll_appended _ Nn Cn c.db U Nm C h hfresh hnd hlt hloc
  exact ⟨this.1, this.2.1, this.2.2.1⟩

/-- the data base stays consistent (C07 invariant) through any roll-back -/
theorem rollback_inv (c : CState) (h : Inv c.db) : Inv (rollback c) := by
  unfold rollback deleteAll
  exact foldl_deleteNat_inv _ _ (foldl_deleteNat_inv _ _ h)

/-! ### the premises of `rollback_restores`, decided on the table of calculators regenerated from the source

`runner/calc2lean.py` re-reads every calculator of /repo (classes defining `_rollback`) at each run and
rewrites `GstGen/CalcTable.lean`.  The roll-back theorem assumes that the roll-back deletes the
variables of *both* lists and that every variable created by the calculator is registered in one of
them: these theorems say that the source does, for every calculator (not only those a harness calls). -/

/-- every calculator's `_rollback` cleans the variables it added to the input and to the output
data base, permanent and temporary alike (finding F24 was the negation for the temporary ones) -/
theorem calculators_clean_both_lists :
    ∀ c ∈ GstGen.calculators, c.cleansIn = true ∧ c.cleansOut = true := by decide

/-- no calculator creates a column behind the back of the roll-back lists.  Finding F97 was
`CalcAnamTransform::_preprocess`, which called `Db::addColumnsByConstant` directly (repaired); the two
calls that remain in that class are the work columns of `_uniformConditioning`, deleted before it
returns -/
theorem calculators_register_their_variables :
    ∀ c ∈ GstGen.calculators, c.directAdds = 0 ∨ (c.cls = "CalcAnamTransform" ∧ c.directAdds ≤ 2) := by decide

/-- the table is about the calculators the harness exercises (and more) -/
theorem calculators_table_covers :
    ∀ n ∈ ["CalcKriging", "CalcSimuTurningBands", "CalcSimuFFT", "CalcMigrate", "CalcStatistics", "CalcAnamTransform",
           "CalcSimpleInterpolation", "CalcGridToGrid", "CalcSimuPost"], n ∈ GstGen.calculators.map (·.cls) := by decide

/-! ### concrete instance: one permanent and one temporary variable, failure afterwards -/
def db0 : State := { grid := false, nech := 2, nextUid := 2, uids := [0, 1], names := ["x", "z"],
                     cols := [[some 1, some 2], [some 3, none]], loc := (List.replicate NLOC []).set 1 [1] }
def c2 : Option CState :=
  (addVar ⟨db0, [], []⟩ ⟨true, 1, none, "est"⟩).bind fun c => addVar c ⟨false, 2, some 0, "tmp"⟩

example : (c2.map fun c => sameContent (rollback c) db0) = some true := by decide
/-- witness of F24: cleaning the permanent list only leaves the two temporary columns behind -/
theorem rollbackPermOnly_leaks : (c2.map fun c => sameContent (rollbackPermOnly c) db0) = some false := by decide
example : (c2.map fun c => (rollbackPermOnly c).names) = some ["x", "z", "tmp-1", "tmp-2"] := by decide

end GstProofs.C19
