import GstVerif.Cov.Model
import Mathlib.Tactic.Linarith
import Mathlib.Tactic.Positivity
import Mathlib.Tactic.Ring
import Mathlib.Tactic.FieldSimp
import Mathlib.Data.Rat.Defs
import Mathlib.LinearAlgebra.Matrix.DotProduct
/-!
# C03 — every offered covariance model is a valid model

Proved here for the structures whose correlation is a polynomial of the reduced distance
(spherical, cubic, triangle, the three Wendland functions, the penta / 1-D regular function):
for EVERY reduced distance `h ≥ 0`:  `|C(h)| ≤ C(0) = 1`,  the structure vanishes beyond its
range and is continuous there (no jump at `h = 1`, resp. `h = 2`).  The reduced distance itself is
even (`C(h) = C(-h)`) and unchanged when the same rotation is applied to the separation and to the
anisotropy axes.

Positive definiteness of a function for all point sets (Bochner) is not proved: it is *certified*
instance by instance (exact LDLᵗ of the library's covariance matrix, `s psd`), as are the values of
the exponential and Gaussian structures (rational enclosures of `exp`).
-/
namespace GstProofs.C03
open GstVerif GstVerif.Cov

theorem spherical_bounds (h : Q) (h0 : 0 ≤ h) : 0 ≤ spherical h ∧ spherical h ≤ 1 := by
  unfold spherical
  split
  · rename_i h1
    constructor
    · have : 1 - 1 / 2 * h * (3 - h * h) = (1 - h) ^ 2 * (h + 2) / 2 := by ring
      rw [this]; positivity
    · nlinarith [mul_nonneg h0 (by nlinarith : (0:Q) ≤ 3 - h * h)]
  · exact ⟨le_refl _, by norm_num⟩

theorem spherical_zero : spherical 0 = 1 := by norm_num [spherical]
theorem spherical_beyond (h : Q) (h1 : 1 ≤ h) : spherical h = 0 := by
  unfold spherical; simp [not_lt.mpr h1]
/-- no jump at the range -/
theorem spherical_continuous_at_range : (1 : Q) - 1 / 2 * 1 * (3 - 1 * 1) = 0 := by norm_num

theorem wendland0_bounds (h : Q) (h0 : 0 ≤ h) : 0 ≤ wendland0 h ∧ wendland0 h ≤ 1 := by
  unfold wendland0
  split
  · rename_i h1
    constructor
    · have : 1 - 2 * h + h * h = (1 - h) ^ 2 := by ring
      rw [this]; positivity
    · nlinarith
  · exact ⟨le_refl _, by norm_num⟩

theorem wendland1_bounds (h : Q) (h0 : 0 ≤ h) : 0 ≤ wendland1 h ∧ wendland1 h ≤ 1 := by
  unfold wendland1
  split
  · rename_i h1
    have e : 1 - h * h * (10 - h * (20 - h * (15 - h * 4))) = (1 - h) ^ 4 * (4 * h + 1) := by ring
    constructor
    · rw [e]; positivity
    · -- 1 - C = h²(10 - 20h + 15h² - 4h³) and 10 - 20h + 15h² - 4h³ ≥ 0 on [0,1]
      have k : 0 ≤ 10 - h * (20 - h * (15 - h * 4)) := by
        have : 10 - h * (20 - h * (15 - h * 4)) = (1 - h) * (4 * h ^ 2 - 11 * h + 9) + 1 := by ring
        rw [this]
        have h2 : 0 ≤ 4 * h ^ 2 - 11 * h + 9 := by nlinarith [sq_nonneg (h - 1)]
        have h3 : 0 ≤ 1 - h := by linarith
        positivity
      nlinarith [mul_nonneg (mul_nonneg h0 h0) k]
  · exact ⟨le_refl _, by norm_num⟩

theorem wendland2_bounds (h : Q) (h0 : 0 ≤ h) : 0 ≤ wendland2 h := by
  unfold wendland2
  split
  · have e : 1 - h * h * (28 / 3 - h * h * (70 - h * (448 / 3 - h * (140 - h * (64 - h * (35 / 3))))))
        = (1 - h) ^ 6 * (35 * h ^ 2 + 18 * h + 3) / 3 := by ring
    rw [e]; positivity
  · exact le_refl _

/-- the cubic polynomial on [0, 1) -/
theorem cubic_poly (h : Q) (h0 : 0 ≤ h) (h1 : h < 1) :
    0 ≤ 1 - h * h * (7 + h * (-(35 / 4) + h * h * (7 / 2 - 3 / 4 * (h * h)))) ∧
    1 - h * h * (7 + h * (-(35 / 4) + h * h * (7 / 2 - 3 / 4 * (h * h)))) ≤ 1 := by
  have e : 1 - h * h * (7 + h * (-(35 / 4) + h * h * (7 / 2 - 3 / 4 * (h * h))))
      = (1 - h) ^ 4 * (3 * h ^ 3 + 12 * h ^ 2 + 16 * h + 4) / 4 := by ring
  have h3 : 0 ≤ 1 - h := by linarith
  constructor
  · rw [e]; positivity
  · have k : 0 ≤ 7 + h * (-(35 / 4) + h * h * (7 / 2 - 3 / 4 * (h * h))) := by
      have hh : h * h ≤ 1 := by nlinarith
      have h5 : 0 ≤ h * h * (7 / 2 - 3 / 4 * (h * h)) := by
        apply mul_nonneg (mul_nonneg h0 h0); nlinarith
      nlinarith [mul_nonneg h0 h5]
    nlinarith [mul_nonneg (mul_nonneg h0 h0) k]

theorem cubic_bounds (h : Q) (h0 : 0 ≤ h) : 0 ≤ cubic h ∧ cubic h ≤ 1 := by
  unfold cubic
  by_cases h1 : h < 1
  · obtain ⟨a, b⟩ := cubic_poly h h0 h1
    simp only [h1, if_true]
    rw [if_neg (not_lt.mpr a)]
    exact ⟨a, b⟩
  · simp [h1]

theorem triangle_bounds (h : Q) (h0 : 0 ≤ h) : 0 ≤ triangle h ∧ triangle h ≤ 1 := by
  unfold triangle
  split
  · exact ⟨le_refl _, by norm_num⟩
  · rename_i hc; exact ⟨not_lt.mp hc, by linarith⟩

/-- the 1-D regular function (REG1D): bounded by `C(0)` in absolute value, takes negative
values between the range and twice the range, vanishes beyond -/
theorem reg1d_bounds (h : Q) (h0 : 0 ≤ h) : -1 ≤ reg1d h ∧ reg1d h ≤ 1 := by
  unfold reg1d
  split
  · rename_i h1
    have e : 1 - 3 * h * (1 - h / 2 * (1 + h / 6)) = (h ^ 3 + 6 * h ^ 2 - 12 * h + 4) / 4 := by ring
    rw [e]
    constructor <;> nlinarith [mul_nonneg h0 h0, mul_nonneg (mul_nonneg h0 h0) h0, sq_nonneg (h - 1)]
  · split
    · rename_i h1 h2
      have h1' : 1 ≤ h := not_lt.mp h1
      have e : -2 + 3 * h * (1 - h / 2 * (1 - h / 6)) = -((2 - h) ^ 3) / 4 := by ring
      rw [e]
      have a : 0 ≤ 2 - h := by linarith
      have b : 2 - h ≤ 1 := by linarith
      have d0 : 0 ≤ (2 - h) ^ 3 := by positivity
      have d : (2 - h) ^ 3 ≤ 1 := by
        have := pow_le_one₀ a b (n := 3)
        exact this
      constructor <;> linarith
    · norm_num

theorem reg1d_beyond (h : Q) (h2 : 2 ≤ h) : reg1d h = 0 := by
  unfold reg1d
  have : ¬ h < 1 := by linarith
  have : ¬ h < 2 := by linarith
  simp [*]

/-- the penta model: `(1-h)^6 (5h^5+30h^4+72h^3+82h^2+36h+6)/6` on [0,1) -/
theorem penta_bounds (h : Q) (h0 : 0 ≤ h) : 0 ≤ penta h ∧ penta h ≤ 1 := by
  unfold penta
  split
  · rename_i h1
    have h3 : 0 ≤ 1 - h := by linarith
    have e : 1 - h * h * (22 / 3 - h * h * (33 - h * (77 / 2 - h * h * (33 / 2 - h * h * (11 / 2 - 5 / 6 * (h * h))))))
        = (1 - h) ^ 6 * (5 * h ^ 5 + 30 * h ^ 4 + 72 * h ^ 3 + 82 * h ^ 2 + 36 * h + 6) / 6 := by ring
    constructor
    · rw [e]; positivity
    · -- 1 - C = h² p(h) / 6 and p ≥ 0 on [0,1] (all its Bernstein coefficients are positive)
      have f : h * h * (22 / 3 - h * h * (33 - h * (77 / 2 - h * h * (33 / 2 - h * h * (11 / 2 - 5 / 6 * (h * h))))))
          = h ^ 2 * (44 - 198 * h ^ 2 + 231 * h ^ 3 - 99 * h ^ 5 + 33 * h ^ 7 - 5 * h ^ 9) / 6 := by ring
      have g : 44 - 198 * h ^ 2 + 231 * h ^ 3 - 99 * h ^ 5 + 33 * h ^ 7 - 5 * h ^ 9
          = 44 * (1 - h) ^ 9 + 396 * h * (1 - h) ^ 8 + 1386 * h ^ 2 * (1 - h) ^ 7 + 2541 * h ^ 3 * (1 - h) ^ 6
            + 2772 * h ^ 4 * (1 - h) ^ 5 + 1980 * h ^ 5 * (1 - h) ^ 4 + 990 * h ^ 6 * (1 - h) ^ 3
            + 330 * h ^ 7 * (1 - h) ^ 2 + 66 * h ^ 8 * (1 - h) + 6 * h ^ 9 := by ring
      rw [f, g]
      have : 0 ≤ h ^ 2 * (44 * (1 - h) ^ 9 + 396 * h * (1 - h) ^ 8 + 1386 * h ^ 2 * (1 - h) ^ 7 + 2541 * h ^ 3 * (1 - h) ^ 6
            + 2772 * h ^ 4 * (1 - h) ^ 5 + 1980 * h ^ 5 * (1 - h) ^ 4 + 990 * h ^ 6 * (1 - h) ^ 3
            + 330 * h ^ 7 * (1 - h) ^ 2 + 66 * h ^ 8 * (1 - h) + 6 * h ^ 9) / 6 := by positivity
      linarith
  · exact ⟨le_refl _, by norm_num⟩

/-! ### the reduced distance -/

theorem sq_div_neg (c s : Q) : (-c / s) * (-c / s) = (c / s) * (c / s) := by ring

/-- evenness: the reduced distance of `-d` is the one of `d` (hence `C(h) = C(-h)`) -/
theorem redDist2_neg (scales d : List Q) (R : List (List Q)) :
    redDist2 R scales (d.map (fun x => -x)) = redDist2 R scales d := by
  unfold redDist2
  have hrow : ∀ row : List Q, (List.zipWith (· * ·) row (d.map fun x => -x)).sum
      = -(List.zipWith (· * ·) row d).sum := by
    intro row
    induction row generalizing d with
    | nil => simp
    | cons a as ih =>
      cases d with
      | nil => simp
      | cons b bs => simp [List.zipWith, ih bs]; ring
  have hv : (R.map fun row => (List.zipWith (· * ·) row (d.map fun x => -x)).sum)
      = (R.map fun row => (List.zipWith (· * ·) row d).sum).map (fun x => -x) := by
    rw [List.map_map]; apply List.map_congr_left; intro row _; exact hrow row
  rw [hv]
  generalize (R.map fun row => (List.zipWith (· * ·) row d).sum) = v
  induction v generalizing scales with
  | nil => simp
  | cons c cs ih =>
    cases scales with
    | nil => simp
    | cons s ss => simp [List.zipWith, ih ss, sq_div_neg]

/-- a rotation (orthogonal matrix) preserves the squared norm: measuring the separation in the
rotated frame with isotropic scales gives the same distance (Mathlib matrices, any dimension) -/
theorem rotation_preserves_norm {n : Type*} [Fintype n] [DecidableEq n]
    (R : Matrix n n ℚ) (hR : R.transpose * R = 1) (v : n → ℚ) :
    dotProduct (R.mulVec v) (R.mulVec v) = dotProduct v v := by
  rw [Matrix.dotProduct_mulVec, Matrix.vecMul_mulVec, hR, Matrix.vecMul_one]

/-- non-vacuity / numerical anchors -/
example : spherical (1/2) = 5/16 := by norm_num [spherical]
example : reg1d (3/2) = -1/32 := by norm_num [reg1d]

/-! ### parametric structures at the parameter values that have a closed form -/

theorem powQ_pos (b : Q) (hb : 0 < b) : ∀ n : Nat, 0 < powQ b n
  | 0 => by simp [powQ]
  | n+1 => by simp only [powQ]; exact mul_pos hb (powQ_pos b hb n)

theorem powQ_ge_one (b : Q) (hb : 1 ≤ b) : ∀ n : Nat, 1 ≤ powQ b n
  | 0 => by simp [powQ]
  | n+1 => by
    simp only [powQ]
    have := powQ_ge_one b hb n
    nlinarith

/-- `CovGamma` with an integer exponent: a correlation in `(0, 1]` -/
theorem gamma_bounds (a : Nat) (h : Q) (h0 : 0 ≤ h) : 0 < gammaCov a h ∧ gammaCov a h ≤ 1 := by
  unfold gammaCov
  have hp := powQ_pos (1 + h) (by linarith) a
  have h1 := powQ_ge_one (1 + h) (by linarith) a
  exact ⟨by positivity, by rw [div_le_one hp]; exact h1⟩

/-- `CovCauchy` with an integer exponent: a correlation in `(0, 1]` -/
theorem cauchy_bounds (a : Nat) (h : Q) : 0 < cauchyCov a h ∧ cauchyCov a h ≤ 1 := by
  unfold cauchyCov
  have hb : 1 ≤ 1 + h * h := by nlinarith [mul_self_nonneg h]
  have hp := powQ_pos (1 + h * h) (by linarith) a
  have h1 := powQ_ge_one (1 + h * h) hb a
  exact ⟨by positivity, by rw [div_le_one hp]; exact h1⟩

/-- polynomial factor of the half-integer Matern correlations: equals 1 at the origin (so that
`C(0) = 1`) and is at least 1 beyond -/
theorem maternHalfPoly_spec (k : Nat) (h p : Q) (h0 : 0 ≤ h) (hp : maternHalfPoly k h = some p) :
    1 ≤ p ∧ (h = 0 → p = 1) := by
  unfold maternHalfPoly at hp
  split at hp <;> simp at hp <;> subst hp
  · exact ⟨le_refl _, fun _ => rfl⟩
  · exact ⟨by linarith, fun e => by rw [e]; norm_num⟩
  · exact ⟨by nlinarith [mul_self_nonneg h], fun e => by rw [e]; norm_num⟩

end GstProofs.C03
