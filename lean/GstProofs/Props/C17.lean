import GstVerif.LinAlg.Mat
import GstVerif.Fit.Model
import Mathlib.Tactic.FieldSimp
import Mathlib.Data.Matrix.Mul
import Mathlib.LinearAlgebra.Matrix.DotProduct
import Mathlib.Algebra.BigOperators.Ring.Finset
import Mathlib.Algebra.Order.BigOperators.Ring.Finset
import Mathlib.Tactic.Ring
import Mathlib.Tactic.Linarith
/-!
# C17 — automatic model fitting returns a usable, constraint-abiding model

What makes the result of the sill fitting valid whatever the experimental variogram: the matrices
of sills are rebuilt from an orthonormal eigen-basis with the negative eigenvalues truncated to
zero (`AModelOptimSills`), and such a matrix is positive semi-definite (`truncated_psd`, any number
of variables); a bound constraint enforced by clamping is satisfied for every proposed value
(`clamp_within`, `clamp_idem`).  That the *returned* model satisfies all the requirements (PSD
sills by exact certificate, positive ranges, every user constraint, isotropy / locked rotation,
save / reload / kriging) is checked on the library for generated variograms and constraint sets
(`harness/vh_c17.cpp`), each condition being decided by the Lean driver.

The bookkeeping that carries the user's constraints to the optimiser is modelled (`GstVerif/Fit/Model.lean`)
and tied to the library's own functions through a verification hook: packing of the five designators
of a parameter into one identifier and back (`decode_encode`, `encode_injective`, `encode_range`: no
two parameters share an identifier, no 32-bit overflow), look-up of a constraint (`cget_sound`,
`cget_complete`, `equal_answers`), merge into the bounds and initial value of the parameter
(`affect_bounds`: bounds only tighten; `affect_within`: the initial value lies in the merged bounds,
under a side condition whose necessity is witnessed by `affect_within_needs_side`; `equality_fixes`),
compression of the undefined parameters (`compress_*`).
-/
namespace GstProofs.C17
open Matrix GstVerif GstVerif.Fit

variable {n : Type*} [Fintype n] [DecidableEq n]

/-- `U · diag(d) · Uᵀ` with non-negative `d` has a non-negative quadratic form (no hypothesis on
`U` is even needed): the matrix of sills obtained by truncating the negative eigenvalues is valid -/
theorem truncated_psd (U : Matrix n n ℚ) (d : n → ℚ) (hd : ∀ i, 0 ≤ d i) (v : n → ℚ) :
    0 ≤ dotProduct v ((U * Matrix.diagonal d * U.transpose).mulVec v) := by
  have h : dotProduct v ((U * Matrix.diagonal d * U.transpose).mulVec v)
      = ∑ i, d i * (U.transpose.mulVec v i) ^ 2 := by
    rw [← Matrix.mulVec_mulVec, ← Matrix.mulVec_mulVec, Matrix.dotProduct_mulVec, Matrix.vecMul_transpose_aux]
    simp only [dotProduct, Matrix.mulVec_diagonal]
    apply Finset.sum_congr rfl
    intro i _
    ring
  rw [h]
  exact Finset.sum_nonneg fun i _ => mul_nonneg (hd i) (sq_nonneg _)
  where
  /-- `v ᵥ* U = Uᵀ *ᵥ v` -/
  Matrix.vecMul_transpose_aux : ∀ {U : Matrix n n ℚ} {v : n → ℚ}, Matrix.vecMul v U = U.transpose.mulVec v := by
    intro U v; exact (Matrix.mulVec_transpose U v).symm

/-- truncation itself -/
def trunc (x : ℚ) : ℚ := if x < 0 then 0 else x
theorem trunc_nonneg (x : ℚ) : 0 ≤ trunc x := by unfold trunc; split <;> linarith

/-- clamping a proposed parameter into `[lo, hi]` -/
def clamp (lo hi x : ℚ) : ℚ := if x < lo then lo else if hi < x then hi else x
theorem clamp_within (lo hi x : ℚ) (h : lo ≤ hi) : lo ≤ clamp lo hi x ∧ clamp lo hi x ≤ hi := by
  unfold clamp; split
  · exact ⟨le_refl _, h⟩
  · split
    · exact ⟨h, le_refl _⟩
    · constructor <;> linarith
theorem clamp_idem (lo hi x : ℚ) (h : lo ≤ hi) : clamp lo hi (clamp lo hi x) = clamp lo hi x := by
  obtain ⟨a, b⟩ := clamp_within lo hi x h
  unfold clamp at a b ⊢
  split <;> split <;> simp_all <;> linarith


/-! ### parameter identifiers -/

theorem Pid.valid_iff (f : Pid) : f.valid = true ↔
    (0 ≤ f.imod ∧ f.imod < 50) ∧ (0 ≤ f.icov ∧ f.icov < 50) ∧ (0 ≤ f.icons ∧ f.icons < 50) ∧
    (0 ≤ f.ivar ∧ f.ivar < 50) ∧ (0 ≤ f.jvar ∧ f.jvar < 50) := by
  simp only [Pid.valid, decide_eq_true_eq]

/-- unpacking what was packed returns the five designators, whenever each is a legal digit -/
theorem decode_encode (f : Pid) (h : f.valid = true) : decode (encode f) = f := by
  obtain ⟨⟨a0, a1⟩, ⟨b0, b1⟩, ⟨c0, c1⟩, ⟨d0, d1⟩, ⟨e0, e1⟩⟩ := (Pid.valid_iff f).1 h
  obtain ⟨a, b, c, d, e⟩ := f
  simp only at a0 a1 b0 b1 c0 c1 d0 d1 e0 e1
  have step : ∀ x y : Int, 0 ≤ x → 0 ≤ y → y < 50 → (x * 50 + y).tdiv 50 = x := by
    intro x y hx hy hy'
    rw [Int.tdiv_eq_ediv_of_nonneg (by omega)]
    omega
  have hA : 0 ≤ a * 50 + b := by omega
  have hB : 0 ≤ (a * 50 + b) * 50 + c := by omega
  have hC : 0 ≤ ((a * 50 + b) * 50 + c) * 50 + d := by omega
  simp only [decode, encode, CONG]
  rw [step _ e hC e0 e1, step _ d hB d0 d1, step _ c hA c0 c1, step a b a0 b0 b1]
  have : a.tdiv 50 = 0 := by rw [Int.tdiv_eq_ediv_of_nonneg a0]; omega
  rw [this]
  congr 1 <;> omega

/-- two different parameters never share an identifier -/
theorem encode_injective (f g : Pid) (hf : f.valid = true) (hg : g.valid = true)
    (h : encode f = encode g) : f = g := by
  rw [← decode_encode f hf, ← decode_encode g hg, h]

/-- the identifier fits a 32-bit signed integer -/
theorem encode_range (f : Pid) (h : f.valid = true) : 0 ≤ encode f ∧ encode f < 2 ^ 31 := by
  obtain ⟨⟨a0, a1⟩, ⟨b0, b1⟩, ⟨c0, c1⟩, ⟨d0, d1⟩, ⟨e0, e1⟩⟩ := (Pid.valid_iff f).1 h
  simp only [encode, CONG]
  constructor <;> omega

/-! ### looking a constraint up -/

/-- whatever is returned is the value of an item of the user's list designating that parameter and
answering that kind of request -/
theorem cget_sound (items : List Item) (icase igrf icov icons iv1 iv2 : Int) (v : Q)
    (h : cget items icase igrf icov icons iv1 iv2 = some v) :
    ∃ it ∈ items, it.designates igrf icov icons iv1 iv2 = true ∧ it.answers icase = true ∧ it.value = v := by
  unfold cget at h
  split at h
  · rename_i it hit
    have hm := List.mem_of_find?_eq_some hit
    have hp := List.find?_some hit
    simp only [Bool.and_eq_true] at hp
    injection h with h
    exact ⟨it, hm, hp.1, hp.2, h⟩
  · cases h

/-- a constraint of the list is never lost: if some item designates the parameter and answers the
request, a value is returned -/
theorem cget_complete (items : List Item) (icase igrf icov icons iv1 iv2 : Int) (it : Item) (hm : it ∈ items)
    (hd : it.designates igrf icov icons iv1 iv2 = true) (ha : it.answers icase = true) :
    (cget items icase igrf icov icons iv1 iv2).isSome = true := by
  unfold cget
  split
  · rfl
  · rename_i hnone
    have := List.find?_eq_none.1 hnone it hm
    simp [hd, ha] at this

/-- an equality serves as lower and as upper bound, never as a default value -/
theorem equal_answers (it : Item) (h : it.icase = 2) :
    it.answers (-1) = true ∧ it.answers 1 = true ∧ it.answers 0 = false := by
  simp [Item.answers, h]

/-! ### merge of one constraint -/

theorem mergeLower_ge (cur new : Val) (c : Q) (h : cur = some c) : ∃ r, mergeLower cur new = some r ∧ c ≤ r := by
  subst h
  cases new with
  | none => exact ⟨c, rfl, le_refl _⟩
  | some n =>
    simp only [mergeLower]
    split
    · exact ⟨c, rfl, le_refl _⟩
    · exact ⟨n, rfl, by linarith⟩

theorem mergeLower_ge_new (cur new : Val) (n : Q) (h : new = some n) : ∃ r, mergeLower cur new = some r ∧ n ≤ r := by
  subst h
  cases cur with
  | none => exact ⟨n, rfl, le_refl _⟩
  | some c =>
    simp only [mergeLower]
    split
    · exact ⟨c, rfl, by linarith⟩
    · exact ⟨n, rfl, le_refl _⟩

theorem mergeUpper_le (cur new : Val) (c : Q) (h : cur = some c) : ∃ r, mergeUpper cur new = some r ∧ r ≤ c := by
  subst h
  cases new with
  | none => exact ⟨c, rfl, le_refl _⟩
  | some n =>
    simp only [mergeUpper]
    split
    · exact ⟨c, rfl, le_refl _⟩
    · exact ⟨n, rfl, by linarith⟩

theorem mergeUpper_le_new (cur new : Val) (n : Q) (h : new = some n) : ∃ r, mergeUpper cur new = some r ∧ r ≤ n := by
  subst h
  cases cur with
  | none => exact ⟨n, rfl, le_refl _⟩
  | some c =>
    simp only [mergeUpper]
    split
    · exact ⟨c, rfl, by linarith⟩
    · exact ⟨n, rfl, le_refl _⟩

/-- bounds only tighten: after the merge the bounds are those of `mergeLower` / `mergeUpper`, and the
parameter always has an initial value -/
theorem affect_bounds (d l u : Val) (s : Slot) :
    (affect d l u s).lower = mergeLower s.lower l ∧ (affect d l u s).upper = mergeUpper s.upper u ∧
    (affect d l u s).param.isSome = true := by
  simp [affect]

/-- the initial value lies inside the merged bounds — for a compatible pair of bounds `lo ≤ up` under
the side condition `0 < lo ∨ 0 ≤ up` (the branch `up / 2` of the source leaves a negative interval) -/
theorem affect_within (d l u : Val) (s : Slot) (lo up : Q)
    (hl : mergeLower s.lower l = some lo) (hu : mergeUpper s.upper u = some up) (hle : lo ≤ up)
    (hside : 0 < lo ∨ 0 ≤ up) :
    ∃ p, (affect d l u s).param = some p ∧ lo ≤ p ∧ p ≤ up := by
  simp only [affect, hl, hu]
  generalize initVal s.param d = p0
  refine ⟨_, rfl, ?_⟩
  by_cases hout : (decide (p0 < lo) || decide (up < p0)) = true
  · rw [if_pos hout]
    by_cases hlo : 0 < lo
    · rw [if_pos hlo]; constructor <;> linarith
    · rw [if_neg hlo]
      rcases hside with h | h
      · exact absurd h hlo
      · constructor <;> linarith
  · rw [if_neg hout]
    simp only [Bool.or_eq_true, decide_eq_true_eq, not_or, not_lt] at hout
    exact hout

/-- the side condition cannot be dropped: an interval of negative values is left by the initial value -/
theorem affect_within_needs_side :
    ∃ p, (affect none (some (-10)) (some (-2)) { param := none, lower := none, upper := none }).param = some p ∧ ¬ (p ≤ -2) := by
  refine ⟨-1, by decide +kernel, by norm_num⟩

/-- one-sided bounds are always respected by the initial value -/
theorem affect_lower_only (d l u : Val) (s : Slot) (lo : Q)
    (hl : mergeLower s.lower l = some lo) (hu : mergeUpper s.upper u = none) :
    ∃ p, (affect d l u s).param = some p ∧ lo ≤ p := by
  simp only [affect, hl, hu]
  generalize initVal s.param d = p0
  refine ⟨_, rfl, ?_⟩
  split <;> linarith

theorem affect_upper_only (d l u : Val) (s : Slot) (up : Q)
    (hl : mergeLower s.lower l = none) (hu : mergeUpper s.upper u = some up) :
    ∃ p, (affect d l u s).param = some p ∧ p ≤ up := by
  simp only [affect, hl, hu]
  generalize initVal s.param d = p0
  refine ⟨_, rfl, ?_⟩
  split <;> linarith

/-- an equality constraint with a positive value on a fresh parameter fixes bounds and initial value -/
theorem equality_fixes (items : List Item) (f : Pid) (it : Item) (v : Q) (hv : 0 < v)
    (hfirst : ∀ k, items.find? (fun it => it.designates f.imod f.icov f.icons f.ivar f.jvar && it.answers k) =
      if k = -1 ∨ k = 1 then some it else none)
    (hval : it.value = v) :
    applyTo items f { param := none, lower := none, upper := none } = { param := some v, lower := some v, upper := some v } := by
  have h0 := hfirst 0
  have hm := hfirst (-1)
  have hp := hfirst 1
  simp only [show ¬ ((0 : Int) = -1 ∨ (0 : Int) = 1) by decide, if_false] at h0
  simp only [true_or, or_true, if_true] at hm hp
  simp only [applyTo, cget, h0, hm, hp, hval, affect, mergeLower, mergeUpper, initVal, Option.getD_none]
  have : (0 : Q) < v ∨ v < 0 ↔ True := by simp [hv]
  simp [hv, not_lt.mpr hv.le]

/-! ### compression -/

theorem compress_defined (rows : List Row) : ∀ r ∈ compress rows, r.slot.param.isSome = true := by
  intro r hr; exact (List.mem_filter.1 hr).2

theorem compress_sublist (rows : List Row) : (compress rows).Sublist rows := List.filter_sublist

theorem compress_keeps (rows : List Row) (r : Row) (hr : r ∈ rows) (hd : r.slot.param.isSome = true) :
    r ∈ compress rows := List.mem_filter.2 ⟨hr, hd⟩

/-- non-vacuity: a packed identifier and its designators -/
example : encode { imod := 1, icov := 2, icons := 4, ivar := 1, jvar := 0 } = 6510050 ∧
    decode 6510050 = { imod := 1, icov := 2, icons := 4, ivar := 1, jvar := 0 } := by decide +kernel

/-! ### packing is a bijection -/

/-- conversely every identifier in `[0, 50⁵)` unpacks to legal designators and packs back to itself: packing is a
bijection between the legal designators and that range -/
theorem encode_decode (p : Int) (h0 : 0 ≤ p) (h1 : p < 312500000) :
    (decode p).valid = true ∧ encode (decode p) = p := by
  have t : ∀ x : Int, 0 ≤ x → x.tdiv 50 = x / 50 := fun x hx => Int.tdiv_eq_ediv_of_nonneg hx
  have e0 : p.tdiv 50 = p / 50 := t p h0
  have e1 : (p / 50).tdiv 50 = p / 50 / 50 := t _ (by omega)
  have e2 : (p / 50 / 50).tdiv 50 = p / 50 / 50 / 50 := t _ (by omega)
  have e3 : (p / 50 / 50 / 50).tdiv 50 = p / 50 / 50 / 50 / 50 := t _ (by omega)
  have e4 : (p / 50 / 50 / 50 / 50).tdiv 50 = p / 50 / 50 / 50 / 50 / 50 := t _ (by omega)
  constructor
  · rw [Pid.valid_iff]
    simp only [decode, CONG]
    rw [e0, e1, e2, e3, e4]
    refine ⟨⟨?_, ?_⟩, ⟨?_, ?_⟩, ⟨?_, ?_⟩, ⟨?_, ?_⟩, ⟨?_, ?_⟩⟩ <;> omega
  · simp only [decode, encode, CONG]
    rw [e0, e1, e2, e3, e4]
    omega

end GstProofs.C17
