import GstVerif.LinAlg.Mat
import Mathlib.Data.Matrix.Mul
import Mathlib.LinearAlgebra.Matrix.DotProduct
import Mathlib.Algebra.BigOperators.Ring.Finset
import Mathlib.Algebra.Order.BigOperators.Ring.Finset
import Mathlib.Tactic.Ring
import Mathlib.Tactic.Linarith
/-!
# C17 — automatic model fitting returns a usable, constraint-abiding model

What makes the result of the sill fitting valid whatever the experimental variogram: the matrices
of sills are rebuilt from an orthonormal eigen-basis with the negative eigenvalues truncated to
zero (`AModelOptimSills`), and such a matrix is positive semi-definite (`truncated_psd`, any number
of variables); a bound constraint enforced by clamping is satisfied for every proposed value
(`clamp_within`, `clamp_idem`).  That the *returned* model satisfies all the requirements (PSD
sills by exact certificate, positive ranges, every user constraint, isotropy / locked rotation,
save / reload / kriging) is checked on the library for generated variograms and constraint sets
(`harness/vh_c17.cpp`), each condition being decided by the Lean driver.
-/
namespace GstProofs.C17
open Matrix

variable {n : Type*} [Fintype n] [DecidableEq n]

/-- `U · diag(d) · Uᵀ` with non-negative `d` has a non-negative quadratic form (no hypothesis on
`U` is even needed): the matrix of sills obtained by truncating the negative eigenvalues is valid -/
theorem truncated_psd (U : Matrix n n ℚ) (d : n → ℚ) (hd : ∀ i, 0 ≤ d i) (v : n → ℚ) :
    0 ≤ dotProduct v ((U * Matrix.diagonal d * U.transpose).mulVec v) := by
  have h : dotProduct v ((U * Matrix.diagonal d * U.transpose).mulVec v)
      = ∑ i, d i * (U.transpose.mulVec v i) ^ 2 := by
    rw [← Matrix.mulVec_mulVec, ← Matrix.mulVec_mulVec, Matrix.dotProduct_mulVec, Matrix.vecMul_transpose_aux]
    simp only [dotProduct, Matrix.mulVec_diagonal]
    apply Finset.sum_congr rfl
    intro i _
    ring
  rw [h]
  exact Finset.sum_nonneg fun i _ => mul_nonneg (hd i) (sq_nonneg _)
  where
  /-- `v ᵥ* U = Uᵀ *ᵥ v` -/
  Matrix.vecMul_transpose_aux : ∀ {U : Matrix n n ℚ} {v : n → ℚ}, Matrix.vecMul v U = U.transpose.mulVec v := by
    intro U v; exact (Matrix.mulVec_transpose U v).symm

/-- truncation itself -/
def trunc (x : ℚ) : ℚ := if x < 0 then 0 else x
theorem trunc_nonneg (x : ℚ) : 0 ≤ trunc x := by unfold trunc; split <;> linarith

/-- clamping a proposed parameter into `[lo, hi]` -/
def clamp (lo hi x : ℚ) : ℚ := if x < lo then lo else if hi < x then hi else x
theorem clamp_within (lo hi x : ℚ) (h : lo ≤ hi) : lo ≤ clamp lo hi x ∧ clamp lo hi x ≤ hi := by
  unfold clamp; split
  · exact ⟨le_refl _, h⟩
  · split
    · exact ⟨h, le_refl _⟩
    · constructor <;> linarith
theorem clamp_idem (lo hi x : ℚ) (h : lo ≤ hi) : clamp lo hi (clamp lo hi x) = clamp lo hi x := by
  obtain ⟨a, b⟩ := clamp_within lo hi x h
  unfold clamp at a b ⊢
  split <;> split <;> simp_all <;> linarith

end GstProofs.C17
