import GstGen.CowTable
import GstVerif.Cow.Model
import GstVerif.Memo.Model
import GstProofs.Props.C13
/-!
# C10 — results depend only on the arguments, not on what was called before

* copy-on-write vectors (`VectorT`): for EVERY sequence of operations on any number of handles the
  value seen through each handle is the one of plain value semantics (`cow_refines`), hence a write
  through one handle never changes what another one shows;  a writable reference taken before a
  copy escapes this guarantee (`stale_reference_leaks`, witness);
* lazily evaluated calculators: whatever the history of updates and queries, the answer is the one
  of a fresh object holding the final inputs (`memo_fresh`); a calculator that forgets one
  invalidation is not (`memo_buggy_differs`, witness);
* random generator: once a positive seed is set the stream is a function of the seed only
  (`GstProofs.C13.det`); a non-positive seed leaves the state as it was (`seed_nonpositive_keeps`).
-/
namespace GstProofs.C10
open GstVerif

section Cow
open GstVerif.Cow

/-- invariant: every handle points inside the heap -/
def Wf (s : St) : Prop := ∀ h, h < s.hnd.length → s.hnd.getD h 0 < s.heap.length

theorem abs_length (s : St) : (Cow.abs s).length = s.hnd.length := by simp [Cow.abs]

theorem abs_getD (s : St) (h : Nat) (hh : h < s.hnd.length) : (Cow.abs s).getD h [] = bufOf s h := by
  simp [Cow.abs, hh]

/-- two states with the same handles' values have the same abstraction -/
theorem abs_ext (s : St) (vals : List Buf) (hl : vals.length = s.hnd.length)
    (hv : ∀ h, h < s.hnd.length → vals.getD h [] = bufOf s h) : Cow.abs s = vals := by
  apply List.ext_getElem
  · simp [Cow.abs, hl]
  · intro i h1 h2
    have hi : i < s.hnd.length := by simpa [Cow.abs] using h1
    have := hv i hi
    simp only [List.getD_eq_getElem?_getD, List.getElem?_eq_getElem h2, Option.getD_some] at this
    simp [Cow.abs, this]

/-- after `detach`, `h` is the only user of its buffer and every handle shows the same value -/
theorem detach_spec (s : St) (h : Nat) (hw : Wf s) (hh : h < s.hnd.length) :
    Wf (detach s h) ∧ (detach s h).hnd.length = s.hnd.length ∧
    (∀ g, g < s.hnd.length → bufOf (detach s h) g = bufOf s g) ∧
    (∀ g, g < s.hnd.length → g ≠ h → (detach s h).hnd.getD g 0 ≠ (detach s h).hnd.getD h 0) := by
  unfold detach
  by_cases hc : shared s h = true
  · simp only [hc, if_true]
    refine ⟨?_, by simp, ?_, ?_⟩
    · intro g hg
      simp only [List.length_set] at hg
      simp only [List.length_append, List.length_singleton]
      by_cases e : g = h
      · subst e; simp [hg]
      · have := hw g hg
        simp only [List.getD_eq_getElem?_getD] at this ⊢
        rw [List.getElem?_set_ne (Ne.symm e)]
        omega
    · intro g hg
      unfold bufOf
      by_cases e : g = h
      · subst e
        simp only [List.getD_eq_getElem?_getD, List.getElem?_set_self hg, Option.getD_some]
        simp
      · have hb := hw g hg
        simp only [List.getD_eq_getElem?_getD] at hb ⊢
        rw [List.getElem?_set_ne (Ne.symm e)]
        rw [List.getElem?_append_left hb]
    · intro g hg e
      have hb := hw g hg
      simp only [List.getD_eq_getElem?_getD] at hb ⊢
      rw [List.getElem?_set_ne (Ne.symm e), List.getElem?_set_self hh]
      simp only [Option.getD_some]
      omega
  · have hc' : shared s h = false := by simpa using hc
    have hd : (if shared s h = true then
        ({ heap := s.heap ++ [s.heap.getD (s.hnd.getD h 0) []], hnd := s.hnd.set h s.heap.length } : St)
        else s) = s := by simp [hc']
    rw [hd]
    refine ⟨hw, rfl, fun _ _ => rfl, ?_⟩
    intro g hg e heq
    apply hc
    unfold shared
    rw [List.any_eq_true]
    refine ⟨g, List.mem_range.mpr hg, ?_⟩
    simp only [Bool.and_eq_true, bne_iff_ne, ne_eq, beq_iff_eq]
    exact ⟨e, heq⟩

/-- a mutator (`detach` then update of the private buffer) changes the value of `h` only -/
theorem setBuf_spec (s : St) (h : Nat) (f : Buf → Buf) (hw : Wf s) (hh : h < s.hnd.length) :
    Wf (setBuf s h f) ∧ (setBuf s h f).hnd.length = s.hnd.length ∧
    bufOf (setBuf s h f) h = f (bufOf s h) ∧
    (∀ g, g < s.hnd.length → g ≠ h → bufOf (setBuf s h f) g = bufOf s g) := by
  obtain ⟨w1, l1, v1, x1⟩ := detach_spec s h hw hh
  unfold setBuf
  simp only
  have hb : (detach s h).hnd.getD h 0 < (detach s h).heap.length := w1 h (by omega)
  refine ⟨?_, l1, ?_, ?_⟩
  · intro g hg
    simp only [List.length_set]
    exact w1 g hg
  · unfold bufOf
    simp only [List.getD_eq_getElem?_getD] at hb ⊢
    rw [List.getElem?_set_self hb]
    simp only [Option.getD_some]
    have := v1 h hh
    unfold bufOf at this
    simp only [List.getD_eq_getElem?_getD] at this
    rw [this]
  · intro g hg e
    have hne := x1 g hg e
    have := v1 g hg
    unfold bufOf at this ⊢
    simp only [List.getD_eq_getElem?_getD] at this hne ⊢
    rw [List.getElem?_set_ne (Ne.symm hne)]
    exact this

/-- one step commutes with the abstraction and keeps the invariant -/
theorem step_refines (s : St) (op : Cow.Op) (hw : Wf s) :
    Wf (step s op) ∧ Cow.abs (step s op) = stepSpec (Cow.abs s) op := by
  have hlen := abs_length s
  cases op with
  | new v =>
    refine ⟨?_, ?_⟩
    · intro g hg
      simp only [step, List.length_append, List.length_singleton] at hg ⊢
      by_cases e : g < s.hnd.length
      · have := hw g e
        simp only [List.getD_eq_getElem?_getD] at this ⊢
        rw [List.getElem?_append_left e]; omega
      · have : g = s.hnd.length := by omega
        subst this; simp
    · apply abs_ext
      · simp [step, stepSpec, hlen]
      · intro g hg
        simp only [step, List.length_append, List.length_singleton] at hg
        simp only [stepSpec, step, bufOf]
        by_cases e : g < s.hnd.length
        · have hb := hw g e
          simp only [List.getD_eq_getElem?_getD] at hb ⊢
          rw [List.getElem?_append_left (by simpa [Cow.abs] using e), List.getElem?_append_left e,
            List.getElem?_append_left hb]
          have := abs_getD s g e
          simp only [List.getD_eq_getElem?_getD, bufOf] at this
          exact this
        · have : g = s.hnd.length := by omega
          subst this
          simp [Cow.abs]
  | copy h =>
    by_cases hh : h < s.hnd.length
    · refine ⟨?_, ?_⟩
      · intro g hg
        simp only [step, hh, if_true, List.length_append, List.length_singleton] at hg ⊢
        by_cases e : g < s.hnd.length
        · have := hw g e
          simp only [List.getD_eq_getElem?_getD] at this ⊢
          rw [List.getElem?_append_left e]; exact this
        · have : g = s.hnd.length := by omega
          subst this
          have := hw h hh
          simpa using this
      · apply abs_ext
        · simp [step, stepSpec, hlen, hh]
        · intro g hg
          simp only [step, hh, if_true, List.length_append, List.length_singleton] at hg
          simp only [stepSpec, hlen, hh, if_true, step, bufOf]
          by_cases e : g < s.hnd.length
          · simp only [List.getD_eq_getElem?_getD]
            rw [List.getElem?_append_left (by simpa [Cow.abs] using e), List.getElem?_append_left e]
            have := abs_getD s g e
            simp only [List.getD_eq_getElem?_getD, bufOf] at this
            exact this
          · have : g = s.hnd.length := by omega
            subst this
            simp [Cow.abs, hh, bufOf]
    · exact ⟨by simpa [step, hh] using hw, by simp [step, stepSpec, hh, hlen]⟩
  | assign h g =>
    by_cases hc : h < s.hnd.length ∧ g < s.hnd.length
    · obtain ⟨hh, hg⟩ := hc
      refine ⟨?_, ?_⟩
      · intro k hk
        simp only [step, hh, hg, and_self, if_true, List.length_set] at hk ⊢
        by_cases e : k = h
        · subst e
          simpa [hk] using hw g hg
        · have := hw k hk
          simp only [List.getD_eq_getElem?_getD] at this ⊢
          rw [List.getElem?_set_ne (Ne.symm e)]; exact this
      · apply abs_ext
        · simp [step, stepSpec, hlen, hh, hg]
        · intro k hk
          simp only [step, hh, hg, and_self, if_true, List.length_set] at hk
          simp only [stepSpec, hlen, hh, hg, and_self, if_true, step, bufOf]
          by_cases e : k = h
          · subst e
            have := abs_getD s g hg
            simp only [bufOf] at this
            simp only [List.getD_eq_getElem?_getD] at this ⊢
            simp [hk, hlen, this]
          · simp only [List.getD_eq_getElem?_getD]
            rw [List.getElem?_set_ne (Ne.symm e), List.getElem?_set_ne (Ne.symm e)]
            have := abs_getD s k hk
            simp only [List.getD_eq_getElem?_getD, bufOf] at this
            exact this
    · exact ⟨by simpa [step, hc] using hw, by simp [step, stepSpec, hc, hlen]⟩
  | set h i v =>
    by_cases hh : h < s.hnd.length
    · obtain ⟨w, l, vh, vo⟩ := setBuf_spec s h (fun b => if i < b.length then b.set i v else b) hw hh
      refine ⟨by simpa [step, hh] using w, ?_⟩
      apply abs_ext
      · simp [step, stepSpec, hlen, hh, l]
      · intro k hk
        simp only [step, hh, if_true, l] at hk
        simp only [stepSpec, hlen, hh, if_true, step]
        by_cases e : k = h
        · subst e
          rw [vh, ← abs_getD s k hh]
          simp [hlen, hh]
        · rw [vo k hk e, ← abs_getD s k hk]
          simp only [List.getD_eq_getElem?_getD]
          rw [List.getElem?_set_ne (Ne.symm e)]
    · exact ⟨by simpa [step, hh] using hw, by simp [step, stepSpec, hh, hlen]⟩
  | upd h u =>
    by_cases hh : h < s.hnd.length
    · obtain ⟨w, l, vh, vo⟩ := setBuf_spec s h (applyUpd u) hw hh
      refine ⟨by simpa [step, hh] using w, ?_⟩
      apply abs_ext
      · simp [step, stepSpec, hlen, hh, l]
      · intro k hk
        simp only [step, hh, if_true, l] at hk
        simp only [stepSpec, hlen, hh, if_true, step]
        by_cases e : k = h
        · subst e
          rw [vh, ← abs_getD s k hh]
          simp [hlen, hh]
        · rw [vo k hk e, ← abs_getD s k hk]
          simp only [List.getD_eq_getElem?_getD]
          rw [List.getElem?_set_ne (Ne.symm e)]
    · exact ⟨by simpa [step, hh] using hw, by simp [step, stepSpec, hh, hlen]⟩
  | push h v =>
    by_cases hh : h < s.hnd.length
    · obtain ⟨w, l, vh, vo⟩ := setBuf_spec s h (fun b => b ++ [v]) hw hh
      refine ⟨by simpa [step, hh] using w, ?_⟩
      apply abs_ext
      · simp [step, stepSpec, hlen, hh, l]
      · intro k hk
        simp only [step, hh, if_true, l] at hk
        simp only [stepSpec, hlen, hh, if_true, step]
        by_cases e : k = h
        · subst e
          rw [vh, ← abs_getD s k hh]
          simp [hlen, hh]
        · rw [vo k hk e, ← abs_getD s k hk]
          simp only [List.getD_eq_getElem?_getD]
          rw [List.getElem?_set_ne (Ne.symm e)]
    · exact ⟨by simpa [step, hh] using hw, by simp [step, stepSpec, hh, hlen]⟩
  | resize h n =>
    by_cases hh : h < s.hnd.length
    · obtain ⟨w, l, vh, vo⟩ := setBuf_spec s h (resizeBuf n) hw hh
      refine ⟨by simpa [step, hh] using w, ?_⟩
      apply abs_ext
      · simp [step, stepSpec, hlen, hh, l]
      · intro k hk
        simp only [step, hh, if_true, l] at hk
        simp only [stepSpec, hlen, hh, if_true, step]
        by_cases e : k = h
        · subst e
          rw [vh, ← abs_getD s k hh]
          simp [hlen, hh]
        · rw [vo k hk e, ← abs_getD s k hk]
          simp only [List.getD_eq_getElem?_getD]
          rw [List.getElem?_set_ne (Ne.symm e)]
    · exact ⟨by simpa [step, hh] using hw, by simp [step, stepSpec, hh, hlen]⟩
  | swap h g =>
    by_cases hc : h < s.hnd.length ∧ g < s.hnd.length
    · obtain ⟨hh, hg⟩ := hc
      refine ⟨?_, ?_⟩
      · intro k hk
        simp only [step, hh, hg, and_self, if_true, List.length_set] at hk ⊢
        simp only [List.getD_eq_getElem?_getD]
        by_cases e1 : k = g
        · subst e1
          rw [List.getElem?_set_self (by simpa using hk)]
          simpa using hw h hh
        · rw [List.getElem?_set_ne (Ne.symm e1)]
          by_cases e2 : k = h
          · subst e2
            rw [List.getElem?_set_self hk]
            simpa using hw g hg
          · rw [List.getElem?_set_ne (Ne.symm e2)]
            simpa [List.getD_eq_getElem?_getD] using hw k hk
      · apply abs_ext
        · simp [step, stepSpec, hlen, hh, hg]
        · intro k hk
          simp only [step, hh, hg, and_self, if_true, List.length_set] at hk
          simp only [stepSpec, hlen, hh, hg, and_self, if_true, step, bufOf]
          simp only [List.getD_eq_getElem?_getD]
          by_cases e1 : k = g
          · subst e1
            rw [List.getElem?_set_self (by simpa [hlen] using hk), List.getElem?_set_self (by simpa using hk)]
            have := abs_getD s h hh
            simp only [List.getD_eq_getElem?_getD, bufOf] at this
            simpa using this
          · rw [List.getElem?_set_ne (Ne.symm e1), List.getElem?_set_ne (Ne.symm e1)]
            by_cases e2 : k = h
            · subst e2
              rw [List.getElem?_set_self (by simpa [hlen] using hk), List.getElem?_set_self hk]
              have := abs_getD s g hg
              simp only [List.getD_eq_getElem?_getD, bufOf] at this
              simpa using this
            · rw [List.getElem?_set_ne (Ne.symm e2), List.getElem?_set_ne (Ne.symm e2)]
              have := abs_getD s k hk
              simp only [List.getD_eq_getElem?_getD, bufOf] at this
              exact this
    · exact ⟨by simpa [step, hc] using hw, by simp [step, stepSpec, hc, hlen]⟩

theorem run_refines_from (ops : List Cow.Op) : ∀ (s : St), Wf s →
    Wf (ops.foldl step s) ∧ Cow.abs (ops.foldl step s) = ops.foldl stepSpec (Cow.abs s) := by
  induction ops with
  | nil => intro s hw; exact ⟨hw, rfl⟩
  | cons op ops ih =>
    intro s hw
    obtain ⟨w1, a1⟩ := step_refines s op hw
    have := ih (step s op) w1
    simp only [List.foldl_cons]
    rw [← a1]
    exact this

/-- **Copy-on-write vectors behave as values**: after any sequence of constructions, copies,
assignments, writes, appends, resizes and swaps on any number of handles, what each handle shows
is what plain value semantics gives. -/
theorem cow_refines (ops : List Cow.Op) : Cow.abs (run ops) = runSpec ops := by
  have := (run_refines_from ops Cow.init (by intro h hh; simp [Cow.init] at hh)).2
  simpa [run, runSpec, Cow.abs, Cow.init] using this

/-! ### the premise of `cow_refines`, decided on the table regenerated from the header at every run

`runner/cow2lean.py` re-reads `include/Basic/VectorT.hpp` / `VectorNumT.hpp` of /repo and rewrites
`GstGen/CowTable.lean`: one row per member function definition.  The model's mutators detach before
they write (`Cow.step`); these theorems say that the *source* does: they are re-elaborated against
what the headers contain today, for every member, not for the members a test happens to call. -/

/-- every member that reaches the shared buffer through a non-const path calls `_detach()` before
its first access (`_detach` itself is the exception: it is the copy) -/
theorem vectorT_writers_detach :
    ∀ m ∈ GstGen.cowMethods, m.writes = true → m.detaches = true ∨ m.name = "_detach" := by decide

/-- no `const` member writes -/
theorem vectorT_const_members_read_only :
    ∀ m ∈ GstGen.cowMethods, m.isConst = true → m.writes = false := by decide

/-- the only `const` members handing out mutable access to the shared buffer are the two recorded
in known finding F73 (`getVector`, `getVectorPtr`): a new escape hatch breaks this theorem -/
theorem vectorT_escapes_known :
    (GstGen.cowMethods.filter (·.escapes)).map (·.name) = ["getVector", "getVectorPtr"] := by decide

/-- the derived numeric vector never names the buffer in a mutator: it goes through the accessors
of `VectorT`, which detach -/
theorem vectorNumT_mutators_use_accessors :
    ∀ m ∈ GstGen.cowMethods, m.cls = "VectorNumT" → m.isConst = false → m.writes = false := by decide

/-- the table is not empty and holds the members the model is about -/
theorem vectorT_table_covers_model :
    ∀ n ∈ ["operator=", "operator[]", "setAt", "push_back", "resize", "swap", "fill", "clear", "assign"],
      n ∈ GstGen.cowMethods.map (·.name) := by decide

/-- witness: a writable reference taken on `v[0]` *before* `w = v` is copied, used after it,
changes `w` as well — the escape hatch of every copy-on-write container (`T& operator[]`,
`data()`, `getVector()` of VectorT) -/
theorem stale_reference_leaks :
    let s := run [.new [1, 2, 3], .copy 0]          -- v = {1,2,3}; w = v   (shared buffer 0)
    bufOf (writeThroughRef s 0 0 9) 1 = [9, 2, 3] := by decide +kernel

example : Cow.abs (run [.new [1, 2, 3], .copy 0, .set 0 0 9, .push 1 4]) = [[9, 2, 3], [1, 2, 3, 4]] := by
  decide +kernel

end Cow

section Memo
open GstVerif.Memo
variable {A B RA RAB : Type} (fa : A → RA) (fab : RA → B → RAB)

/-- invariant: what is cached is what would be computed from the current inputs -/
def Coherent (o : Obj A B RA RAB) : Prop :=
  (∀ r, o.ca = some r → r = fa o.a) ∧ (∀ r, o.cab = some r → r = fab (fa o.a) o.b)

theorem step_coherent (o : Obj A B RA RAB) (op : Memo.Op A B) (h : Coherent fa fab o) :
    Coherent fa fab (Memo.step fa fab o op) := by
  obtain ⟨h1, h2⟩ := h
  cases op with
  | setA x => exact ⟨by simp [Memo.step], by simp [Memo.step]⟩
  | setB y => exact ⟨by simpa [Memo.step] using h1, by simp [Memo.step]⟩
  | getA =>
    refine ⟨?_, by simpa [Memo.step] using h2⟩
    intro r hr
    simp only [Memo.step, Option.some.injEq] at hr
    cases hc : o.ca with
    | none => simp [hc] at hr; exact hr.symm
    | some c => simp [hc] at hr; rw [← hr]; exact h1 c hc
  | getAB =>
    have hra : o.ca.getD (fa o.a) = fa o.a := by
      cases hc : o.ca with
      | none => rfl
      | some c => simp [h1 c hc]
    refine ⟨?_, ?_⟩
    · intro r hr
      simp only [Memo.step, Option.some.injEq] at hr ⊢
      rw [← hr, hra]
    · intro r hr
      simp only [Memo.step, Option.some.injEq] at hr ⊢
      cases hc : o.cab with
      | none => simp [hc, hra] at hr; exact hr.symm
      | some c => simp [hc] at hr; rw [← hr]; exact h2 c hc

/-- the inputs held after a history -/
def finalA (a0 : A) : List (Memo.Op A B) → A
  | [] => a0
  | .setA x :: ops => finalA x ops
  | _ :: ops => finalA a0 ops
def finalB (b0 : B) : List (Memo.Op A B) → B
  | [] => b0
  | .setB y :: ops => finalB y ops
  | _ :: ops => finalB b0 ops

theorem run_inputs (ops : List (Memo.Op A B)) : ∀ (o : Obj A B RA RAB),
    (ops.foldl (Memo.step fa fab) o).a = finalA o.a ops ∧ (ops.foldl (Memo.step fa fab) o).b = finalB o.b ops := by
  induction ops with
  | nil => intro o; exact ⟨rfl, rfl⟩
  | cons op ops ih =>
    intro o
    cases op <;> simpa [finalA, finalB, Memo.step] using ih _

/-- **An object updated incrementally answers as a fresh one**: after any history of updates and
queries starting from a coherent object, the answer is the function of the final inputs. -/
theorem memo_fresh (ops : List (Memo.Op A B)) (o : Obj A B RA RAB) (h : Coherent fa fab o) :
    answerAB fa fab (ops.foldl (Memo.step fa fab) o) = fab (fa (finalA o.a ops)) (finalB o.b ops) := by
  have hc : Coherent fa fab (ops.foldl (Memo.step fa fab) o) := by
    induction ops generalizing o with
    | nil => exact h
    | cons op ops ih => exact ih _ (step_coherent fa fab o op h)
  obtain ⟨ha, hb⟩ := run_inputs fa fab ops o
  obtain ⟨h1, h2⟩ := hc
  unfold answerAB
  generalize ops.foldl (Memo.step fa fab) o = o' at *
  cases hcab : o'.cab with
  | some c => simp [h2 c hcab, ha, hb]
  | none =>
    cases hca : o'.ca with
    | some c => simp [h1 c hca, ha, hb]
    | none => simp [ha, hb]

/-- witness: forgetting one invalidation makes the answer depend on the history -/
theorem memo_buggy_differs :
    let fa : Nat → Nat := fun a => a * 10
    let fab : Nat → Nat → Nat := fun r b => r + b
    let o : Obj Nat Nat Nat Nat := ⟨1, 2, none, none⟩
    answerAB fa fab ([Memo.Op.getAB, .setA 5].foldl (stepBuggy fa fab) o) = 12 ∧
    fab (fa 5) 2 = 52 := by decide

end Memo

/-- a non-positive seed leaves the generator where it was: what follows depends on the history -/
theorem seed_nonpositive_keeps (state : Nat) (seed : Int) (h : seed ≤ 0) :
    GstVerif.Rng.setSeed state seed = state := by
  unfold GstVerif.Rng.setSeed; simp [Int.not_lt.mpr h]

end GstProofs.C10
