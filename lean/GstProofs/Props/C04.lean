import GstProofs.Props.C01
import GstProofs.Props.C06
import Mathlib.Algebra.BigOperators.Field
import Mathlib.Tactic.FieldSimp
import Mathlib.Tactic.Ring
/-!
# C04 — accelerated code paths give the same answers as the plain ones

For each pair of paths compared on the library by `harness/vh_c04.cpp`, the reason why the two
answers must coincide is a theorem about the models:

* unique neighbourhood = moving neighbourhood holding every sample: the moving selection of the
  model returns *all* candidates when no limit binds (`wide_moving_all`), and the kriging system is
  a function of the selected set only (C01);
* cross-validation in unique neighbourhood = explicit leave-one-out: the weights and the estimate
  obtained from one column of the inverse of the complete system solve the system deprived of the
  target sample (`loo_weights`, `loo_estimate`) — for every size, every symmetric or non symmetric
  system;
* dual form = primal form (`GstProofs.C01.dual`);
* block kriging with one discretisation point = point kriging: the block average of any function
  over a one-point discretisation is the function at that point (`blockAverage_single`);
* the algebraic calculator (`KrigingCalcul`): the universal-kriging weights obtained from the
  simple-kriging ones through the Schur complement `XᵀΣ⁻¹X` solve the bordered system (`uk_from_sk`);
* the ball-tree query is specified as the `k` first sorted candidates (`GstProofs.C06.knn_spec`).

The optimised covariance matrices and the ball tree itself are tied by correspondence only.
-/
namespace GstProofs.C04
open GstVerif GstVerif.Neigh GstProofs.Neigh

/-- insertion sort of natural numbers is a permutation -/
theorem sortNat_perm : ∀ l : List Nat, (sortNat l).Perm l := by
  intro l
  induction l with
  | nil => exact List.Perm.refl _
  | cons a as ih =>
    have ins : ∀ (a : Nat) (l : List Nat), (insertNat a l).Perm (a :: l) := by
      intro a l
      induction l with
      | nil => exact List.Perm.refl _
      | cons x xs ih2 =>
        simp only [insertNat]; split
        · exact List.Perm.refl _
        · exact (List.Perm.cons x ih2).trans (List.Perm.swap a x xs)
    exact (ins a (sortNat as)).trans (List.Perm.cons a ih)

/-- **A moving neighbourhood in which no limit binds selects every candidate**: without angular
sectors, with at least `nmini` candidates and fewer candidates than `nmaxi` (or no maximum), the
selection is a permutation of all the candidate ranks — the set a unique neighbourhood uses. -/
theorem wide_moving_all (nmini nmaxi nsect nsmax ntot : Nat) (cands : List Cand)
    (hsect : nsect ≤ 1) (hmin : nmini ≤ cands.length) (htot : nmini ≤ ntot)
    (hmax : nmaxi = 0 ∨ cands.length < nmaxi) :
    ∃ sel, moving nmini nmaxi nsect nsmax ntot cands = some sel ∧ sel.Perm (cands.map (·.rank)) := by
  unfold moving
  have h1 : ¬ ntot < nmini := by omega
  have h2 : ¬ cands.length < nmini := by omega
  have h3 : ¬ (nsect > 1 ∧ nsmax > 0) := by omega
  have hlen : (sortByDist cands).length = cands.length := (sortByDist_perm cands).length_eq
  simp only [h1, h2, h3, if_false]
  refine ⟨_, rfl, ?_⟩
  have hk : (if nmaxi = 0 then sortByDist cands else if (sortByDist cands).length < nmaxi then sortByDist cands
      else takeQuota (quotas nmaxi (countSect nsect (sortByDist cands))) (sortByDist cands) (List.replicate nsect 0))
      = sortByDist cands := by
    rcases hmax with h | h
    · simp [h]
    · have : (sortByDist cands).length < nmaxi := by omega
      simp [this]
  rw [hk]
  exact (sortNat_perm _).trans ((sortByDist_perm cands).map _)

section LeaveOneOut
variable {K : Type*} [Field K] {n : ℕ}

/-- **Leave-one-out weights from one column of the inverse** (any size): if `b` is the `i`-th
column of the inverse of `A` (`A b = e_i`) and `b i ≠ 0`, then `λ_k = -b_k / b_i` (k ≠ i) solves the
system deprived of sample `i`:  `Σ_{k≠i} A_{jk} λ_k = A_{ji}` for every remaining row `j`. -/
theorem loo_weights (A : Matrix (Fin n) (Fin n) K) (b : Fin n → K) (i : Fin n)
    (hb : ∀ j, ∑ k, A j k * b k = if j = i then 1 else 0) (hbi : b i ≠ 0) :
    ∀ j, j ≠ i → ∑ k ∈ Finset.univ.erase i, A j k * (-(b k) / b i) = A j i := by
  intro j hj
  have h0 := hb j
  simp only [hj, if_false] at h0
  rw [← Finset.add_sum_erase Finset.univ (fun k => A j k * b k) (Finset.mem_univ i)] at h0
  have hs : ∑ k ∈ Finset.univ.erase i, A j k * (-(b k) / b i)
      = (∑ k ∈ Finset.univ.erase i, A j k * b k) * (-(b i)⁻¹) := by
    rw [Finset.sum_mul]
    apply Finset.sum_congr rfl
    intro k _
    field_simp
  have h1 : ∑ k ∈ Finset.univ.erase i, A j k * b k = -(A j i * b i) :=
    eq_neg_of_add_eq_zero_right h0
  rw [hs, h1]
  field_simp

/-- the leave-one-out estimate is `z_i - (b·z) / b_i` -/
theorem loo_estimate (b z : Fin n → K) (i : Fin n) (hbi : b i ≠ 0) :
    ∑ k ∈ Finset.univ.erase i, (-(b k) / b i) * z k = z i - (∑ k, b k * z k) / b i := by
  rw [← Finset.add_sum_erase Finset.univ (fun k => b k * z k) (Finset.mem_univ i)]
  have hs : ∑ k ∈ Finset.univ.erase i, (-(b k) / b i) * z k
      = (∑ k ∈ Finset.univ.erase i, b k * z k) * (-(b i)⁻¹) := by
    rw [Finset.sum_mul]
    apply Finset.sum_congr rfl
    intro k _
    field_simp
  rw [hs]
  field_simp
  ring

end LeaveOneOut

/-! ### the algebraic calculator: universal kriging from simple kriging (Schur complement)

`KrigingCalcul` never assembles the bordered system: it computes the simple-kriging weights
`λ₀ = Σ⁻¹Σ₀`, the matrix `S = XᵀΣ⁻¹X` and corrects.  The corrected weights are the solution of the
documented block system, for every size. -/
section Schur
open Matrix
variable {K : Type*} [Field K] {m p : Type*} [Fintype m] [Fintype p] [DecidableEq m] [DecidableEq p]

/-- with `λ₀ = Σ⁻¹Σ₀`, `S = XᵀΣ⁻¹X`, `μ = S⁻¹(Xᵀλ₀ − X₀)` and `λ = λ₀ − Σ⁻¹Xμ`, the pair `(λ, μ)`
satisfies both kriging equations `Σλ + Xμ = Σ₀` and `Xᵀλ = X₀` -/
theorem uk_from_sk (Sg : Matrix m m K) (X : Matrix m p K) (S0 : m → K) (X0 : p → K)
    (hS : IsUnit Sg.det) (hQ : IsUnit (Xᵀ * Sg⁻¹ * X).det) :
    let lam0 := Sg⁻¹ *ᵥ S0
    let mu := (Xᵀ * Sg⁻¹ * X)⁻¹ *ᵥ (Xᵀ *ᵥ lam0 - X0)
    let lam := lam0 - Sg⁻¹ *ᵥ (X *ᵥ mu)
    Sg *ᵥ lam + X *ᵥ mu = S0 ∧ Xᵀ *ᵥ lam = X0 := by
  intro lam0 mu lam
  have cancelS : ∀ v : m → K, Sg *ᵥ (Sg⁻¹ *ᵥ v) = v := fun v => by
    rw [Matrix.mulVec_mulVec, Matrix.mul_nonsing_inv _ hS, Matrix.one_mulVec]
  have hq : (Xᵀ * Sg⁻¹ * X) *ᵥ mu = Xᵀ *ᵥ lam0 - X0 := by
    show (Xᵀ * Sg⁻¹ * X) *ᵥ ((Xᵀ * Sg⁻¹ * X)⁻¹ *ᵥ (Xᵀ *ᵥ lam0 - X0)) = _
    rw [Matrix.mulVec_mulVec, Matrix.mul_nonsing_inv _ hQ, Matrix.one_mulVec]
  constructor
  · show Sg *ᵥ (lam0 - Sg⁻¹ *ᵥ (X *ᵥ mu)) + X *ᵥ mu = S0
    rw [Matrix.mulVec_sub, cancelS, cancelS]
    abel
  · show Xᵀ *ᵥ (lam0 - Sg⁻¹ *ᵥ (X *ᵥ mu)) = X0
    have e : Xᵀ *ᵥ (Sg⁻¹ *ᵥ (X *ᵥ mu)) = (Xᵀ * Sg⁻¹ * X) *ᵥ mu := by
      rw [Matrix.mulVec_mulVec, Matrix.mulVec_mulVec]
    rw [Matrix.mulVec_sub, e, hq]
    abel

end Schur

/-- average of a function over a discretisation (list of points) -/
def blockAverage {P : Type} (f : P → Q) (disc : List P) : Q :=
  (disc.map f).sum / (disc.length : Q)

/-- a one-point discretisation reduces a block to its point -/
theorem blockAverage_single {P : Type} (f : P → Q) (p : P) : blockAverage f [p] = f p := by
  simp [blockAverage]

/-- non-vacuity: 3 candidates, nmaxi = 10 -/
example : moving 1 10 1 0 5 [⟨4, 3, 0⟩, ⟨0, 1, 0⟩, ⟨2, 2, 0⟩] = some [0, 2, 4] := by decide +kernel

/-- non-vacuity of the leave-one-out statement: a 2×2 system -/
example : ∑ k ∈ (Finset.univ : Finset (Fin 2)).erase 0,
    (!![(2 : ℚ), 1; 1, 2]) 1 k * (-((![(2 : ℚ) / 3, -1 / 3] : Fin 2 → ℚ) k) / (2 / 3)) = 1 := by
  simp [Finset.sum_erase, Fin.sum_univ_two]
  norm_num

/-! ### the Bayesian form of the algebraic calculator -/
section Bayes
open Matrix
variable {K : Type*} [Field K] {m p : Type*} [Fintype m] [Fintype p] [DecidableEq m] [DecidableEq p]

/-- **Bayesian form of the calculator** (Gaussian prior `N(μ, S)` on the drift coefficients).  The calculator works
with the posterior precision `P = XᵀΣ⁻¹X + S⁻¹`: the weights of the data in its estimate are
`w = Σ⁻¹Σ₀ + Σ⁻¹X P⁻¹ d` and the weights of the prior mean are `c = S⁻¹P⁻¹ d`, with `d = X₀ − XᵀΣ⁻¹Σ₀`.
These are exactly the simple-kriging weights under the covariance `Σ + X S Xᵀ` (right-hand side
`Σ₀ + X S X₀`), and the prior mean receives what is left of the drift at the target: `c = X₀ − Xᵀw` -/
theorem bayes_weights (Sg : Matrix m m K) (X : Matrix m p K) (S : Matrix p p K) (s0 : m → K) (x0 : p → K)
    (hS : IsUnit Sg.det) (hP : IsUnit S.det) (hQ : IsUnit (Xᵀ * Sg⁻¹ * X + S⁻¹).det) :
    let P := Xᵀ * Sg⁻¹ * X + S⁻¹
    let d := x0 - Xᵀ *ᵥ (Sg⁻¹ *ᵥ s0)
    let w := Sg⁻¹ *ᵥ s0 + Sg⁻¹ *ᵥ (X *ᵥ (P⁻¹ *ᵥ d))
    let c := S⁻¹ *ᵥ (P⁻¹ *ᵥ d)
    (Sg + X * S * Xᵀ) *ᵥ w = s0 + X *ᵥ (S *ᵥ x0) ∧ c = x0 - Xᵀ *ᵥ w := by
  intro P d w c
  have cancelS : ∀ v : m → K, Sg *ᵥ (Sg⁻¹ *ᵥ v) = v := fun v => by
    rw [Matrix.mulVec_mulVec, Matrix.mul_nonsing_inv _ hS, Matrix.one_mulVec]
  have cancelP : ∀ v : p → K, S *ᵥ (S⁻¹ *ᵥ v) = v := fun v => by
    rw [Matrix.mulVec_mulVec, Matrix.mul_nonsing_inv _ hP, Matrix.one_mulVec]
  set u := P⁻¹ *ᵥ d with hu
  have h1 : P *ᵥ u = d := by
    rw [hu, Matrix.mulVec_mulVec, Matrix.mul_nonsing_inv _ hQ, Matrix.one_mulVec]
  have h1' : (Xᵀ * Sg⁻¹ * X) *ᵥ u + S⁻¹ *ᵥ u = d := by rw [← Matrix.add_mulVec]; exact h1
  have hXw : Xᵀ *ᵥ w = Xᵀ *ᵥ (Sg⁻¹ *ᵥ s0) + (Xᵀ * Sg⁻¹ * X) *ᵥ u := by
    show Xᵀ *ᵥ (Sg⁻¹ *ᵥ s0 + Sg⁻¹ *ᵥ (X *ᵥ u)) = _
    rw [Matrix.mulVec_add]
    congr 1
    rw [Matrix.mulVec_mulVec, Matrix.mulVec_mulVec]
  have hc : c = x0 - Xᵀ *ᵥ w := by
    show S⁻¹ *ᵥ u = _
    rw [hXw]
    have : S⁻¹ *ᵥ u = d - (Xᵀ * Sg⁻¹ * X) *ᵥ u := by rw [← h1']; abel
    rw [this]
    show x0 - Xᵀ *ᵥ (Sg⁻¹ *ᵥ s0) - _ = _
    abel
  refine ⟨?_, hc⟩
  have hSw : Sg *ᵥ w = s0 + X *ᵥ u := by
    show Sg *ᵥ (Sg⁻¹ *ᵥ s0 + Sg⁻¹ *ᵥ (X *ᵥ u)) = _
    rw [Matrix.mulVec_add, cancelS, cancelS]
  have hXSX : (X * S * Xᵀ) *ᵥ w = X *ᵥ (S *ᵥ x0) - X *ᵥ u := by
    rw [← Matrix.mulVec_mulVec, ← Matrix.mulVec_mulVec]
    have : Xᵀ *ᵥ w = x0 - c := by rw [hc]; abel
    rw [this, Matrix.mulVec_sub, Matrix.mulVec_sub]
    show _ - X *ᵥ (S *ᵥ (S⁻¹ *ᵥ u)) = _
    rw [cancelP]
  rw [Matrix.add_mulVec, hSw, hXSX]
  abel

omit [DecidableEq m] [DecidableEq p] in
/-- … hence the Bayesian estimate `wᵀz + cᵀμ` is the prior drift at the target plus the simple kriging of the
residuals `z − Xμ` with those weights -/
theorem bayes_estimate (X : Matrix m p K) (w z : m → K) (c x0 mu : p → K) (hc : c = x0 - Xᵀ *ᵥ w) :
    w ⬝ᵥ z + c ⬝ᵥ mu = x0 ⬝ᵥ mu + w ⬝ᵥ (z - X *ᵥ mu) := by
  have h : (Xᵀ *ᵥ w) ⬝ᵥ mu = w ⬝ᵥ (X *ᵥ mu) := by
    rw [Matrix.mulVec_transpose, ← Matrix.dotProduct_mulVec]
  rw [hc, sub_dotProduct, dotProduct_sub, h]
  ring

end Bayes
/-! ### the collocated form of the algebraic calculator -/
section Collocated
open Matrix
variable {K : Type*} [Field K] {m q : Type*} [Fintype m] [Fintype q] [DecidableEq m] [DecidableEq q]

/-- **collocated form of the calculator (known mean)**: the datum of the collocated variables at the target is never
added to the data; with `D = Σ₀₀ᵖᵖ − Σ₀ᵖᵀ Σ⁻¹ Σ₀ᵖ` (Schur complement of the augmented covariance) the calculator takes
`λ₀ = D⁻¹ (Σ₀₀ᵖ − Σ₀ᵖᵀ Σ⁻¹ Σ₀)` for the collocated values and `λ = Σ⁻¹ (Σ₀ − Σ₀ᵖ λ₀)` for the data.  These are the
weights of simple cokriging with the collocated datum added to the data: both block equations of the augmented
system hold, for every size -/
theorem collocated_weights (Sg : Matrix m m K) (C0p : Matrix m q K) (C00pp : Matrix q q K) (s0 : m → K) (c00p : q → K)
    (hS : IsUnit Sg.det) (hD : IsUnit (C00pp - C0pᵀ * Sg⁻¹ * C0p).det) :
    let D := C00pp - C0pᵀ * Sg⁻¹ * C0p
    let lam0 := D⁻¹ *ᵥ (c00p - C0pᵀ *ᵥ (Sg⁻¹ *ᵥ s0))
    let lam := Sg⁻¹ *ᵥ (s0 - C0p *ᵥ lam0)
    Sg *ᵥ lam + C0p *ᵥ lam0 = s0 ∧ C0pᵀ *ᵥ lam + C00pp *ᵥ lam0 = c00p := by
  intro D lam0 lam
  have cancelS : ∀ v : m → K, Sg *ᵥ (Sg⁻¹ *ᵥ v) = v := fun v => by
    rw [Matrix.mulVec_mulVec, Matrix.mul_nonsing_inv _ hS, Matrix.one_mulVec]
  have hD' : D *ᵥ lam0 = c00p - C0pᵀ *ᵥ (Sg⁻¹ *ᵥ s0) := by
    show D *ᵥ (D⁻¹ *ᵥ _) = _
    rw [Matrix.mulVec_mulVec, Matrix.mul_nonsing_inv _ hD, Matrix.one_mulVec]
  constructor
  · show Sg *ᵥ (Sg⁻¹ *ᵥ (s0 - C0p *ᵥ lam0)) + C0p *ᵥ lam0 = s0
    rw [cancelS]; abel
  · show C0pᵀ *ᵥ (Sg⁻¹ *ᵥ (s0 - C0p *ᵥ lam0)) + C00pp *ᵥ lam0 = c00p
    have e : C0pᵀ *ᵥ (Sg⁻¹ *ᵥ (C0p *ᵥ lam0)) = (C0pᵀ * Sg⁻¹ * C0p) *ᵥ lam0 := by
      rw [Matrix.mulVec_mulVec, Matrix.mulVec_mulVec]
    have hDm : D *ᵥ lam0 = C00pp *ᵥ lam0 - (C0pᵀ * Sg⁻¹ * C0p) *ᵥ lam0 := by
      show (C00pp - C0pᵀ * Sg⁻¹ * C0p) *ᵥ lam0 = _
      rw [Matrix.sub_mulVec]
    rw [Matrix.mulVec_sub, Matrix.mulVec_sub, e]
    have : C00pp *ᵥ lam0 = c00p - C0pᵀ *ᵥ (Sg⁻¹ *ᵥ s0) + (C0pᵀ * Sg⁻¹ * C0p) *ᵥ lam0 := by
      rw [← hD', hDm]; abel
    rw [this]; abel

end Collocated
end GstProofs.C04
