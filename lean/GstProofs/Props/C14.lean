import GstProofs.Props.C13
import GstProofs.LinAlg.Bridge
import GstVerif.Simu.Model
import Mathlib.Data.Matrix.Mul
import Mathlib.LinearAlgebra.Matrix.DotProduct
import Mathlib.LinearAlgebra.Matrix.NonsingularInverse
import Mathlib.Algebra.Order.BigOperators.Ring.Finset
import Mathlib.Algebra.BigOperators.Intervals
import Mathlib.Data.Rat.Floor
import Mathlib.Algebra.BigOperators.Field
import Mathlib.LinearAlgebra.Matrix.Notation
import Mathlib.Tactic.NormNum
import Mathlib.Tactic.Ring
import Mathlib.Tactic.Linarith
import Mathlib.Tactic.FieldSimp
/-!
# C14 — non-conditional simulations follow the model they are given  (PARTIAL)

The property is about the *law* of the simulated fields.  What a theorem about an executable model
can carry is the second-order algebra every simulator relies on, and the generator over ALL seeds:

* a simulator that is a linear map `A` of a white noise has `A Aᵀ` as covariance
  (`white_noise_image`, `image_cov_psd`); the executable `Simu.imageCov` used by the driver on the
  library's own matrices is that product (`imageCov_toMatrix`);
* simulation through the Cholesky factor of a precision matrix (`ACholesky::_addSimulateToDest`,
  `x = L⁻ᵀ w`) has covariance `Q⁻¹` (`precision_simulation`), and the certificate the driver checks,
  `(A Aᵀ) Q = 1`, characterises that covariance (`precision_certificate`);
* the mixing matrix of the turning bands, `V · diag(√λ)` with `V diag(λ) Vᵀ = B`, reproduces the
  matrix of sills `B` (`mixing_sills`), whereas the transposed variant that was shipped
  (`Vᵀ · diag(√λ)`, finding F84) does not (`mixing_transposed_differs`, concrete witness);
* normalising a sum of `n` uncorrelated band processes by `s` with `s² n = 1` gives the average of
  their variances (`bands_norm`);
* over ALL seeds `1 … p−1` the k-th state of the generator is exactly equidistributed
  (`equidistributed`), hence the k-th uniform deviate has mean exactly 1/2 over the seeds
  (`uniform_mean_all_seeds`); deviates of `law_uniform(a,b)` lie strictly inside `(a,b)` and
  `law_int_uniform(a,b)` inside `[a,b]` (`uniformAB_range`, `intUniform_range`);
* the decision rule applied to Monte-Carlo estimates is monotone in the number of standard
  deviations (`withinSigmas_mono`): widening the band can only accept more.

Convergence of the empirical moments of the turning-band / FFT / spectral fields to the model is NOT
a theorem here: it is observed on the library through fixed-size Monte-Carlo runs judged at 6
standard deviations in exact arithmetic (`harness/vh_c14.cpp`).
-/
namespace GstProofs.C14
open Matrix GstVerif GstVerif.LinAlg GstVerif.Simu

section linear
variable {m n : Type*} [Fintype m] [Fintype n] [DecidableEq n] [DecidableEq m]

/-- second moments through a linear map: if `E[w wᵀ] = M` then `E[(A w)(A w)ᵀ] = A M Aᵀ`; for a
white noise (`M = 1`) this is `A Aᵀ` -/
theorem white_noise_image (A : Matrix m n ℚ) : A * (1 : Matrix n n ℚ) * A.transpose = A * A.transpose := by
  rw [Matrix.mul_one]

/-- the covariance `A Aᵀ` of the image of a white noise is positive semi-definite -/
theorem image_cov_psd (A : Matrix m n ℚ) (v : m → ℚ) : 0 ≤ dotProduct v ((A * A.transpose).mulVec v) := by
  have : dotProduct v ((A * A.transpose).mulVec v) = dotProduct (A.transpose.mulVec v) (A.transpose.mulVec v) := by
    rw [← Matrix.mulVec_mulVec, Matrix.dotProduct_mulVec, ← Matrix.mulVec_transpose]
  rw [this]
  unfold dotProduct
  exact Finset.sum_nonneg fun i _ => mul_self_nonneg _

/-- simulation through the Cholesky factor of a precision matrix `Q = L Lᵀ`: the map `w ↦ L⁻ᵀ w`
has covariance `Q⁻¹` -/
theorem precision_simulation (L : Matrix n n ℚ) :
    (L.transpose)⁻¹ * ((L.transpose)⁻¹).transpose = (L * L.transpose)⁻¹ := by
  rw [Matrix.transpose_nonsing_inv, Matrix.transpose_transpose, Matrix.mul_inv_rev]

/-- the certificate checked on the library's matrices: `(A Aᵀ) Q = 1` says that the covariance of
the simulated vector is the inverse of the precision matrix -/
theorem precision_certificate (A Qm : Matrix n n ℚ) (h : (A * A.transpose) * Qm = 1) :
    A * A.transpose = Qm⁻¹ := by
  exact (Matrix.inv_eq_left_inv h).symm

/-- mixing matrix of the turning bands (`_createAIC`): with `V diag(λ) Vᵀ = B` and `r_i² = λ_i`,
`M = V diag(r)` satisfies `M Mᵀ = B`: independent unit processes mixed by `M` have the matrix of
sills `B` as covariance -/
theorem mixing_sills (V B : Matrix n n ℚ) (lam r : n → ℚ) (hr : ∀ i, r i * r i = lam i)
    (hB : V * Matrix.diagonal lam * V.transpose = B) :
    (V * Matrix.diagonal r) * (V * Matrix.diagonal r).transpose = B := by
  rw [Matrix.transpose_mul, Matrix.diagonal_transpose, ← hB]
  have : Matrix.diagonal r * Matrix.diagonal r = Matrix.diagonal lam := by
    rw [Matrix.diagonal_mul_diagonal]; congr 1; funext i; exact hr i
  rw [← this]
  simp only [Matrix.mul_assoc]
end linear

/-- the variant shipped before the repair (finding F84) used `Vᵀ` in place of `V`: for a rotation
that is not symmetric the covariance of the mixed processes is `Vᵀ diag(λ) V`, not `B` -/
theorem mixing_transposed_differs :
    let V : Matrix (Fin 2) (Fin 2) ℚ := !![3/5, -4/5; 4/5, 3/5]
    let r : Fin 2 → ℚ := ![2, 1]
    let lam : Fin 2 → ℚ := ![4, 1]
    let B := V * Matrix.diagonal lam * V.transpose
    (V.transpose * Matrix.diagonal r) * (V.transpose * Matrix.diagonal r).transpose ≠ B := by
  intro V r lam B h
  have h01 := congrFun (congrFun h 0) 1
  simp only [V, r, lam, B, Matrix.mul_apply, Fin.sum_univ_two, Matrix.diagonal_apply, Matrix.transpose_apply,
    Matrix.of_apply, Matrix.cons_val', Matrix.cons_val_zero, Matrix.cons_val_one, Matrix.empty_val',
    Matrix.cons_val_fin_one] at h01
  norm_num at h01

/-- normalisation by `s` with `s² n = 1` of the sum of `n` uncorrelated band processes of variances
`c b`: the variance of the field is the average of the `c b` (so 1 when each band has variance 1) -/
theorem bands_norm (n : ℕ) (hn : 0 < n) (s : ℚ) (hs : s * s * (n : ℚ) = 1) (c : Fin n → ℚ) :
    dotProduct (fun _ => s) ((Matrix.diagonal c).mulVec (fun _ => s)) = (∑ b, c b) / (n : ℚ) := by
  have hn' : (n : ℚ) ≠ 0 := by exact_mod_cast hn.ne'
  have hss : s * s = 1 / (n : ℚ) := by field_simp; linarith
  simp only [dotProduct, Matrix.mulVec_diagonal]
  have : ∀ b : Fin n, s * (c b * s) = (s * s) * c b := fun b => by ring
  simp only [this, ← Finset.mul_sum, hss]
  ring

/-- the executable covariance of the image used by the driver is Mathlib's `A Aᵀ` -/
theorem imageCov_toMatrix (m n : Nat) (A : Mat) (hr : A.r = m) (hc : A.c = n) :
    GstProofs.LinAlg.toMatrix m m (imageCov A) = GstProofs.LinAlg.toMatrix m n A * (GstProofs.LinAlg.toMatrix m n A).transpose := by
  unfold imageCov
  have ht : A.transpose.c = m := by simp [Mat.transpose, Mat.ofFn, hr]
  have htr : A.transpose.r = n := by simp [Mat.transpose, Mat.ofFn, hc]
  rw [GstProofs.LinAlg.toMatrix_mul m n m A A.transpose hr hc ht,
      GstProofs.LinAlg.toMatrix_transpose m n A hr hc]

/-! ### decision rule of the Monte-Carlo checks -/

theorem withinSigmas_mono (k k' est target var slack : ℚ) (hk : 0 ≤ k) (hkk : k ≤ k') (hv : 0 ≤ var)
    (h : withinSigmas k est target var slack = true) : withinSigmas k' est target var slack = true := by
  unfold withinSigmas at *
  simp only [decide_eq_true_eq] at *
  have h1 : k * k ≤ k' * k' := by nlinarith
  nlinarith [mul_le_mul_of_nonneg_right h1 hv]

theorem withinSigmas_exact (k target var slack : ℚ) (hv : 0 ≤ var) :
    withinSigmas k target target var slack = true := by
  unfold withinSigmas
  simp only [decide_eq_true_eq, sub_self, mul_zero]
  nlinarith [mul_self_nonneg k, mul_self_nonneg slack, mul_nonneg (mul_self_nonneg k) hv]

/-! ### the generator over all seeds -/
open GstVerif.Rng

theorem next_maps (x : Nat) (hx : x ∈ Finset.Ico 1 P) : next x ∈ Finset.Ico 1 P := by
  rw [Finset.mem_Ico] at *
  obtain ⟨a, b⟩ := GstProofs.C13.next_range x (by omega) hx.2
  exact ⟨a, b⟩

theorem next_image : (Finset.Ico 1 P).image next = Finset.Ico 1 P := by
  apply Finset.eq_of_subset_of_card_le
  · intro y hy
    rw [Finset.mem_image] at hy
    obtain ⟨x, hx, rfl⟩ := hy
    exact next_maps x hx
  · rw [Finset.card_image_of_injOn]
    intro x hx y hy h
    have hx' := (Finset.mem_Ico.mp (Finset.mem_coe.mp hx)).2
    have hy' := (Finset.mem_Ico.mp (Finset.mem_coe.mp hy)).2
    exact GstProofs.C13.next_injective x y hx' hy' h

theorem sum_next {β} [AddCommMonoid β] (f : Nat → β) :
    ∑ s ∈ Finset.Ico 1 P, f (next s) = ∑ j ∈ Finset.Ico 1 P, f j := by
  conv_rhs => rw [← next_image]
  rw [Finset.sum_image]
  intro x hx y hy h
  exact GstProofs.C13.next_injective x y (Finset.mem_Ico.mp hx).2 (Finset.mem_Ico.mp hy).2 h

theorem iter_succ' (k x : Nat) : iter (k + 1) x = iter k (next x) := rfl

/-- over all the seeds `1 … p−1` the state after `k` draws takes every value of `1 … p−1` exactly
once: any statistic of the k-th draw, summed over the seeds, is its sum over the whole range -/
theorem equidistributed {β} [AddCommMonoid β] (f : Nat → β) : ∀ k : Nat,
    ∑ s ∈ Finset.Ico 1 P, f (iter k s) = ∑ j ∈ Finset.Ico 1 P, f j
  | 0 => rfl
  | k+1 => by
    have := sum_next (fun x => f (iter k x))
    simp only [iter_succ']
    rw [this]
    exact equidistributed f k

/-- hence the k-th uniform deviate `state/p`, averaged over all the seeds, is exactly 1/2 -/
theorem uniform_mean_all_seeds (k : Nat) :
    (∑ s ∈ Finset.Ico 1 P, ((iter k s : ℚ) / (P : ℚ))) / ((P : ℚ) - 1) = 1 / 2 := by
  rw [equidistributed (fun x => ((x : ℚ) / (P : ℚ))) k, ← Finset.sum_div]
  have hsum : (∑ j ∈ Finset.Ico 1 P, (j : ℚ)) = (P : ℚ) * ((P : ℚ) - 1) / 2 := by
    have h0 : (∑ j ∈ Finset.Ico 1 P, (j : ℚ)) = ∑ j ∈ Finset.range P, (j : ℚ) := by
      rw [Finset.range_eq_Ico, Finset.sum_Ico_eq_sum_range, Finset.sum_Ico_eq_sum_range]
      have : P - 0 = (P - 1) + 1 := by unfold P; omega
      rw [this, Finset.sum_range_succ']
      simp [add_comm]
    rw [h0]
    have := Finset.sum_range_id_mul_two P
    have h2 : ((∑ i ∈ Finset.range P, i : ℕ) : ℚ) * 2 = (P : ℚ) * ((P : ℚ) - 1) := by
      have hP : 1 ≤ P := by unfold P; omega
      rw [← Nat.cast_two, ← Nat.cast_mul, this, Nat.cast_mul, Nat.cast_sub hP]; simp
    rw [Nat.cast_sum] at h2
    linarith
  rw [hsum]
  have hP : (P : ℚ) ≠ 0 := by unfold P; norm_num
  have hP1 : (P : ℚ) - 1 ≠ 0 := by unfold P; norm_num
  field_simp

/-- `law_uniform(a, b)` stays strictly inside `(a, b)` -/
theorem uniformAB_range (x : Nat) (h0 : 0 < x) (h1 : x < P) (a b : ℚ) (hab : a < b) :
    a < uniformAB x a b ∧ uniformAB x a b < b := by
  obtain ⟨u0, u1⟩ := GstProofs.C13.unif_range x h0 h1
  unfold uniformAB
  constructor <;> nlinarith

/-- `law_int_uniform(mini, maxi)` returns an integer of `[mini, maxi]` -/
theorem intUniform_range (x : Nat) (h0 : 0 < x) (h1 : x < P) (mini maxi : Int) (h : mini ≤ maxi) :
    mini ≤ intUniform x mini maxi ∧ intUniform x mini maxi ≤ maxi := by
  obtain ⟨u0, u1⟩ := GstProofs.C13.unif_range x h0 h1
  unfold intUniform
  have hn : (0 : ℚ) < ((maxi - mini + 1 : Int) : ℚ) := by exact_mod_cast (by omega : (0 : Int) < maxi - mini + 1)
  have hlo : (0 : Int) ≤ ⌊unif x * ((maxi - mini + 1 : Int) : ℚ)⌋ := Int.floor_nonneg.mpr (by positivity)
  have hhi : ⌊unif x * ((maxi - mini + 1 : Int) : ℚ)⌋ < maxi - mini + 1 := by
    rw [Int.floor_lt]
    nlinarith
  have e : (unif x * ((maxi - mini + 1 : Int) : ℚ)).floor = ⌊unif x * ((maxi - mini + 1 : Int) : ℚ)⌋ := rfl
  rw [e]
  constructor <;> omega

/-- non-vacuity: seed 1 is a legal state, its first deviate is 105/p -/
example : (0 : Nat) < 1 ∧ 1 < P ∧ unif 1 = 105 / 20000159 := by
  refine ⟨by omega, by unfold P; omega, ?_⟩
  unfold unif next FACTOR P; norm_num

end GstProofs.C14
