import GstProofs.Poly.Ray
/-!
# C20 — Point-in-polygon decisions and polygon selections are geometrically exact

Model: `GstVerif/Poly/Model.lean` (transcription of `PolyElem::inside`, `Polygons::inside`,
`db_polygon`).  Geometric truth for an off-boundary point is *defined* as the parity of the number
of edges strictly crossed by a generic rightward ray (`strictCross`, ordinate not level with any
vertex); that this parity is the interior of a simple polygon is the Jordan curve theorem for
polygons (trusted, not proved here).
-/
namespace GstProofs.C20
open GstVerif GstVerif.Poly GstProofs.Poly

/-- `PolyElem::inside` = parity of the half-open crossing count, for every vertex list and every
point that is on no edge (also when level with vertices / horizontal edges). -/
theorem halfopen (pts : List Pt) (xx yy : Q) (hb : onBoundary xx yy pts = false) :
    insideElem pts xx yy = (countEdges (halfOpen xx yy) pts % 2 != 0) := by
  simp [insideElem, loop_halfOpen pts xx yy 0 hb]

/-- … and the half-open count is the crossing count of the generic ray from just below: the
special cases of the implementation are exactly the limit `ε → 0⁺` of the generic ray. -/
theorem ray (pts : List Pt) (xx yy : Q) (hb : onBoundary xx yy pts = false) :
    ∃ e0 : Q, 0 < e0 ∧ ∀ e, 0 < e → e < e0 →
      insideElem pts xx yy = (countEdges (strictCross xx (yy - e)) pts % 2 != 0) := by
  obtain ⟨e0, h0, hh⟩ := ray_count pts xx yy hb
  exact ⟨e0, h0, fun e he he' => by rw [halfopen pts xx yy hb, hh e he he']⟩

/-! ### orientation -/

theorem countEdges_snoc (f : Pt → Pt → Bool) : ∀ (l : List Pt) (b a : Pt),
    countEdges f ((l ++ [b]) ++ [a]) = countEdges f (l ++ [b]) + (if f b a then 1 else 0)
  | [], b, a => by simp [countEdges]
  | [x], b, a => by simp [countEdges]
  | x :: y :: l, b, a => by
    have ih := countEdges_snoc f (y :: l) b a
    simp only [List.cons_append, countEdges] at ih ⊢
    rw [ih]; omega

theorem countEdges_reverse (f : Pt → Pt → Bool) (hs : ∀ a b, f a b = f b a) :
    ∀ l : List Pt, countEdges f l.reverse = countEdges f l
  | [] => rfl
  | [_] => rfl
  | a :: b :: rest => by
    have ih := countEdges_reverse f hs (b :: rest)
    simp only [List.reverse_cons] at ih ⊢
    rw [countEdges_snoc, ih, hs b a]
    simp only [countEdges]
    omega

theorem onBoundary_eq_count (xx yy : Q) : ∀ l : List Pt,
    onBoundary xx yy l = (countEdges (onSegment xx yy) l != 0)
  | [] => rfl
  | [_] => rfl
  | a :: b :: rest => by
    have ih := onBoundary_eq_count xx yy (b :: rest)
    simp only [onBoundary, countEdges, ih]
    cases onSegment xx yy a b <;> simp

/-- the answer does not depend on the orientation of the outline -/
theorem orient (pts : List Pt) (xx yy : Q) (hb : onBoundary xx yy pts = false) :
    insideElem pts.reverse xx yy = insideElem pts xx yy := by
  have hb' : onBoundary xx yy pts.reverse = false := by
    rw [onBoundary_eq_count, countEdges_reverse _ (onSegment_symm xx yy), ← onBoundary_eq_count]
    exact hb
  rw [halfopen _ _ _ hb', halfopen _ _ _ hb, countEdges_reverse _ (halfOpen_symm xx yy)]

/-! ### polygon sets -/

/-- union rule: the loop with early return is "some polygon passes" -/
theorem union_spec (eps5 xx yy : Q) (zz : Option Q) (els : List Elem) :
    polygonsInside eps5 els xx yy zz false = els.any (fun e => elemInside eps5 e xx yy zz) := by
  simp only [polygonsInside, Bool.false_eq_true, if_false]
  induction els with
  | nil => rfl
  | cons e es ih => simp only [insideUnion, List.any_cons, ih]; cases elemInside eps5 e xx yy zz <;> simp

/-- nested rule: odd number of passing polygons -/
theorem nested_spec (eps5 xx yy : Q) (zz : Option Q) (els : List Elem) :
    polygonsInside eps5 els xx yy zz true =
      ((els.filter (fun e => elemInside eps5 e xx yy zz)).length % 2 != 0) := by
  simp only [polygonsInside, if_true]
  congr 2
  induction els with
  | nil => rfl
  | cons e es ih =>
    simp only [nestedCount, List.filter_cons, ih]
    cases elemInside eps5 e xx yy zz <;> simp
    omega

/-- the answer of a polygon set does not depend on the order of its polygons (also with
vertical limits) -/
theorem order_independent (eps5 xx yy : Q) (zz : Option Q) (nested : Bool) (els els' : List Elem)
    (hp : els.Perm els') :
    polygonsInside eps5 els xx yy zz nested = polygonsInside eps5 els' xx yy zz nested := by
  cases nested
  · rw [union_spec, union_spec]; exact hp.any_eq
  · rw [nested_spec, nested_spec, (hp.filter _).length_eq]

/-- a polygon whose vertical limits exclude the point never contributes -/
theorem zlimits_exclude (eps5 xx yy : Q) (zz : Option Q) (e : Elem) (h : inside3D e zz = false) :
    elemInside eps5 e xx yy zz = false := by
  simp [elemInside, h]

/-- `db_polygon` (no periodicity) marks exactly the samples that pass the test (and the
previous selection when asked) -/
theorem select (eps5 : Q) (els : List Elem) (flagSel nested : Bool)
    (samples : List (Bool × Q × Q × Option Q)) :
    dbPolygon eps5 els flagSel false nested samples =
      samples.map (fun s => (!flagSel || s.1) && polygonsInside eps5 els s.2.1 s.2.2.1 s.2.2.2 nested) := by
  simp only [dbPolygon]
  apply List.map_congr_left
  rintro ⟨act, x, y, z⟩ _
  cases flagSel <;> cases act <;> simp

/-! ### non-vacuity: a concrete concave polygon, point level with a vertex and a horizontal edge -/
def L : List Pt := [(0,0), (4,0), (4,2), (2,2), (2,4), (0,4), (0,0)]
example : onBoundary 1 2 L = false ∧ insideElem L 1 2 = true ∧ insideElem L 3 3 = false := by decide +kernel
example : countEdges (halfOpen 1 2) L = 1 ∧ countEdges (strictCross 1 (2 - 1/2)) L = 1 := by decide +kernel
example : winding L 1 2 = 1 ∧ winding L 3 3 = 0 := by decide +kernel

end GstProofs.C20
