import GstProofs.LinAlg.Bridge
import GstVerif.LinAlg.Driver
import Mathlib.LinearAlgebra.Matrix.NonsingularInverse
import Mathlib.Algebra.Order.BigOperators.Ring.Finset
import Mathlib.Algebra.Order.BigOperators.Group.Finset
/-!
# C11 — Matrix and vector classes compute what linear algebra defines

The model (`GstVerif/LinAlg/Mat.lean`) writes every operation as its textbook entry-wise
definition; the theorems below identify these with Mathlib's `Matrix` operations (so every law of
linear algebra — associativity, `(AB)ᵀ = BᵀAᵀ`, bilinearity … — holds of the model), for **all**
shapes.  The storage classes of the library (rectangular, square, symmetric, sparse Eigen, sparse
cs) are all compared with this single model by the correspondence run; thread counts 1–16 are
swept there too (schedules are observed, not proved).
-/
namespace GstProofs.C11
open GstVerif GstVerif.LinAlg GstProofs.LinAlg

theorem op_dims (t : Bool) (A : Mat) :
    (A.op t).r = (if t then A.c else A.r) ∧ (A.op t).c = (if t then A.r else A.c) := by
  cases t <;> simp [Mat.op, Mat.transpose, Mat.ofFn]

/-- `prodMatMat(x, y, transposeX, transposeY)` = `op(X) · op(Y)`: the four flag combinations -/
theorem prodMatMat (m n p : Nat) (ta tb : Bool) (A B : Mat)
    (hA : (A.op ta).r = m) (hAc : (A.op ta).c = n) (hB : (B.op tb).c = p) :
    toMatrix m p ((A.op ta).mul (B.op tb)) = toMatrix m n (A.op ta) * toMatrix n p (B.op tb) :=
  toMatrix_mul m n p _ _ hA hAc hB

/-- `op(A)` read as a Mathlib matrix is `A` or its transpose -/
theorem op_transpose (m n : Nat) (A : Mat) (hr : A.r = m) (hc : A.c = n) :
    toMatrix n m (A.op true) = (toMatrix m n A).transpose ∧ toMatrix m n (A.op false) = toMatrix m n A :=
  ⟨toMatrix_transpose m n A hr hc, rfl⟩

theorem transpose_transpose (m n : Nat) (A : Mat) (hr : A.r = m) (hc : A.c = n) :
    toMatrix m n A.transpose.transpose = toMatrix m n A := by
  have h1 : A.transpose.r = n := by simp [Mat.transpose, Mat.ofFn, hc]
  have h2 : A.transpose.c = m := by simp [Mat.transpose, Mat.ofFn, hr]
  rw [toMatrix_transpose n m A.transpose h1 h2, toMatrix_transpose m n A hr hc,
    Matrix.transpose_transpose]

/-- `prodMatVec` / `prodVecMat` -/
theorem prodMatVec (m n : Nat) (A : Mat) (x : List Q) (hr : A.r = m) (hc : A.c = n) :
    toVec m (A.mulVec x) = (toMatrix m n A).mulVec (toVec n x) := toVec_mulVec m n A x hr hc
theorem prodVecMat (m n : Nat) (A : Mat) (x : List Q) (hr : A.r = m) (hc : A.c = n) :
    toVec n (Mat.vecMul x A) = Matrix.vecMul (toVec m x) (toMatrix m n A) := toVec_vecMul m n A x hr hc

/-- `addMatInPlace(y, cx, cy)`: `cx·this + cy·y` -/
theorem linear_combination (m n : Nat) (a b : Q) (A B : Mat) (hr : A.r = m) (hc : A.c = n) :
    toMatrix m n (Mat.lin a A b B) = a • toMatrix m n A + b • toMatrix m n B :=
  toMatrix_lin m n a b A B hr hc

/-- `prodScalar` -/
theorem prodScalar (m n : Nat) (a : Q) (A : Mat) (hr : A.r = m) (hc : A.c = n) :
    toMatrix m n (Mat.smul a A) = a • toMatrix m n A := toMatrix_smul m n a A hr hc

/-- `multiplyRow(v)` is `diag(v)·A` — the vector has one entry per **row** — and `multiplyColumn(v)`
is `A·diag(v)` (the dense overrides mapped `v` with the wrong dimension before the repair) -/
theorem row_col_scaling (m n : Nat) (A : Mat) (v w : List Q) (hr : A.r = m) (hc : A.c = n) :
    toMatrix m n (A.scaleRows v) = Matrix.diagonal (toVec m v) * toMatrix m n A ∧
    toMatrix m n (A.scaleCols w) = toMatrix m n A * Matrix.diagonal (toVec n w) :=
  ⟨toMatrix_scaleRows m n A v hr hc, toMatrix_scaleCols m n A w hr hc⟩

/-- congruence product `t(A)·M·A` -/
theorem prodNorm_transpose (m n : Nat) (A M : Mat) (hr : A.r = m) (hc : A.c = n) (hM : M.c = m) :
    toMatrix n n ((A.transpose.mul M).mul A) =
      (toMatrix m n A).transpose * toMatrix m m M * toMatrix m n A := by
  have h1 : A.transpose.r = n := by simp [Mat.transpose, Mat.ofFn, hc]
  have h2 : A.transpose.c = m := by simp [Mat.transpose, Mat.ofFn, hr]
  have h3 : (A.transpose.mul M).r = n := by simp [Mat.mul, Mat.ofFn, h1]
  have h4 : (A.transpose.mul M).c = m := by simp [Mat.mul, Mat.ofFn, hM]
  rw [toMatrix_mul n m n _ _ h3 h4 hc, toMatrix_mul n m m _ _ h1 h2 hM,
    toMatrix_transpose m n A hr hc]

/-- an exact inverse certificate determines the inverse: if `A·B = 1` then `B = A⁻¹` -/
theorem inverse_unique (n : Nat) (A B : Matrix (Fin n) (Fin n) ℚ) (h : A * B = 1) : A⁻¹ = B :=
  Matrix.inv_eq_right_inv h

/-- soundness of the residual checker used for `solve`, `invert`, Cholesky solves …:
acceptance means every residual component is within the stated backward-error bound -/
theorem checkSolve_sound (tau : Q) (A : Mat) (x b : List Q) (h : checkSolve tau A x b = true) :
    ∀ i, i < (A.mulVec x).length →
      absQ ((A.mulVec x).getD i 0 - b.getD i 0)
        ≤ tau * maxQ (A.maxAbs * vmaxAbs x * (A.c : Q) + vmaxAbs b) 1 := by
  intro i hi
  simp only [checkSolve, vclose, Bool.and_eq_true, beq_iff_eq, List.all_eq_true, List.mem_range,
    decide_eq_true_eq] at h
  exact h.2 i hi

/-- sorting helper: the result is a permutation of the input, in order -/
theorem sort_perm (x : List Q) (asc : Bool) : (vsort x asc).Perm x := by
  unfold vsort; split <;> exact List.mergeSort_perm _ _

/-! non-vacuity: a concrete 2×3 · 3×2 product -/
example : (Mat.mul ⟨2, 3, [[1, 2, 3], [4, 5, 6]]⟩ ⟨3, 2, [[1, 0], [0, 1], [1, 1]]⟩).e = [[4, 5], [10, 11]] := by
  decide +kernel

/-! ### what the residual certificates of inversion and solve mean -/
section Certificates
open Matrix
variable {n : Type*} [Fintype n] [DecidableEq n]

/-- **what a residual certificate of an inverse means**: if the residual `A·X − I` of the answer `X` is at most `ε` in every
entry, `X` differs from the true inverse `A⁻¹` by at most `(Σₖ |A⁻¹ᵢₖ|)·ε` in entry `(i, j)` — whatever the size -/
theorem inverse_certificate_bound (A X : Matrix n n ℚ) (hA : IsUnit A.det) (ε : ℚ)
    (hres : ∀ k j, |(A * X - 1) k j| ≤ ε) (i j : n) :
    |(X - A⁻¹) i j| ≤ (∑ k, |A⁻¹ i k|) * ε := by
  have hX : X - A⁻¹ = A⁻¹ * (A * X - 1) := by
    rw [Matrix.mul_sub, ← Matrix.mul_assoc, Matrix.nonsing_inv_mul _ hA, Matrix.one_mul, Matrix.mul_one]
  rw [hX, Matrix.mul_apply, Finset.sum_mul]
  refine le_trans (Finset.abs_sum_le_sum_abs _ _) (Finset.sum_le_sum fun k _ => ?_)
  rw [abs_mul]
  exact mul_le_mul_of_nonneg_left (hres k j) (abs_nonneg _)

/-- … and of a linear solve: if `|A x − b| ≤ ε` in every component, `x` differs from the solution `A⁻¹ b` by at most
`(Σₖ |A⁻¹ᵢₖ|)·ε` in component `i` -/
theorem solve_certificate_bound (A : Matrix n n ℚ) (x b : n → ℚ) (hA : IsUnit A.det) (ε : ℚ)
    (hres : ∀ k, |(A *ᵥ x - b) k| ≤ ε) (i : n) :
    |(x - A⁻¹ *ᵥ b) i| ≤ (∑ k, |A⁻¹ i k|) * ε := by
  have hx : x - A⁻¹ *ᵥ b = A⁻¹ *ᵥ (A *ᵥ x - b) := by
    rw [Matrix.mulVec_sub, Matrix.mulVec_mulVec, Matrix.nonsing_inv_mul _ hA, Matrix.one_mulVec]
  rw [hx]
  show |∑ k, A⁻¹ i k * (A *ᵥ x - b) k| ≤ _
  rw [Finset.sum_mul]
  refine le_trans (Finset.abs_sum_le_sum_abs _ _) (Finset.sum_le_sum fun k _ => ?_)
  rw [abs_mul]
  exact mul_le_mul_of_nonneg_left (hres k) (abs_nonneg _)

/-- an exact certificate is the inverse -/
theorem inverse_certificate_exact (A X : Matrix n n ℚ) (h : A * X = 1) : X = A⁻¹ :=
  (Matrix.inv_eq_right_inv h).symm

end Certificates

end GstProofs.C11
