import GstProofs.Grid.RankInd
/-!
# C16 — Grid geometry conversions are mutually inverse

Property theorems only (helper lemmas live in `GstProofs/Grid`).  The model is
`GstVerif/Grid/Model.lean`, a transcription of `src/Basic/Grid.cpp`; reals are ℚ (every double is a
rational, so ℚ covers all inputs the library can receive; rounding is not modelled).
The rotation is abstract: any pair `rot`, `rinv` with `rinv ∘ rot = id` (and `rot ∘ rinv = id`
where needed) — the library's `_rotInv` is the transpose of `_rotMat`.
-/
namespace GstProofs.C16
open GstVerif GstVerif.Grid GstProofs.Grid

/-- rank → indices → rank, every dimension, every `nx > 0` -/
theorem rank_ind (nx : List Int) (r : Int) (hp : allPos nx) (h0 : 0 ≤ r) (h1 : r < prodL nx) :
    indiceToRank nx (rankToIndice nx r) = r := by
  have h := go_spec nx 1 r hp (by decide) h0 (by simpa using h1)
  obtain ⟨hin, r0, r1, req⟩ := h
  have hz : (rankToIndiceGo 1 nx r).2 = 0 := by omega
  simp only [indiceToRank, rankToIndice, hin, if_true]
  rw [hz] at req; omega

/-- … and the indices produced are inside the grid -/
theorem rank_ind_inRange (nx : List Int) (r : Int) (hp : allPos nx) (h0 : 0 ≤ r)
    (h1 : r < prodL nx) : inRange nx (rankToIndice nx r) = true :=
  (go_spec nx 1 r hp (by decide) h0 (by simpa using h1)).1

/-- indices → rank → indices -/
theorem ind_rank (nx ind : List Int) (hp : allPos nx) (hin : inRange nx ind = true) :
    rankToIndice nx (indiceToRank nx ind) = ind := by
  have h := go_inv nx ind 1 0 hp (by decide) hin (by decide) (by decide)
  simp only [indiceToRank, hin, if_true, rankToIndice]
  simp only [Int.zero_add, Int.one_mul] at h
  rw [h]

/-- out-of-range indices are reported by `-1` -/
theorem indiceToRank_outside (nx ind : List Int) (h : inRange nx ind = false) :
    indiceToRank nx ind = -1 := by
  simp [indiceToRank, h]

/-! ### indices ↔ coordinates -/

def allPosQ : List Q → Prop
  | [] => True
  | d :: ds => 0 < d ∧ allPosQ ds

theorem zipSub_zipAdd : ∀ (a b : List Q), a.length = b.length → zipSub (zipAdd a b) b = a
  | [], [], _ => rfl
  | x :: a, y :: b, h => by
    simp only [zipAdd, zipSub, List.length_cons, Nat.add_right_cancel_iff] at h ⊢
    rw [zipSub_zipAdd a b h]; congr 1; ring
  | [], _ :: _, h => by simp at h
  | _ :: _, [], h => by simp at h

/-- per-axis characterisation of the cell index: `floor` picks the cell containing the point -/
theorem cell_iff (centered : Bool) (eps w d : Q) (i : Int) :
    cellIndex centered eps w d = i ↔
      ((i : Q) ≤ w / d + (if centered then 1/2 else 0) + eps ∧
        w / d + (if centered then 1/2 else 0) + eps < (i : Q) + 1) := by
  have key : ∀ q : Q, q.floor = i ↔ ((i : Q) ≤ q ∧ q < (i : Q) + 1) := by
    intro q
    constructor
    · intro h
      subst h
      refine ⟨Rat.floor_le q, ?_⟩
      have := Rat.lt_floor_add_one q
      simpa using this
    · rintro ⟨h1, h2⟩
      have a : i ≤ q.floor := Rat.le_floor_iff.mpr h1
      have b : q.floor < i + 1 := by
        apply Rat.floor_lt_iff.mpr
        simpa using h2
      omega
  cases centered <;> simp [cellIndex, key]

theorem cellIndices_gridVec : ∀ (ind : List Int) (dx : List Q) (centered : Bool) (eps : Q),
    ind.length = dx.length → allPosQ dx →
    (if centered then (-(1/2) ≤ eps ∧ eps < 1/2) else (0 ≤ eps ∧ eps < 1)) →
    cellIndices centered eps (gridVec dx ind []) dx = ind
  | [], [], _, _, _, _, _ => by simp [gridVec, zipMul, cellIndices]
  | i :: ind, d :: dx, centered, eps, hl, hd, he => by
    have ih := cellIndices_gridVec ind dx centered eps (by simpa using hl) hd.2 he
    simp only [gridVec, List.isEmpty_nil, if_true, List.map_cons, zipMul, cellIndices] at ih ⊢
    rw [ih]
    congr 1
    rw [cell_iff]
    have hd0 : d ≠ 0 := ne_of_gt hd.1
    have : (i : Q) * d / d = i := mul_div_cancel_right₀ _ hd0
    rw [this]
    cases centered <;> simp only [Bool.false_eq_true, if_false, if_true] at he ⊢ <;> constructor <;> linarith [he.1, he.2]
  | [], _ :: _, _, _, h, _, _ => by simp at h
  | _ :: _, [], _, _, h, _, _ => by simp at h

theorem gridVec_length : ∀ (ind : List Int) (dx : List Q), ind.length = dx.length →
    (gridVec dx ind []).length = dx.length
  | [], [], _ => by simp [gridVec, zipMul]
  | i :: ind, d :: dx, h => by
    have := gridVec_length ind dx (by simpa using h)
    simp only [gridVec, List.isEmpty_nil, if_true, List.map_cons, zipMul, List.length_cons] at this ⊢
    omega
  | [], _ :: _, h => by simp at h
  | _ :: _, [], h => by simp at h

/-- indices → coordinates → indices returns the starting indices: every dimension, every origin,
every positive mesh, every rotation (`rinv ∘ rot = id`), both `centered` modes -/
theorem ind_coord (rot rinv : List Q → List Q) (nx ind : List Int) (dx x0 : List Q)
    (centered : Bool) (eps : Q)
    (hinv : ∀ v, rinv (rot v) = v) (hlen : ∀ v, (rot v).length = v.length)
    (hl : ind.length = dx.length) (hx : x0.length = dx.length) (hd : allPosQ dx)
    (he : if centered then (-(1/2) ≤ eps ∧ eps < 1/2) else (0 ≤ eps ∧ eps < 1)) :
    (coordinateToIndices rinv nx dx x0 (indicesToCoordinate rot dx x0 ind []) centered eps).1 = ind := by
  simp only [coordinateToIndices, indicesToCoordinate]
  rw [zipSub_zipAdd _ _ (by rw [hlen, gridVec_length ind dx hl, hx]), hinv]
  exact cellIndices_gridVec ind dx centered eps hl hd he

/-- a node is never reported outside, and the outside flag is exactly "some index leaves [0,nx)" -/
theorem outside_iff (rinv : List Q → List Q) (nx : List Int) (dx x0 coor : List Q)
    (centered : Bool) (eps : Q) :
    (coordinateToIndices rinv nx dx x0 coor centered eps).2 = false ↔
      inRange nx (coordinateToIndices rinv nx dx x0 coor centered eps).1 = true := by
  simp [coordinateToIndices]

/-- rank → coordinates → rank -/
theorem rank_coord (rot rinv : List Q → List Q) (nx : List Int) (dx x0 : List Q) (r : Int)
    (centered : Bool) (eps : Q)
    (hinv : ∀ v, rinv (rot v) = v) (hlen : ∀ v, (rot v).length = v.length)
    (hl : nx.length = dx.length) (hx : x0.length = dx.length) (hd : allPosQ dx) (hp : allPos nx)
    (h0 : 0 ≤ r) (h1 : r < prodL nx)
    (he : if centered then (-(1/2) ≤ eps ∧ eps < 1/2) else (0 ≤ eps ∧ eps < 1)) :
    coordinateToRank rinv nx dx x0 (rankToCoordinates rot nx dx x0 r []) centered eps = r := by
  have hin := rank_ind_inRange nx r hp h0 h1
  have hlen2 : (rankToIndice nx r).length = dx.length := by
    have : ∀ (a b : List Int), inRange a b = true → b.length = a.length := by
      intro a
      induction a with
      | nil => intro b h; cases b <;> simp_all [inRange]
      | cons n a ih => intro b h; cases b with
        | nil => simp [inRange] at h
        | cons i b => simp only [inRange, Bool.and_eq_true] at h; simp [ih b h.2]
    rw [this _ _ hin, hl]
  have hic := ind_coord rot rinv nx (rankToIndice nx r) dx x0 centered eps hinv hlen hlen2 hx hd he
  have hout := (outside_iff rinv nx dx x0
    (indicesToCoordinate rot dx x0 (rankToIndice nx r) []) centered eps)
  unfold coordinateToRank rankToCoordinates
  have e : coordinateToIndices rinv nx dx x0
      (indicesToCoordinate rot dx x0 (rankToIndice nx r) []) centered eps
      = (rankToIndice nx r, false) :=
    Prod.ext hic (hout.mpr (by rw [hic]; exact hin))
  simp only [e]
  simp [rank_ind nx r hp h0 h1]

/-- whenever the mirror loop returns, the result lies in `[0, nx)` -/
theorem mirror_range : ∀ (fuel : Nat) (nx ix m : Int), mirrorGo fuel nx ix = some m → 0 ≤ m ∧ m < nx
  | 0, _, _, _, h => by simp [mirrorGo] at h
  | fuel+1, nx, ix, m, h => by
    simp only [mirrorGo] at h
    split at h
    · exact mirror_range fuel nx _ m h
    · injection h with h; subst h; omega

/-! ### non-vacuity: a concrete 3-D grid meets every hypothesis -/
example : allPos [3, 4, 5] ∧ (0:Int) ≤ 37 ∧ (37:Int) < prodL [3, 4, 5] := by
  simp [allPos, prodL]
example : rankToIndice [3, 4, 5] 37 = [1, 0, 3] ∧ indiceToRank [3, 4, 5] [1, 0, 3] = 37 := by decide
example : allPosQ [1/2, 3] := by simp [allPosQ]

end GstProofs.C16
