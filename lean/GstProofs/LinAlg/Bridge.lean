import GstVerif.LinAlg.Mat
import Mathlib.Data.Matrix.Mul
import Mathlib.Algebra.BigOperators.Fin
import Mathlib.Tactic.Ring
import Mathlib.Tactic.Linarith

/-! Bridge between the executable list matrices (`GstVerif.LinAlg.Mat`) and Mathlib's `Matrix`:
every algebraic law of `Matrix` transfers to the model (C11, reused by C01/C02/C04/C15/C17/C18). -/
namespace GstProofs.LinAlg
open GstVerif GstVerif.LinAlg

/-- the Mathlib matrix read off a model matrix, at prescribed dimensions -/
def toMatrix (m n : Nat) (A : Mat) : Matrix (Fin m) (Fin n) ℚ := fun i j => A.get i j

def toVec (n : Nat) (x : List Q) : Fin n → ℚ := fun i => x.getD i 0

theorem getD_map_range {α} (n : Nat) (f : Nat → α) (d : α) (i : Nat) (h : i < n) :
    ((List.range n).map f).getD i d = f i := by
  simp [List.getD, h]

theorem get_ofFn (r c : Nat) (f : Nat → Nat → Q) (i j : Nat) (hi : i < r) (hj : j < c) :
    (Mat.ofFn r c f).get i j = f i j := by
  unfold Mat.get Mat.ofFn
  simp only
  rw [getD_map_range r _ [] i hi, getD_map_range c _ 0 j hj]

theorem sumRange_eq (n : Nat) (f : Nat → Q) : sumRange n f = ∑ k : Fin n, f k := by
  unfold sumRange
  induction n with
  | zero => simp
  | succ n ih =>
    rw [List.range_succ, List.map_append, List.sum_append, ih, Fin.sum_univ_castSucc]
    simp

/-- product: the model's explicit double loop is Mathlib's matrix product -/
theorem toMatrix_mul (m n p : Nat) (A B : Mat) (hA : A.r = m) (hAc : A.c = n) (hB : B.c = p) :
    toMatrix m p (A.mul B) = toMatrix m n A * toMatrix n p B := by
  subst hA hAc hB
  ext i j
  simp only [toMatrix, Matrix.mul_apply]
  unfold Mat.mul
  rw [get_ofFn _ _ _ _ _ i.2 j.2, sumRange_eq]

theorem toMatrix_transpose (m n : Nat) (A : Mat) (hr : A.r = m) (hc : A.c = n) :
    toMatrix n m A.transpose = (toMatrix m n A).transpose := by
  subst hr hc
  ext i j
  simp only [toMatrix, Matrix.transpose_apply]
  unfold Mat.transpose
  rw [get_ofFn _ _ _ _ _ i.2 j.2]

theorem toMatrix_lin (m n : Nat) (a b : Q) (A B : Mat) (hr : A.r = m) (hc : A.c = n) :
    toMatrix m n (Mat.lin a A b B) = a • toMatrix m n A + b • toMatrix m n B := by
  subst hr hc
  ext i j
  simp only [toMatrix, Matrix.add_apply, Matrix.smul_apply, smul_eq_mul]
  unfold Mat.lin
  rw [get_ofFn _ _ _ _ _ i.2 j.2]

theorem toMatrix_smul (m n : Nat) (a : Q) (A : Mat) (hr : A.r = m) (hc : A.c = n) :
    toMatrix m n (Mat.smul a A) = a • toMatrix m n A := by
  subst hr hc
  ext i j
  simp only [toMatrix, Matrix.smul_apply, smul_eq_mul]
  unfold Mat.smul
  rw [get_ofFn _ _ _ _ _ i.2 j.2]

theorem toMatrix_id (n : Nat) : toMatrix n n (Mat.id n) = (1 : Matrix (Fin n) (Fin n) ℚ) := by
  ext i j
  simp only [toMatrix, Matrix.one_apply]
  unfold Mat.id
  rw [get_ofFn _ _ _ _ _ i.2 j.2]
  simp [Fin.ext_iff]

theorem toMatrix_diag (n : Nat) (v : List Q) (h : v.length = n) :
    toMatrix n n (Mat.diag v) = Matrix.diagonal (toVec n v) := by
  subst h
  ext i j
  simp only [toMatrix, Matrix.diagonal_apply, toVec]
  unfold Mat.diag
  rw [get_ofFn _ _ _ _ _ i.2 j.2]
  simp [Fin.ext_iff]

theorem toVec_mulVec (m n : Nat) (A : Mat) (x : List Q) (hr : A.r = m) (hc : A.c = n) :
    toVec m (A.mulVec x) = (toMatrix m n A).mulVec (toVec n x) := by
  subst hr hc
  ext i
  simp only [toVec, Matrix.mulVec, dotProduct, toMatrix]
  unfold Mat.mulVec
  rw [getD_map_range _ _ _ _ i.2, sumRange_eq]

theorem toVec_vecMul (m n : Nat) (A : Mat) (x : List Q) (hr : A.r = m) (hc : A.c = n) :
    toVec n (Mat.vecMul x A) = Matrix.vecMul (toVec m x) (toMatrix m n A) := by
  subst hr hc
  ext j
  simp only [toVec, Matrix.vecMul, dotProduct, toMatrix]
  unfold Mat.vecMul
  rw [getD_map_range _ _ _ _ j.2, sumRange_eq]

/-- row scaling = left multiplication by the diagonal matrix (needs `|v| = number of rows`) -/
theorem toMatrix_scaleRows (m n : Nat) (A : Mat) (v : List Q) (hr : A.r = m) (hc : A.c = n) :
    toMatrix m n (A.scaleRows v) = Matrix.diagonal (toVec m v) * toMatrix m n A := by
  subst hr hc
  ext i j
  simp only [toMatrix, Matrix.diagonal_mul, toVec]
  unfold Mat.scaleRows
  rw [get_ofFn _ _ _ _ _ i.2 j.2]; ring

theorem toMatrix_scaleCols (m n : Nat) (A : Mat) (v : List Q) (hr : A.r = m) (hc : A.c = n) :
    toMatrix m n (A.scaleCols v) = toMatrix m n A * Matrix.diagonal (toVec n v) := by
  subst hr hc
  ext i j
  simp only [toMatrix, Matrix.mul_diagonal, toVec]
  unfold Mat.scaleCols
  rw [get_ofFn _ _ _ _ _ i.2 j.2]

end GstProofs.LinAlg
