import GstProofs.Db.Inv

set_option linter.unusedSimpArgs false
set_option linter.unusedVariables false

namespace GstProofs.Db
open GstVerif GstVerif.Db

theorem foldl_delete_inv (us : List Int) : ∀ s, Inv s → Inv (us.foldl deleteByUid s) := by
  induction us with
  | nil => intro s h; exact h
  | cons u us ih => intro s h; exact ih _ (deleteByUid_inv s u h)

theorem foldl_deleteNat_inv (us : List Nat) :
    ∀ s, Inv s → Inv (us.foldl (fun st (u : Nat) => deleteByUid st (u : Int)) s) := by
  induction us with
  | nil => intro s h; exact h
  | cons u us ih => intro s h; exact ih _ (deleteByUid_inv s u h)

theorem flatten_modify_nil_sublist : ∀ (L : List (List Nat)) (t : Nat),
    (L.modify t (fun _ => [])).flatten.Sublist L.flatten
  | [], t => by simp
  | l :: L, 0 => by simp
  | l :: L, t+1 => by
    simp only [List.modify_succ_cons, List.flatten_cons]
    exact List.Sublist.append (List.Sublist.refl _) (flatten_modify_nil_sublist L t)

theorem clearLoc_inv (s : State) (t : Nat) (h : Inv s) :
    Inv { s with loc := modifyLoc s.loc t (fun _ => []) } := by
  have hs := flatten_modify_nil_sublist s.loc t
  exact ⟨h.uidsNodup, h.uidsLt, h.namesLen, h.namesNodup, h.colsLen, h.colsRect,
    by simpa [modifyLoc] using h.locLen,
    fun v hv => h.rolesLive v (hs.subset hv), h.rolesNodup.sublist hs⟩

theorem setArray_inv (s : State) (c i : Nat) (v : Val) (h : Inv s) :
    Inv { s with cols := s.cols.modify c (fun col => col.set i v) } := by
  refine ⟨h.uidsNodup, h.uidsLt, h.namesLen, h.namesNodup, by simpa using h.colsLen, ?_,
    h.locLen, h.rolesLive, h.rolesNodup⟩
  intro col hcol
  simp only [List.mem_iff_getElem, List.length_modify, List.getElem_modify] at hcol
  obtain ⟨j, hj, hjc⟩ := hcol
  have := h.colsRect (s.cols[j]) (List.getElem_mem hj)
  split at hjc <;> subst hjc <;> simp [this]

theorem setRow_inv (s : State) (i : Nat) (vals : List Val) (hl : vals.length = s.uids.length) (h : Inv s) :
    Inv { s with cols := (s.cols.zip vals).map (fun (cv : List Val × Val) => cv.1.set i cv.2) } := by
  refine ⟨h.uidsNodup, h.uidsLt, h.namesLen, h.namesNodup, ?_, ?_, h.locLen, h.rolesLive, h.rolesNodup⟩
  · simp [List.length_zip, h.colsLen, hl]
  · intro col hcol
    simp only [List.mem_map] at hcol
    obtain ⟨cv, hcv, rfl⟩ := hcol
    have := h.colsRect cv.1 (List.of_mem_zip hcv).1
    simp [this]

theorem addSamples_inv (s : State) (n : Nat) (v : Val) (h : Inv s) :
    Inv { s with nech := s.nech + n, cols := s.cols.map (fun c => c ++ List.replicate n v) } := by
  refine ⟨h.uidsNodup, h.uidsLt, h.namesLen, h.namesNodup, by simpa using h.colsLen, ?_,
    h.locLen, h.rolesLive, h.rolesNodup⟩
  intro col hcol
  simp only [List.mem_map] at hcol
  obtain ⟨c, hc, rfl⟩ := hcol
  simp [h.colsRect c hc]

theorem delSample_inv (s : State) (i : Nat) (hi : i < s.nech) (h : Inv s) :
    Inv { s with nech := s.nech - 1, cols := s.cols.map (fun c => c.eraseIdx i) } := by
  refine ⟨h.uidsNodup, h.uidsLt, h.namesLen, h.namesNodup, by simpa using h.colsLen, ?_,
    h.locLen, h.rolesLive, h.rolesNodup⟩
  intro col hcol
  simp only [List.mem_map] at hcol
  obtain ⟨c, hc, rfl⟩ := hcol
  have := h.colsRect c hc
  simp [List.length_eraseIdx, this, hi]

/-- operations whose invariant preservation is proved (the role-assignment and renaming operations
are covered by the correspondence run and the decidable oracle `inv` evaluated on the library's
own state, see DESIGN.md C07) -/
def Covered : Op → Bool
  | .delUid _ | .delCol _ | .delName _ | .delLoc _ | .clearLoc _
  | .addSamples _ _ | .delSample _ | .setArray _ _ _ | .setRow _ _ | .getRow _ _ => true
  | _ => false

theorem step_inv_covered (s s' : State) (op : Op) (hc : Covered op = true) (h : Inv s)
    (hs : step s op = some s') : Inv s' := by
  cases op <;> simp only [Covered, Bool.false_eq_true] at hc <;> simp only [step] at hs
  case delUid u => injection hs with hs; subst hs; exact deleteByUid_inv s u h
  case delCol c =>
    split at hs
    · injection hs with hs; subst hs; exact h
    · split at hs <;> injection hs with hs <;> subst hs
      · exact h
      · exact deleteByUid_inv s _ h
  case delName n => injection hs with hs; subst hs; exact foldl_delete_inv _ s h
  case delLoc t => injection hs with hs; subst hs; exact foldl_deleteNat_inv _ s h
  case clearLoc t => injection hs with hs; subst hs; exact clearLoc_inv s t h
  case addSamples nadd v =>
    split at hs <;> injection hs with hs <;> subst hs
    · exact h
    · exact addSamples_inv s _ v h
  case delSample i =>
    split at hs <;> injection hs with hs <;> subst hs
    · exact h
    · rename_i hcond
      simp only [Bool.or_eq_true, Bool.not_eq_true', Bool.and_eq_false_iff, decide_eq_false_iff_not,
        not_or, Bool.not_eq_false, Bool.and_eq_true, decide_eq_true_eq] at hcond
      have hi : i.toNat < s.nech := by omega
      exact delSample_inv s i.toNat hi h
  case setArray iech u v =>
    split at hs <;> injection hs with hs <;> subst hs
    · exact h
    · exact setArray_inv s _ _ v h
  case setRow iech vals =>
    split at hs <;> injection hs with hs <;> subst hs
    · exact h
    · rename_i hc
      have hl : vals.length = s.uids.length := by
        by_contra hne
        exact hc (by simp [ncol, hne])
      exact setRow_inv s _ vals hl h
  case getRow iech seen => injection hs with hs; subst hs; exact h

/-- all histories made of covered operations: by induction on the history, no bound on its length -/
theorem reach_covered : ∀ (ops : List Op) (s s' : State),
    (∀ op ∈ ops, Covered op = true) → Inv s →
    ops.foldlM (fun st op => step st op) s = some s' → Inv s'
  | [], s, s', _, h, hs => by simp at hs; subst hs; exact h
  | op :: ops, s, s', hc, h, hs => by
    simp only [List.foldlM_cons] at hs
    cases h1 : step s op with
    | none => simp [h1] at hs
    | some s1 =>
      simp only [h1] at hs
      exact reach_covered ops s1 s' (fun o ho => hc o (List.mem_cons_of_mem _ ho))
        (step_inv_covered s s1 op (hc op List.mem_cons_self) h h1) hs

end GstProofs.Db
