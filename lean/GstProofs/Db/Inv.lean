import GstVerif.Db.Model
import Mathlib.Tactic.Linarith

set_option linter.unusedSimpArgs false
set_option linter.unusedVariables false

/-! Prop form of the Db invariant and its preservation by the editing operations (C07) -/
namespace GstProofs.Db
open GstVerif GstVerif.Db

theorem nodupB_iff {α} [BEq α] [LawfulBEq α] : ∀ l : List α, nodupB l = true ↔ l.Nodup
  | [] => by simp [nodupB]
  | x :: xs => by
    simp only [nodupB, Bool.and_eq_true, Bool.not_eq_true', List.nodup_cons, nodupB_iff xs]
    constructor
    · rintro ⟨h1, h2⟩; exact ⟨by simpa using h1, h2⟩
    · rintro ⟨h1, h2⟩; exact ⟨by simpa using h1, h2⟩

/-- Prop form of `inv` -/
structure Inv (s : State) : Prop where
  uidsNodup  : s.uids.Nodup
  uidsLt     : ∀ u ∈ s.uids, u < s.nextUid
  namesLen   : s.names.length = s.uids.length
  namesNodup : s.names.Nodup
  colsLen    : s.cols.length = s.uids.length
  colsRect   : ∀ c ∈ s.cols, c.length = s.nech
  locLen     : s.loc.length = NLOC
  rolesLive  : ∀ u ∈ s.loc.flatten, u ∈ s.uids
  rolesNodup : s.loc.flatten.Nodup

theorem inv_iff (s : State) : inv s = true ↔ Inv s := by
  simp only [inv, Bool.and_eq_true, nodupB_iff, allLt, List.all_eq_true, decide_eq_true_eq,
    beq_iff_eq, List.contains_iff_mem]
  constructor
  · rintro ⟨⟨⟨⟨⟨⟨⟨⟨a, b⟩, c⟩, d⟩, e⟩, f⟩, g⟩, h⟩, i⟩
    exact ⟨a, b, c, d, e, f, g, h, i⟩
  · rintro ⟨a, b, c, d, e, f, g, h, i⟩
    exact ⟨⟨⟨⟨⟨⟨⟨⟨a, b⟩, c⟩, d⟩, e⟩, f⟩, g⟩, h⟩, i⟩

/-! ### lemmas on the role table -/

theorem flatten_map_erase_sublist (u : Nat) : ∀ L : List (List Nat),
    (L.map (fun l => l.erase u)).flatten.Sublist L.flatten
  | [] => by simp
  | l :: L => by
    simp only [List.map_cons, List.flatten_cons]
    exact List.Sublist.append (List.erase_sublist) (flatten_map_erase_sublist u L)

theorem not_mem_flatten_map_erase (u : Nat) (L : List (List Nat)) (h : L.flatten.Nodup) :
    u ∉ (L.map (fun l => l.erase u)).flatten := by
  induction L with
  | nil => simp
  | cons l L ih =>
    simp only [List.flatten_cons, List.nodup_append] at h
    obtain ⟨h1, h2, h3⟩ := h
    simp only [List.map_cons, List.flatten_cons, List.mem_append, not_or]
    refine ⟨?_, ih h2⟩
    intro hm
    exact (List.Nodup.mem_erase_iff h1).mp hm |>.1 rfl

theorem idxOf?_some {α} [BEq α] [LawfulBEq α] (a : α) : ∀ (l : List α) (c : Nat),
    idxOf? a l = some c → c < l.length ∧ l[c]? = some a
  | [], c, h => by simp [idxOf?] at h
  | x :: xs, c, h => by
    simp only [idxOf?] at h
    split at h
    · rename_i hx
      injection h with h; subst h
      simp at hx; subst hx; simp
    · cases hi : idxOf? a xs with
      | none => simp [hi] at h
      | some i =>
        simp [hi] at h; subst h
        have := idxOf?_some a xs i hi
        refine ⟨by simp; omega, ?_⟩
        simpa using this.2

theorem idxOf?_none {α} [BEq α] [LawfulBEq α] (a : α) : ∀ (l : List α),
    idxOf? a l = none → a ∉ l
  | [], _ => by simp
  | x :: xs, h => by
    simp only [idxOf?] at h
    split at h
    · simp at h
    · rename_i hx
      cases hi : idxOf? a xs with
      | none =>
        have := idxOf?_none a xs hi
        simp at hx
        simp [this, Ne.symm hx]
      | some i => simp [hi] at h

theorem mem_eraseIdx_of_ne {l : List Nat} (hn : l.Nodup) {c : Nat} {u v : Nat}
    (hc : l[c]? = some u) (hv : v ∈ l) (hne : v ≠ u) : v ∈ l.eraseIdx c := by
  induction l generalizing c with
  | nil => simp at hv
  | cons x xs ih =>
    cases c with
    | zero =>
      simp at hc; subst hc
      simp only [List.eraseIdx_cons_zero]
      rcases List.mem_cons.mp hv with h | h
      · exact absurd h hne
      · exact h
    | succ c =>
      simp only [List.eraseIdx_cons_succ, List.mem_cons]
      rcases List.mem_cons.mp hv with h | h
      · exact Or.inl h
      · exact Or.inr (ih (List.nodup_cons.mp hn).2 (by simpa using hc) h)

/-- `deleteColumnByUID` keeps the table consistent -/
theorem deleteByUid_inv (s : State) (u : Int) (h : Inv s) : Inv (deleteByUid s u) := by
  unfold deleteByUid
  split
  · exact h
  · cases hi : idxOf? u.toNat s.uids with
    | none => simpa [hi] using h
    | some c =>
      simp only [hi]
      obtain ⟨hc, hget⟩ := idxOf?_some _ _ _ hi
      refine ⟨?_, ?_, ?_, ?_, ?_, ?_, ?_, ?_, ?_⟩
      · exact h.uidsNodup.sublist (List.eraseIdx_sublist _ _)
      · intro v hv; exact h.uidsLt v ((List.eraseIdx_sublist _ _).subset hv)
      · simp [List.length_eraseIdx, h.namesLen, hc, h.namesLen ▸ hc]
      · exact h.namesNodup.sublist (List.eraseIdx_sublist _ _)
      · simp [List.length_eraseIdx, h.colsLen, hc, h.colsLen ▸ hc]
      · intro col hcol; exact h.colsRect col ((List.eraseIdx_sublist _ _).subset hcol)
      · simpa [eraseFirst] using h.locLen
      · intro v hv
        have hv' : v ∈ s.loc.flatten := (flatten_map_erase_sublist u.toNat s.loc).subset hv
        have hne : v ≠ u.toNat := by
          intro e; subst e
          exact not_mem_flatten_map_erase _ s.loc h.rolesNodup hv
        exact mem_eraseIdx_of_ne h.uidsNodup hget (h.rolesLive v hv') hne
      · exact h.rolesNodup.sublist (flatten_map_erase_sublist u.toNat s.loc)

end GstProofs.Db
