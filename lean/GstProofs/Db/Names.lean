import GstProofs.Db.Roles

set_option linter.unusedSimpArgs false
set_option linter.unusedVariables false

/-! Renaming and column addition keep the Db consistent (C07): the duplicate-correcting helpers of
String.cpp (`correctNewNameForDuplicates`, `correctNamesForDuplicates`) always return lists without
duplicates, whatever the names proposed. -/
namespace GstProofs.Db
open GstVerif GstVerif.Db

/-! ### `correctNewNameForDuplicates` -/

theorem nodup_of_eraseIdx {l : List String} {r : Nat} {n : String} (hr : l[r]? = some n)
    (hN : (l.eraseIdx r).Nodup) (hn : n ∉ l.eraseIdx r) : l.Nodup := by
  have hlt : r < l.length := by
    by_contra hc
    rw [List.getElem?_eq_none (by omega)] at hr
    exact absurd hr (by simp)
  have hget : l[r] = n := by
    rw [List.getElem?_eq_getElem hlt] at hr; exact Option.some.inj hr
  have hl : l = l.take r ++ n :: l.drop (r + 1) := by
    rw [← hget]; exact (List.take_append_drop r l).symm.trans (by rw [List.drop_eq_getElem_cons hlt])
  rw [List.eraseIdx_eq_take_drop_succ] at hN hn
  rw [hl, List.nodup_middle, List.nodup_cons]
  exact ⟨hn, hN⟩

theorem fixNewName_spec : ∀ (fuel : Nat) (l l' : List String) (rank : Nat),
    fixNewName fuel l rank = some l' →
    l'.length = l.length ∧ l'.eraseIdx rank = l.eraseIdx rank ∧
      (∀ n, l'[rank]? = some n → n ∉ l'.eraseIdx rank)
  | 0, l, l', rank, h => by simp [fixNewName] at h
  | fuel+1, l, l', rank, h => by
    simp only [fixNewName] at h
    cases hr : l[rank]? with
    | none =>
      simp only [hr] at h
      injection h with h; subst h
      exact ⟨rfl, rfl, fun n hn => by rw [hr] at hn; exact absurd hn (by simp)⟩
    | some n =>
      simp only [hr] at h
      split at h
      · obtain ⟨h1, h2, h3⟩ := fixNewName_spec fuel _ l' rank h
        refine ⟨by simpa using h1, ?_, h3⟩
        rw [h2, List.eraseIdx_set_eq]
      · rename_i hc
        injection h with h; subst h
        refine ⟨rfl, rfl, ?_⟩
        intro m hm
        rw [hr] at hm
        injection hm with hm; subst hm
        simpa using hc

/-- a single column renamed through `correctNewNameForDuplicates`: still no duplicate -/
theorem rename_inv (s : State) (c : Nat) (n : String) (l : List String) (hc : c < s.names.length) (h : Inv s)
    (hf : fixNewName (s.names.length + 2) (s.names.set c n) c = some l) : Inv { s with names := l } := by
  obtain ⟨h1, h2, h3⟩ := fixNewName_spec _ _ _ _ hf
  have hlen : l.length = s.names.length := by simpa using h1
  have hcl : c < l.length := by omega
  refine ⟨h.uidsNodup, h.uidsLt, by simpa [hlen] using h.namesLen, ?_, h.colsLen, h.colsRect,
    h.locLen, h.rolesLive, h.rolesNodup⟩
  have hget : l[c]? = some l[c] := List.getElem?_eq_getElem hcl
  apply nodup_of_eraseIdx hget
  · rw [h2, List.eraseIdx_set_eq]
    exact h.namesNodup.sublist (List.eraseIdx_sublist _ _)
  · exact h3 _ hget

/-! ### `correctNamesForDuplicates` -/

theorem fixOne_spec : ∀ (fuel : Nat) (prev : List String) (n n' : String),
    fixOne fuel prev n = some n' → n' ∉ prev
  | 0, _, _, _, h => by simp [fixOne] at h
  | fuel+1, prev, n, n', h => by
    simp only [fixOne] at h
    split at h
    · exact fixOne_spec fuel prev _ n' h
    · rename_i hc
      injection h with h; subst h
      simpa using hc

theorem fixNamesGo_spec : ∀ (rest acc r : List String), acc.Nodup →
    fixNamesGo acc rest = some r → r.Nodup ∧ r.length = acc.length + rest.length
  | [], acc, r, hN, h => by
    simp only [fixNamesGo] at h
    injection h with h; subst h
    exact ⟨List.nodup_reverse.mpr hN, by simp⟩
  | n :: rest, acc, r, hN, h => by
    simp only [fixNamesGo] at h
    cases hf : fixOne (acc.length + 1) acc n with
    | none => simp [hf] at h
    | some n' =>
      simp only [hf] at h
      have hn' := fixOne_spec _ _ _ _ hf
      obtain ⟨a, b⟩ := fixNamesGo_spec rest (n' :: acc) r (List.nodup_cons.mpr ⟨hn', hN⟩) h
      exact ⟨a, by simp at b ⊢; omega⟩

theorem fixNames_spec (l r : List String) (h : fixNames l = some r) : r.Nodup ∧ r.length = l.length := by
  obtain ⟨a, b⟩ := fixNamesGo_spec l [] r List.nodup_nil h
  exact ⟨a, by simpa using b⟩

theorem renameSeq_length (name : String) : ∀ (cs : List Int) (names : List String) (i : Nat),
    (renameSeq names name i cs).length = names.length
  | [], _, _ => rfl
  | c :: cs, names, i => by
    simp only [renameSeq]
    rw [renameSeq_length name cs]
    split <;> simp

/-- `setName(list)` / `setNameByLocator`: sequence of renamings then global correction -/
theorem renameAll_inv (s : State) (l l' : List String) (hl : l.length = s.names.length) (h : Inv s)
    (hf : fixNames l = some l') : Inv { s with names := l' } := by
  obtain ⟨a, b⟩ := fixNames_spec l l' hf
  exact ⟨h.uidsNodup, h.uidsLt, by simpa [b, hl] using h.namesLen, a, h.colsLen, h.colsRect,
    h.locLen, h.rolesLive, h.rolesNodup⟩

/-! ### `addColumnsByConstant` (before the roles are assigned) -/

theorem range_shift_nodup (n k : Nat) : ((List.range n).map (· + k)).Nodup := by
  apply List.Nodup.map
  · intro a b hab; simpa using hab
  · exact List.nodup_range

/-- the table after the `n` new columns have been appended and named -/
theorem addColumns_inv (s : State) (n : Nat) (val : Val) (names' : List String) (h : Inv s)
    (newNames : List String) (hnew : newNames.length = n)
    (hfix : fixNames (s.names ++ newNames) = some names') :
    Inv { s with nextUid := s.nextUid + n, uids := s.uids ++ (List.range n).map (· + s.nextUid), names := names',
                 cols := s.cols ++ List.replicate n (List.replicate s.nech val) } := by
  obtain ⟨a, b⟩ := fixNames_spec _ _ hfix
  refine ⟨?_, ?_, ?_, a, ?_, ?_, h.locLen, ?_, h.rolesNodup⟩
  · rw [List.nodup_append]
    refine ⟨h.uidsNodup, range_shift_nodup n s.nextUid, ?_⟩
    intro x hx y hy e
    subst e
    have := h.uidsLt x hx
    simp only [List.mem_map, List.mem_range] at hy
    obtain ⟨i, _, hi⟩ := hy
    omega
  · intro u hu
    rcases List.mem_append.mp hu with hu | hu
    · have := h.uidsLt u hu; show u < s.nextUid + n; omega
    · simp only [List.mem_map, List.mem_range] at hu
      obtain ⟨i, hi, e⟩ := hu
      show u < s.nextUid + n; omega
  · simp [b, h.namesLen, hnew]
  · simp [h.colsLen]
  · intro c hc
    rcases List.mem_append.mp hc with hc | hc
    · exact h.colsRect c hc
    · simp only [List.mem_replicate] at hc
      rw [hc.2]; simp
  · intro v hv
    exact List.mem_append_left _ (h.rolesLive v hv)

/-- `if (_nech <= 0) _nech = nechInit`: an empty table is re-dimensioned, existing columns zero-filled -/
theorem redim_inv (s : State) (m : Nat) (h : Inv s) :
    Inv { s with nech := m, cols := s.cols.map (fun _ => List.replicate m (some 0)) } := by
  refine ⟨h.uidsNodup, h.uidsLt, h.namesLen, h.namesNodup, by simpa using h.colsLen, ?_,
    h.locLen, h.rolesLive, h.rolesNodup⟩
  intro c hc
  simp only [List.mem_map] at hc
  obtain ⟨_, _, rfl⟩ := hc
  simp

end GstProofs.Db
