import GstProofs.Db.Ops
import Mathlib.Data.List.Nodup
import Mathlib.Data.List.Perm.Basic

set_option linter.unusedSimpArgs false
set_option linter.unusedVariables false

/-! Role assignment (`setLocatorByUID` and its loops, `switchLocator`) keeps the Db consistent (C07),
under the one condition the unchanged library needs (known finding F4): an explicit role number
must not exceed the number of roles of that type held by the *other* columns. -/
namespace GstProofs.Db
open GstVerif GstVerif.Db

/-! ### one cell of the role table replaced -/

theorem modify_of_le {α} (L : List α) (t : Nat) (f : α → α) (h : L.length ≤ t) : L.modify t f = L := by
  induction L generalizing t with
  | nil => simp
  | cons a L ih =>
    cases t with
    | zero => simp at h
    | succ t => simp [List.modify_succ_cons, ih t (by simpa using h)]

/-- replacing the list at position `t` by `g` whose members are members of the old list or the
fresh value `u`: membership and absence of duplicates of the flattened table -/
theorem flatten_modify_fresh (L : List (List Nat)) (t : Nat) (f : List Nat → List Nat) (u : Nat)
    (hN : L.flatten.Nodup) (hu : u ∉ L.flatten)
    (hf : ∀ a, L[t]? = some a → (f a).Nodup ∧ ∀ v ∈ f a, v ∈ a ∨ v = u) :
    (L.modify t f).flatten.Nodup ∧ ∀ v ∈ (L.modify t f).flatten, v ∈ L.flatten ∨ v = u := by
  by_cases ht : t < L.length
  · obtain ⟨L₁, a, L₂, hL, hlen, hm⟩ := List.exists_of_modify f ht
    rw [hm]
    have ha : L[t]? = some a := by
      rw [hL, ← hlen]; simp
    obtain ⟨hfa, hfm⟩ := hf a ha
    clear ha
    subst hL
    simp only [List.flatten_append, List.flatten_cons, List.nodup_append, List.mem_append] at hN hu ⊢
    obtain ⟨h1, ⟨h2, h3, h23⟩, h123⟩ := hN
    simp only [not_or] at hu
    refine ⟨⟨h1, ⟨hfa, h3, ?_⟩, ?_⟩, ?_⟩
    · intro x hx y hy e
      subst e
      rcases hfm x hx with hxa | hxu
      · exact h23 x hxa x hy rfl
      · subst hxu; exact hu.2.2 hy
    · intro x hx y hy e
      subst e
      rcases hy with hy | hy
      · rcases hfm x hy with hxa | hxu
        · exact h123 x hx x (Or.inl hxa) rfl
        · subst hxu; exact hu.1 hx
      · exact h123 x hx x (Or.inr hy) rfl
    · intro v hv
      rcases hv with hv | hv | hv
      · exact Or.inl (Or.inl hv)
      · rcases hfm v hv with h | h
        · exact Or.inl (Or.inr (Or.inl h))
        · exact Or.inr h
      · exact Or.inl (Or.inr (Or.inr hv))
  · rw [modify_of_le L t f (by omega)]
    exact ⟨hN, fun v hv => Or.inl hv⟩

/-- `setAt` within the admissible ranks: no padding -/
theorem setAt_props (l : List Nat) (k u : Nat) (hk : k ≤ l.length) (hN : l.Nodup) (hu : u ∉ l) :
    (setAt l k u).Nodup ∧ ∀ v ∈ setAt l k u, v ∈ l ∨ v = u := by
  unfold setAt
  by_cases h : k < l.length
  · simp only [h, if_true]
    exact ⟨List.Nodup.set hN hu, fun v hv => List.mem_or_eq_of_mem_set hv⟩
  · have hk' : k = l.length := by omega
    subst hk'
    simp only [Nat.lt_irrefl, if_false, Nat.add_sub_cancel_left, List.replicate_one]
    have : (l ++ [0]).set l.length u = l ++ [u] := by
      rw [List.set_append_right _ _ (Nat.le_refl _)]; simp
    rw [this]
    refine ⟨?_, ?_⟩
    · rw [List.nodup_append]
      exact ⟨hN, List.nodup_singleton u, fun x hx y hy e => by
        simp at hy; subst hy; subst e; exact hu hx⟩
    · intro v hv
      simp at hv
      exact hv

/-- the role list into which `setLocatorByUID` inserts: after the optional clearing of the type and
after `u` has been removed from every role list -/
def rolesBefore (s : State) (u : Int) (lt : Int) (clean : Bool) : List Nat :=
  let loc0 := if clean && 0 ≤ lt then modifyLoc s.loc lt.toNat (fun _ => []) else s.loc
  ((loc0.map (eraseFirst u.toNat)).getD lt.toNat [])

/-- admissible role number: automatic, or at most one past the roles held by the other columns
(beyond that the library pads the list with uid 0: known finding F4) -/
def RankOK (s : State) (u lt li : Int) (clean : Bool) : Prop :=
  li < 0 ∨ li.toNat ≤ (rolesBefore s u lt clean).length

theorem getD_mem_or_nil (L : List (List Nat)) (t : Nat) : L.getD t [] ∈ L ∨ L.getD t [] = [] := by
  by_cases h : t < L.length
  · left; simp [List.getD, List.getElem?_eq_getElem h]
  · right; simp [List.getD, List.getElem?_eq_none (by omega : L.length ≤ t)]

theorem sublist_nodup_of_flatten {L : List (List Nat)} (h : L.flatten.Nodup) {l : List Nat} (hl : l ∈ L) :
    l.Nodup := by
  induction L with
  | nil => simp at hl
  | cons a L ih =>
    simp only [List.flatten_cons, List.nodup_append] at h
    rcases List.mem_cons.mp hl with e | e
    · subst e; exact h.1
    · exact ih h.2.1 e

theorem mem_flatten_of_mem {L : List (List Nat)} {l : List Nat} (hl : l ∈ L) {v : Nat} (hv : v ∈ l) :
    v ∈ L.flatten := List.mem_flatten.mpr ⟨l, hl, hv⟩

theorem colOfUid_mem (s : State) (u : Int) (hv : uidValid s u = true) (hc : ¬ colOfUid s u < 0) :
    u.toNat ∈ s.uids := by
  unfold colOfUid at hc
  simp only [hv, if_true] at hc
  cases hi : idxOf? u.toNat s.uids with
  | none => simp [hi] at hc
  | some c =>
    obtain ⟨hlt, hget⟩ := idxOf?_some _ _ _ hi
    exact List.mem_of_getElem? hget

/-- `setLocatorByUID` keeps the table consistent for every admissible role number -/
theorem setLocatorByUID_inv (s : State) (u lt li : Int) (clean : Bool) (h : Inv s)
    (hr : RankOK s u lt li clean) : Inv (setLocatorByUID s u lt li clean) := by
  unfold setLocatorByUID
  by_cases hcond : (!(uidValid s u) || decide (colOfUid s u < 0)) = true
  · rw [if_pos hcond]; exact h
  · rw [if_neg hcond]
    simp only [Bool.or_eq_true, Bool.not_eq_true', decide_eq_true_eq, not_or, Bool.not_eq_false] at hcond
    have hmem : u.toNat ∈ s.uids := colOfUid_mem s u hcond.1 (by omega)
    -- the table after clearing and erasing
    let loc0 := (if clean && decide (0 ≤ lt) then modifyLoc s.loc lt.toNat (fun _ => []) else s.loc)
    have h0sub : loc0.flatten.Sublist s.loc.flatten := by
      show (if clean && decide (0 ≤ lt) then modifyLoc s.loc lt.toNat (fun _ => []) else s.loc).flatten.Sublist _
      split
      · exact flatten_modify_nil_sublist s.loc lt.toNat
      · exact List.Sublist.refl _
    have h0len : loc0.length = NLOC := by
      show (if clean && decide (0 ≤ lt) then modifyLoc s.loc lt.toNat (fun _ => []) else s.loc).length = _
      split <;> simp [modifyLoc, h.locLen]
    have h0N : loc0.flatten.Nodup := h.rolesNodup.sublist h0sub
    let loc1 := loc0.map (eraseFirst u.toNat)
    have h1sub : loc1.flatten.Sublist loc0.flatten := flatten_map_erase_sublist u.toNat loc0
    have h1N : loc1.flatten.Nodup := h0N.sublist h1sub
    have h1u : u.toNat ∉ loc1.flatten := not_mem_flatten_map_erase _ loc0 h0N
    have h1len : loc1.length = NLOC := by simp [loc1, h0len]
    have h1live : ∀ v ∈ loc1.flatten, v ∈ s.uids :=
      fun v hv => h.rolesLive v (h0sub.subset (h1sub.subset hv))
    by_cases hlt : lt < 0
    · simp only [hlt, if_true]
      exact ⟨h.uidsNodup, h.uidsLt, h.namesLen, h.namesNodup, h.colsLen, h.colsRect, h1len, h1live, h1N⟩
    · simp only [hlt, if_false]
      have hlt0 : 0 ≤ lt := by omega
      -- the rank actually used
      let k := (if li < 0 then (if 0 ≤ lt then ((loc1.getD lt.toNat []).length : Int) else 0) else li).toNat
      have hkle : k ≤ (loc1.getD lt.toNat []).length := by
        show (if li < 0 then (if 0 ≤ lt then ((loc1.getD lt.toNat []).length : Int) else 0) else li).toNat ≤ _
        by_cases hli : li < 0
        · simp [hli, hlt0]
        · simp only [hli, if_false]
          rcases hr with hr | hr
          · exact absurd hr hli
          · exact hr
      have key := flatten_modify_fresh loc1 lt.toNat (fun l => setAt l k u.toNat) u.toNat h1N h1u ?_
      · obtain ⟨kN, kM⟩ := key
        refine ⟨h.uidsNodup, h.uidsLt, h.namesLen, h.namesNodup, h.colsLen, h.colsRect, ?_, ?_, ?_⟩
        · show (modifyLoc loc1 lt.toNat _).length = NLOC
          simp [modifyLoc, h1len]
        · intro v hv
          rcases kM v hv with hv' | hv'
          · exact h1live v hv'
          · subst hv'; exact hmem
        · exact kN
      · intro a ha
        have hcell : loc1.getD lt.toNat [] = a := by simp [List.getD, ha]
        rw [hcell] at hkle
        have hal : a ∈ loc1 := List.mem_of_getElem? ha
        exact setAt_props a k u.toNat hkle (sublist_nodup_of_flatten h1N hal)
          (fun hx => h1u (mem_flatten_of_mem hal hx))

/-! ### the loops `setLocators…` -/

/-- admissible explicit role numbers along the loop `for i: setLocatorByUID(us[i], t, li + i)` -/
def RanksOK (lt : Int) (auto : Bool) : State → Int → List Int → Prop
  | _, _, [] => True
  | s, li, u :: us =>
    RankOK s u lt (if auto then -1 else li) false ∧
    RanksOK lt auto (setLocatorByUID s u lt (if auto then -1 else li) false) (li + 1) us

theorem ranksOK_auto (lt : Int) : ∀ (us : List Int) (s : State) (li : Int), RanksOK lt true s li us
  | [], _, _ => trivial
  | u :: us, s, li => ⟨Or.inl (by simp), ranksOK_auto lt us _ _⟩

theorem setLocatorsGo_inv (lt : Int) (auto : Bool) : ∀ (us : List Int) (s : State) (li : Int),
    Inv s → RanksOK lt auto s li us → Inv (setLocatorsGo s lt auto li us)
  | [], s, li, h, _ => h
  | u :: us, s, li, h, hr => by
    simp only [setLocatorsGo]
    exact setLocatorsGo_inv lt auto us _ _ (setLocatorByUID_inv s u lt _ false h hr.1) hr.2

/-- the state on which the loop of `setLocatorsByUIDs` starts -/
def cleared (s : State) (lt : Int) (clean : Bool) : State :=
  if clean && 0 ≤ lt then { s with loc := modifyLoc s.loc lt.toNat (fun _ => []) } else s

theorem cleared_inv (s : State) (lt : Int) (clean : Bool) (h : Inv s) : Inv (cleared s lt clean) := by
  unfold cleared; split
  · exact clearLoc_inv s lt.toNat h
  · exact h

theorem setLocatorsByUIDs_inv (s : State) (us : List Int) (lt li : Int) (clean : Bool) (h : Inv s)
    (hr : RanksOK lt (decide (li < 0)) (cleared s lt clean) li us) :
    Inv (setLocatorsByUIDs s us lt li clean) := by
  unfold setLocatorsByUIDs
  exact setLocatorsGo_inv lt _ us _ li (cleared_inv s lt clean h) hr

/-- with the automatic role number (`locatorIndex < 0`) every list of columns is accepted -/
theorem setLocatorsByUIDs_inv_auto (s : State) (us : List Int) (lt li : Int) (clean : Bool) (h : Inv s)
    (hli : li < 0) : Inv (setLocatorsByUIDs s us lt li clean) := by
  apply setLocatorsByUIDs_inv s us lt li clean h
  have : decide (li < 0) = true := by simpa using hli
  rw [this]
  exact ranksOK_auto lt us _ _

/-! ### `switchLocator` -/

theorem flatten_modify_const_perm (L : List (List Nat)) (t : Nat) (g : List Nat) (ht : t < L.length) :
    (L.modify t (fun _ => g)).flatten.Perm (g ++ (L.modify t (fun _ => [])).flatten) := by
  obtain ⟨L₁, a, L₂, hL, hlen, hm⟩ := List.exists_of_modify (fun _ => g) ht
  obtain ⟨L₁', a', L₂', hL', hlen', hm'⟩ := List.exists_of_modify (fun (_ : List Nat) => ([] : List Nat)) ht
  have e1 : L₁ = L₁' := by
    have := hL.symm.trans hL'
    exact (List.append_inj this (hlen.trans hlen'.symm)).1
  have e2 : L₂ = L₂' := by
    have := hL.symm.trans hL'
    have := (List.append_inj this (hlen.trans hlen'.symm)).2
    simp at this; exact this.2
  subst e1 e2
  rw [hm, hm']
  simp only [List.flatten_append, List.flatten_cons, List.nil_append]
  exact List.perm_append_comm_assoc _ _ _

/-- `switchLocator(tin, tout)`, `tin ≠ tout`: the roles of type `tin` are appended to those of `tout` -/
theorem switchLoc_inv (s : State) (tin tout : Nat) (hne : tin ≠ tout) (h : Inv s) :
    Inv { s with loc := modifyLoc (modifyLoc s.loc tout (fun _ => locList s tout ++ locList s tin)) tin (fun _ => []) } := by
  have hlen : (modifyLoc (modifyLoc s.loc tout (fun _ => locList s tout ++ locList s tin)) tin (fun _ => [])).length = NLOC := by
    simp [modifyLoc, h.locLen]
  -- every element of the new table is an element of the old one, and the new table has no duplicate
  have hperm : (modifyLoc (modifyLoc s.loc tout (fun _ => locList s tout ++ locList s tin)) tin (fun _ => [])).flatten.Sublist
      s.loc.flatten ∨
      (modifyLoc (modifyLoc s.loc tout (fun _ => locList s tout ++ locList s tin)) tin (fun _ => [])).flatten.Perm s.loc.flatten := by
    by_cases hto : tout < s.loc.length
    · by_cases hti : tin < s.loc.length
      · right
        -- decompose around the two positions through getElem: use extensional permutation count
        unfold modifyLoc locList
        have hto' : tout < (s.loc.modify tout (fun _ => s.loc.getD tout [] ++ s.loc.getD tin [])).length := by simpa using hto
        have hti' : tin < (s.loc.modify tout (fun _ => s.loc.getD tout [] ++ s.loc.getD tin [])).length := by simpa using hti
        -- strategy: both sides are permutations of  (L without cells tin, tout).flatten ++ L[tout] ++ L[tin]
        have A := flatten_modify_const_perm (s.loc.modify tin (fun _ => [])) tout
          (s.loc.getD tout [] ++ s.loc.getD tin []) (by simpa using hto)
        have B := flatten_modify_const_perm s.loc tin (s.loc.getD tin []) hti
        have C := flatten_modify_const_perm (s.loc.modify tin (fun _ => [])) tout (s.loc.getD tout []) (by simpa using hto)
        -- commute the two modifications (different positions)
        have hcomm : (s.loc.modify tout (fun _ => s.loc.getD tout [] ++ s.loc.getD tin [])).modify tin (fun _ => [])
            = (s.loc.modify tin (fun _ => [])).modify tout (fun _ => s.loc.getD tout [] ++ s.loc.getD tin []) := by
          apply List.ext_getElem?
          intro i
          simp only [List.getElem?_modify]
          by_cases h1 : tin = i <;> by_cases h2 : tout = i <;> simp [h1, h2]
          · exact absurd (h1.trans h2.symm) hne
        rw [hcomm]
        -- restoring the original cells is the identity
        have hid1 : s.loc.modify tin (fun _ => s.loc.getD tin []) = s.loc := by
          apply List.ext_getElem?; intro i
          simp only [List.getElem?_modify]
          by_cases h1 : tin = i
          · subst h1; simp [List.getD, List.getElem?_eq_getElem hti]
          · simp [h1]
        have hid2 : (s.loc.modify tin (fun _ => [])).modify tout (fun _ => s.loc.getD tout []) = s.loc.modify tin (fun _ => []) := by
          apply List.ext_getElem?; intro i
          simp only [List.getElem?_modify]
          by_cases h2 : tout = i
          · subst h2
            have : tin ≠ tout := hne
            simp [this, List.getD, List.getElem?_eq_getElem hto]
          · simp [h2]
        rw [hid1] at B
        rw [hid2] at C
        -- A : new ~ (Lout ++ Lin) ++ X,  C : L\tin ~ Lout ++ X,  B : L ~ Lin ++ L\tin
        refine A.trans ?_
        refine List.Perm.trans ?_ B.symm
        refine List.Perm.trans ?_ (List.Perm.append_left _ C.symm)
        rw [List.append_assoc]
        exact (List.perm_append_comm_assoc _ _ _)
      · left
        unfold modifyLoc locList
        have : s.loc.getD tin [] = [] := by simp [List.getD, List.getElem?_eq_none (by omega : s.loc.length ≤ tin)]
        rw [this, List.append_nil, modify_of_le _ tin _ (by simp; omega)]
        have hid : s.loc.modify tout (fun _ => s.loc.getD tout []) = s.loc := by
          apply List.ext_getElem?; intro i
          simp only [List.getElem?_modify]
          by_cases h2 : tout = i
          · subst h2; simp [List.getD, List.getElem?_eq_getElem hto]
          · simp [h2]
        rw [hid]
    · left
      unfold modifyLoc
      rw [modify_of_le _ tout _ (by omega)]
      exact flatten_modify_nil_sublist s.loc tin
  refine ⟨h.uidsNodup, h.uidsLt, h.namesLen, h.namesNodup, h.colsLen, h.colsRect, hlen, ?_, ?_⟩
  · intro v hv
    rcases hperm with hs | hp
    · exact h.rolesLive v (hs.subset hv)
    · exact h.rolesLive v (hp.subset hv)
  · rcases hperm with hs | hp
    · exact h.rolesNodup.sublist hs
    · exact hp.nodup_iff.mpr h.rolesNodup

end GstProofs.Db
