import GstProofs.Db.Names

set_option linter.unusedSimpArgs false
set_option linter.unusedVariables false

/-! Every editing operation of the Db model keeps the table consistent (C07), for every state and
every argument the operation accepts, under the single condition `Admissible` (explicit role numbers
must not leave a gap: known finding F4 is exactly the negation of that condition). -/
namespace GstProofs.Db
open GstVerif GstVerif.Db

/-- what an operation needs beyond a consistent table: only the role-assigning operations need
something, and only when the role number is given explicitly -/
def Admissible (s : State) : Op → Prop
  | .locUid u lt li clean => RankOK s u lt li clean
  | .locCol c lt li clean => RankOK s (uidOfCol s c) lt li clean
  | .locName n lt li clean => RanksOK lt (decide (li < 0)) (cleared s lt clean) li (idsOfName s n)
  | .locsUid us lt li clean => RanksOK lt (decide (li < 0)) (cleared s lt clean) li us
  | .locsCol cs lt li clean => RanksOK lt (decide (li < 0)) (cleared s lt clean) li (cs.map (uidOfCol s))
  | .addc _ _ _ lt li _ => lt < 0 ∨ li < 0
  | _ => True

/-- role numbers left to the library (`locatorIndex < 0`, the default of most calls) -/
def AutoRank : Op → Bool
  | .locUid _ _ li _ | .locCol _ _ li _ | .locName _ _ li _ | .locsUid _ _ li _ | .locsCol _ _ li _ => li < 0
  | .addc _ _ _ lt li _ => lt < 0 || li < 0
  | _ => true

theorem admissible_of_auto (s : State) (op : Op) (h : AutoRank op = true) : Admissible s op := by
  cases op <;> simp only [AutoRank, decide_eq_true_eq, Bool.or_eq_true] at h <;> simp only [Admissible]
  case locUid u lt li clean => exact Or.inl h
  case locCol c lt li clean => exact Or.inl h
  case locName n lt li clean =>
    have : decide (li < 0) = true := by simpa using h
    rw [this]; exact ranksOK_auto lt _ _ _
  case locsUid us lt li clean =>
    have : decide (li < 0) = true := by simpa using h
    rw [this]; exact ranksOK_auto lt _ _ _
  case locsCol cs lt li clean =>
    have : decide (li < 0) = true := by simpa using h
    rw [this]; exact ranksOK_auto lt _ _ _
  case addc nadd val radix lt li nechInit => exact h

theorem step_inv (s s' : State) (op : Op) (h : Inv s) (ha : Admissible s op)
    (hs : step s op = some s') : Inv s' := by
  by_cases hcov : Covered op = true
  · exact step_inv_covered s s' op hcov h hs
  · cases op <;> simp only [Covered, not_true_eq_false] at hcov <;> simp only [step] at hs <;>
      simp only [Admissible] at ha
    case addc nadd val radix lt li nechInit =>
      split at hs
      · injection hs with hs; subst hs; exact h
      · -- the (possibly re-dimensioned) table
        generalize hs0 : (if s.nech = 0 then ({ s with nech := nechInit.toNat, cols := s.cols.map (fun _ => List.replicate nechInit.toNat (some 0)) } : State) else s) = s0 at hs
        have h0 : Inv s0 := by
          rw [← hs0]; split
          · exact redim_inv s _ h
          · exact h
        have hnames : s0.names = s.names := by rw [← hs0]; split <;> rfl
        cases hf : fixNames (s0.names ++ (if nadd.toNat = 1 then [radix] else multipleNames radix nadd.toNat)) with
        | none => simp [hf] at hs
        | some names' =>
          simp only [hf] at hs
          have hnewlen : (if nadd.toNat = 1 then [radix] else multipleNames radix nadd.toNat).length = nadd.toNat := by
            split
            · rename_i h1; simp [h1]
            · simp [multipleNames]
          have h1 := addColumns_inv s0 nadd.toNat val names' h0 _ hnewlen hf
          split at hs
          · injection hs with hs; subst hs; exact h1
          · rename_i hlt
            injection hs with hs; subst hs
            have hli : li < 0 := by
              rcases ha with ha | ha
              · exact absurd ha hlt
              · exact ha
            exact setLocatorsByUIDs_inv_auto _ _ lt li false h1 hli
    case nameUid u n =>
      split at hs
      · injection hs with hs; subst hs; exact h
      · rename_i hc
        cases hf : fixNewName (s.names.length + 2) (s.names.set (colOfUid s u).toNat n) (colOfUid s u).toNat with
        | none => simp [hf] at hs
        | some l =>
          simp only [hf, Option.map_some] at hs
          injection hs with hs; subst hs
          have hlt : (colOfUid s u).toNat < s.names.length := by
            have hv : colOfUid s u < (s.uids.length : Int) := by
              unfold colOfUid
              split
              · cases hi : idxOf? u.toNat s.uids with
                | none => simp; omega
                | some c =>
                  have := (idxOf?_some _ _ _ hi).1
                  simp; omega
              · have : (0 : Int) ≤ s.uids.length := by omega
                omega
            rw [h.namesLen]; omega
          exact rename_inv s _ n l hlt h hf
    case nameCol c n =>
      split at hs
      · injection hs with hs; subst hs; exact h
      · rename_i hc
        have hcv : colValid s c = true := by
          cases hv : colValid s c
          · simp [hv] at hc
          · rfl
        simp only [colValid, ncol, Bool.and_eq_true, decide_eq_true_eq] at hcv
        cases hf : fixNewName (s.names.length + 2) (s.names.set c.toNat n) c.toNat with
        | none => simp [hf] at hs
        | some l =>
          simp only [hf, Option.map_some] at hs
          injection hs with hs; subst hs
          have hlt : c.toNat < s.names.length := by
            have h2 : c < (s.uids.length : Int) := of_decide_eq_true hcv.2
            have h1 : 0 ≤ c := hcv.1
            rw [h.namesLen]; omega
          exact rename_inv s _ n l hlt h hf
    case nameName old new =>
      split at hs
      · injection hs with hs; subst hs; exact h
      · rename_i hc
        cases hf : fixNewName (s.names.length + 2) (s.names.set (colOfName s old).toNat new) (colOfName s old).toNat with
        | none => simp [hf] at hs
        | some l =>
          simp only [hf, Option.map_some] at hs
          injection hs with hs; subst hs
          have hlt : (colOfName s old).toNat < s.names.length := by
            have hv : colOfName s old < (s.names.length : Int) := by
              unfold colOfName
              split
              · have : (0 : Int) ≤ s.names.length := by omega
                omega
              · unfold firstMatchCol
                split
                · rename_i c hcidx
                  have := List.findIdx?_eq_some_iff_findIdx_eq.mp hcidx
                  simp; omega
                · have : (0 : Int) ≤ s.names.length := by omega
                  omega
            omega
          exact rename_inv s _ new l hlt h hf
    case nameLoc t n =>
      split at hs
      · injection hs with hs; subst hs; exact h
      · cases hf : fixNames (renameSeq s.names n 0 ((locList s t).map (fun (u : Nat) => colOfUid s (u : Int)))) with
        | none => simp [hf] at hs
        | some l =>
          simp only [hf, Option.map_some] at hs
          injection hs with hs; subst hs
          exact renameAll_inv s _ l (renameSeq_length n _ _ _) h hf
    case locUid u lt li clean =>
      injection hs with hs; subst hs
      exact setLocatorByUID_inv s u lt li clean h ha
    case locCol c lt li clean =>
      split at hs <;> injection hs with hs <;> subst hs
      · exact setLocatorByUID_inv s _ lt li clean h ha
      · exact h
    case locName n lt li clean =>
      split at hs <;> injection hs with hs <;> subst hs
      · exact h
      · exact setLocatorsByUIDs_inv s _ lt li clean h ha
    case locsUid us lt li clean =>
      injection hs with hs; subst hs
      exact setLocatorsByUIDs_inv s us lt li clean h ha
    case locsCol cs lt li clean =>
      injection hs with hs; subst hs
      exact setLocatorsByUIDs_inv s _ lt li clean h ha
    case switchLoc tin tout =>
      split at hs
      · injection hs with hs; subst hs; exact h
      · rename_i hne
        injection hs with hs; subst hs
        exact switchLoc_inv s tin tout hne h

/-- admissibility along a history -/
def AdmissiblePath : State → List Op → Prop
  | _, [] => True
  | s, op :: ops => Admissible s op ∧ ∀ s1, step s op = some s1 → AdmissiblePath s1 ops

/-- every history, from any consistent state: by induction on the history, no bound on its length -/
theorem reach : ∀ (ops : List Op) (s s' : State), AdmissiblePath s ops → Inv s →
    ops.foldlM (fun st op => step st op) s = some s' → Inv s'
  | [], s, s', _, h, hs => by simp at hs; subst hs; exact h
  | op :: ops, s, s', ha, h, hs => by
    simp only [List.foldlM_cons] at hs
    cases h1 : step s op with
    | none => simp [h1] at hs
    | some s1 =>
      simp only [h1] at hs
      exact reach ops s1 s' (ha.2 s1 h1) (step_inv s s1 op h ha.1 h1) hs

theorem admissiblePath_of_auto : ∀ (ops : List Op) (s : State), (∀ op ∈ ops, AutoRank op = true) →
    AdmissiblePath s ops
  | [], _, _ => trivial
  | op :: ops, s, h =>
    ⟨admissible_of_auto s op (h op List.mem_cons_self),
     fun s1 _ => admissiblePath_of_auto ops s1 (fun o ho => h o (List.mem_cons_of_mem _ ho))⟩

/-- every history of editing operations that leave the role numbers to the library -/
theorem reach_auto (ops : List Op) (s s' : State) (ha : ∀ op ∈ ops, AutoRank op = true) (h : Inv s)
    (hs : ops.foldlM (fun st op => step st op) s = some s') : Inv s' :=
  reach ops s s' (admissiblePath_of_auto ops s ha) h hs

end GstProofs.Db
