import GstVerif.LinAlg.Mat
/-! the residual-checker soundness statement, shared by C01/C04/C11/C15 -/
namespace GstProofs
open GstVerif GstVerif.LinAlg

theorem checkSolve_sound' (tau : Q) (A : Mat) (x b : List Q) (h : checkSolve tau A x b = true) :
    ∀ i, i < (A.mulVec x).length →
      absQ ((A.mulVec x).getD i 0 - b.getD i 0)
        ≤ tau * maxQ (A.maxAbs * vmaxAbs x * (A.c : Q) + vmaxAbs b) 1 := by
  intro i hi
  simp only [checkSolve, vclose, Bool.and_eq_true, beq_iff_eq, List.all_eq_true, List.mem_range,
    decide_eq_true_eq] at h
  exact h.2 i hi

end GstProofs
