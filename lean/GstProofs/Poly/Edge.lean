import GstVerif.Poly.Model
import Mathlib.Tactic.Ring
import Mathlib.Tactic.Linarith
import Mathlib.Tactic.FieldSimp
import Mathlib.Algebra.Order.Field.Basic

/-! helper lemmas for C20: one edge of `PolyElem::inside` obeys the half-open rule -/
namespace GstProofs.Poly
open GstVerif GstVerif.Poly

theorem xinter_gt_pos {x0 y0 x1 y1 xx yy : Q} (h : 0 < y1 - y0) :
    ((x1 - x0) * yy + (y1 - y0) * x0 - (x1 - x0) * y0) / (y1 - y0) > xx ↔
      (xx - x0) * (y1 - y0) < (yy - y0) * (x1 - x0) := by
  rw [gt_iff_lt, lt_div_iff₀ h]
  constructor <;> intro h' <;> nlinarith

theorem xinter_gt_neg {x0 y0 x1 y1 xx yy : Q} (h : y1 - y0 < 0) :
    ((x1 - x0) * yy + (y1 - y0) * x0 - (x1 - x0) * y0) / (y1 - y0) > xx ↔
      (xx - x1) * (y0 - y1) < (yy - y1) * (x0 - x1) := by
  rw [gt_iff_lt, lt_div_iff_of_neg h]
  constructor <;> intro h' <;> nlinarith

theorem xinter_eq {x0 y0 x1 y1 xx yy : Q} (h : y1 - y0 ≠ 0) :
    ((x1 - x0) * yy + (y1 - y0) * x0 - (x1 - x0) * y0) / (y1 - y0) = xx ↔
      (xx - x0) * (y1 - y0) = (yy - y0) * (x1 - x0) := by
  rw [div_eq_iff h]
  constructor <;> intro h' <;> linarith

end GstProofs.Poly
