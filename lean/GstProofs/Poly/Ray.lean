import GstProofs.Poly.EdgeStep

set_option linter.unusedSimpArgs false
set_option linter.unusedVariables false

/-! the half-open rule is the limit of the generic rightward ray from just below -/
namespace GstProofs.Poly
open GstVerif GstVerif.Poly

theorem halfOpen_symm (xx yy : Q) (a b : Pt) : halfOpen xx yy a b = halfOpen xx yy b a := by
  obtain ⟨x0, y0⟩ := a; obtain ⟨x1, y1⟩ := b
  rcases lt_trichotomy y0 y1 with h | h | h
  · simp [halfOpen, h, not_lt.mpr (le_of_lt h)]
  · subst h; simp [halfOpen]
  · simp [halfOpen, h, not_lt.mpr (le_of_lt h)]

theorem strictCross_symm (xx yy : Q) (a b : Pt) : strictCross xx yy a b = strictCross xx yy b a := by
  obtain ⟨x0, y0⟩ := a; obtain ⟨x1, y1⟩ := b
  rcases lt_trichotomy y0 y1 with h | h | h
  · simp [strictCross, h, not_lt.mpr (le_of_lt h)]
  · subst h; simp [strictCross]
  · simp [strictCross, h, not_lt.mpr (le_of_lt h)]

theorem onSegment_symm (xx yy : Q) (a b : Pt) : onSegment xx yy a b = onSegment xx yy b a := by
  obtain ⟨x0, y0⟩ := a; obtain ⟨x1, y1⟩ := b
  have e : ((xx - x0) * (y1 - y0) = (yy - y0) * (x1 - x0)) ↔
      ((xx - x1) * (y0 - y1) = (yy - y1) * (x0 - x1)) := by
    constructor <;> intro h <;> linarith
  rw [Bool.eq_iff_iff]
  simp only [onSegment, Bool.and_eq_true, decide_eq_true_eq, minQ_le_iff, le_maxQ_iff]
  rw [e]; tauto

/-- per edge (ascending): a positive ε₀ below which the perturbed strict crossing agrees -/
theorem ray_edge_asc (xx yy x0 y0 x1 y1 : Q) (h : y0 < y1)
    (hoff : onSegment xx yy (x0, y0) (x1, y1) = false) :
    ∃ e0 : Q, 0 < e0 ∧ ∀ e, 0 < e → e < e0 →
      halfOpen xx yy (x0, y0) (x1, y1) = strictCross xx (yy - e) (x0, y0) (x1, y1) := by
  rw [offSegment_iff] at hoff
  simp only [halfOpen, strictCross, h, if_true]
  by_cases c0 : yy ≤ y0
  · refine ⟨1, by norm_num, fun e he _ => ?_⟩
    have n1 : ¬ (y0 < yy) := by linarith
    have n2 : ¬ (y0 < yy - e) := by linarith
    simp [n1, n2]
  push Not at c0
  by_cases c1 : y1 < yy
  · refine ⟨yy - y1, by linarith, fun e he he' => ?_⟩
    have n1 : ¬ (yy ≤ y1) := by linarith
    have n2 : ¬ (yy - e < y1) := by linarith
    simp [n1, n2]
  push Not at c1
  -- y0 < yy ≤ y1 : the decision is the sign of g, which is non-zero off the segment
  have hg : (xx - x0) * (y1 - y0) ≠ (yy - y0) * (x1 - x0) := by
    intro hc; apply hoff
    refine ⟨hc, ?_, ?_, Or.inl (le_of_lt c0), Or.inr c1⟩
    · by_contra hcon; push Not at hcon; nlinarith [hcon.1, hcon.2]
    · by_contra hcon; push Not at hcon; nlinarith [hcon.1, hcon.2]
  set g : Q := (yy - y0) * (x1 - x0) - (xx - x0) * (y1 - y0) with hgdef
  have hg0 : g ≠ 0 := by intro hz; apply hg; linarith
  have habs : 0 < |g| := abs_pos.mpr hg0
  -- ε₀ = min (yy - y0) (|g| / (|x1 - x0| + 1))
  have hden : 0 < |x1 - x0| + 1 := by positivity
  refine ⟨min (yy - y0) (|g| / (|x1 - x0| + 1)), lt_min (by linarith) (div_pos habs hden), ?_⟩
  intro e he he'
  have e1 : e < yy - y0 := lt_of_lt_of_le he' (min_le_left _ _)
  have e2 : e < |g| / (|x1 - x0| + 1) := lt_of_lt_of_le he' (min_le_right _ _)
  have e3 : e * (|x1 - x0| + 1) < |g| := by rwa [lt_div_iff₀ hden] at e2
  have e4 : |e * (x1 - x0)| < |g| := by
    rw [abs_mul, abs_of_pos he]
    nlinarith [abs_nonneg (x1 - x0)]
  have p1 : y0 < yy - e := by linarith
  have p2 : yy - e < y1 := by linarith
  have key : ((xx - x0) * (y1 - y0) < (yy - y0) * (x1 - x0)) ↔
      ((xx - x0) * (y1 - y0) < (yy - e - y0) * (x1 - x0)) := by
    have hA : ((xx - x0) * (y1 - y0) < (yy - y0) * (x1 - x0)) ↔ 0 < g := by
      rw [hgdef]; constructor <;> intro hh <;> linarith
    have hB : ((xx - x0) * (y1 - y0) < (yy - e - y0) * (x1 - x0)) ↔ 0 < g - e * (x1 - x0) := by
      rw [hgdef]; constructor <;> intro hh <;> nlinarith
    rw [hA, hB]
    have := abs_lt.mp e4
    constructor
    · intro hp; rw [abs_of_pos hp] at this; linarith [this.2]
    · intro hp
      by_contra hn
      have hneg : g < 0 := lt_of_le_of_ne (not_lt.mp hn) hg0
      rw [abs_of_neg hneg] at this; linarith [this.1]
  simp only [c0, c1, p1, p2, true_and]
  exact decide_eq_decide.mpr key

theorem ray_edge (xx yy : Q) (a b : Pt) (hoff : onSegment xx yy a b = false) :
    ∃ e0 : Q, 0 < e0 ∧ ∀ e, 0 < e → e < e0 →
      halfOpen xx yy a b = strictCross xx (yy - e) a b := by
  obtain ⟨x0, y0⟩ := a; obtain ⟨x1, y1⟩ := b
  rcases lt_trichotomy y0 y1 with h | h | h
  · exact ray_edge_asc xx yy x0 y0 x1 y1 h hoff
  · subst h
    exact ⟨1, by norm_num, fun e _ _ => by simp [halfOpen, strictCross]⟩
  · rw [onSegment_symm] at hoff
    obtain ⟨e0, h0, hh⟩ := ray_edge_asc xx yy x1 y1 x0 y0 h hoff
    refine ⟨e0, h0, fun e he he' => ?_⟩
    rw [halfOpen_symm, strictCross_symm]
    exact hh e he he'

/-- whole vertex list -/
theorem ray_count : ∀ (pts : List Pt) (xx yy : Q), onBoundary xx yy pts = false →
    ∃ e0 : Q, 0 < e0 ∧ ∀ e, 0 < e → e < e0 →
      countEdges (halfOpen xx yy) pts = countEdges (strictCross xx (yy - e)) pts
  | [], _, _, _ => ⟨1, by norm_num, fun _ _ _ => rfl⟩
  | [_], _, _, _ => ⟨1, by norm_num, fun _ _ _ => rfl⟩
  | a :: b :: rest, xx, yy, hb => by
    simp only [onBoundary, Bool.or_eq_false_iff] at hb
    obtain ⟨e1, h1, hh1⟩ := ray_edge xx yy a b hb.1
    obtain ⟨e2, h2, hh2⟩ := ray_count (b :: rest) xx yy hb.2
    refine ⟨min e1 e2, lt_min h1 h2, fun e he he' => ?_⟩
    simp only [countEdges]
    rw [hh1 e he (lt_of_lt_of_le he' (min_le_left _ _)),
        hh2 e he (lt_of_lt_of_le he' (min_le_right _ _))]

/-- the loop of `PolyElem::inside` adds the half-open indicators -/
theorem loop_halfOpen : ∀ (pts : List Pt) (xx yy : Q) (inter : Nat), onBoundary xx yy pts = false →
    loopEdges xx yy inter pts = inter + countEdges (halfOpen xx yy) pts
  | [], _, _, _, _ => rfl
  | [_], _, _, _, _ => rfl
  | a :: b :: rest, xx, yy, inter, hb => by
    simp only [onBoundary, Bool.or_eq_false_iff] at hb
    simp only [loopEdges, countEdges]
    rw [edgeStep_halfOpen xx yy inter a b hb.1, loop_halfOpen (b :: rest) xx yy _ hb.2]
    omega

end GstProofs.Poly
