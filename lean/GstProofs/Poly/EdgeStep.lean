import GstProofs.Poly.Edge

set_option linter.unusedSimpArgs false
set_option linter.unusedVariables false

namespace GstProofs.Poly
open GstVerif GstVerif.Poly

theorem minQ_le_iff (a b x : Q) : minQ a b ≤ x ↔ (a ≤ x ∨ b ≤ x) := by
  unfold minQ; split <;> constructor <;> intro h
  · exact Or.inl h
  · rcases h with h | h <;> linarith
  · exact Or.inr h
  · rcases h with h | h <;> linarith

theorem le_maxQ_iff (a b x : Q) : x ≤ maxQ a b ↔ (x ≤ a ∨ x ≤ b) := by
  unfold maxQ; split <;> constructor <;> intro h
  · exact Or.inr h
  · rcases h with h | h <;> linarith
  · exact Or.inl h
  · rcases h with h | h <;> linarith

/-- Prop form of "the point is not on the closed segment" -/
theorem offSegment_iff (xx yy x0 y0 x1 y1 : Q) :
    onSegment xx yy (x0, y0) (x1, y1) = false ↔
      ¬ ((xx - x0) * (y1 - y0) = (yy - y0) * (x1 - x0) ∧
          (x0 ≤ xx ∨ x1 ≤ xx) ∧ (xx ≤ x0 ∨ xx ≤ x1) ∧ (y0 ≤ yy ∨ y1 ≤ yy) ∧ (yy ≤ y0 ∨ yy ≤ y1)) := by
  simp only [onSegment, Bool.and_eq_false_iff, decide_eq_false_iff_not, minQ_le_iff, le_maxQ_iff]
  tauto

/-- One edge, ascending case -/
theorem edgeStep_asc (xx yy x0 y0 x1 y1 : Q) (inter : Nat) (h : y0 < y1)
    (hoff : onSegment xx yy (x0, y0) (x1, y1) = false) :
    edgeStep xx yy inter (x0, y0) (x1, y1) =
      inter + (if halfOpen xx yy (x0, y0) (x1, y1) then 1 else 0) := by
  have hdy : 0 < y1 - y0 := by linarith
  have hdy' : y1 - y0 ≠ 0 := ne_of_gt hdy
  rw [offSegment_iff] at hoff
  have hx := @xinter_gt_pos x0 y0 x1 y1 xx yy hdy
  have he := @xinter_eq x0 y0 x1 y1 xx yy hdy'
  simp only [edgeStep, halfOpen, h, if_true, hdy', false_and, if_false, ne_eq, not_false_eq_true,
    true_and, gt_iff_lt] at hx ⊢
  -- position of yy relative to the edge
  rcases lt_trichotomy yy y0 with c0 | c0 | c0
  · -- below the edge
    have n1 : ¬ (y0 < yy) := by linarith
    have n2 : ¬ (yy = y0) := by linarith
    have n3 : ¬ (yy = y1) := by linarith
    simp [n1, n2, n3, not_lt.mpr (le_of_lt c0), show ¬ (y1 < yy) by linarith]
  · -- level with the low vertex
    subst c0
    have hne : ¬ (xx = x0) := by
      intro hxx; apply hoff; subst hxx
      exact ⟨by ring, Or.inl le_rfl, Or.inl le_rfl, Or.inl le_rfl, Or.inl le_rfl⟩
    simp [lt_irrefl, hne, show ¬ (yy = y1) by linarith, show ¬ (y1 < yy) by linarith,
      show ¬ (yy > y1) by linarith]
  · rcases lt_trichotomy yy y1 with c1 | c1 | c1
    · -- strictly between
      have hne : ¬ ((x1 - x0) * yy + (y1 - y0) * x0 - (x1 - x0) * y0) / (y1 - y0) = xx := by
        rw [he]; intro hc; apply hoff
        refine ⟨hc, ?_, ?_, Or.inl (le_of_lt c0), Or.inr (le_of_lt c1)⟩
        · by_contra hcon; push Not at hcon; nlinarith [hcon.1, hcon.2]
        · by_contra hcon; push Not at hcon; nlinarith [hcon.1, hcon.2]
      have s : (y0 > yy ∧ y1 < yy ∨ y0 < yy ∧ y1 > yy) := Or.inr ⟨c0, c1⟩
      simp only [s, true_and, hne, if_false, show ¬ (yy = y0) by linarith,
        show ¬ (yy = y1) by linarith, false_and, and_false]
      by_cases hh : xx < ((x1 - x0) * yy + (y1 - y0) * x0 - (x1 - x0) * y0) / (y1 - y0)
      · have := hx.mp hh
        simp [hh, this, c0, le_of_lt c1]
      · have : ¬ ((xx - x0) * (y1 - y0) < (yy - y0) * (x1 - x0)) := fun hcc => hh (hx.mpr hcc)
        simp [hh, this]
    · -- level with the high vertex
      subst c1
      have hne : ¬ (xx = x1) := by
        intro hxx; apply hoff; subst hxx
        exact ⟨by ring, Or.inr le_rfl, Or.inr le_rfl, Or.inr le_rfl, Or.inr le_rfl⟩
      have s : ¬ (y0 > yy ∧ yy < yy ∨ y0 < yy ∧ yy > yy) := by
        rintro (⟨_, hb⟩ | ⟨_, hb⟩) <;> exact lt_irrefl _ hb
      have hcr : ((xx - x0) * (yy - y0) < (yy - y0) * (x1 - x0)) ↔ xx < x1 := by
        constructor <;> intro hh <;> nlinarith
      simp only [s, false_and, if_false, show ¬ (yy = y0) by linarith, and_false, h, and_true,
        true_and, c0, le_refl, hcr]
      by_cases hh : xx < x1 <;> simp [hh]
    · -- above the edge
      simp [show ¬ (yy = y0) by linarith, show ¬ (yy = y1) by linarith,
        show ¬ (yy ≤ y1) by linarith, show ¬ (y1 > yy) by linarith, show ¬ (y0 > yy) by linarith]

/-- One edge, descending case -/
theorem edgeStep_desc (xx yy x0 y0 x1 y1 : Q) (inter : Nat) (h : y1 < y0)
    (hoff : onSegment xx yy (x0, y0) (x1, y1) = false) :
    edgeStep xx yy inter (x0, y0) (x1, y1) =
      inter + (if halfOpen xx yy (x0, y0) (x1, y1) then 1 else 0) := by
  have hdy : y1 - y0 < 0 := by linarith
  have hdy' : y1 - y0 ≠ 0 := ne_of_lt hdy
  have hna : ¬ (y0 < y1) := by linarith
  rw [offSegment_iff] at hoff
  have hx := @xinter_gt_neg x0 y0 x1 y1 xx yy hdy
  have he := @xinter_eq x0 y0 x1 y1 xx yy hdy'
  simp only [edgeStep, halfOpen, hna, h, if_true, hdy', false_and, if_false, ne_eq,
    not_false_eq_true, true_and, gt_iff_lt] at hx ⊢
  rcases lt_trichotomy yy y1 with c0 | c0 | c0
  · -- below the edge
    simp [show ¬ (y1 < yy) by linarith, show ¬ (yy = y0) by linarith, show ¬ (yy = y1) by linarith,
      show ¬ (y0 < yy) by linarith]
  · -- level with the low vertex (x1, y1)
    subst c0
    simp [lt_irrefl, show ¬ (yy = y0) by linarith, show ¬ (y0 < yy) by linarith]
  · rcases lt_trichotomy yy y0 with c1 | c1 | c1
    · -- strictly between
      have hne : ¬ ((x1 - x0) * yy + (y1 - y0) * x0 - (x1 - x0) * y0) / (y1 - y0) = xx := by
        rw [he]; intro hc; apply hoff
        refine ⟨hc, ?_, ?_, Or.inr (le_of_lt c0), Or.inl (le_of_lt c1)⟩
        · by_contra hcon; push Not at hcon; nlinarith [hcon.1, hcon.2]
        · by_contra hcon; push Not at hcon; nlinarith [hcon.1, hcon.2]
      have s : (y0 > yy ∧ y1 < yy ∨ y0 < yy ∧ y1 > yy) := Or.inl ⟨c1, c0⟩
      simp only [s, true_and, hne, if_false, show ¬ (yy = y0) by linarith,
        show ¬ (yy = y1) by linarith, false_and, and_false]
      by_cases hh : xx < ((x1 - x0) * yy + (y1 - y0) * x0 - (x1 - x0) * y0) / (y1 - y0)
      · have := hx.mp hh
        simp [hh, this, c0, le_of_lt c1]
      · have : ¬ ((xx - x1) * (y0 - y1) < (yy - y1) * (x0 - x1)) := fun hcc => hh (hx.mpr hcc)
        simp [hh, this]
    · -- level with the high vertex (x0, y0)
      subst c1
      have hne : ¬ (xx = x0) := by
        intro hxx; apply hoff; subst hxx
        exact ⟨by ring, Or.inl le_rfl, Or.inl le_rfl, Or.inl le_rfl, Or.inl le_rfl⟩
      have s : ¬ (yy > yy ∧ y1 < yy ∨ yy < yy ∧ y1 > yy) := by
        rintro (⟨hb, _⟩ | ⟨hb, _⟩) <;> exact lt_irrefl _ hb
      have hcr : ((xx - x1) * (yy - y1) < (yy - y1) * (x0 - x1)) ↔ xx < x0 := by
        constructor <;> intro hh <;> nlinarith
      simp only [s, false_and, if_false, and_false, h, and_true, true_and, c0, le_refl, hcr,
        show ¬ (yy = y1) by linarith, hne]
      by_cases hh : xx < x0 <;> simp [hh]
    · -- above the edge
      simp [show ¬ (yy = y0) by linarith, show ¬ (yy = y1) by linarith,
        show ¬ (yy ≤ y0) by linarith, show ¬ (y1 > yy) by linarith, show ¬ (y0 > yy) by linarith]

/-- One edge, horizontal case: never counted -/
theorem edgeStep_horiz (xx yy x0 y0 x1 : Q) (inter : Nat)
    (hoff : onSegment xx yy (x0, y0) (x1, y0) = false) :
    edgeStep xx yy inter (x0, y0) (x1, y0) =
      inter + (if halfOpen xx yy (x0, y0) (x1, y0) then 1 else 0) := by
  rw [offSegment_iff] at hoff
  simp only [edgeStep, halfOpen, lt_irrefl, if_false, sub_self, ne_eq, not_true_eq_false, false_and,
    true_and, gt_iff_lt, and_false, add_zero]
  by_cases hy : yy = y0
  · subst hy
    have h1 : ¬ (x0 < x1 ∧ x0 < xx ∧ xx < x1) := by
      rintro ⟨_, a, b⟩; apply hoff
      exact ⟨by ring, Or.inl (le_of_lt a), Or.inr (le_of_lt b), Or.inl le_rfl, Or.inl le_rfl⟩
    have h2 : ¬ (x1 < x0 ∧ xx < x0 ∧ x1 < xx) := by
      rintro ⟨_, a, b⟩; apply hoff
      exact ⟨by ring, Or.inr (le_of_lt b), Or.inl (le_of_lt a), Or.inl le_rfl, Or.inl le_rfl⟩
    have h3 : ¬ (xx = x0) := by
      intro hxx; apply hoff; subst hxx
      exact ⟨by ring, Or.inl le_rfl, Or.inl le_rfl, Or.inl le_rfl, Or.inl le_rfl⟩
    simp [h1, h2, h3]
  · simp [hy]

/-- **Edge lemma**: off the closed segment, the loop body adds exactly the half-open crossing
indicator; none of the three `inter = 1; continue` resets can fire. -/
theorem edgeStep_halfOpen (xx yy : Q) (inter : Nat) (a b : Pt)
    (hoff : onSegment xx yy a b = false) :
    edgeStep xx yy inter a b = inter + (if halfOpen xx yy a b then 1 else 0) := by
  obtain ⟨x0, y0⟩ := a
  obtain ⟨x1, y1⟩ := b
  rcases lt_trichotomy y0 y1 with h | h | h
  · exact edgeStep_asc xx yy x0 y0 x1 y1 inter h hoff
  · subst h; exact edgeStep_horiz xx yy x0 y0 x1 inter hoff
  · exact edgeStep_desc xx yy x0 y0 x1 y1 inter h hoff

end GstProofs.Poly
