import GstVerif.Grid.Model
import Mathlib.Tactic.Ring
import Mathlib.Tactic.Linarith
import Mathlib.Tactic.Positivity

/-! helper lemmas for C16: mixed-radix rank/indices, for every dimension -/
namespace GstProofs.Grid
open GstVerif.Grid

def allPos : List Int → Prop
  | [] => True
  | n :: nx => 0 < n ∧ allPos nx

theorem tdiv_eq_ediv {a b : Int} (ha : 0 ≤ a) : Int.tdiv a b = a / b :=
  Int.tdiv_eq_ediv_of_nonneg ha

theorem prodL_pos : ∀ nx, allPos nx → 0 < prodL nx
  | [], _ => by simp [prodL]
  | n :: nx, h => by
    have := prodL_pos nx h.2
    simp only [prodL]; exact Int.mul_pos h.1 this

/-- main invariant of the `rankToIndice` loop -/
theorem go_spec : ∀ (nx : List Int) (pre rank : Int), allPos nx → 0 < pre →
    0 ≤ rank → rank < pre * prodL nx →
    let r := rankToIndiceGo pre nx rank
    inRange nx r.1 = true ∧ 0 ≤ r.2 ∧ r.2 < pre ∧ rank = r.2 + pre * hornerRank nx r.1
  | [], pre, rank, _, _, h0, h1 => by
    simp [rankToIndiceGo, inRange, hornerRank, prodL] at *
    exact ⟨h0, h1⟩
  | n :: nx, pre, rank, hp, hpre, h0, h1 => by
    have hn : 0 < n := hp.1
    have hpn : 0 < pre * n := Int.mul_pos hpre hn
    have h1' : rank < pre * n * prodL nx := by
      simpa [prodL, Int.mul_assoc] using h1
    obtain ⟨ir, r0, r1, req⟩ := go_spec nx (pre * n) rank hp.2 hpn h0 h1'
    simp only [rankToIndiceGo]
    generalize rankToIndiceGo (pre * n) nx rank = res at ir r0 r1 req
    obtain ⟨inds, rk⟩ := res
    simp only at ir r0 r1 req ⊢
    rw [tdiv_eq_ediv r0]
    have hq0 : 0 ≤ rk / pre := Int.ediv_nonneg r0 (Int.le_of_lt hpre)
    have hq1 : rk / pre < n := by
      apply Int.ediv_lt_of_lt_mul hpre
      rw [Int.mul_comm]; exact r1
    have hmod := Int.ediv_mul_add_emod rk pre   -- rk / pre * pre + rk % pre = rk
    have hm0 := Int.emod_nonneg rk (Int.ne_of_gt hpre)
    have hm1 := Int.emod_lt_of_pos rk hpre
    have hrem : rk - rk / pre * pre = rk % pre := by omega
    refine ⟨?_, ?_, ?_, ?_⟩
    · simp [inRange, hq0, hq1, ir]
    · rw [hrem]; exact hm0
    · rw [hrem]; exact hm1
    · simp only [hornerRank]
      rw [req, hrem]
      have e1 : pre * (rk / pre + n * hornerRank nx inds)
          = rk / pre * pre + pre * n * hornerRank nx inds := by ring
      rw [e1]; omega

theorem go_inv : ∀ (nx ind : List Int) (pre rem : Int), allPos nx → 0 < pre →
    inRange nx ind = true → 0 ≤ rem → rem < pre →
    rankToIndiceGo pre nx (rem + pre * hornerRank nx ind) = (ind, rem)
  | [], [], pre, rem, _, _, _, _, _ => by simp [rankToIndiceGo, hornerRank]
  | [], _ :: _, _, _, _, _, h, _, _ => by simp [inRange] at h
  | _ :: _, [], _, _, _, _, h, _, _ => by simp [inRange] at h
  | n :: nx, i :: ind, pre, rem, hp, hpre, hr, h0, h1 => by
    simp only [inRange, Bool.and_eq_true, decide_eq_true_eq] at hr
    obtain ⟨⟨hi0, hi1⟩, hrest⟩ := hr
    have hn : 0 < n := hp.1
    have hpn : 0 < pre * n := Int.mul_pos hpre hn
    have e : rem + pre * hornerRank (n :: nx) (i :: ind)
        = (rem + pre * i) + (pre * n) * hornerRank nx ind := by
      simp only [hornerRank]; ring
    have b0 : 0 ≤ rem + pre * i := by positivity
    have b1 : rem + pre * i < pre * n := by nlinarith
    have ih := go_inv nx ind (pre * n) (rem + pre * i) hp.2 hpn hrest b0 b1
    simp only [rankToIndiceGo]
    rw [e, ih]
    simp only
    rw [tdiv_eq_ediv b0]
    have hq : (rem + pre * i) / pre = i := by
      rw [Int.add_mul_ediv_left _ _ (Int.ne_of_gt hpre)]
      rw [Int.ediv_eq_zero_of_lt h0 h1]; simp
    rw [hq]
    congr 1
    ring

end GstProofs.Grid
