import GstVerif.Trans.Model
import Mathlib.Algebra.Polynomial.Derivative
import Mathlib.Algebra.Polynomial.Eval.Defs
import Mathlib.Algebra.Polynomial.Basic
import Mathlib.Tactic.Ring
import Mathlib.Tactic.Linarith
/-!
# Hermite polynomials of the model: orthogonality for EVERY pair of degrees

The coefficient lists of `GstVerif.Trans` are read as polynomials of `ℤ[X]` (`toPoly`), the list operations
are the ring operations, the expectation of the model is the linear functional `E` sending `X^k` to the
Gaussian moment `(k-1)!!`.  `E` satisfies Stein's identity `E[X p] = E[p']`; with `He_{n+1} = X He_n − He_n'`
and `He_{n+1}' = (n+1) He_n` this gives `E[He_m He_n] = n! δ_mn` by induction — no bound on the degrees.
-/
namespace GstProofs.Trans
open GstVerif GstVerif.Trans Polynomial

/-- a coefficient list (lowest degree first) as a polynomial -/
noncomputable def toPoly : Poly → ℤ[X]
  | [] => 0
  | a :: p => C a + X * toPoly p

@[simp] theorem toPoly_nil : toPoly [] = 0 := rfl
@[simp] theorem toPoly_cons (a : Int) (p : Poly) : toPoly (a :: p) = C a + X * toPoly p := rfl

theorem toPoly_padd (p q : Poly) : toPoly (padd p q) = toPoly p + toPoly q := by
  induction p generalizing q with
  | nil => simp [padd]
  | cons a p ih =>
    cases q with
    | nil => simp [padd]
    | cons b q => simp only [padd, toPoly_cons, ih, C_add]; ring

theorem toPoly_pscale (c : Int) (p : Poly) : toPoly (pscale c p) = C c * toPoly p := by
  induction p with
  | nil => simp [pscale]
  | cons a p ih =>
    have : pscale c (a :: p) = (c * a) :: pscale c p := rfl
    rw [this, toPoly_cons, ih, toPoly_cons, C_mul]; ring

theorem toPoly_pshift (p : Poly) : toPoly (pshift p) = X * toPoly p := by simp [pshift]

theorem toPoly_pmul (p q : Poly) : toPoly (pmul p q) = toPoly p * toPoly q := by
  induction p with
  | nil => simp [pmul]
  | cons a p ih => simp only [pmul, toPoly_padd, toPoly_pscale, toPoly_pshift, ih, toPoly_cons]; ring

/-- `He_n` as a polynomial -/
noncomputable def H (n : Nat) : ℤ[X] := toPoly (hePoly n)

theorem H_zero : H 0 = 1 := by simp [H, hePoly]
theorem H_one : H 1 = X := by simp [H, hePoly]
theorem H_rec (n : Nat) : H (n + 2) = X * H (n + 1) - C ((n : ℤ) + 1) * H n := by
  simp only [H, hePoly, toPoly_padd, toPoly_pshift, toPoly_pscale, C_neg]; ring

/-- `He_{n+1}' = (n+1) He_n` -/
theorem H_deriv : ∀ n : Nat, derivative (H (n + 1)) = C ((n : ℤ) + 1) * H n ∧
    derivative (H (n + 2)) = C ((n : ℤ) + 2) * H (n + 1)
  | 0 => by
    constructor
    · simp [H_one, H_zero]
    · rw [H_rec, H_one, H_zero]; simp; ring
  | n + 1 => by
    obtain ⟨h1, h2⟩ := H_deriv n
    refine ⟨by push_cast; convert h2 using 2; ring_nf, ?_⟩
    rw [H_rec (n + 1), derivative_sub, derivative_mul, derivative_X, derivative_mul, derivative_C, h2, h1]
    have hr := H_rec n
    push_cast
    rw [hr]
    simp only [C_add, C_1, map_natCast, C_ofNat]
    ring

theorem H_deriv_succ (n : Nat) : derivative (H (n + 1)) = C ((n : ℤ) + 1) * H n := (H_deriv n).1

/-- `He_{n+1} = X He_n − He_n'` -/
theorem H_succ (n : Nat) : H (n + 1) = X * H n - derivative (H n) := by
  cases n with
  | zero => simp [H_one, H_zero]
  | succ n => rw [H_rec, H_deriv_succ]

/-- the expectation under the standard Gaussian law, as a linear functional on `ℤ[X]` -/
noncomputable def E : ℤ[X] →ₗ[ℤ] ℤ := Polynomial.lsum fun k => (gaussMoment k) • LinearMap.id

theorem E_monomial (k : Nat) (a : ℤ) : E (monomial k a) = gaussMoment k * a := by
  simp [E, Polynomial.lsum_apply, Polynomial.sum_monomial_index]

/-- Stein's identity -/
theorem E_stein (p : ℤ[X]) : E (X * p) = E (derivative p) := by
  induction p using Polynomial.induction_on' with
  | add p q hp hq => rw [mul_add, map_add, derivative_add, map_add, hp, hq]
  | monomial k a =>
    rw [X_mul_monomial, E_monomial, derivative_monomial, E_monomial]
    cases k with
    | zero => simp [gaussMoment]
    | succ j =>
      cases j with
      | zero => simp [gaussMoment]
      | succ i => simp only [gaussMoment, Nat.add_sub_cancel]; push_cast; ring

/-- integration by parts: `E[He_{n+1} q] = E[He_n q']` -/
theorem E_H_succ_mul (n : Nat) (q : ℤ[X]) : E (H (n + 1) * q) = E (H n * derivative q) := by
  have h1 : H (n + 1) * q = X * (H n * q) - derivative (H n) * q := by rw [H_succ]; ring
  rw [h1, map_sub, E_stein, derivative_mul, map_add]; ring

theorem fact_eq (n : Nat) : fact n = (n.factorial : ℤ) := by
  induction n with
  | zero => rfl
  | succ n ih => simp only [fact, ih, Nat.factorial_succ]; push_cast; ring

/-- **orthogonality for every pair of degrees** -/
theorem E_H_mul (m n : Nat) : E (H m * H n) = if m = n then fact n else 0 := by
  induction m generalizing n with
  | zero =>
    cases n with
    | zero => rw [H_zero, mul_one, ← monomial_zero_one, E_monomial]; simp [gaussMoment, fact]
    | succ k =>
      rw [mul_comm, E_H_succ_mul, H_zero]
      simp
  | succ m ih =>
    rw [E_H_succ_mul]
    cases n with
    | zero => simp [H_zero]
    | succ k =>
      rw [H_deriv_succ, mul_comm (C _), ← mul_assoc]
      have : H m * H k * C ((k : ℤ) + 1) = ((k : ℤ) + 1) • (H m * H k) := by
        rw [zsmul_eq_mul, mul_comm]; simp
      rw [this, map_smul, ih k]
      by_cases h : m = k
      · subst h; simp [fact]
      · have : ¬ (m + 1 = k + 1) := by omega
        simp [h]

/-- the list expectation of the model is `E` -/
theorem expectFrom (p : Poly) (s : Nat) :
    ((List.range p.length).map fun k => p.getD k 0 * gaussMoment (k + s)).sum = E (X ^ s * toPoly p) := by
  induction p generalizing s with
  | nil => simp
  | cons a p ih =>
    rw [List.length_cons, List.range_succ_eq_map, List.map_cons, List.sum_cons, List.map_map]
    have hf : ((fun k => (a :: p).getD k 0 * gaussMoment (k + s)) ∘ Nat.succ) =
        fun k => p.getD k 0 * gaussMoment (k + (s + 1)) := by
      funext k; simp only [Function.comp, Nat.succ_eq_add_one, List.getD_cons_succ]; congr 2; omega
    rw [hf, ih (s + 1), toPoly_cons, mul_add, map_add]
    congr 1
    · rw [← monomial_zero_left, ← monomial_one_right_eq_X_pow, monomial_mul_monomial, E_monomial]; simp; ring
    · congr 1; ring

theorem expect_eq (p : Poly) : expect p = E (toPoly p) := by
  have := expectFrom p 0
  simpa [expect] using this

end GstProofs.Trans
