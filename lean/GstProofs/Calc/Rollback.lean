import GstVerif.Calc.Model
import GstProofs.Db.Inv

set_option linter.unusedSimpArgs false
set_option linter.unusedVariables false

/-! C19: deleting the variables a calculator has created gives back the data base it started from -/
namespace GstProofs.Calc
open GstVerif GstVerif.Db GstVerif.Calc GstProofs.Db

theorem idxOf?_append_fresh (u : Nat) : ∀ (U N : List Nat), u ∉ U →
    idxOf? u (U ++ u :: N) = some U.length
  | [], N, _ => by simp [idxOf?]
  | x :: xs, N, h => by
    have hx : x ≠ u := fun e => h (e ▸ List.mem_cons_self)
    have ih := idxOf?_append_fresh u xs N (fun hm => h (List.mem_cons_of_mem _ hm))
    simp [idxOf?, hx, ih]

theorem eraseIdx_append_len {α} (A : List α) (b : α) (B : List α) :
    (A ++ b :: B).eraseIdx A.length = A ++ B := by
  induction A with
  | nil => rfl
  | cons a as ih => simp [ih]

theorem map_erase_fresh (u : Nat) : ∀ L : List (List Nat), u ∉ L.flatten → L.map (eraseFirst u) = L
  | [], _ => rfl
  | l :: L, h => by
    simp only [List.flatten_cons, List.mem_append, not_or] at h
    simp only [List.map_cons, eraseFirst]
    rw [List.erase_of_not_mem h.1]
    congr 1
    exact map_erase_fresh u L h.2

/-- shape of a data base to which the columns `N` (uids), `Nn` (names), `Cn` (values) were appended -/
def appended (s : State) (U : List Nat) (Nm : List String) (C : List (List Val)) (N : List Nat)
    (Nn : List String) (Cn : List (List Val)) : Prop :=
  s.uids = U ++ N ∧ s.names = Nm ++ Nn ∧ s.cols = C ++ Cn ∧
  Nm.length = U.length ∧ C.length = U.length ∧ Nn.length = N.length ∧ Cn.length = N.length

/-- **deleting the appended columns one after the other restores the original lists**, whatever
their number: roles are untouched because the new uids hold none -/
theorem deleteAll_appended : ∀ (N : List Nat) (Nn : List String) (Cn : List (List Val)) (s : State)
    (U : List Nat) (Nm : List String) (C : List (List Val)),
    appended s U Nm C N Nn Cn → (∀ u ∈ N, u ∉ U) → N.Nodup → (∀ u ∈ N, u < s.nextUid) →
    (∀ u ∈ N, u ∉ s.loc.flatten) →
    let r := deleteAll s N
    r.uids = U ∧ r.names = Nm ∧ r.cols = C ∧ r.loc = s.loc ∧ r.nech = s.nech
  | [], Nn, Cn, s, U, Nm, C, h, _, _, _, _ => by
    obtain ⟨h1, h2, h3, h4, h5, h6, h7⟩ := h
    have e1 : Nn = [] := List.length_eq_zero_iff.mp (by simpa using h6)
    have e2 : Cn = [] := List.length_eq_zero_iff.mp (by simpa using h7)
    subst e1 e2
    simp [deleteAll, h1, h2, h3]
  | u :: N, Nn, Cn, s, U, Nm, C, h, hf, hn, hlt, hloc => by
    obtain ⟨h1, h2, h3, h4, h5, h6, h7⟩ := h
    cases Nn with
    | nil => simp at h6
    | cons n Nn =>
    cases Cn with
    | nil => simp at h7
    | cons c Cn =>
    have huU : u ∉ U := hf u List.mem_cons_self
    have hval : uidValid s (u : Int) = true := by
      have := hlt u List.mem_cons_self
      simp [uidValid]; omega
    have hidx : idxOf? u s.uids = some U.length := by rw [h1]; exact idxOf?_append_fresh u U N huU
    have hstep : deleteByUid s (u : Int) =
        { s with uids := U ++ N, names := Nm ++ Nn, cols := C ++ Cn } := by
      unfold deleteByUid
      simp only [hval, Bool.not_true, Bool.false_eq_true, if_false, Int.toNat_natCast, hidx]
      rw [map_erase_fresh u s.loc (hloc u List.mem_cons_self)]
      rw [h1, h2, h3]
      rw [eraseIdx_append_len U u N]
      rw [show U.length = Nm.length from h4.symm, eraseIdx_append_len Nm n Nn]
      rw [show Nm.length = C.length by omega, eraseIdx_append_len C c Cn]
    simp only [deleteAll, List.foldl_cons]
    rw [hstep]
    have ih := deleteAll_appended N Nn Cn
      { s with uids := U ++ N, names := Nm ++ Nn, cols := C ++ Cn } U Nm C
      ⟨rfl, rfl, rfl, h4, h5, by simpa using h6, by simpa using h7⟩
      (fun v hv => hf v (List.mem_cons_of_mem _ hv)) (List.nodup_cons.mp hn).2
      (fun v hv => hlt v (List.mem_cons_of_mem _ hv))
      (fun v hv => hloc v (List.mem_cons_of_mem _ hv))
    simpa [deleteAll] using ih

end GstProofs.Calc
