import Mathlib.LinearAlgebra.Matrix.PosDef
import Mathlib.Data.Real.Star
import Mathlib.Analysis.Real.Sqrt
import Mathlib.Tactic.Linarith

/-! simple-kriging bound: with a positive semi-definite data covariance the kriging variance never
exceeds the a-priori variance, and is what `_estimateStdv` clips at zero -/
namespace GstProofs.Krig
open Matrix

variable {n : Type*} [Fintype n] [DecidableEq n]

theorem sk_variance_le (S : Matrix n n ℝ) (S0 : n → ℝ) (s00 : ℝ) (hS : S.PosSemidef) :
    s00 - S0 ⬝ᵥ (S⁻¹ *ᵥ S0) ≤ s00 := by
  have h := hS.inv.dotProduct_mulVec_nonneg S0
  simp only [star_trivial] at h
  linarith

/-- the standard deviation written by the library: `sqrt` of the variance clipped at 0 -/
noncomputable def stdevOf (v : ℝ) : ℝ := if v > 0 then Real.sqrt v else 0

theorem stdev_nonneg (v : ℝ) : 0 ≤ stdevOf v := by
  unfold stdevOf; split
  · exact Real.sqrt_nonneg v
  · exact le_refl 0

theorem stdev_sq (v : ℝ) (hv : 0 < v) : stdevOf v ^ 2 = v := by
  unfold stdevOf; simp [hv, Real.sq_sqrt (le_of_lt hv)]

end GstProofs.Krig
