import GstVerif.Krig.Model
import GstProofs.LinAlg.Bridge

/-! entries of the model's full and compressed kriging systems (index theorems, all sizes) -/
namespace GstProofs.Krig
open GstVerif GstVerif.LinAlg GstVerif.Krig GstProofs.LinAlg

/-- data/data block of `lhsFull`: covariance oracle plus the measurement-error variance on the
diagonal when it is defined and positive -/
theorem lhsFull_data (k : KIn) (p q : Nat) (hp : p < nd k) (hq : q < nd k) :
    (lhsFull k).get p q = k.C.get p q + (if p = q then verrAdd k p else 0) := by
  unfold lhsFull
  rw [get_ofFn _ _ _ _ _ (by unfold neq; omega) (by unfold neq; omega)]
  simp only [hp, hq, and_self, if_true]

/-- data/drift block: the drift function of the datum's own variable, zero for the others -/
theorem lhsFull_drift (k : KIn) (p ib : Nat) (hp : p < nd k) (hb : ib < nfeq k) :
    (lhsFull k).get p (nd k + ib) = driftLhs k p ib ∧ (lhsFull k).get (nd k + ib) p = driftLhs k p ib := by
  unfold lhsFull
  constructor
  · rw [get_ofFn _ _ _ _ _ (by unfold neq; omega) (by unfold neq; omega)]
    simp [hp]
  · rw [get_ofFn _ _ _ _ _ (by unfold neq; omega) (by unfold neq; omega)]
    simp [hp]

/-- drift/drift block is zero -/
theorem lhsFull_zero (k : KIn) (a b : Nat) (ha : a < nfeq k) (hb : b < nfeq k) :
    (lhsFull k).get (nd k + a) (nd k + b) = 0 := by
  unfold lhsFull
  rw [get_ofFn _ _ _ _ _ (by unfold neq; omega) (by unfold neq; omega)]
  simp

/-- the full system is symmetric whenever the covariance oracle is -/
theorem lhsFull_symm (k : KIn) (hC : ∀ p q, k.C.get p q = k.C.get q p) (p q : Nat)
    (hp : p < neq k) (hq : q < neq k) : (lhsFull k).get p q = (lhsFull k).get q p := by
  unfold lhsFull
  rw [get_ofFn _ _ _ _ _ hp hq, get_ofFn _ _ _ _ _ hq hp]
  by_cases h1 : p < nd k <;> by_cases h2 : q < nd k <;> simp [h1, h2]
  · rw [hC p q]
    by_cases e : p = q
    · subst e; rfl
    · simp [e, Ne.symm e]

/-- compression (`_lhsIsoToHetero`, `_rhsIsoToHetero`): entry (i,j) of the compressed system is the
entry of the full system at the i-th and j-th kept equations — the heterotopic system is the
documented block system restricted to the defined (sample, variable) pairs, in the code's order -/
theorem lhsC_entry (k : KIn) (i j : Nat) (hi : i < (kept k).length) (hj : j < (kept k).length) :
    (lhsC k).get i j = (lhsFull k).get ((kept k).getD i 0) ((kept k).getD j 0) := by
  unfold lhsC Mat.sub
  rw [get_ofFn _ _ _ _ _ hi hj]

theorem rhsC_entry (k : KIn) (i a : Nat) (hi : i < (kept k).length) (ha : a < k.nvar) :
    (rhsC k).get i a = (rhsFull k).get ((kept k).getD i 0) a := by
  unfold rhsC Mat.sub
  rw [get_ofFn _ _ _ _ _ hi (by simpa using ha)]
  simp [List.getD, ha]

/-- kept equations are exactly the flagged ones, in increasing order -/
theorem kept_spec (k : KIn) (p : Nat) : p ∈ kept k ↔ (p < neq k ∧ (flags k).getD p false = true) := by
  unfold kept
  simp [List.mem_filter]

end GstProofs.Krig
