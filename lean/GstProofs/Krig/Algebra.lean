import Mathlib.LinearAlgebra.Matrix.NonsingularInverse
import Mathlib.Data.Matrix.Block
import Mathlib.Tactic.Ring
import Mathlib.Tactic.Linarith

/-! Algebra of the kriging system (C01, C02, C04): any field, any number of data `n` and drift
equations `p`.  `A = [Σ X; Xᵀ 0]`, `rhs = [Σ0; X0]`, `w = [λ; ν]` (`ν = −μ` in Kriging.md). -/
set_option linter.unusedSectionVars false

namespace GstProofs.Krig
open Matrix

variable {K : Type*} [Field K] {n p : Type*} [Fintype n] [Fintype p] [DecidableEq n] [DecidableEq p]

/-- the block system `[Σ X; Xᵀ 0]·[λ; ν] = [Σ0; X0]` is the pair of kriging equations -/
theorem block_system (S : Matrix n n K) (X : Matrix n p K) (lam S0 : n → K) (nu X0 : p → K) :
    (fromBlocks S X Xᵀ 0) *ᵥ (Sum.elim lam nu) = Sum.elim S0 X0 ↔
      (S *ᵥ lam + X *ᵥ nu = S0 ∧ Xᵀ *ᵥ lam = X0) := by
  rw [fromBlocks_mulVec]
  simp only [Sum.elim_comp_inl, Sum.elim_comp_inr, zero_mulVec, add_zero]
  constructor
  · intro h
    exact ⟨by simpa using congrArg (fun f => f ∘ Sum.inl) h, by simpa using congrArg (fun f => f ∘ Sum.inr) h⟩
  · rintro ⟨h1, h2⟩; rw [h1, h2]

/-- uniqueness: with an invertible system matrix the weights are `A⁻¹·rhs` -/
theorem solution_unique {m : Type*} [Fintype m] [DecidableEq m] (A : Matrix m m K) (w b : m → K)
    (hA : IsUnit A.det) (h : A *ᵥ w = b) : w = A⁻¹ *ᵥ b := by
  rw [← h, mulVec_mulVec, nonsing_inv_mul A hA, one_mulVec]

/-- dual = primal: `rhsᵀ·(A⁻¹ z) = (A⁻¹ rhs)ᵀ·z` for a symmetric system matrix -/
theorem dual_primal {m : Type*} [Fintype m] [DecidableEq m] (A : Matrix m m K) (b z : m → K)
    (hs : Aᵀ = A) : b ⬝ᵥ (A⁻¹ *ᵥ z) = (A⁻¹ *ᵥ b) ⬝ᵥ z := by
  have hi : (A⁻¹)ᵀ = A⁻¹ := by rw [transpose_nonsing_inv, hs]
  rw [dotProduct_mulVec, ← hi, vecMul_transpose, dotProduct_comm (A⁻¹ *ᵥ b) z, dotProduct_comm]
  rw [hi]

/-- the returned variance `σ0² − rhsᵀw` is the variance of the estimation error
`σ0² − 2λᵀΣ0 + λᵀΣλ` when the kriging equations hold; and `rhs_dᵀλ − X0ᵀν = λᵀΣλ` (variance of
the estimator, `_estimateVarZ`) -/
theorem variance_forms (S : Matrix n n K) (X : Matrix n p K) (lam S0 : n → K) (nu X0 : p → K)
    (s00 : K) (h1 : S *ᵥ lam + X *ᵥ nu = S0) (h2 : Xᵀ *ᵥ lam = X0) :
    s00 - (S0 ⬝ᵥ lam + X0 ⬝ᵥ nu) = s00 - 2 * (lam ⬝ᵥ S0) + lam ⬝ᵥ (S *ᵥ lam) ∧
    S0 ⬝ᵥ lam - X0 ⬝ᵥ nu = lam ⬝ᵥ (S *ᵥ lam) := by
  have e : lam ⬝ᵥ (S *ᵥ lam) = lam ⬝ᵥ S0 - X0 ⬝ᵥ nu := by
    have : S *ᵥ lam = S0 - X *ᵥ nu := by rw [← h1]; simp
    rw [this, dotProduct_sub, ← h2]
    congr 1
    rw [dotProduct_mulVec, mulVec_transpose, dotProduct_comm]
  constructor
  · rw [e, dotProduct_comm S0 lam]; ring
  · rw [e, dotProduct_comm S0 lam]

/-- unbiasedness / drift reproduction: adding `X·β` to the data adds `X0·β` to the estimate -/
theorem drift_shift (X : Matrix n p K) (lam z : n → K) (X0 beta : p → K) (h2 : Xᵀ *ᵥ lam = X0) :
    lam ⬝ᵥ (z + X *ᵥ beta) = lam ⬝ᵥ z + X0 ⬝ᵥ beta := by
  rw [dotProduct_add, ← h2]
  congr 1
  rw [dotProduct_mulVec, mulVec_transpose]

/-- linearity of the estimate in the data -/
theorem estimate_linear (lam z1 z2 : n → K) (a b : K) :
    lam ⬝ᵥ (a • z1 + b • z2) = a * (lam ⬝ᵥ z1) + b * (lam ⬝ᵥ z2) := by
  simp [dotProduct_add, dotProduct_smul]

/-- exactness: when the right-hand side is the `i`-th column of the system matrix (target = datum
`i`, same drift values, no extra error variance) the weights are the indicator of `i` -/
theorem exact_weights {m : Type*} [Fintype m] [DecidableEq m] (A : Matrix m m K) (i : m)
    (hA : IsUnit A.det) : A⁻¹ *ᵥ (fun j => A j i) = Pi.single i 1 := by
  have : (fun j => A j i) = A *ᵥ (Pi.single i 1) := by
    ext j; simp [mulVec, dotProduct, Pi.single_apply]
  rw [this, mulVec_mulVec, nonsing_inv_mul A hA, one_mulVec]

/-- … hence the estimate is the datum and the variance `σ0² − rhs_i` vanishes when `σ0² = A_ii` -/
theorem exact_estimate {m : Type*} [Fintype m] [DecidableEq m] (z : m → K) (i : m) :
    (Pi.single i (1 : K)) ⬝ᵥ z = z i := by
  simp [dotProduct, Pi.single_apply]

/-- relabelling: conjugating the system by a permutation permutes the weights -/
theorem perm_weights {m : Type*} [Fintype m] [DecidableEq m] (A : Matrix m m K) (b w : m → K)
    (e : m ≃ m) (h : A *ᵥ w = b) :
    (A.submatrix e e) *ᵥ (w ∘ e) = b ∘ e := by
  ext i
  simp only [mulVec, dotProduct, submatrix_apply, Function.comp]
  rw [← h]
  simp only [mulVec, dotProduct]
  exact Equiv.sum_comp e (fun j => A (e i) j * w j)

theorem perm_estimate {m : Type*} [Fintype m] (w z : m → K) (e : m ≃ m) :
    (w ∘ e) ⬝ᵥ (z ∘ e) = w ⬝ᵥ z := by
  simp only [dotProduct, Function.comp]
  exact Equiv.sum_comp e (fun j => w j * z j)

end GstProofs.Krig
