import GstProofs.Neigh.Lemmas

set_option linter.unusedVariables false
set_option linter.unusedSimpArgs false

/-! Fairness of the round-robin quotas of `NeighMoving::_movingSelect` (C06): at every moment the
quota of a sector is `min(count, L)` or `min(count, L+1)` for one common level `L`, the sectors
already visited in the current pass being one step ahead.  Hence two sectors never differ by more
than one sample unless the poorer one is exhausted, and earlier sectors are served first. -/
namespace GstProofs.Neigh
open GstVerif GstVerif.Neigh

/-- state in the middle of pass `L+1`: the first `k` sectors have been visited -/
def Mid (counts : List Nat) (L k : Nat) (q : List Nat) : Prop :=
  q.length = counts.length ∧
  ∀ i, i < q.length → q.getD i 0 = if i < k then min (counts.getD i 0) (L + 1) else min (counts.getD i 0) L

/-- one pass started at level `L` on the suffix beginning at sector `s` -/
theorem servePass_level (nmaxi : Nat) (counts : List Nat) (L : Nat) : ∀ (s : Nat) (qs : List Nat) (number : Nat),
    (∀ i, i < qs.length → qs.getD i 0 = min (counts.getD (s + i) 0) L) →
    ∃ k, k ≤ qs.length ∧
      (servePass nmaxi counts s qs number).1.length = qs.length ∧
      (∀ i, i < qs.length → (servePass nmaxi counts s qs number).1.getD i 0
          = if i < k then min (counts.getD (s + i) 0) (L + 1) else min (counts.getD (s + i) 0) L) ∧
      (k < qs.length → (servePass nmaxi counts s qs number).2 ≥ nmaxi)
  | s, [], number, _ => ⟨0, by simp [servePass]⟩
  | s, q :: qs, number, hq => by
    have hq0 : q = min (counts.getD s 0) L := by simpa using hq 0 (by simp)
    have hqs : ∀ i, i < qs.length → qs.getD i 0 = min (counts.getD (s + 1 + i) 0) L := by
      intro i hi
      have := hq (i + 1) (by simpa using hi)
      simpa [Nat.add_assoc, Nat.add_comm 1 i] using this
    simp only [servePass]
    split
    · -- the quota is already reached: nothing changes
      rename_i hfull
      refine ⟨0, by simp, rfl, ?_, fun _ => hfull⟩
      intro i hi
      simp only [Nat.not_lt_zero, if_false]
      exact hq i hi
    · rename_i hn
      split
      · -- sector exhausted: its quota is its count, at level L and at level L+1 alike
        rename_i hex
        obtain ⟨k, hk, hl, hv, hstop⟩ := servePass_level nmaxi counts L (s + 1) qs number hqs
        refine ⟨k + 1, by simp; omega, by simp [hl], ?_, ?_⟩
        · intro i hi
          cases i with
          | zero =>
            simp only [List.getD_cons_zero, Nat.zero_lt_succ, if_true, Nat.add_zero]
            omega
          | succ i =>
            have := hv i (by simpa using hi)
            simp only [List.getD_cons_succ, Nat.add_lt_add_iff_right]
            rw [this]
            simp [Nat.add_assoc, Nat.add_comm 1 i]
        · intro hlt
          exact hstop (by simp at hlt; omega)
      · -- one more sample for this sector
        rename_i hlt
        obtain ⟨k, hk, hl, hv, hstop⟩ := servePass_level nmaxi counts L (s + 1) qs (number + 1) hqs
        refine ⟨k + 1, by simp; omega, by simp [hl], ?_, ?_⟩
        · intro i hi
          cases i with
          | zero =>
            simp only [List.getD_cons_zero, Nat.zero_lt_succ, if_true, Nat.add_zero]
            omega
          | succ i =>
            have := hv i (by simpa using hi)
            simp only [List.getD_cons_succ, Nat.add_lt_add_iff_right]
            rw [this]
            simp [Nat.add_assoc, Nat.add_comm 1 i]
        · intro hlt'
          exact hstop (by simp at hlt'; omega)

theorem quotaLoop_full (nmaxi : Nat) (counts : List Nat) (fuel : Nat) (q : List Nat) (number : Nat)
    (h : number ≥ nmaxi) : quotaLoop nmaxi counts fuel q number = q := by
  cases fuel with
  | zero => rfl
  | succ f => simp [quotaLoop, h]

/-- the loop started at a full level ends in the middle of some pass -/
theorem quotaLoop_level (nmaxi : Nat) (counts : List Nat) : ∀ (fuel L : Nat) (q : List Nat) (number : Nat),
    Mid counts L 0 q → ∃ L' k, Mid counts L' k (quotaLoop nmaxi counts fuel q number)
  | 0, L, q, number, h => ⟨L, 0, h⟩
  | fuel+1, L, q, number, h => by
    simp only [quotaLoop]
    split
    · exact ⟨L, 0, h⟩
    · obtain ⟨hlen, hv⟩ := h
      have hq : ∀ i, i < q.length → q.getD i 0 = min (counts.getD (0 + i) 0) L := by
        intro i hi
        have := hv i hi
        simpa using this
      obtain ⟨k, hk, hl, hval, hstop⟩ := servePass_level nmaxi counts L 0 q number hq
      generalize hres : servePass nmaxi counts 0 q number = res at hl hval hstop
      obtain ⟨q', n'⟩ := res
      simp only at hl hval hstop ⊢
      by_cases hkl : k < q.length
      · -- stopped inside the pass: the loop ends here
        rw [quotaLoop_full nmaxi counts fuel q' n' (hstop hkl)]
        exact ⟨L, k, by omega, fun i hi => by simpa using hval i (by omega)⟩
      · -- the pass went through every sector: level L + 1
        have hk' : k = q.length := by omega
        apply quotaLoop_level nmaxi counts fuel (L + 1) q' n'
        refine ⟨by omega, ?_⟩
        intro i hi
        have := hval i (by omega)
        simp only [Nat.zero_add] at this
        rw [this]
        have : i < k := by omega
        simp [this]

/-- **fairness** of the quotas: some level `L` and position `k` describe them entirely -/
theorem quotas_level (nmaxi : Nat) (counts : List Nat) : ∃ L k, Mid counts L k (quotas nmaxi counts) := by
  unfold quotas
  apply quotaLoop_level nmaxi counts (nmaxi + 1) 0
  refine ⟨by simp, ?_⟩
  intro i hi
  simp only [Nat.not_lt_zero, if_false, Nat.min_zero]
  simp only [List.getD_eq_getElem?_getD, List.getElem?_map]
  cases counts[i]? <;> simp

/-- two sectors never differ by more than one sample unless the poorer one is exhausted -/
theorem quotas_fair (nmaxi : Nat) (counts : List Nat) (i j : Nat) (hi : i < counts.length) (hj : j < counts.length)
    (h : (quotas nmaxi counts).getD i 0 + 2 ≤ (quotas nmaxi counts).getD j 0) :
    (quotas nmaxi counts).getD i 0 = counts.getD i 0 := by
  obtain ⟨L, k, hlen, hv⟩ := quotas_level nmaxi counts
  have vi := hv i (by omega)
  have vj := hv j (by omega)
  rw [vi, vj] at h
  rw [vi]
  split at h <;> split at h <;> split <;> omega

/-- earlier sectors are served first: a later sector never holds more than an earlier one that is not
exhausted -/
theorem quotas_order (nmaxi : Nat) (counts : List Nat) (i j : Nat) (hij : i < j) (hj : j < counts.length)
    (h : (quotas nmaxi counts).getD i 0 < (quotas nmaxi counts).getD j 0) :
    (quotas nmaxi counts).getD i 0 = counts.getD i 0 := by
  obtain ⟨L, k, hlen, hv⟩ := quotas_level nmaxi counts
  have vi := hv i (by omega)
  have vj := hv j (by omega)
  rw [vi, vj] at h
  rw [vi]
  split at h <;> split at h <;> split <;> omega

/-! ### the quotas add up to `nmaxi` (the `while` loop of the C++ terminates) whenever enough candidates exist -/

theorem exists_lt_of_sum_lt : ∀ (q c : List Nat), q.length = c.length →
    (∀ i, i < q.length → q.getD i 0 ≤ c.getD i 0) → q.sum < c.sum → ∃ i, i < q.length ∧ q.getD i 0 < c.getD i 0
  | [], [], _, _, h => by simp at h
  | [], _ :: _, hl, _, _ => by simp at hl
  | _ :: _, [], hl, _, _ => by simp at hl
  | a :: q, b :: c, hl, hle, hs => by
    by_cases hab : a < b
    · exact ⟨0, by simp, by simpa using hab⟩
    · have h0 : a ≤ b := by simpa using hle 0 (by simp)
      have hab' : a = b := by omega
      have hs' : q.sum < c.sum := by simp only [List.sum_cons] at hs; omega
      obtain ⟨i, hi, hv⟩ := exists_lt_of_sum_lt q c (by simpa using hl)
        (fun i hi => by simpa using hle (i + 1) (by simpa using hi)) hs'
      exact ⟨i + 1, by simpa using hi, by simpa using hv⟩

/-- a pass that starts below `nmaxi` with a sector not yet exhausted serves at least one sample -/
theorem servePass_progress (nmaxi : Nat) (counts : List Nat) : ∀ (s : Nat) (qs : List Nat) (number : Nat),
    number < nmaxi → (∃ i, i < qs.length ∧ qs.getD i 0 < counts.getD (s + i) 0) →
    number < (servePass nmaxi counts s qs number).2
  | s, [], number, _, ⟨i, hi, _⟩ => by simp at hi
  | s, q :: qs, number, hn, ⟨i, hi, hv⟩ => by
    simp only [servePass]
    split
    · omega
    · split
      · rename_i hex
        cases i with
        | zero => simp only [List.getD_cons_zero, Nat.add_zero] at hv; omega
        | succ i =>
          apply servePass_progress nmaxi counts (s + 1) qs number hn
          refine ⟨i, by simpa using hi, ?_⟩
          simpa [Nat.add_assoc, Nat.add_comm 1 i] using hv
      · -- served: the count of samples only grows afterwards
        have mono : ∀ (s : Nat) (qs : List Nat) (number : Nat), number ≤ (servePass nmaxi counts s qs number).2 := by
          intro s qs
          induction qs generalizing s with
          | nil => intro number; simp [servePass]
          | cons a as ih =>
            intro number
            simp only [servePass]
            split
            · exact le_refl _
            · split
              · exact ih (s + 1) number
              · exact le_trans (Nat.le_succ _) (ih (s + 1) (number + 1))
        have := mono (s + 1) qs (number + 1)
        omega

theorem quotaLoop_total (nmaxi : Nat) (counts : List Nat) (hc : nmaxi ≤ counts.sum) :
    ∀ (fuel : Nat) (q : List Nat) (number : Nat),
    q.length = counts.length → (∀ i, i < q.length → q.getD i 0 ≤ counts.getD i 0) →
    number = q.sum → number ≤ nmaxi → nmaxi ≤ number + fuel →
    (quotaLoop nmaxi counts fuel q number).sum = nmaxi
  | 0, q, number, hl, hq, hs, hn, hf => by
    simp only [quotaLoop]; omega
  | fuel+1, q, number, hl, hq, hs, hn, hf => by
    simp only [quotaLoop]
    split
    · omega
    · rename_i hlt
      have sp := servePass_spec nmaxi counts 0 q number (by simpa using hq)
      obtain ⟨l, b, e, m, u⟩ := sp
      have hex : ∃ i, i < q.length ∧ q.getD i 0 < counts.getD (0 + i) 0 := by
        obtain ⟨i, hi, hv⟩ := exists_lt_of_sum_lt q counts hl hq (by omega)
        exact ⟨i, hi, by simpa using hv⟩
      have prog := servePass_progress nmaxi counts 0 q number (by omega) hex
      generalize servePass nmaxi counts 0 q number = res at l b e m u prog
      obtain ⟨q', n'⟩ := res
      simp only at l b e m u prog ⊢
      apply quotaLoop_total nmaxi counts hc fuel q' n' (by omega)
      · intro i hi
        have := (b i (by omega)).2
        simpa using this
      · omega
      · exact u hn
      · omega

/-- with at least `nmaxi` candidates the quotas add up to exactly `nmaxi` -/
theorem quotas_total (nmaxi : Nat) (counts : List Nat) (hc : nmaxi ≤ counts.sum) :
    (quotas nmaxi counts).sum = nmaxi := by
  unfold quotas
  apply quotaLoop_total nmaxi counts hc (nmaxi + 1) _ 0 (by simp)
  · intro i hi
    have : (counts.map fun _ => 0).getD i 0 = 0 := by
      simp only [List.getD_eq_getElem?_getD, List.getElem?_map]
      cases counts[i]? <;> simp
    omega
  · simp
  · omega
  · omega

end GstProofs.Neigh
