import GstVerif.Neigh.Model
import Mathlib.Tactic.Linarith
import Mathlib.Data.List.Sort

set_option linter.unusedSimpArgs false
set_option linter.unusedVariables false

/-! lemmas on the moving-neighbourhood model (C06) -/
namespace GstProofs.Neigh
open GstVerif GstVerif.Neigh

/-! ### sorting by distance -/

theorem insertByDist_perm (c : Cand) : ∀ l, (insertByDist c l).Perm (c :: l)
  | [] => List.Perm.refl _
  | x :: xs => by
    simp only [insertByDist]
    split
    · exact List.Perm.refl _
    · exact (List.Perm.cons x (insertByDist_perm c xs)).trans (List.Perm.swap c x xs)

theorem sortByDist_perm : ∀ l, (sortByDist l).Perm l
  | [] => List.Perm.refl _
  | c :: cs => (insertByDist_perm c (sortByDist cs)).trans (List.Perm.cons c (sortByDist_perm cs))

def SortedD (l : List Cand) : Prop := l.Pairwise (fun a b => a.dist ≤ b.dist)

theorem insertByDist_sorted (c : Cand) : ∀ l, SortedD l → SortedD (insertByDist c l)
  | [], _ => by simp [insertByDist, SortedD]
  | x :: xs, h => by
    simp only [insertByDist]
    unfold SortedD at h ⊢
    rw [List.pairwise_cons] at h
    split
    · rename_i hlt
      rw [List.pairwise_cons]
      refine ⟨?_, List.pairwise_cons.mpr h⟩
      intro b hb
      rcases List.mem_cons.mp hb with rfl | hb
      · exact le_of_lt hlt
      · exact le_trans (le_of_lt hlt) (h.1 b hb)
    · rename_i hge
      rw [List.pairwise_cons]
      refine ⟨?_, insertByDist_sorted c xs h.2⟩
      intro b hb
      have hb' := (insertByDist_perm c xs).subset hb
      rcases List.mem_cons.mp hb' with rfl | hb'
      · exact not_lt.mp hge
      · exact h.1 b hb'

theorem sortByDist_sorted : ∀ l, SortedD (sortByDist l)
  | [] => by simp [sortByDist, SortedD]
  | c :: cs => insertByDist_sorted c _ (sortByDist_sorted cs)

/-! ### per-sector truncation -/

theorem capSectors_sublist (nsmax : Nat) : ∀ (l : List Cand) (cnt : List Nat),
    (capSectors nsmax l cnt).Sublist l
  | [], _ => by simp [capSectors]
  | c :: cs, cnt => by
    simp only [capSectors]
    split
    · exact (capSectors_sublist nsmax cs _).cons_cons c
    · exact (capSectors_sublist nsmax cs cnt).cons c

theorem takeQuota_sublist (q : List Nat) : ∀ (l : List Cand) (cnt : List Nat),
    (takeQuota q l cnt).Sublist l
  | [], _ => by simp [takeQuota]
  | c :: cs, cnt => by
    simp only [takeQuota]
    split
    · exact (takeQuota_sublist q cs _).cons_cons c
    · exact (takeQuota_sublist q cs cnt).cons c

/-! ### the round-robin quota loop -/

def lePointwise : List Nat → List Nat → Prop
  | [], [] => True
  | a :: as, b :: bs => a ≤ b ∧ lePointwise as bs
  | _, _ => False

/-- one pass: quotas only grow, stay below the counts of the sectors they belong to, and the number
served grows by exactly the total increase -/
theorem servePass_spec (nmaxi : Nat) (counts : List Nat) : ∀ (s : Nat) (q : List Nat) (number : Nat),
    (∀ i, i < q.length → q.getD i 0 ≤ counts.getD (s + i) 0) →
    let r := servePass nmaxi counts s q number
    r.1.length = q.length ∧
    (∀ i, i < q.length → q.getD i 0 ≤ r.1.getD i 0 ∧ r.1.getD i 0 ≤ counts.getD (s + i) 0) ∧
    r.2 + q.sum = number + r.1.sum ∧ number ≤ r.2 ∧ (number ≤ nmaxi → r.2 ≤ nmaxi)
  | s, [], number, _ => by simp [servePass]
  | s, q :: qs, number, hq => by
    have hq0 : q ≤ counts.getD s 0 := by simpa using hq 0 (by simp)
    have hqs : ∀ i, i < qs.length → qs.getD i 0 ≤ counts.getD (s + 1 + i) 0 := by
      intro i hi
      have := hq (i + 1) (by simpa using hi)
      simpa [Nat.add_assoc, Nat.add_comm 1 i] using this
    simp only [servePass]
    split
    · -- already full
      refine ⟨rfl, fun i hi => ⟨le_refl _, hq i hi⟩, by simp, le_refl _, fun h => h⟩
    · rename_i hn
      split
      · -- sector exhausted
        have ih := servePass_spec nmaxi counts (s + 1) qs number hqs
        obtain ⟨l, b, e, m, u⟩ := ih
        refine ⟨by simp [l], ?_, by simp only [List.sum_cons]; omega, m, u⟩
        intro i hi
        cases i with
        | zero => simpa using hq0
        | succ i =>
          have := b i (by simpa using hi)
          simpa [Nat.add_assoc, Nat.add_comm 1 i] using this
      · rename_i hlt
        have ih := servePass_spec nmaxi counts (s + 1) qs (number + 1) hqs
        obtain ⟨l, b, e, m, u⟩ := ih
        refine ⟨by simp [l], ?_, by simp only [List.sum_cons]; omega, by omega, fun h => u (by omega)⟩
        intro i hi
        cases i with
        | zero =>
          have h1 : counts.getD (s + 0) 0 = counts.getD s 0 := by rw [Nat.add_zero]
          rw [h1]
          simp only [List.getD_cons_zero]
          omega
        | succ i =>
          have := b i (by simpa using hi)
          simpa [Nat.add_assoc, Nat.add_comm 1 i] using this

/-- loop invariant: `number = Σ q`, `q ≤ counts`, `number ≤ nmaxi` -/
theorem quotaLoop_spec (nmaxi : Nat) (counts : List Nat) : ∀ (fuel : Nat) (q : List Nat) (number : Nat),
    q.length = counts.length → (∀ i, i < q.length → q.getD i 0 ≤ counts.getD i 0) →
    number = q.sum → number ≤ nmaxi →
    let r := quotaLoop nmaxi counts fuel q number
    r.length = counts.length ∧ (∀ i, i < r.length → r.getD i 0 ≤ counts.getD i 0) ∧ r.sum ≤ nmaxi
  | 0, q, number, hl, hq, hs, hn => by
    simp only [quotaLoop]; exact ⟨hl, hq, by omega⟩
  | fuel+1, q, number, hl, hq, hs, hn => by
    simp only [quotaLoop]
    split
    · exact ⟨hl, hq, by omega⟩
    · have sp := servePass_spec nmaxi counts 0 q number (by simpa using hq)
      obtain ⟨l, b, e, m, u⟩ := sp
      generalize servePass nmaxi counts 0 q number = res at l b e m u
      obtain ⟨q', n'⟩ := res
      simp only at l b e m u ⊢
      apply quotaLoop_spec nmaxi counts fuel q' n' (by omega)
      · intro i hi
        have := (b i (by omega)).2
        simpa using this
      · omega
      · exact u hn

/-- **quota theorem** (`_movingSelect`): the round-robin loop gives each sector at most what it holds
and never more than `nmaxi` in total -/
theorem quotas_spec (nmaxi : Nat) (counts : List Nat) :
    (quotas nmaxi counts).length = counts.length ∧
    (∀ i, i < counts.length → (quotas nmaxi counts).getD i 0 ≤ counts.getD i 0) ∧
    (quotas nmaxi counts).sum ≤ nmaxi := by
  unfold quotas
  have h := quotaLoop_spec nmaxi counts (nmaxi + 1) (counts.map fun _ => 0) 0 (by simp)
    (by intro i hi
        have : (counts.map fun _ => 0).getD i 0 = 0 := by
          simp only [List.getD_eq_getElem?_getD, List.getElem?_map]
          cases counts[i]? <;> simp
        omega) (by simp) (by omega)
  obtain ⟨a, b, c⟩ := h
  exact ⟨a, fun i hi => b i (by omega), c⟩

end GstProofs.Neigh
