-- root of the model library (core Lean only: no Mathlib import below this file)
import GstVerif.Basic.Proto
import GstVerif.Grid.Model
import GstVerif.Grid.Driver
import GstVerif.Poly.Model
import GstVerif.Poly.Driver
import GstVerif.Db.Model
import GstVerif.Db.Driver
import GstVerif.LinAlg.Mat
import GstVerif.LinAlg.Driver
import GstVerif.Krig.Model
import GstVerif.Krig.Driver
import GstVerif.Rng.Model
import GstVerif.Rng.Driver
import GstVerif.Neigh.Model
import GstVerif.Neigh.Driver
import GstVerif.Vario.Model
import GstVerif.Vario.Driver
