// Correspondence harness for C13: generator stream vs the Lean model; reproducibility of the
// simulators from their seed; conditioning at data; bounded Gaussian draws.
#include "krig_common.hpp"
#include "LithoRule/RuleProp.hpp"
#include "LithoRule/Rule.hpp"
#include "Basic/Law.hpp"
#include "Simulation/CalcSimuTurningBands.hpp"
#include "Simulation/CalcSimuFFT.hpp"
#include "Simulation/SimuFFTParam.hpp"
#include "geoslib_f.h"
using namespace vh;

static std::string hashCols(const Db* db, int ncol0)
{
  uint64_t h = 1469598103934665603ULL;
  for (int c = ncol0; c < db->getColumnNumber(); c++)
    for (int i = 0; i < db->getSampleNumber(); i++)
    {
      double v = db->getValueByColIdx(i, c);
      uint64_t b; memcpy(&b, &v, 8);
      for (int k = 0; k < 8; k++) { h ^= (b >> (8 * k)) & 0xff; h *= 1099511628211ULL; }
    }
  std::ostringstream os; os << std::hex << h; return os.str();
}
static void dropCols(Db* db, int ncol0) { for (int c = db->getColumnNumber() - 1; c >= ncol0; c--) db->deleteColumnByColIdx(c); }

int main()
{
  muteLibrary();
  Rng rng(seedFromEnv() * 7919 + 13);
  long ncase = envLong("VERIF_CASES", thorough() ? 3000 : 150);
  Stats st;
  // ---- generator stream, exact
  for (int k = 0; k < (thorough() ? 200 : 40); k++)
  {
    int seed;
    double u = rng.unit();
    if (u < 0.5) seed = (int)rng.range(1, 20000158);
    else if (u < 0.7) seed = (int)rng.range(20000159, 2000000000);
    else if (u < 0.8) seed = (int)rng.range(2000000000, 2147483647);
    else if (u < 0.9) seed = (int)rng.range(-5, 0);
    else seed = 20000159 * (int)rng.range(1, 3) + (int)rng.range(0, 1);
    int n = thorough() ? 2000 : 300;
    law_set_random_seed(43241421);
    law_set_random_seed(seed);
    std::vector<long> states; std::vector<double> us;
    for (int i = 0; i < n; i++) { us.push_back(law_uniform(0., 1.)); states.push_back(law_get_random_seed()); }
    printf("r stream %d %d => %s %s\n", seed, n, vecI(states).c_str(), vecD(us).c_str());
    law_set_random_seed(43241421);
    law_set_random_seed(seed);
    int mini = (int)rng.range(-5, 5), maxi = mini + (int)rng.range(0, 50);
    std::vector<long> iv;
    for (int i = 0; i < 100; i++) iv.push_back(law_int_uniform(mini, maxi));
    printf("r intu %d %d %d 100 => %s\n", seed, mini, maxi, vecI(iv).c_str());
    st.hit("rng_streams");
  }
  // ---- bounded Gaussian draws
  for (int k = 0; k < (thorough() ? 400 : 60); k++)
  {
    double lo, hi;
    double u = rng.unit();
    if (u < 0.15) { lo = rng.dyadic(-4, 3, 4) + 0.001; hi = lo + (rng.coin() ? 1e-12 : 1e-15); }   // a few ulps wide
    else if (u < 0.3) { lo = rng.dyadic(-4, 3, 4); hi = lo + rng.dyadic(0, 1, 10) + 1. / 1024; }       // tight
    else if (u < 0.6) { lo = rng.dyadic(-4, 3, 2); hi = lo + rng.dyadic(0, 3, 2) + 0.25; }
    else if (u < 0.8) { lo = TEST; hi = rng.dyadic(-3, 3, 2); }
    else { lo = rng.dyadic(-3, 3, 2); hi = TEST; }
    law_set_random_seed((int)rng.range(1, 1000000));
    std::vector<double> v;
    for (int i = 0; i < 2000; i++) v.push_back(law_gaussian_between_bounds(lo, hi));
    printf("r inbounds %s %s %s =>\n", dyNA(lo).c_str(), dyNA(hi).c_str(), vecD(v).c_str());
    st.hit("bounded_gaussian_sets");
  }
  // ---- simulators
  for (long ic = 0; ic < ncase; ic++)
  {
    int ndim = (int)rng.range(1, 2);
    defineDefaultSpace(ESpaceType::RN, ndim);
    int nvar = 1;
    std::string mtext;
    Model* model = genModel(rng, ndim, nvar, -1, 0, mtext, st);
    if (model == nullptr) continue;
    VectorInt nx(ndim); for (int d = 0; d < ndim; d++) nx[d] = (int)rng.range(4, 9);
    DbGrid* grid = DbGrid::create(nx);
    int seed1 = (int)rng.range(1, 20000158), seed2 = seed1 + (int)rng.range(1, 1000);
    int nbsimu = (int)rng.range(1, 3), nbtuba = (int)rng.range(5, 40);
    int ncol0 = grid->getColumnNumber();
    std::string h1, h2, h3, hr;
    if (simtub(nullptr, grid, model, nullptr, nbsimu, seed1, nbtuba) == 0) { h1 = hashCols(grid, ncol0); dropCols(grid, ncol0); }
    // unrelated calls in between (other seeds, other draws)
    law_set_random_seed((int)rng.range(1, 99999)); for (int i = 0; i < (int)rng.range(0, 20); i++) (void)law_gaussian();
    if (simtub(nullptr, grid, model, nullptr, nbsimu, seed1, nbtuba) == 0) { h2 = hashCols(grid, ncol0);
      if (nbsimu > 1) { // different simulation ranks differ
        std::string a = hashCols(grid, ncol0 + 1); (void)a;
        VectorDouble c0 = grid->getColumnByColIdx(ncol0), c1 = grid->getColumnByColIdx(ncol0 + 1);
        printf("r differ simtub-ranks %s %s =>\n", dy(c0[0]).c_str(), dy(c1[0]).c_str());
      }
      dropCols(grid, ncol0); }
    if (simtub(nullptr, grid, model, nullptr, nbsimu, seed2, nbtuba) == 0) { h3 = hashCols(grid, ncol0); dropCols(grid, ncol0); }
    if (!h1.empty() && !h2.empty()) { printf("r same simtub-%s %s %s =>\n", mtext.c_str(), h1.c_str(), h2.c_str()); st.hit("simtub_same_seed"); }
    if (!h1.empty() && !h3.empty()) { printf("r differ simtub-seeds %s %s =>\n", h1.c_str(), h3.c_str()); st.hit("simtub_diff_seed"); }
    // two different seeds congruent modulo the modulus of the generator (known finding F23)
    if (ic % 25 == 0 && seed1 < 100000000)
    {
      std::string h4;
      if (simtub(nullptr, grid, model, nullptr, nbsimu, seed1 + 20000159, nbtuba) == 0) { h4 = hashCols(grid, ncol0); dropCols(grid, ncol0); }
      if (!h1.empty() && !h4.empty()) { printf("r differ simtub-seeds-congruent-modulo-20000159 %s %s =>\n", h1.c_str(), h4.c_str()); st.hit("simtub_congruent_seeds"); }
    }
    // FFT simulation (2-D)
    if (ndim == 2 && rng.coin(0.5))
    {
      SimuFFTParam param;
      std::string f1, f2, f3;
      if (simfft(grid, model, param, 1, seed1) == 0) { f1 = hashCols(grid, ncol0); dropCols(grid, ncol0); }
      if (simfft(grid, model, param, 1, seed1) == 0) { f2 = hashCols(grid, ncol0); dropCols(grid, ncol0); }
      if (simfft(grid, model, param, 1, seed2) == 0) { f3 = hashCols(grid, ncol0); dropCols(grid, ncol0); }
      if (!f1.empty() && !f2.empty()) { printf("r same simfft %s %s =>\n", f1.c_str(), f2.c_str()); st.hit("simfft_same_seed"); }
      if (!f1.empty() && !f3.empty()) { printf("r differ simfft-seeds %s %s =>\n", f1.c_str(), f3.c_str()); }
    }
    // conditional simulation: targets on data reproduce the data
    {
      int nech = (int)rng.range(4, 10);
      auto X = genPoints(rng, nech, ndim, 8);
      std::vector<std::vector<double>> Z(1, std::vector<double>(nech));
      for (int i = 0; i < nech; i++) Z[0][i] = rng.dyadic(-3, 3, 3);
      Db* dbin = makeDb(X, ndim, Z, {}, {}, {});
      auto X0 = X; auto ex = genPoints(rng, 3, ndim, 8); for (auto& p : ex) X0.push_back(p);
      Db* dbout = makeDb(X0, ndim, {}, {}, {}, {});
      ANeigh* neigh = NeighUnique::create();
      int nc0 = dbout->getColumnNumber();
      int ns = (int)rng.range(1, 3);
      if (simtub(dbin, dbout, model, neigh, ns, seed1, nbtuba) == 0)
      {
        std::string c1 = hashCols(dbout, nc0);
        for (int is = 0; is < ns; is++) for (int i = 0; i < nech; i++)
          printf("r atdata %s %s %s =>\n", dy(Z[0][i]).c_str(), dy(dbout->getValueByColIdx(i, nc0 + is)).c_str(), dy(4.).c_str());
        dropCols(dbout, nc0);
        if (simtub(dbin, dbout, model, neigh, ns, seed1, nbtuba) == 0) { printf("r same simtub-conditional %s %s =>\n", c1.c_str(), hashCols(dbout, nc0).c_str()); dropCols(dbout, nc0); }
        st.hit("simtub_conditional");
      }
      delete neigh; delete dbin; delete dbout;
    }
    delete grid; delete model;
  }

  // ---- Gibbs sampler under inequality constraints and conditional plurigaussian simulation (one or two underlying
  //      Gaussian fields, several simulations, part of the data masked by a selection)
  for (long ic = 0; ic < (thorough() ? 400 : 30); ic++)
  {
    int ndim = 2;
    defineDefaultSpace(ESpaceType::RN, ndim);
    int nech = (int)rng.range(6, 14);
    auto X = genPoints(rng, nech, ndim, 4);
    bool useSel = rng.coin(0.6);
    std::vector<int> sel(nech, 1); if (useSel) for (int i = 0; i < nech; i++) if (rng.coin(0.3)) sel[i] = 0;
    { int na = 0; for (int v : sel) na += v; if (na < 4) { st.hit("regenerated"); continue; } }
    // (a) Gibbs sampler: disjoint intervals, each sample has its own
    {
      std::vector<double> lo(nech), up(nech);
      VectorDouble tab; VectorString names = {"x1", "x2", "lo", "up"}, locs = {"x1", "x2", "lower1", "upper1"};
      if (useSel) { names.push_back("sel"); locs.push_back("sel"); }
      for (int i = 0; i < nech; i++)
      {
        lo[i] = -2. + 0.25 * i + 0.0625 * rng.range(0, 2); up[i] = lo[i] + 0.0625 * rng.range(1, 2);
        tab.push_back(X[i][0]); tab.push_back(X[i][1]); tab.push_back(lo[i]); tab.push_back(up[i]); if (useSel) tab.push_back((double)sel[i]);
      }
      Db* db = Db::createFromSamples(nech, ELoadBy::SAMPLE, tab, names, locs, false);
      Model* m = Model::createFromParam(rng.coin() ? ECov::EXPONENTIAL : ECov::SPHERICAL, rng.dyadic(1, 4, 1), 1.);
      int n0 = db->getColumnNumber(); int nbsimu = (int)rng.range(1, 3); int seed = (int)rng.range(1, 1000000);
      bool multiMono = rng.coin();
      std::string what = multiMono ? "gibbs_multi_mono" : "gibbs";
      if (gibbs_sampler(db, m, nbsimu, seed, 5, 30, false, false, multiMono, false, false, 0, 5., false, false, false) == 0 && db->getColumnNumber() == n0 + nbsimu)
      {
        for (int i = 0; i < nech; i++) if (sel[i])
        {
          std::vector<double> v; for (int c = n0; c < db->getColumnNumber(); c++) v.push_back(db->getValueByColIdx(i, c));
          printf("r inbounds %s %s %s =>\n", dy(lo[i]).c_str(), dy(up[i]).c_str(), vecD(v).c_str());
        }
        std::string h1 = hashCols(db, n0); dropCols(db, n0);
        law_uniform();      // unrelated use of the generator
        if (gibbs_sampler(db, m, nbsimu, seed, 5, 30, false, false, multiMono, false, false, 0, 5., false, false, false) == 0)
        { printf("r same %s %s %s =>\n", what.c_str(), h1.c_str(), hashCols(db, n0).c_str()); dropCols(db, n0); }
        st.hit(what + (useSel ? "_with_selection" : ""));
      }
      else st.hit("gibbs_refused");
      delete db; delete m;
    }
    // (b) conditional plurigaussian simulation: the facies simulated at a target lying on a datum is the datum
    {
      int nfac = 3;
      std::vector<std::vector<double>> F(1, std::vector<double>(nech));
      for (int i = 0; i < nech; i++) F[0][i] = (double)rng.range(1, nfac);
      Db* dbin = makeDb(X, ndim, F, {}, {}, useSel ? sel : std::vector<int>());
      auto X0 = X; auto ex = genPoints(rng, 3, ndim, 4); for (auto& q : ex) { q[0] += 0.125; X0.push_back(q); }
      Db* dbout = makeDb(X0, ndim, {}, {}, {}, {});
      bool two = rng.coin();
      Model* m1 = Model::createFromParam(ECov::EXPONENTIAL, rng.dyadic(1, 4, 1), 1.);
      Model* m2 = two ? Model::createFromParam(ECov::SPHERICAL, rng.dyadic(1, 4, 1), 1.) : nullptr;
      Rule* rule = two ? Rule::createFromNames({"S", "T", "F1", "F2", "F3"}) : Rule::createFromNames({"S", "S", "F1", "F2", "F3"});
      RuleProp* rp = rule ? RuleProp::createFromRule(rule, {0.3, 0.4, 0.3}) : nullptr;
      ANeigh* nu = NeighUnique::create();
      int n0 = dbout->getColumnNumber(); int nbsimu = (int)rng.range(1, 3); int seed = (int)rng.range(1, 1000000);
      if (rp != nullptr && simpgs(dbin, dbout, rp, m1, m2, nu, nbsimu, seed) == 0 && dbout->getColumnNumber() == n0 + nbsimu)
      {
        for (int i = 0; i < nech; i++) if (sel[i]) for (int c = n0; c < dbout->getColumnNumber(); c++)
          printf("r atdata %s %s %s =>\n", dy(F[0][i]).c_str(), dy(dbout->getValueByColIdx(i, c)).c_str(), dy(1.).c_str());
        std::string h1 = hashCols(dbout, n0); dropCols(dbout, n0);
        Db* dbin2 = makeDb(X, ndim, F, {}, {}, useSel ? sel : std::vector<int>());
        if (simpgs(dbin2, dbout, rp, m1, m2, nu, nbsimu, seed) == 0) { printf("r same simpgs-conditional %s %s =>\n", h1.c_str(), hashCols(dbout, n0).c_str()); dropCols(dbout, n0); }
        delete dbin2;
        st.hit(std::string("simpgs_conditional_") + (two ? "two_grf" : "one_grf") + (useSel ? "_with_selection" : ""));
      }
      else st.hit("simpgs_refused");
      delete nu; delete rp; delete rule; delete m1; delete m2; delete dbin; delete dbout;
    }
  }
  st.dump(stdout);
  return 0;
}
