// Correspondence harness for C10: results depend only on the arguments, not on what was called before.
//  (1) copy-on-write vectors: random operation sequences on real VectorInt handles, final contents
//      compared with the value semantics of the Lean model (`o seq`);
//  (2) history independence: each scenario is run in a fresh child process and in a child that
//      first executes a random prelude of other (successful and failing) calls; the two answers
//      are compared (`k pair hist_*`);
//  (3) incremental update = fresh object (KrigingCalcul targets, re-used neighbourhood, model
//      edited through its setters);
//  (4) copies of objects are independent of their source (Db, Model).
#include "krig_common.hpp"
#include "db_observe.hpp"
#include "Estimation/KrigingCalcul.hpp"
#include "Variogram/Vario.hpp"
#include "Variogram/VarioParam.hpp"
#include "Variogram/DirParam.hpp"
#include "Simulation/CalcSimuTurningBands.hpp"
#include "Matrix/MatrixSquareSymmetric.hpp"
#include "Matrix/MatrixRectangular.hpp"
#include "Basic/Law.hpp"
#include "Basic/ASerializable.hpp"
#include <functional>
#include <unistd.h>
#include <signal.h>
#include <sys/wait.h>
#include "Basic/VectorHelper.hpp"
using namespace vh;

static std::vector<double> flat(const AMatrix& m) { std::vector<double> v; for (int i = 0; i < m.getNRows(); i++) for (int j = 0; j < m.getNCols(); j++) v.push_back(m.getValue(i, j)); return v; }
static std::string sha(const std::string& s) { uint64_t h = 1469598103934665603ULL; for (unsigned char c : s) { h ^= c; h *= 1099511628211ULL; } std::ostringstream os; os << std::hex << h; return os.str(); }
static std::vector<double> noNA(std::vector<double> v) { for (auto& x : v) if (FFFF(x) || std::isnan(x)) x = -7777.; return v; }

// run `body` in a child process; returns what it wrote (one line) or "CRASH"
static std::string inChild(const std::function<std::string()>& body)
{
  int fd[2]; if (pipe(fd) != 0) return "CRASH";
  fflush(stdout);
  pid_t pid = fork();
  if (pid == 0)
  {
    close(fd[0]); alarm(120);
    std::string r; try { r = body(); } catch (...) { r = "EXCEPTION"; }
    ssize_t w = write(fd[1], r.data(), r.size()); (void)w; close(fd[1]); _exit(0);
  }
  close(fd[1]);
  std::string out; char buf[4096]; ssize_t n;
  while ((n = read(fd[0], buf, sizeof buf)) > 0) out.append(buf, (size_t)n);
  close(fd[0]);
  int status = 0; waitpid(pid, &status, 0);
  if (!(WIFEXITED(status) && WEXITSTATUS(status) == 0)) return "CRASH";
  return out;
}

struct World { int ndim, nvar; Db* dbin; Db* dbout; DbGrid* grid; Model* model; };
static World makeWorld(long seed, Stats& st, int forceDim = 0)
{
  Rng r(seed); World w{};
  w.ndim = forceDim ? forceDim : (int)r.range(1, 3); w.nvar = r.coin(0.7) ? 1 : 2;
  defineDefaultSpace(ESpaceType::RN, w.ndim);
  int nech = (int)r.range(7, 12);
  auto X = genPoints(r, nech, w.ndim, 8);
  std::vector<std::vector<double>> Z(w.nvar, std::vector<double>(nech)); for (auto& z : Z) for (auto& v : z) v = r.dyadic(-8, 8, 3);
  w.dbin = makeDb(X, w.ndim, Z, {}, {}, {});
  auto X0 = genPoints(r, 4, w.ndim, 8); for (auto& p : X0) for (int d = 0; d < w.ndim; d++) p[d] += 1. / (16 << d);
  w.dbout = makeDb(X0, w.ndim, {}, {}, {}, {});
  w.grid = DbGrid::create(VectorInt(w.ndim, 3), VectorDouble(w.ndim, 1.5), VectorDouble(w.ndim, 0.25));
  std::string t; w.model = genModel(r, w.ndim, w.nvar, (int)r.range(-1, 1), 0, t, st);
  return w;
}
static void freeWorld(World& w) { delete w.dbin; delete w.dbout; delete w.grid; delete w.model; }

// scenarios: value = flattened answers
static std::string scenario(int k, long seed, Stats& st)
{
  World w = makeWorld(seed, st);
  if (!w.model) return "NOMODEL";
  std::vector<double> out;
  auto grab = [&](Db* db, int from) { for (int c = from; c < db->getColumnNumber(); c++) for (int i = 0; i < db->getSampleNumber(); i++) out.push_back(db->getValueByColIdx(i, c)); };
  ANeigh* nu = NeighUnique::create(); ANeigh* nm = NeighMoving::create(false, 5, 1.e6);
  switch (k)
  {
    case 0: { int n0 = w.dbout->getColumnNumber(); if (kriging(w.dbin, w.dbout, w.model, nu) == 0) grab(w.dbout, n0); break; }
    case 1: { int n0 = w.dbout->getColumnNumber(); if (kriging(w.dbin, w.dbout, w.model, nm) == 0) grab(w.dbout, n0); break; }
    case 2: { int n0 = w.dbin->getColumnNumber(); if (xvalid(w.dbin, w.model, nu, false, -1, -1, 0) == 0) grab(w.dbin, n0); break; }
    case 3: { int n0 = w.grid->getColumnNumber(); if (simtub(nullptr, w.grid, w.model, nullptr, 2, 4242, 15) == 0) grab(w.grid, n0); break; }
    case 4: { int n0 = w.grid->getColumnNumber(); if (w.nvar == 1 && simtub(w.dbin, w.grid, w.model, nu, 1, 991, 15) == 0) grab(w.grid, n0); break; }
    case 5: { DirParam* dp = DirParam::create(4, 1.25); VarioParam vp; vp.addDir(*dp); Vario* v = Vario::computeFromDb(vp, w.dbin);
              if (v) { for (double x : v->getSwVec(0, 0, 0, false)) out.push_back(x); for (double x : v->getGgVec(0, 0, 0, false, false)) out.push_back(x); } delete v; delete dp; break; }
    case 6: { out = flat(w.model->evalCovMatrixSymmetricOptim(w.dbin)); for (double x : flat(w.model->evalCovMatrixOptim(w.dbin, w.dbout))) out.push_back(x); break; }
    case 8: { // structures with a third parameter / generalised covariances (the turning-band
              // initialisations of POWER and SPLINE keep function-local static caches)
              static const ECov types[] = {ECov::POWER, ECov::SPLINE_GC, ECov::LINEAR, ECov::STABLE, ECov::MATERN, ECov::CAUCHY, ECov::BESSELJ};
              Rng r2(seed + 17); ECov ty = types[r2.range(0, 6)]; double par = 0.5 * r2.range(1, 3); double scale = 2. + 3. * r2.range(1, 9);
              defineDefaultSpace(ESpaceType::RN, 2);
              Model* m = Model::createFromParam(ty, scale, 1., par); DbGrid* g = DbGrid::create({6, 5}, {1.5, 1.5});
              if (m && g) { if (ty == ECov::POWER || ty == ECov::LINEAR) m->setDriftIRF(0, 0); if (ty == ECov::SPLINE_GC) m->setDriftIRF(1, 0);
                            int n0 = g->getColumnNumber(); if (simtub(nullptr, g, m, nullptr, 1, 5678, 30) == 0) grab(g, n0); }
              delete m; delete g; break; }
    case 7: { law_set_random_seed(777 + (int)(seed % 1000)); for (int i = 0; i < 4; i++) out.push_back(law_uniform()); out.push_back(law_gaussian()); out.push_back(law_exponential()); out.push_back((double)law_int_uniform(0, 1000)); out.push_back(law_gamma(2.5)); break; }
  }
  delete nu; delete nm; freeWorld(w);
  return vecD(noNA(out));
}

// a prelude of unrelated calls: other data, other models, failures, random draws, file settings
static void prelude(Rng& r, Stats& st, int force = -1, long wseed = 0)
{
  int n = (int)r.range(2, 6);
  for (int i = 0; i < n; i++)
  {
    int what = (force >= 0 && i == 0) ? force : (int)r.range(0, 10);
    World w = makeWorld(r.range(1, 1000000), st);
    if (!w.model) { continue; }
    ANeigh* nu = NeighUnique::create(); ANeigh* nm = NeighMoving::create(false, 4, 30.);
    switch (what)
    {
      case 0: (void)kriging(w.dbin, w.dbout, w.model, nu); break;
      case 1: (void)kriging(w.dbin, w.grid, w.model, nm); break;
      case 2: (void)xvalid(w.dbin, w.model, nu); break;
      case 3: (void)simtub(nullptr, w.grid, w.model, nullptr, 1, (int)r.range(1, 99999), 10); break;
      case 4: { World w3 = makeWorld(r.range(1, 1000000), st, w.ndim == 3 ? 2 : 3); defineDefaultSpace(ESpaceType::RN, w.ndim);
                if (w3.model) (void)kriging(w.dbin, w.dbout, w3.model, nu);        // failing call: model of another dimension
                freeWorld(w3); defineDefaultSpace(ESpaceType::RN, w.ndim); break; }
      case 5: for (int k = 0; k < (int)r.range(1, 7); k++) (void)law_uniform(); (void)law_gaussian(); break;
      case 6: (void)w.model->evalCovMatrixSymmetricOptim(w.dbin); (void)w.model->evalCovMatrixOptim(w.dbin, w.dbout); break;
      case 7: { w.dbin->clearLocators(ELoc::Z); (void)kriging(w.dbin, w.dbout, w.model, nu); break; }   // failing call: no variable
      case 8: { DirParam* dp = DirParam::create(3, 2.); VarioParam vp; vp.addDir(*dp); Vario* v = Vario::computeFromDb(vp, w.dbin); delete v; delete dp; break; }
      case 10: { static const ECov types[] = {ECov::POWER, ECov::SPLINE_GC, ECov::LINEAR, ECov::STABLE, ECov::MATERN, ECov::CAUCHY, ECov::BESSELJ};
                 for (int rep = 0; rep < 3; rep++) { ECov ty = types[r.range(0, 6)]; double par = 0.5 * r.range(1, 3); double scale = 2. + 3. * r.range(1, 9);
                   // first repetition of a forced prelude: the very structure and parameter of the scenario, another scale
                   if (force == 10 && rep == 0 && i == 0) { Rng r2(wseed + 17); ty = types[r2.range(0, 6)]; par = 0.5 * r2.range(1, 3); double sc = 2. + 3. * r2.range(1, 9); scale = sc + 7.; }
                   defineDefaultSpace(ESpaceType::RN, 2);
                   Model* m = Model::createFromParam(ty, scale, 1., par); DbGrid* g = DbGrid::create({4, 4}, {2., 2.});
                   if (m && g) { if (ty == ECov::POWER || ty == ECov::LINEAR) m->setDriftIRF(0, 0); if (ty == ECov::SPLINE_GC) m->setDriftIRF(1, 0); (void)simtub(nullptr, g, m, nullptr, 1, (int)r.range(1, 9999), 12); }
                   delete m; delete g; }
                 defineDefaultSpace(ESpaceType::RN, w.ndim); break; }
      case 9: { ASerializable::setPrefixName("zz"); ASerializable::setPrefixName(""); (void)simtub(w.dbin, w.grid, w.model, nu, 1, 5, 8); break; }
    }
    delete nu; delete nm; freeWorld(w);
    st.hit("prelude_calls");
  }
}

int main()
{
  muteLibrary();
  Rng rng(seedFromEnv() * 7919 + 10);
  Stats st;
  ASerializable::setContainerName(false, "", false); ASerializable::setPrefixName("");

  // ---------- (1) copy-on-write vectors
  long nseq = envLong("VERIF_C10_SEQ", thorough() ? 20000 : 1500);
  for (long q = 0; q < nseq; q++)
  {
    std::vector<VectorInt> H; std::string ops;
    int len = (int)rng.range(2, 14);
    for (int k = 0; k < len; k++)
    {
      int nh = (int)H.size();
      int what = nh == 0 ? 0 : (int)rng.range(0, 14);
      std::ostringstream os;
      auto pick = [&]() { return (int)rng.range(0, nh - 1); };
      if (what == 0 || nh == 0) { int n = (int)rng.range(0, 4); std::vector<int> v(n); for (auto& x : v) x = (int)rng.range(-9, 9); H.push_back(VectorInt(v)); os << "new:" << vecI(v); }
      else if (what == 1) { int h = pick(); VectorInt c(H[h]); H.push_back(c); os << "copy:" << h; }
      else if (what == 2) { int h = pick(), g = pick(); H[h] = H[g]; os << "assign:" << h << ":" << g; }
      else if (what == 3) { int h = pick(); int n = (int)H[h].size(); int i = (int)rng.range(0, std::max(0, n - 1)); int v = (int)rng.range(-99, 99);
                            if (n > 0) { if (rng.coin()) H[h][i] = v; else H[h].setAt(i, v); } os << "set:" << h << ":" << i << ":" << v; }
      else if (what == 4) { int h = pick(); int v = (int)rng.range(-99, 99); H[h].push_back(v); os << "push:" << h << ":" << v; }
      else if (what == 5) { int h = pick(); int n = (int)rng.range(0, 5); H[h].resize(n); os << "resize:" << h << ":" << n; }
      else if (what == 6) { int h = pick(), g = pick(); H[h].swap(H[g]); os << "swap:" << h << ":" << g; }
      else if (what == 7) { int h = pick(); H[h].clear(); os << "clear:" << h; }
      else if (what == 8) { int h = pick(); int v = (int)rng.range(-9, 9); int n = rng.coin() ? 0 : (int)rng.range(1, 4); H[h].fill(v, n); os << "fill:" << h << ":" << v << ":" << n; }
      else if (what == 9) { int h = pick(); int n = (int)H[h].size(); int i = (int)rng.range(0, n); int v = (int)rng.range(-99, 99); H[h].insert(i, v); os << "insert:" << h << ":" << i << ":" << v; }
      else if (what == 10) { int h = pick(); int n = (int)H[h].size(); if (n > 0) { int i = (int)rng.range(0, n - 1); H[h].remove(i); os << "remove:" << h << ":" << i; } else { H[h].push_front(7); os << "pushfront:" << h << ":7"; } }
      else if (what == 11) { int h = pick(); int v = (int)rng.range(-99, 99); H[h].push_front(v); os << "pushfront:" << h << ":" << v; }
      else if (what == 12) { int h = pick(); int v = (int)rng.range(-99, 99); bool fr = rng.coin(); if (!H[h].empty()) { if (fr) H[h].front() = v; else H[h].back() = v; } os << (fr ? "front:" : "back:") << h << ":" << v; }
      else if (what == 13) { int h = pick(), g = pick(); std::vector<int> w(H[g].begin(), H[g].end()); VectorInt wc(w); H[h] << wc; os << "append:" << h << ":" << vecI(w); }
      else { int h = pick(); int n = (int)H[h].size(); int v = (int)rng.range(-99, 99); if (n > 0) { int i = (int)rng.range(0, n - 1); if (rng.coin()) H[h].at(i) = v; else *(H[h].begin() + i) = v; os << "set:" << h << ":" << i << ":" << v; } else { H[h] << v; os << "push:" << h << ":" << v; } }
      ops += (k ? ";" : "") + os.str();
      { static const char* nm[] = {"new", "copy", "assign", "set", "push", "resize", "swap", "clear", "fill", "insert", "remove", "push_front", "front_back", "append", "at_iterator"}; st.hit(std::string("cow_") + nm[what]); }
    }
    std::string obs;
    for (size_t h = 0; h < H.size(); h++) { std::vector<int> v(H[h].begin(), H[h].end()); obs += (h ? "|" : "") + vecI(v); }
    printf("o seq %s => %s\n", ops.c_str(), obs.c_str());
  }

  // the same on VectorDouble handles (integer contents) with the in-place helpers of VectorHelper: a helper applied to a
  // vector that shares its buffer (a copy, an assigned vector) must leave the other holders untouched
  for (long q = 0; q < nseq / 3; q++)
  {
    std::vector<VectorDouble> H; std::string ops;
    int len = (int)rng.range(3, 12);
    auto ints = [](const VectorDouble& v) { std::vector<int> o; for (double x : v) o.push_back((int)std::llround(x)); return o; };
    for (int k = 0; k < len; k++)
    {
      int nh = (int)H.size();
      int what = nh == 0 ? 0 : (int)rng.range(0, 9);
      std::ostringstream os;
      auto pick = [&]() { return (int)rng.range(0, nh - 1); };
      if (what == 0 || nh == 0) { int n = (int)rng.range(1, 4); std::vector<int> v(n); VectorDouble d(n); for (int i = 0; i < n; i++) { v[i] = (int)rng.range(-5, 5); d[i] = v[i]; } H.push_back(d); os << "new:" << vecI(v); }
      else if (what == 1 || what == 2) { int h = pick(); VectorDouble c(H[h]); H.push_back(c); os << "copy:" << h; }
      else if (what == 3) { int h = pick(), g = pick(); H[h] = H[g]; os << "assign:" << h << ":" << g; }
      else if (what >= 4 && what <= 6)
      { // binary helpers need equal sizes (they refuse or throw otherwise): the second operand is a handle of the same size, or a fresh vector
        int h = pick(); int n = (int)H[h].size(); VectorDouble w(n); std::vector<int> wi(n);
        // (multiplications keep the contents small: products by a handle only when its values are at most 3 in magnitude)
        int g = pick(); bool small = true; for (double v : H[g]) if (std::fabs(v) > 3.) small = false;
        if ((int)H[g].size() == n && rng.coin(0.6) && (what != 6 || small)) { w = H[g]; wi = ints(H[g]); } else for (int i = 0; i < n; i++) { wi[i] = (int)rng.range(-3, 3); w[i] = wi[i]; }
        if (what == 4) { VH::addInPlace(H[h], w); os << "vhadd:" << h << ":" << vecI(wi); }
        else if (what == 5) { VH::subtractInPlace(H[h], w); os << "vhsub:" << h << ":" << vecI(wi); }
        else { VH::multiplyInPlace(H[h], w); os << "vhmul:" << h << ":" << vecI(wi); }
      }
      else if (what == 7) { int h = pick(); int c = (int)rng.range(-3, 3); VH::multiplyConstant(H[h], (double)c); os << "vhscale:" << h << ":" << c; }
      else if (what == 8) { int h = pick(); int c = (int)rng.range(-9, 9); VH::addConstant(H[h], (double)c); os << "vhshift:" << h << ":" << c; }
      else { int h = pick(); VH::cumulateInPlace(H[h]); os << "vhcum:" << h; }
      ops += (k ? ";" : "") + os.str();
      { static const char* nm[] = {"new", "copy", "copy", "assign", "vh_addInPlace", "vh_subtractInPlace", "vh_multiplyInPlace", "vh_multiplyConstant", "vh_addConstant", "vh_cumulateInPlace"}; st.hit(std::string("cowd_") + nm[what]); }
    }
    std::string obs;
    for (size_t h = 0; h < H.size(); h++) { obs += (h ? "|" : "") + vecI(ints(H[h])); }
    printf("o seq %s => %s\n", ops.c_str(), obs.c_str());
  }

  // a writable reference taken before a copy, written after it (witness `stale_reference_leaks`)
  {
    VectorInt v({1, 2, 3}); int& r = v[0]; VectorInt w(v); r = 9;
    const VectorInt& cw = w;
    printf("o stale 1 => %d\n", cw[0]); st.hit("cow_stale_reference_probe");
  }

  // ---------- (2) history independence
  long nhist = envLong("VERIF_CASES", thorough() ? 400 : 40);
  static const char* names[] = {"kriging_unique", "kriging_moving", "xvalid", "simtub_noncond", "simtub_cond", "vario", "covmatrix_optim", "law_stream", "simtub_special_structures"};
  for (long q = 0; q < nhist; q++)
  {
    long wseed = rng.range(1, 1000000000);
    for (int k = 0; k < 9; k++)
    {
      long pseed = rng.range(1, 1000000000);
      std::string fresh = inChild([&]() { Stats s2; return scenario(k, wseed, s2); });
      std::string after = inChild([&]() { Stats s2; Rng pr(pseed); prelude(pr, s2, k == 8 ? 10 : -1, wseed); return scenario(k, wseed, s2); });
      if (fresh == "NOMODEL") continue;
      if (fresh == "CRASH" || after == "CRASH" || fresh == "EXCEPTION" || after == "EXCEPTION") { printf("k crash hist_%s %s =>\n", names[k], fresh == after ? "both" : (fresh.size() < 12 ? "fresh" : "after-prelude")); continue; }
      printf("k pair hist_%s %s %s - - 1:0 =>\n", names[k], fresh.c_str(), after.c_str());
      st.hit(std::string("hist_") + names[k]);
    }
  }

  // ---------- (3) incremental update = fresh object ; (4) copies are independent
  for (long q = 0; q < nhist; q++)
  {
    World w = makeWorld(rng.range(1, 1000000000), st);
    if (!w.model) continue;
    int order = w.model->getDriftNumber() > 0 ? 0 : -1;
    VectorDouble means(w.nvar, 0.); if (order < 0) for (int a = 0; a < w.nvar; a++) means[a] = w.model->getMean(a);
    MatrixSquareSymmetric Sigma = w.model->evalCovMatrixSymmetric(w.dbin); MatrixRectangular Xd = w.model->evalDriftMatrix(w.dbin);
    MatrixSquareSymmetric S00(w.nvar); for (int a = 0; a < w.nvar; a++) for (int b = 0; b < w.nvar; b++) S00.setValue(a, b, w.model->eval0(a, b));
    VectorDouble Zc = w.dbin->getMultipleValuesActive(VectorInt(), VectorInt(), means);
    const MatrixRectangular* px = w.model->getDriftNumber() > 0 ? &Xd : nullptr;
    // one calculator updated target after target (queries in between) vs a fresh calculator per target
    {
      KrigingCalcul K(false); bool ok = !(K.setData(&Zc, &means) || K.setLHS(&Sigma, px) || K.setVar(&S00));
      std::vector<double> inc, fre, incs, fres;
      std::vector<MatrixRectangular> keepS0, keepX0;   // the calculator keeps pointers: matrices must outlive it
      keepS0.reserve(8); keepX0.reserve(8);
      for (int t = 0; t < w.dbout->getSampleNumber() && ok; t++)
      {
        std::vector<double> xt; for (int d = 0; d < w.ndim; d++) xt.push_back(w.dbout->getCoordinate(t, d));
        Db* dt = makeDb({xt}, w.ndim, {}, {}, {}, {});
        keepS0.push_back(w.model->evalCovMatrix(w.dbin, dt)); keepX0.push_back(w.model->evalDriftMatrix(dt));
        const MatrixRectangular* px0 = px ? &keepX0.back() : nullptr;
        if (K.setRHS(&keepS0.back(), px0)) ok = false;
        if (ok) { VectorDouble e = K.getEstimation(), s = K.getStdv(); for (double v : e) inc.push_back(v); for (double v : s) incs.push_back(v); }
        KrigingCalcul F(false);
        if (ok && (F.setData(&Zc, &means) || F.setLHS(&Sigma, px) || F.setVar(&S00) || F.setRHS(&keepS0.back(), px0))) ok = false;
        if (ok) { VectorDouble e = F.getEstimation(), s = F.getStdv(); for (double v : e) fre.push_back(v); for (double v : s) fres.push_back(v); }
        delete dt;
      }
      if (ok) { printf("k pair incremental_calcul %s %s %s %s 1:3 =>\n", vecD(inc).c_str(), vecD(fre).c_str(), vecD(incs).c_str(), vecD(fres).c_str()); st.hit("incremental_calcul"); }
    }
    // a moving neighbourhood object used for all the targets, forwards then backwards, vs one per target
    {
      std::vector<double> a, b;
      NeighMoving* nm = NeighMoving::create(false, 4, 1.e6);
      int nt = w.dbout->getSampleNumber();
      for (int pass = 0; pass < 2; pass++) for (int k = 0; k < nt; k++)
      {
        int t = pass == 0 ? k : nt - 1 - k;
        std::vector<double> xt; for (int d = 0; d < w.ndim; d++) xt.push_back(w.dbout->getCoordinate(t, d));
        Db* dt = makeDb({xt}, w.ndim, {}, {}, {}, {}); Db* dt2 = makeDb({xt}, w.ndim, {}, {}, {}, {});
        int n0 = dt->getColumnNumber();
        if (kriging(w.dbin, dt, w.model, nm) == 0) for (int c = n0; c < dt->getColumnNumber(); c++) a.push_back(dt->getValueByColIdx(0, c));
        NeighMoving* fresh = NeighMoving::create(false, 4, 1.e6);
        if (kriging(w.dbin, dt2, w.model, fresh) == 0) for (int c = n0; c < dt2->getColumnNumber(); c++) b.push_back(dt2->getValueByColIdx(0, c));
        delete fresh; delete dt; delete dt2;
      }
      delete nm;
      printf("k pair reused_neighbourhood %s %s - - 1:3 =>\n", vecD(noNA(a)).c_str(), vecD(noNA(b)).c_str()); st.hit("reused_neighbourhood");
    }
    // a model edited through its setters after having been used vs a model built directly
    {
      Model* m1 = w.model->clone();
      (void)m1->evalCovMatrixSymmetricOptim(w.dbin);                 // use it (fills any internal cache)
      double newRange = 2.5 + (double)(q % 5);
      for (int ic = 0; ic < m1->getCovaNumber(); ic++) if (m1->getCova(ic)->hasRange()) m1->getCova(ic)->setRangeIsotropic(newRange);
      Model* m2 = w.model->clone();
      for (int ic = 0; ic < m2->getCovaNumber(); ic++) if (m2->getCova(ic)->hasRange()) m2->getCova(ic)->setRangeIsotropic(newRange);
      printf("k pair edited_model %s %s - - 1:0 =>\n", vecD(flat(m1->evalCovMatrixSymmetricOptim(w.dbin))).c_str(), vecD(flat(m2->evalCovMatrixSymmetric(w.dbin))).c_str());
      st.hit("edited_model");
      // the clone edited above must have left the original untouched
      Model* m3 = w.model->clone();
      printf("k pair model_copy_independent %s %s - - 1:0 =>\n", vecD(flat(w.model->evalCovMatrixSymmetric(w.dbin))).c_str(), vecD(flat(m3->evalCovMatrixSymmetric(w.dbin))).c_str());
      delete m1; delete m2; delete m3;
    }
    // a copy of a data base is independent of its source
    {
      std::string before = observe(w.dbin);
      Db* c = w.dbin->clone();
      c->setArray(0, c->getUIDByColIdx(0), 12345.); c->addColumnsByConstant(1, 3., "extra", ELoc::Z); c->deleteColumnByColIdx(0);
      std::string after = observe(w.dbin);
      printf("f same Db-copy source %s %s =>\n", sha(before).c_str(), sha(after).c_str()); st.hit("db_copy_independent");
      delete c;
    }
    freeWorld(w);
  }
  st.dump(stdout);
  return 0;
}
