// Correspondence harness for C17: automatic model fitting returns a usable, constraint-abiding model.
// Experimental variograms (well behaved, noisy, nearly flat, with holes, with few pairs) are offered
// to Model::fit with random structures, constraints and options; whatever is returned as a success
// is inspected: sills (exact PSD certificate), ranges, every constraint, isotropy / locked rotation,
// and the model is saved, reloaded and used for kriging.  Conditions are judged by the Lean driver.
#include "krig_common.hpp"
#include "Variogram/Vario.hpp"
#include "Variogram/VarioParam.hpp"
#include "Variogram/DirParam.hpp"
#include "Model/Constraints.hpp"
#include "Model/ConsItem.hpp"
#include "Model/Option_VarioFit.hpp"
#include "Model/Option_AutoFit.hpp"
#include "Enum/EConsElem.hpp"
#include "Enum/EConsType.hpp"
#include "Basic/ASerializable.hpp"
#include "Basic/Law.hpp"
#include "Matrix/MatrixSquareSymmetric.hpp"
#include <unistd.h>
using namespace vh;

int main()
{
  muteLibrary();
  Rng rng(seedFromEnv() * 7919 + 17);
  Stats st;
  long ncfg = envLong("VERIF_CASES", thorough() ? 1500 : 60);
  ASerializable::setContainerName(false, "", false); ASerializable::setPrefixName("");
  char tmpl[] = "/var/tmp/vh_c17_XXXXXX"; std::string dir = mkdtemp(tmpl);
  static const ECov pool[] = {ECov::NUGGET, ECov::SPHERICAL, ECov::EXPONENTIAL, ECov::GAUSSIAN, ECov::CUBIC, ECov::MATERN, ECov::LINEAR};
  for (long ic = 0; ic < ncfg; ic++)
  {
    int ndim = 2; defineDefaultSpace(ESpaceType::RN, ndim);
    int nvar = rng.coin(0.65) ? 1 : 2;
    int nech = (int)rng.range(25, 80);
    // ---- data: several shapes of spatial behaviour
    int shape = (int)rng.range(0, 4);     // 0 smooth trend + noise, 1 pure noise, 2 constant-ish, 3 periodic, 4 few points
    if (shape == 4) nech = (int)rng.range(6, 10);
    auto X = genPoints(rng, nech, ndim, 16);
    std::vector<std::vector<double>> Z(nvar, std::vector<double>(nech));
    for (int a = 0; a < nvar; a++) for (int i = 0; i < nech; i++)
    {
      double x = X[i][0], y = X[i][1], v = 0.;
      if (shape == 0) v = 0.3 * x - 0.2 * y + sin(x / 3.) * 2. + rng.unit();
      else if (shape == 1) v = 4. * rng.unit();
      else if (shape == 2) v = 5. + 1e-6 * rng.unit();
      else if (shape == 3) v = cos(x) * sin(y * 0.7) * 3.;
      else v = rng.dyadic(-4, 4, 3);
      Z[a][i] = v + (a ? 0.5 * Z[0][i] : 0.);
    }
    Db* db = makeDb(X, ndim, Z, {}, {}, {});
    int ndir = rng.coin(0.6) ? 1 : 2;
    VarioParam vp;
    for (int d = 0; d < ndir; d++) { DirParam* dp = ndir == 1 ? DirParam::create((int)rng.range(4, 10), 1. + 0.5 * rng.range(0, 4)) : DirParam::create((int)rng.range(4, 8), 1.5, 0.5, 45., 0, 0, TEST, TEST, 0., VectorDouble(), d == 0 ? VectorDouble({1., 0.}) : VectorDouble({0., 1.})); vp.addDir(*dp); delete dp; }
    Vario* vario = Vario::computeFromDb(vp, db);
    if (vario == nullptr) { delete db; st.hit("no_variogram"); continue; }
    // ---- structures, constraints, options
    int ns = (int)rng.range(1, 3); VectorECov types; for (int k = 0; k < ns; k++) types.push_back(pool[rng.range(0, 6)]);
    Constraints cons; struct C { char kind; EConsElem elem; int icov, iv1, iv2; double bound; }; std::vector<C> mine;
    bool authAniso = rng.coin(0.6), authRot = rng.coin(0.6);
    int ncons = rng.coin(0.5) ? 0 : (int)rng.range(1, 4);
    // a pair of constraints on the two ranges of one structure (each direction has its own parameter)
    if (authAniso && ndir >= 2 && rng.coin(0.7))
    {
      int icov = (int)rng.range(0, ns - 1);
      // values chosen so that a bound of one direction applied to the other one would be violated
      int scheme = (int)rng.range(0, 3);
      double b0 = 1. + 0.5 * rng.range(0, 6), gap = 1. + 0.5 * rng.range(0, 4);
      for (int idir = 0; idir < ndim; idir++)
      {
        int kind; double b;
        if (scheme <= 1) { kind = 2; b = (idir == 0) ? b0 : b0 + gap; }                 // two different equalities
        else if (scheme == 2) { kind = (idir == 0) ? 1 : 0; b = (idir == 0) ? b0 : b0 + gap; }   // U <= b0, V >= b0 + gap
        else { kind = (idir == 0) ? 0 : 1; b = (idir == 0) ? b0 + gap : b0; }            // U >= b0 + gap, V <= b0
        EConsType ct = kind == 0 ? EConsType::LOWER : (kind == 1 ? EConsType::UPPER : EConsType::EQUAL);
        cons.addItemFromParamId(EConsElem::RANGE, icov, idir, 0, ct, b);
        mine.push_back({kind == 0 ? 'L' : (kind == 1 ? 'U' : 'E'), EConsElem::RANGE, icov, idir, 0, b});
      }
      st.hit("range_constraints_on_both_directions");
    }
    for (int k = 0; k < ncons; k++)
    {
      int icov = (int)rng.range(0, ns - 1); int what = (int)rng.range(0, 2);
      // a range constraint bears on one direction of the anisotropy (iv1): any direction when the anisotropy is inferred
      int idir = (what != 1 && authAniso && ndir >= 2) ? (int)rng.range(0, ndim - 1) : 0;   // the second range is inferred only from a directional variogram
      int iv = (what == 1) ? (int)rng.range(0, nvar - 1) : idir;
      { bool dup = false; for (auto& c : mine) if (c.icov == icov && ((what == 1) == (c.elem == EConsElem::SILL)) && c.iv1 == iv) dup = true; if (dup) continue; }   // one constraint per parameter: never contradictory
      if (what == 0) { double b = 0.5 + 0.5 * rng.range(0, 12); bool up = rng.coin(); cons.addItemFromParamId(EConsElem::RANGE, icov, idir, 0, up ? EConsType::UPPER : EConsType::LOWER, b); mine.push_back({up ? 'U' : 'L', EConsElem::RANGE, icov, idir, 0, b}); if (idir > 0) st.hit("range_constraint_second_direction"); }
      else if (what == 1) { double b = 0.25 * rng.range(1, 20); bool up = rng.coin(); cons.addItemFromParamId(EConsElem::SILL, icov, iv, iv, up ? EConsType::UPPER : EConsType::LOWER, b); mine.push_back({up ? 'U' : 'L', EConsElem::SILL, icov, iv, iv, b}); }
      else { double b = 0.5 + 0.5 * rng.range(0, 8); cons.addItemFromParamId(EConsElem::RANGE, icov, idir, 0, EConsType::EQUAL, b); mine.push_back({'E', EConsElem::RANGE, icov, idir, 0, b}); if (idir > 0) st.hit("range_constraint_second_direction"); }
    }
    Option_VarioFit optvar(false, authAniso, authRot);
    Model* model = new Model(nvar, ndim);
    int err = model->fit(vario, types, cons, optvar);
    st.hit(err == 0 ? "fit_success" : "fit_refused");
    st.hit("shape_" + std::to_string(shape));
    if (err == 0)
    {
      // ---- sills: exact PSD certificate per structure
      std::vector<double> rangesOut; std::string consOut; bool first = true;
      for (int ic2 = 0; ic2 < model->getCovaNumber(); ic2++)
      {
        const CovAniso* cova = model->getCova(ic2);
        std::string vals; double scale = 0.;
        for (int a = 0; a < nvar; a++) for (int b = 0; b < nvar; b++) { double sv = model->getSill(ic2, a, b); vals += ((a || b) ? "," : "") + dy(sv); scale = std::max(scale, std::fabs(sv)); }
        printf("s psd fitted_sills:%s %d %s %s =>\n", std::string(cova->getType().getKey()).c_str(), nvar, vals.c_str(), dy(std::ldexp(std::max(scale, 1e-300), -36)).c_str()); st.hit("sill_matrices");
        if (cova->hasRange() > 0)
        {
          for (int d = 0; d < ndim; d++) rangesOut.push_back(cova->getRange(d));
          if (!authAniso) { consOut += (first ? "" : ";") + std::string("S,") + dy(cova->getRange(0)) + "," + dy(cova->getRange(1)); first = false; st.hit("isotropy_required"); }
          if (!authRot && cova->getFlagRotation()) { consOut += (first ? "" : ";") + std::string("E,") + dy(cova->getAnisoAngles(0)) + "," + dy(0.); first = false; }
        }
      }
      // ---- user constraints on the returned model (structures may have been reduced: identify by order only when the count is kept)
      if (model->getCovaNumber() == ns)
        for (auto& c : mine)
        {
          const CovAniso* cova = model->getCova(c.icov);
          double v = TEST;
          if (c.elem == EConsElem::RANGE) { if (cova->hasRange() <= 0) continue; v = cova->getRange(c.iv1); }   // iv1 = direction of the anisotropy
          else v = model->getSill(c.icov, c.iv1, c.iv2);
          consOut += (first ? "" : ";") + std::string(1, c.kind) + "," + dy(v) + "," + dy(c.bound); first = false; st.hit("user_constraints");
        }
      else st.hit("structures_reduced");
      // ---- usable: save, reload, krige
      std::string f = dir + "/m.nf"; bool saved = model->dumpToNF(f); Model* back = saved ? Model::createFromNF(f, false) : nullptr; unlink(f.c_str());
      bool kr = false;
      if (back)
      {
        auto X0 = genPoints(rng, 3, ndim, 16); for (auto& p : X0) p[0] += 0.0625;
        Db* out = makeDb(X0, ndim, {}, {}, {}, {}); ANeigh* nu = NeighUnique::create();
        bool intrinsic = false; for (int k = 0; k < back->getCovaNumber(); k++) if (back->getCova(k)->getMinOrder() >= 0) intrinsic = true;
        if (intrinsic || true) back->setDriftIRF(0, 0);
        int n0 = out->getColumnNumber();
        kr = kriging(db, out, back, nu) == 0;
        if (!kr && getenv("VERIF_DEBUG")) { fprintf(stderr, "kriging failed with model:\n%s\n", back->toString().c_str()); }
        if (kr) for (int c = n0; c < out->getColumnNumber(); c++) for (int i = 0; i < out->getSampleNumber(); i++) { double v = out->getValueByColIdx(i, c); if (FFFF(v) || !std::isfinite(v)) { kr = false; if (getenv("VERIF_DEBUG")) fprintf(stderr, "kriging value undefined col %d sample %d: %g with model:\n%s\n", c - n0, i, v, back->toString().c_str()); } }
        delete out; delete nu;
      }
      std::string usable = std::string(saved ? "1" : "0") + (back ? "1" : "0") + (kr ? "1" : "0");
      if (rangesOut.empty()) rangesOut.push_back(1.);
      // total sill of the returned model relative to the variance of the data
      double tot = 0.; for (int k = 0; k < model->getCovaNumber(); k++) tot += std::fabs(model->getSill(k, 0, 0));
      double mean = 0., var = 0.; for (double v : Z[0]) mean += v; mean /= nech; for (double v : Z[0]) var += (v - mean) * (v - mean); var /= nech;
      bool zerosill = tot <= 1e-9 * std::max(var, 1e-300) || tot < 1e-12;
      bool bigmatern = false; for (int k = 0; k < model->getCovaNumber(); k++) if (model->getCova(k)->getType() == ECov::MATERN && model->getCova(k)->getParam() > 50.) bigmatern = true;
      if (getenv("VERIF_DEBUG")) { fprintf(stderr, "cfg aniso=%d rot=%d nvar=%d ns=%d ndirs=%d cons:", (int)authAniso, (int)authRot, nvar, ns, vario->getDirectionNumber()); for (auto& c : mine) fprintf(stderr, " [%c %s cov%d iv1=%d b=%g]", c.kind, c.elem == EConsElem::SILL ? "sill" : "range", c.icov, c.iv1, c.bound); fprintf(stderr, "\n%s\n", model->toString().c_str()); }
      printf("s fit shape%d%s%s %s %s %s =>\n", shape, zerosill ? ":zerosill" : "", bigmatern ? ":bigmatern" : "", vecD(rangesOut).c_str(), consOut.empty() ? "-" : consOut.c_str(), usable.c_str()); st.hit("fitted_models");
      delete back;
    }
    delete model; delete vario; delete db;
  }
  rmdir(dir.c_str());
  st.dump(stdout);
  return 0;
}
