// Correspondence harness for C17: automatic model fitting returns a usable, constraint-abiding model.
// Experimental variograms (well behaved, noisy, nearly flat, with holes, with few pairs) are offered
// to Model::fit with random structures, constraints and options; whatever is returned as a success
// is inspected: sills (exact PSD certificate), ranges, every constraint, isotropy / locked rotation,
// and the model is saved, reloaded and used for kriging.  Conditions are judged by the Lean driver.
#include "krig_common.hpp"
#include "Variogram/Vario.hpp"
#include "Variogram/VarioParam.hpp"
#include "Variogram/DirParam.hpp"
#include "Model/Constraints.hpp"
#include "Model/ConsItem.hpp"
#include "Model/Option_VarioFit.hpp"
#include "Model/Option_AutoFit.hpp"
#include "Enum/EConsElem.hpp"
#include "Enum/EConsType.hpp"
#include "Basic/ASerializable.hpp"
#include "Basic/Law.hpp"
#include "Matrix/MatrixSquareSymmetric.hpp"
#include <unistd.h>
using namespace vh;

#ifdef GSTLEARN_VERIF
// verification hooks of src/Core/model_auto.cpp (parameter bookkeeping of the automatic fitting)
GSTLEARN_EXPORT int gstlearn_verif_parid_encode(int imod, int icov, int icons, int ivar, int jvar);
GSTLEARN_EXPORT void gstlearn_verif_parid_decode(int parid, int out[5]);
GSTLEARN_EXPORT void gstlearn_verif_affect(double def_val, double lower_val, double upper_val, double* param, double* lower, double* upper);
GSTLEARN_EXPORT int gstlearn_verif_compress_parid(VectorInt& parid, VectorDouble& param, VectorDouble& lower, VectorDouble& upper);

static std::string vecOV(const VectorDouble& v) { if (v.empty()) return "-"; std::string o; for (size_t i = 0; i < v.size(); i++) o += (i ? "," : "") + (FFFF(v[i]) ? std::string("NA") : dy(v[i])); return o; }
static std::string ov(double v) { return FFFF(v) ? std::string("NA") : dy(v); }

static void bookkeeping(Rng& rng, Stats& st, long n)
{
  for (long k = 0; k < n; k++)
  {
    // ---- packing of the designators (digits 0-49; constraint kinds are the ten EConsElem values)
    { int f[5]; for (int i = 0; i < 5; i++) f[i] = rng.coin(0.2) ? (rng.coin() ? 0 : 49) : (int)rng.range(0, 49); f[2] = (int)rng.range(0, 9);
      int pid = gstlearn_verif_parid_encode(f[0], f[1], f[2], f[3], f[4]); int out[5]; gstlearn_verif_parid_decode(pid, out);
      printf("a enc %d %d %d %d %d => %d %d,%d,%d,%d,%d\n", f[0], f[1], f[2], f[3], f[4], pid, out[0], out[1], out[2], out[3], out[4]); st.hit("parid_roundtrip"); }
    // ---- merge of one constraint into a slot (every combination of defined / undefined entries; small dyadic values incl. negative)
    { auto pick = [&]() -> double { return rng.coin(0.35) ? TEST : 0.5 * (double)rng.range(-12, 12); };
      double d = pick(), l = pick(), u = pick(), p0 = pick(), l0 = pick(), u0 = pick(); double p = p0, lo = l0, up = u0;
      gstlearn_verif_affect(d, l, u, &p, &lo, &up);
      printf("a aff %s %s %s %s %s %s => %s %s %s\n", ov(d).c_str(), ov(l).c_str(), ov(u).c_str(), ov(p0).c_str(), ov(l0).c_str(), ov(u0).c_str(), ov(p).c_str(), ov(lo).c_str(), ov(up).c_str()); st.hit("constraint_merge"); }
    // ---- look-up in a user's list of constraints (several items may designate the same parameter: the first one answers)
    { Constraints cons; std::string items; int nit = (int)rng.range(0, 5);
      static const int cases[4] = {-1, 0, 1, 2}; static const int elems[4] = {1, 2, 3, 4};
      for (int i = 0; i < nit; i++)
      { int icase = cases[rng.range(0, 3)], igrf = (int)rng.range(0, 1), icov = (int)rng.range(0, 1), el = elems[rng.range(0, 3)], iv1 = (int)rng.range(0, 1), iv2 = (int)rng.range(0, 1); double v = 0.5 * (double)rng.range(-6, 12);
        ConsItem* it = ConsItem::createFromParamId(icov, EConsElem::fromValue(el), EConsType::fromValue(icase), v, igrf, iv1, iv2); if (it == nullptr) continue;
        cons.addItem(it); delete it;
        items += (items.empty() ? "" : "/") + std::to_string(icase) + "~" + std::to_string(igrf) + "~" + std::to_string(icov) + "~" + std::to_string(el) + "~" + std::to_string(iv1) + "~" + std::to_string(iv2) + "~" + dy(v); }
      for (int q = 0; q < 4; q++)
      { int icase = cases[rng.range(0, 2)], igrf = (int)rng.range(0, 1), icov = (int)rng.range(0, 1), el = elems[rng.range(0, 3)], iv1 = (int)rng.range(0, 1), iv2 = (int)rng.range(0, 1);
        double v = constraints_get(cons, EConsType::fromValue(icase), igrf, icov, EConsElem::fromValue(el), iv1, iv2);
        printf("a cget %s %d %d %d %d %d %d => %s\n", items.empty() ? "-" : items.c_str(), icase, igrf, icov, el, iv1, iv2, ov(v).c_str()); st.hit("constraint_lookup"); } }
    // ---- compression of the undefined parameters
    { int m = (int)rng.range(0, 7); VectorInt ids(m); VectorDouble ps(m), ls(m), us(m);
      for (int i = 0; i < m; i++) { ids[i] = (int)rng.range(0, 400000); ps[i] = rng.coin(0.4) ? TEST : 0.5 * (double)rng.range(-6, 6); ls[i] = rng.coin(0.4) ? TEST : 0.5 * (double)rng.range(-6, 6); us[i] = rng.coin(0.4) ? TEST : 0.5 * (double)rng.range(-6, 6); }
      VectorInt ids2 = ids; VectorDouble ps2 = ps, ls2 = ls, us2 = us;
      int nk = gstlearn_verif_compress_parid(ids2, ps2, ls2, us2);
      std::vector<int> a(ids.begin(), ids.end()), b(ids2.begin(), ids2.end());
      printf("a cmp %s %s %s %s => %d %s %s %s %s\n", vecI(a).c_str(), vecOV(ps).c_str(), vecOV(ls).c_str(), vecOV(us).c_str(), nk, vecI(b).c_str(), vecOV(ps2).c_str(), vecOV(ls2).c_str(), vecOV(us2).c_str()); st.hit("parameter_compression"); }
  }
}
#endif

int main()
{
  muteLibrary();
  Rng rng(seedFromEnv() * 7919 + 17);
  Stats st;
  long ncfg = envLong("VERIF_CASES", thorough() ? 1500 : 60);
  ASerializable::setContainerName(false, "", false); ASerializable::setPrefixName("");
  char tmpl[] = "/var/tmp/vh_c17_XXXXXX"; std::string dir = mkdtemp(tmpl);
#ifdef GSTLEARN_VERIF
  bookkeeping(rng, st, thorough() ? 20000 : 1500);
#endif
  static const ECov pool[] = {ECov::NUGGET, ECov::SPHERICAL, ECov::EXPONENTIAL, ECov::GAUSSIAN, ECov::CUBIC, ECov::MATERN, ECov::LINEAR};
  for (long ic = 0; ic < ncfg; ic++)
  {
    int ndim = 2; defineDefaultSpace(ESpaceType::RN, ndim);
    int nvar = rng.coin(0.65) ? 1 : 2;
    int nech = (int)rng.range(25, 80);
    // ---- data: several shapes of spatial behaviour
    int shape = (int)rng.range(0, 4);     // 0 smooth trend + noise, 1 pure noise, 2 constant-ish, 3 periodic, 4 few points
    // the first configurations of every run are devoted to the shared rotation (strongly anisotropic rotated data, four
    // directions, rotation inferred, one rotation for all structures, a linear-like structure first every other time)
    bool devoted = ic < 8;
    if (devoted) { shape = 5; nech = (int)rng.range(60, 80); }
    if (shape == 4) nech = (int)rng.range(6, 10);
    double theta5 = (15. + 15. * (double)rng.range(0, 4)) * M_PI / 180.;
    auto X = genPoints(rng, nech, ndim, 16);
    std::vector<std::vector<double>> Z(nvar, std::vector<double>(nech));
    for (int a = 0; a < nvar; a++) for (int i = 0; i < nech; i++)
    {
      double x = X[i][0], y = X[i][1], v = 0.;
      if (shape == 0) v = 0.3 * x - 0.2 * y + sin(x / 3.) * 2. + rng.unit();
      else if (shape == 1) v = 4. * rng.unit();
      else if (shape == 2) v = 5. + 1e-6 * rng.unit();
      else if (shape == 3) v = cos(x) * sin(y * 0.7) * 3.;
      else if (shape == 5) { double u = x * cos(theta5) + y * sin(theta5), w = -x * sin(theta5) + y * cos(theta5); v = 2. * sin(u / 1.5) + 0.7 * sin(w / 6.) + 0.3 * rng.unit(); }
      else v = rng.dyadic(-4, 4, 3);
      // the second variable is never an exact multiple of the first one (deterministic shapes would give
      // Z2 = 1.5 Z1: every valid sill matrix is then singular and cokriging is singular by construction)
      Z[a][i] = v + (a ? 0.5 * Z[0][i] + 0.25 * rng.unit() : 0.);
    }
    Db* db = makeDb(X, ndim, Z, {}, {}, {});
    // 1 direction (omnidirectional), 2 (anisotropy inferred, rotation not: the library needs more directions than dimensions), or 4 (rotation inferred)
    int ndir = rng.coin(0.35) ? 1 : (rng.coin(0.4) ? 2 : 4);
    if (devoted) ndir = 4;
    VarioParam vp;
    for (int d = 0; d < ndir; d++)
    {
      DirParam* dp;
      if (ndir == 1) dp = DirParam::create((int)rng.range(4, 10), 1. + 0.5 * rng.range(0, 4));
      else if (ndir == 2) dp = DirParam::create((int)rng.range(4, 8), 1.5, 0.5, 45., 0, 0, TEST, TEST, 0., VectorDouble(), d == 0 ? VectorDouble({1., 0.}) : VectorDouble({0., 1.}));
      else { static const double cx[4] = {1., 1., 0., -1.}, cy[4] = {0., 1., 1., 1.}; dp = DirParam::create((int)rng.range(4, 8), 1.5, 0.5, 22.5, 0, 0, TEST, TEST, 0., VectorDouble(), VectorDouble({cx[d], cy[d]})); }
      vp.addDir(*dp); delete dp;
    }
    Vario* vario = Vario::computeFromDb(vp, db);
    if (vario == nullptr) { delete db; st.hit("no_variogram"); continue; }
    // ---- structures, constraints, options
    int ns = (int)rng.range(1, 3); VectorECov types; for (int k = 0; k < ns; k++) types.push_back(pool[rng.range(0, 6)]);
    Constraints cons; struct C { char kind; EConsElem elem; int icov, iv1, iv2; double bound; }; std::vector<C> mine;
    bool authAniso = rng.coin(0.6), authRot = rng.coin(0.6);
    if (ndir > ndim && rng.coin(0.7)) authAniso = authRot = true;          // rotation inferred: exercised on purpose
    bool rotInferred = authAniso && authRot && ndir > ndim;
    bool lockSame = rng.coin(rotInferred ? 0.5 : 0.1);
    bool noReduce = rng.coin(0.5);                                          // structures kept even when their sill vanishes
    if (devoted) { authAniso = authRot = rotInferred = lockSame = noReduce = true; ns = 2; types.resize(2); types[0] = (ic % 2 == 0) ? ECov::LINEAR : pool[rng.range(1, 4)]; types[1] = pool[rng.range(1, 4)]; st.hit("devoted_shared_rotation"); }
    if (lockSame && rotInferred && rng.coin(0.5)) { if (ns < 2) { ns = 2; types.push_back(pool[rng.range(1, 5)]); } types[0] = ECov::LINEAR; if (types[1] == ECov::LINEAR || types[1] == ECov::NUGGET) types[1] = ECov::SPHERICAL; st.hit("shared_rotation_linear_first"); }
    int ncons = rng.coin(0.5) ? 0 : (int)rng.range(1, 4);
    // a pair of constraints on the two ranges of one structure (each direction has its own parameter)
    if (authAniso && ndir >= 2 && rng.coin(0.7))
    {
      int icov = (int)rng.range(0, ns - 1);
      // values chosen so that a bound of one direction applied to the other one would be violated
      int scheme = (int)rng.range(0, 3);
      double b0 = 1. + 0.5 * rng.range(0, 6), gap = 1. + 0.5 * rng.range(0, 4);
      for (int idir = 0; idir < ndim; idir++)
      {
        int kind; double b;
        if (scheme <= 1) { kind = 2; b = (idir == 0) ? b0 : b0 + gap; }                 // two different equalities
        else if (scheme == 2) { kind = (idir == 0) ? 1 : 0; b = (idir == 0) ? b0 : b0 + gap; }   // U <= b0, V >= b0 + gap
        else { kind = (idir == 0) ? 0 : 1; b = (idir == 0) ? b0 + gap : b0; }            // U >= b0 + gap, V <= b0
        EConsType ct = kind == 0 ? EConsType::LOWER : (kind == 1 ? EConsType::UPPER : EConsType::EQUAL);
        cons.addItemFromParamId(EConsElem::RANGE, icov, idir, 0, ct, b);
        mine.push_back({kind == 0 ? 'L' : (kind == 1 ? 'U' : 'E'), EConsElem::RANGE, icov, idir, 0, b});
      }
      st.hit("range_constraints_on_both_directions");
    }
    for (int k = 0; k < ncons; k++)
    {
      int icov = (int)rng.range(0, ns - 1); int what = (int)rng.range(0, 4);
      if (rotInferred && rng.coin(0.4)) what = 3;
      if (what == 3)
      {
        // rotation angle of one structure (inferred only with a directional variogram, anisotropy and rotation allowed):
        // lower / upper / equality, intervals of negative angles included
        bool dup = false; for (auto& c : mine) if (c.icov == icov && c.elem == EConsElem::ANGLE) dup = true;
        if (dup || !(authAniso && authRot && ndir > ndim) || types[icov] == ECov::NUGGET) continue;
        if (lockSame) { int first = -1; for (int k2 = 0; k2 < ns && first < 0; k2++) if (types[k2] != ECov::NUGGET) first = k2; if (icov != first) continue; }   // one rotation for all structures: carried by the first one
        int kind = (int)rng.range(0, 2); double b = 15. * rng.range(-5, 5);
        if (kind == 2) { cons.addItemFromParamId(EConsElem::ANGLE, icov, 0, 0, EConsType::EQUAL, b); mine.push_back({'E', EConsElem::ANGLE, icov, 0, 0, b}); }
        else if (rng.coin(0.5))
        { // an interval [b, b + w]
          double w = 15. * rng.range(1, 3);
          cons.addItemFromParamId(EConsElem::ANGLE, icov, 0, 0, EConsType::LOWER, b); mine.push_back({'L', EConsElem::ANGLE, icov, 0, 0, b});
          cons.addItemFromParamId(EConsElem::ANGLE, icov, 0, 0, EConsType::UPPER, b + w); mine.push_back({'U', EConsElem::ANGLE, icov, 0, 0, b + w});
        }
        else { cons.addItemFromParamId(EConsElem::ANGLE, icov, 0, 0, kind == 0 ? EConsType::LOWER : EConsType::UPPER, b); mine.push_back({kind == 0 ? 'L' : 'U', EConsElem::ANGLE, icov, 0, 0, b}); }
        st.hit("angle_constraints");
        continue;
      }
      if (what == 4)
      {
        // third parameter of a Matern structure
        bool dup = false; for (auto& c : mine) if (c.icov == icov && c.elem == EConsElem::PARAM) dup = true;
        if (dup || types[icov] != ECov::MATERN) continue;
        int kind = (int)rng.range(0, 2); double b = 0.25 * rng.range(1, 8);
        cons.addItemFromParamId(EConsElem::PARAM, icov, 0, 0, kind == 0 ? EConsType::LOWER : (kind == 1 ? EConsType::UPPER : EConsType::EQUAL), b);
        mine.push_back({kind == 0 ? 'L' : (kind == 1 ? 'U' : 'E'), EConsElem::PARAM, icov, 0, 0, b});
        st.hit("param_constraints");
        continue;
      }
      // a range constraint bears on one direction of the anisotropy (iv1): any direction when the anisotropy is inferred
      int idir = (what != 1 && authAniso && ndir >= 2) ? (int)rng.range(0, ndim - 1) : 0;   // the second range is inferred only from a directional variogram
      int iv = (what == 1) ? (int)rng.range(0, nvar - 1) : idir;
      { bool dup = false; for (auto& c : mine) if (c.icov == icov && ((what == 1) == (c.elem == EConsElem::SILL)) && c.iv1 == iv) dup = true; if (dup) continue; }   // one constraint per parameter: never contradictory
      if (what == 0) { double b = 0.5 + 0.5 * rng.range(0, 12); bool up = rng.coin(); cons.addItemFromParamId(EConsElem::RANGE, icov, idir, 0, up ? EConsType::UPPER : EConsType::LOWER, b); mine.push_back({up ? 'U' : 'L', EConsElem::RANGE, icov, idir, 0, b}); if (idir > 0) st.hit("range_constraint_second_direction"); }
      else if (what == 1) { double b = 0.25 * rng.range(1, 20); bool up = rng.coin(); cons.addItemFromParamId(EConsElem::SILL, icov, iv, iv, up ? EConsType::UPPER : EConsType::LOWER, b); mine.push_back({up ? 'U' : 'L', EConsElem::SILL, icov, iv, iv, b}); }
      else { double b = 0.5 + 0.5 * rng.range(0, 8); cons.addItemFromParamId(EConsElem::RANGE, icov, idir, 0, EConsType::EQUAL, b); mine.push_back({'E', EConsElem::RANGE, icov, idir, 0, b}); if (idir > 0) st.hit("range_constraint_second_direction"); }
    }
    Option_VarioFit optvar(noReduce, authAniso, authRot, lockSame);
    Model* model = new Model(nvar, ndim);
    if (getenv("VERIF_DEBUG")) { fprintf(stderr, "before-fit ic=%ld shape=%d nech=%d nvar=%d ndir=%d aniso=%d rot=%d same=%d noreduce=%d types:", ic, shape, nech, nvar, ndir, (int)authAniso, (int)authRot, (int)lockSame, (int)noReduce); for (auto& t : types) fprintf(stderr, " %s", std::string(t.getKey()).c_str()); fprintf(stderr, " cons:"); for (auto& c : mine) fprintf(stderr, " [%c elem%d cov%d iv1=%d b=%g]", c.kind, c.elem.getValue(), c.icov, c.iv1, c.bound); fprintf(stderr, "\n"); fflush(stderr); }
    int err = model->fit(vario, types, cons, optvar);
    st.hit(err == 0 ? "fit_success" : "fit_refused");
    st.hit("shape_" + std::to_string(shape));
    if (err == 0)
    {
      // ---- sills: exact PSD certificate per structure
      std::vector<double> rangesOut; std::string consOut; bool first = true;
      // a Matern structure whose third parameter has run away (known finding F79) spoils the sills of every structure of the model
      bool anyBigMatern = false; for (int k = 0; k < model->getCovaNumber(); k++) if (model->getCova(k)->getType() == ECov::MATERN && model->getCova(k)->getParam() > 50.) anyBigMatern = true;
      for (int ic2 = 0; ic2 < model->getCovaNumber(); ic2++)
      {
        const CovAniso* cova = model->getCova(ic2);
        std::string vals; double scale = 0.;
        for (int a = 0; a < nvar; a++) for (int b = 0; b < nvar; b++) { double sv = model->getSill(ic2, a, b); vals += ((a || b) ? "," : "") + dy(sv); scale = std::max(scale, std::fabs(sv)); }
        printf("s psd fitted_sills:%s%s %d %s %s =>\n", std::string(cova->getType().getKey()).c_str(), anyBigMatern ? ":bigmatern" : "", nvar, vals.c_str(), dy(std::ldexp(std::max(scale, 1e-300), -36)).c_str()); st.hit("sill_matrices");
        if (cova->hasRange() > 0)
        {
          for (int d = 0; d < ndim; d++) rangesOut.push_back(cova->getRange(d));
          if (!authAniso) { consOut += (first ? "" : ";") + std::string("S,") + dy(cova->getRange(0)) + "," + dy(cova->getRange(1)); first = false; st.hit("isotropy_required"); }
          if (!authRot && cova->getFlagRotation()) { consOut += (first ? "" : ";") + std::string("E,") + dy(cova->getAnisoAngles(0)) + "," + dy(0.); first = false; }
        }
        if (cova->hasRange() != 0 && lockSame && authAniso && authRot && ndir > ndim)
        { // one rotation shared by all the structures that can be anisotropic (linear-like ones included: hasRange() = -1):
          // compare with the first such structure
          for (int k0 = 0; k0 < ic2; k0++) if (model->getCova(k0)->hasRange() != 0)
          { consOut += (first ? "" : ";") + std::string("E,") + dy(cova->getAnisoAngles(0)) + "," + dy(model->getCova(k0)->getAnisoAngles(0)); first = false; st.hit("same_rotation_required"); break; }
        }
      }
      // ---- user constraints on the returned model (structures may have been reduced: identify by order only when the count is kept)
      if (model->getCovaNumber() == ns)
        for (auto& c : mine)
        {
          const CovAniso* cova = model->getCova(c.icov);
          double v = TEST;
          if (c.elem == EConsElem::RANGE) { if (cova->hasRange() <= 0) continue; v = cova->getRange(c.iv1); }   // iv1 = direction of the anisotropy
          else if (c.elem == EConsElem::ANGLE) { if (cova->hasRange() <= 0) continue; v = cova->getAnisoAngles(0); st.hit("angle_constraints_checked"); }
          else if (c.elem == EConsElem::PARAM) { if (cova->getType() != ECov::MATERN) continue; v = cova->getParam(); st.hit("param_constraints_checked"); }
          else v = model->getSill(c.icov, c.iv1, c.iv2);
          consOut += (first ? "" : ";") + std::string(1, c.kind) + "," + dy(v) + "," + dy(c.bound); first = false; st.hit("user_constraints");
        }
      else st.hit("structures_reduced");
      // ---- usable: save, reload, krige
      std::string f = dir + "/m.nf"; bool saved = model->dumpToNF(f); Model* back = saved ? Model::createFromNF(f, false) : nullptr; unlink(f.c_str());
      bool kr = false;
      if (back)
      {
        auto X0 = genPoints(rng, 3, ndim, 16); for (auto& p : X0) p[0] += 0.0625;
        Db* out = makeDb(X0, ndim, {}, {}, {}, {}); ANeigh* nu = NeighUnique::create();
        bool intrinsic = false; for (int k = 0; k < back->getCovaNumber(); k++) if (back->getCova(k)->getMinOrder() >= 0) intrinsic = true;
        if (intrinsic || true) back->setDriftIRF(0, 0);
        int n0 = out->getColumnNumber();
        kr = kriging(db, out, back, nu) == 0;
        if (!kr && getenv("VERIF_DEBUG")) { fprintf(stderr, "kriging failed with model:\n%s\n", back->toString().c_str()); }
        if (kr) for (int c = n0; c < out->getColumnNumber(); c++) for (int i = 0; i < out->getSampleNumber(); i++) { double v = out->getValueByColIdx(i, c); if (FFFF(v) || !std::isfinite(v)) { kr = false; if (getenv("VERIF_DEBUG")) fprintf(stderr, "kriging value undefined col %d sample %d: %g with model:\n%s\n", c - n0, i, v, back->toString().c_str()); } }
        delete out; delete nu;
      }
      std::string usable = std::string(saved ? "1" : "0") + (back ? "1" : "0") + (kr ? "1" : "0");
      if (rangesOut.empty()) rangesOut.push_back(1.);
      // total sill of the returned model relative to the variance of the data
      double tot = 0.; for (int k = 0; k < model->getCovaNumber(); k++) tot += std::fabs(model->getSill(k, 0, 0));
      double mean = 0., var = 0.; for (double v : Z[0]) mean += v; mean /= nech; for (double v : Z[0]) var += (v - mean) * (v - mean); var /= nech;
      bool zerosill = tot <= 1e-9 * std::max(var, 1e-300) || tot < 1e-12;
      bool bigmatern = false; for (int k = 0; k < model->getCovaNumber(); k++) if (model->getCova(k)->getType() == ECov::MATERN && model->getCova(k)->getParam() > 50.) bigmatern = true;
      if (getenv("VERIF_DEBUG")) { fprintf(stderr, "cfg aniso=%d rot=%d nvar=%d ns=%d ndirs=%d cons:", (int)authAniso, (int)authRot, nvar, ns, vario->getDirectionNumber()); for (auto& c : mine) fprintf(stderr, " [%c %s cov%d iv1=%d b=%g]", c.kind, c.elem == EConsElem::SILL ? "sill" : (c.elem == EConsElem::ANGLE ? "angle" : (c.elem == EConsElem::PARAM ? "param" : "range")), c.icov, c.iv1, c.bound); fprintf(stderr, "\n%s\n", model->toString().c_str()); }
      printf("s fit shape%d%s%s %s %s %s =>\n", shape, zerosill ? ":zerosill" : "", bigmatern ? ":bigmatern" : "", vecD(rangesOut).c_str(), consOut.empty() ? "-" : consOut.c_str(), usable.c_str()); st.hit("fitted_models");
      delete back;
    }
    delete model; delete vario; delete db;
  }
  rmdir(dir.c_str());
  st.dump(stdout);
  return 0;
}
