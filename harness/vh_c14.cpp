// Correspondence harness for C14: non-conditional simulations follow the model they are given.
//  (a) deterministic certificates: every simulator that exposes its linear map is applied to the unit
//      vectors; the matrix A obtained is sent with the model covariance C (or precision Q) and the Lean
//      driver checks A At = C / (A At) Q = I in exact arithmetic (`w law …`); the turning-band mixing
//      coefficients and normalisation factor are observed through the GSTLEARN_VERIF hook;
//  (b) Monte-Carlo: fixed-size samples of realisations; every empirical moment is sent with its model
//      value and the driver decides at 6 standard deviations in exact arithmetic (`w mc …`);
//  (c) the basic random generators: range and first two moments of every law of Law.cpp.
#include "krig_common.hpp"
#include "Simulation/CalcSimuTurningBands.hpp"
#include "Simulation/CalcSimuFFT.hpp"
#include "Simulation/SimuFFTParam.hpp"
#include "Simulation/SimuSpectral.hpp"
#include "Matrix/MatrixSquareSymmetric.hpp"
#include "Matrix/MatrixSquareGeneral.hpp"
#include "Matrix/MatrixSparse.hpp"
#include "LinearOp/CholeskyDense.hpp"
#include "LinearOp/ShiftOpCs.hpp"
#include "LinearOp/PrecisionOp.hpp"
#include "LinearOp/PrecisionOpCs.hpp"
#include "Mesh/MeshETurbo.hpp"
#include "Basic/Law.hpp"
using namespace vh;

static const char* K = "6:0";      // number of standard deviations

// empirical moments of S[point][simu] against the model covariance C (row-major) and the means
static void moments(const std::string& what, const std::vector<std::vector<double>>& S, const std::vector<double>& C, const std::vector<double>& mean, Stats& st)
{
  int np = (int)S.size(), ns = (int)S[0].size();
  for (int i = 0; i < np; i++)
  {
    double m = 0.; for (double v : S[i]) m += v; m /= ns;
    printf("w mc mean %s %d %s %s %s %s =>\n", what.c_str(), ns, K, dy(m).c_str(), dy(mean[i]).c_str(), dy(C[(size_t)i * np + i]).c_str());
    for (int j = 0; j <= i; j++)
    {
      double c = 0.; for (int k = 0; k < ns; k++) c += (S[i][k] - mean[i]) * (S[j][k] - mean[j]); c /= ns;     // known mean: unbiased, variance (Cii Cjj + Cij^2)/n
      printf("w mc cov %s %d %s %s %s %s %s =>\n", what.c_str(), ns, K, dy(c).c_str(), dy(C[(size_t)i * np + j]).c_str(), dy(C[(size_t)i * np + i]).c_str(), dy(C[(size_t)j * np + j]).c_str());
    }
  }
  st.hit("moment_sets_" + what);
}

// one law: n draws through f; mean / variance targets; the variance of the squared deviation is estimated
// from the sample itself (fourth moment); support [lo, hi] (strict or not)
template <class F> static void lawCheck(const char* what, long n, F f, double mean, double var, bool strict, double lo, double hi, Stats& st)
{
  double s = 0, omin = 1e300, omax = -1e300;
  std::vector<double> x(n);
  for (long i = 0; i < n; i++) { x[i] = f(); s += x[i]; omin = std::min(omin, x[i]); omax = std::max(omax, x[i]); }
  double s2 = 0, s4 = 0;
  for (long i = 0; i < n; i++) { double d = (x[i] - mean) * (x[i] - mean); s2 += d; s4 += d * d; }
  s2 /= n; s4 /= n;
  printf("w mc range %s %d %s %s %s %s =>\n", what, strict ? 1 : 0, dy(lo).c_str(), dy(hi).c_str(), dy(omin).c_str(), dy(omax).c_str());
  printf("w mc mean %s %ld %s %s %s %s =>\n", what, n, K, dy(s / n).c_str(), dy(mean).c_str(), dy(var).c_str());
  printf("w mc mean %s:variance %ld %s %s %s %s =>\n", what, n, K, dy(s2).c_str(), dy(var).c_str(), dy(std::max(0., s4 - s2 * s2)).c_str());
  st.hit("laws");
}

static std::string flat(const std::vector<double>& v) { return vecD(v); }

// random PSD matrix of sills (small dyadics), nvar 1..3
static VectorDouble genSills(Rng& r, int nvar)
{
  VectorDouble sills(nvar * nvar, 0.);
  std::vector<std::vector<double>> G(nvar, std::vector<double>(nvar));
  for (int a = 0; a < nvar; a++) for (int b = 0; b < nvar; b++) G[a][b] = (double)r.range(-3, 3) / 2.;
  for (int a = 0; a < nvar; a++) for (int b = 0; b < nvar; b++)
  { double s = 0; for (int c = 0; c < nvar; c++) s += G[a][c] * G[b][c]; sills[a * nvar + b] = s + (a == b ? 0.5 : 0.); }
  return sills;
}

struct Struc { ECov type; double param; };

static Model* genModelTB(Rng& r, int ndim, int nvar, std::string& text, Stats& st, bool single, const std::vector<Struc>& pool)
{
  int ncov = single ? 1 : (int)r.range(1, 3);
  Model* model = nullptr;
  text.clear();
  for (int ic = 0; ic < ncov; ic++)
  {
    bool nug = (ic > 0 && r.coin(0.25));
    Struc s = nug ? Struc{ECov::NUGGET, 1.} : pool[r.range(0, (long)pool.size() - 1)];
    VectorDouble sills = genSills(r, nvar);
    VectorDouble ranges, angles;
    double range = r.dyadic(1, 6, 1);
    if (!nug && ndim > 1 && r.coin(0.6))
    {
      for (int d = 0; d < ndim; d++) ranges.push_back(r.dyadic(1, 6, 1));
      if (r.coin(0.7)) { angles = VectorDouble(ndim, 0.); angles[0] = (double)r.range(0, 170); if (ndim == 3) { angles[1] = (double)r.range(0, 40); angles[2] = (double)r.range(0, 40); } }
      st.hit("model_anisotropic");
    }
    if (model == nullptr) model = Model::createFromParam(s.type, range, 1., s.param, ranges, sills, angles);
    else model->addCovFromParam(s.type, range, 1., s.param, ranges, sills, angles);
    if (model == nullptr) return nullptr;
    text += std::string(s.type.getKey()) + "/";
    st.hit(std::string("cov_") + std::string(s.type.getKey()));
  }
  return model;
}

// model covariance between (point i, variable a) ordered variable-major
static std::vector<double> modelCov(Model* model, const std::vector<SpacePoint>& P, int nvar)
{
  int np = (int)P.size(), n = np * nvar;
  std::vector<double> C((size_t)n * n);
  for (int a = 0; a < nvar; a++) for (int i = 0; i < np; i++) for (int b = 0; b < nvar; b++) for (int j = 0; j < np; j++)
    C[(size_t)(a * np + i) * n + (b * np + j)] = (i == j) ? model->eval0(a, b) : model->eval(P[i], P[j], a, b);
  return C;
}

// is the eigenvector matrix of some structure's sills (as the library returns it) non symmetric ?
static bool eigenRotated(Model* model)
{
  for (int is = 0; is < model->getCovaNumber(); is++)
  {
    MatrixSquareSymmetric mat = model->getSillValues(is);
    if (mat.computeEigen()) continue;
    const MatrixSquareGeneral* V = mat.getEigenVectors();
    int n = V->getNRows();
    for (int i = 0; i < n; i++) for (int j = 0; j < i; j++) if (std::fabs(V->getValue(i, j) - V->getValue(j, i)) > 1e-9) return true;
  }
  return false;
}

int main()
{
  muteLibrary();
  Rng rng(seedFromEnv() * 7919 + 14);
  Stats st;
  long nsim = envLong("VERIF_C14_NSIM", thorough() ? 6000 : 1500);
  long ncfg = envLong("VERIF_CASES", thorough() ? 60 : 8);
  long nlaw = envLong("VERIF_C14_NLAW", thorough() ? 400000 : 60000);

  // ---------- (c) basic random generators: supports and first two moments
  {
    law_set_random_seed((int)rng.range(1, 20000000));
    lawCheck("uniform", nlaw, [] { return law_uniform(); }, 0.5, 1. / 12., true, 0., 1., st);
    double a = rng.dyadic(-4, 0, 2), b = a + rng.dyadic(1, 6, 2);
    lawCheck("uniform_ab", nlaw, [a, b] { return law_uniform(a, b); }, (a + b) / 2., (b - a) * (b - a) / 12., true, a, b, st);
    int i0 = (int)rng.range(-5, 5), i1 = i0 + (int)rng.range(0, 9); double ni = i1 - i0 + 1;
    lawCheck("int_uniform", nlaw, [i0, i1] { return (double)law_int_uniform(i0, i1); }, (i0 + i1) / 2., (ni * ni - 1.) / 12., false, i0, i1, st);
    double gm = rng.dyadic(-3, 3, 1), gs = rng.dyadic(1, 4, 1);
    lawCheck("gaussian", nlaw, [gm, gs] { return law_gaussian(gm, gs); }, gm, gs * gs, false, -1e300, 1e300, st);
    double lam = rng.dyadic(1, 4, 1);
    lawCheck("exponential", nlaw, [lam] { return law_exponential(lam); }, 1. / lam, 1. / (lam * lam), true, 0., 1e300, st);
    for (double al : {0.5, 1., 2.5, 7.})
      lawCheck(("gamma_" + std::to_string((int)(al * 10))).c_str(), nlaw, [al] { return law_gamma(al); }, al, al, true, 0., 1e300, st);
    for (double pl : {0.75, 4., 30.})
      lawCheck(("poisson_" + std::to_string((int)(pl * 100))).c_str(), nlaw / 4, [pl] { return (double)law_poisson(pl); }, pl, pl, false, 0., 1e300, st);
    lawCheck("binomial_small", nlaw, [] { return (double)law_binomial(12, 0.25); }, 3., 2.25, false, 0., 12., st);
    lawCheck("binomial_large", nlaw / 4, [] { return (double)law_binomial(200, 0.5); }, 100., 50., false, 0., 200., st);
    double b1 = 2., b2 = 3.5;
    lawCheck("beta1", nlaw / 2, [b1, b2] { return law_beta1(b1, b2); }, b1 / (b1 + b2), b1 * b2 / ((b1 + b2) * (b1 + b2) * (b1 + b2 + 1.)), true, 0., 1., st);
    double c1 = 2., c2 = 6.;   // beta prime: mean a/(b-1), variance a(a+b-1)/((b-2)(b-1)^2)
    lawCheck("beta2", nlaw / 2, [c1, c2] { return law_beta2(c1, c2); }, c1 / (c2 - 1.), c1 * (c1 + c2 - 1.) / ((c2 - 2.) * (c2 - 1.) * (c2 - 1.)), true, 0., 1e300, st);
    // truncated Gaussian
    double lo = rng.dyadic(-2, 0, 2), hi = lo + rng.dyadic(1, 3, 2);
    double Z = law_cdf_gaussian(hi) - law_cdf_gaussian(lo), pl = law_df_gaussian(lo), ph = law_df_gaussian(hi);
    double tm = (pl - ph) / Z, tv = 1. + (lo * pl - hi * ph) / Z - tm * tm;
    lawCheck("gaussian_between_bounds", nlaw / 2, [lo, hi] { return law_gaussian_between_bounds(lo, hi); }, tm, tv, false, lo, hi, st);
  }

  // ---------- (a)+(b) simulators
  const std::vector<Struc> poolTB = {{ECov::SPHERICAL, 1.}, {ECov::EXPONENTIAL, 1.}, {ECov::GAUSSIAN, 1.}, {ECov::CUBIC, 1.}, {ECov::MATERN, 0.5},
                                     {ECov::MATERN, 1.5}, {ECov::STABLE, 0.75}, {ECov::STABLE, 1.5}, {ECov::SINCARD, 1.},
                                     // smoothness below 1/2: simulated as a mixture of exponential covariances with a random scale (Beta law)
                                     {ECov::MATERN, 0.375}, {ECov::MATERN, 0.1875}, {ECov::STABLE, 0.5}};
  for (long ic = 0; ic < ncfg; ic++)
  {
    int ndim = (int)rng.range(1, 3);
    defineDefaultSpace(ESpaceType::RN, ndim);

    // ---- turning bands: 1-3 variables, nested structures, points and small grids
    {
      int nvar = (int)rng.range(1, 3);
      std::string mtext;
      // (thorough tier: the slow low-smoothness structures stay in the pool for the first 8 configurations only)
      std::vector<Struc> poolNow = poolTB; if (thorough() && ic >= 8) poolNow.resize(poolTB.size() - 3);
      Model* model = genModelTB(rng, ndim, nvar, mtext, st, false, poolNow);
      // the first two configurations of every run: a single Matern structure with smoothness below 1/2 (one variable),
      // so that the mixture-of-exponentials construction is always examined on its own
      if (ic < 2 && model != nullptr) { delete model; nvar = 1; model = Model::createFromParam(ECov::MATERN, 5. + (double)rng.range(0, 2), 1., ic == 0 ? 0.375 : 0.1875); st.hit("tb_devoted_matern_below_half"); }
      if (model != nullptr)
      {
        VectorDouble means(nvar); for (int a = 0; a < nvar; a++) means[a] = rng.dyadic(-3, 3, 2);
        model->setMeans(means);
        bool onGrid = rng.coin(0.4);
        int np = onGrid ? 0 : 5;
        Db* db = nullptr;
        std::vector<SpacePoint> P;
        if (onGrid)
        {
          VectorInt nx(ndim); VectorDouble dx(ndim), x0(ndim);
          for (int d = 0; d < ndim; d++) { nx[d] = (ndim == 1) ? 6 : (d == 0 ? 3 : 2); dx[d] = rng.dyadic(1, 3, 1) / 2.; x0[d] = rng.dyadic(-2, 2, 1); }
          VectorDouble angles; if (ndim == 2 && rng.coin()) angles = {(double)rng.range(0, 80), 0.};
          db = DbGrid::create(nx, dx, x0, angles);
          np = db->getSampleNumber();
          st.hit("tb_on_grid");
        }
        else
        {
          auto X = genPoints(rng, np, ndim, 3);
          db = makeDb(X, ndim, {}, {}, {}, {});
        }
        for (int i = 0; i < np; i++) { VectorDouble c(ndim); for (int d = 0; d < ndim; d++) c[d] = db->getCoordinate(i, d); P.push_back(SpacePoint(c)); }
        int n0 = db->getColumnNumber();
        int seed = (int)rng.range(1, 1000000);
        int nbtuba = (int)rng.range(60, 200);
        int rc = simtub(nullptr, db, model, nullptr, (int)nsim, seed, nbtuba);
        std::string what = "turning_bands";
        // a Matern structure with smoothness below 1/2 goes through the migration process with a random (Beta) scale
        { bool lownu = false; for (int is = 0; is < model->getCovaNumber(); is++) if (model->getCovaType(is) == ECov::MATERN && model->getCova(is)->getParam() < 0.5) lownu = true; if (lownu) { what += ":lownu"; st.hit("tb_matern_below_half"); } }
        if (nvar > 1) what += eigenRotated(model) ? ":multi:rot" : ":multi:sym";
        if (rc == 0)
        {
          printf("w count %s %ld %d =>\n", what.c_str(), nsim * nvar, db->getColumnNumber() - n0);
          // hook: mixing coefficients of every structure, normalisation factor
          const VectorDouble& mix = gstlearn_verif_tb_mixing();
          int ncova = model->getCovaNumber();
          if ((int)mix.size() == ncova * nvar * nvar)
            for (int is = 0; is < ncova; is++)
            {
              std::vector<double> M(nvar * nvar), B(nvar * nvar);
              for (int o = 0; o < nvar; o++) for (int p = 0; p < nvar; p++) { M[o * nvar + p] = mix[p + nvar * (o + nvar * is)]; B[o * nvar + p] = model->getSill(is, o, p); }
              printf("w law cov turning_bands_mixing %s %d %d %s %d %s =>\n", dy(ldexp(1., -30)).c_str(), nvar, nvar, flat(M).c_str(), nvar, flat(B).c_str());
            }
          else printf("w count turning_bands_mixing_size %d %d =>\n", ncova * nvar * nvar, (int)mix.size());
          printf("w law norm turning_bands %s %d =>\n", dy(gstlearn_verif_tb_norme()).c_str(), gstlearn_verif_tb_nbtuba());
          printf("w count turning_bands_nbtuba %d %d =>\n", nbtuba, gstlearn_verif_tb_nbtuba());
        }
        if (rc == 0 && db->getColumnNumber() == n0 + nvar * (int)nsim)
        {
          int npu = std::min(np, 6);
          std::vector<std::vector<double>> S(npu * nvar, std::vector<double>(nsim));
          std::vector<SpacePoint> Pu(P.begin(), P.begin() + npu);
          for (int a = 0; a < nvar; a++) for (long k = 0; k < nsim; k++)
          {
            int col = n0 + (int)(k + nsim * a);          // Simu.<variable>.<simulation>: variable-major
            for (int i = 0; i < npu; i++) S[a * npu + i][k] = db->getValueByColIdx(i, col);
          }
          std::vector<double> C = modelCov(model, Pu, nvar), mu(npu * nvar);
          for (int a = 0; a < nvar; a++) for (int i = 0; i < npu; i++) mu[a * npu + i] = means[a];
          moments(what, S, C, mu, st);
        }
        else st.hit("simtub_refused");
        delete db; delete model;
      }
    }

    // ---- FFT simulation on small grids (one variable, structures with a finite practical range)
    {
      const std::vector<Struc> poolF = {{ECov::SPHERICAL, 1.}, {ECov::EXPONENTIAL, 1.}, {ECov::CUBIC, 1.}, {ECov::GAUSSIAN, 1.}};
      std::string mtext;
      Model* m2 = genModelTB(rng, ndim, 1, mtext, st, true, poolF);
      if (m2 != nullptr)
      {
        VectorInt nx(ndim); VectorDouble dx(ndim);
        for (int d = 0; d < ndim; d++) { nx[d] = (ndim == 1) ? 12 : (ndim == 2 ? 6 : 4); dx[d] = rng.dyadic(1, 2, 1); }
        DbGrid* g = DbGrid::create(nx, dx);
        SimuFFTParam par;
        int n0 = g->getColumnNumber();
        if (getenv("VERIF_DEBUG")) { fprintf(stderr, "cfg %ld fft ndim=%d nx=%d dx=", ic, ndim, nx[0]); for (int d = 0; d < ndim; d++) fprintf(stderr, "%g ", dx[d]); fprintf(stderr, "model:\n%s\n", m2->toString().c_str()); }
        int rc = simfft(g, m2, par, (int)nsim, (int)rng.range(1, 1000000));
        if (rc == 0) printf("w count fft %ld %d =>\n", nsim, g->getColumnNumber() - n0);
        if (rc == 0 && g->getColumnNumber() == n0 + (int)nsim)
        {
          int ntot = g->getSampleNumber(), np = 5;
          std::vector<int> idx; for (int i = 0; i < np; i++) idx.push_back((int)rng.range(0, ntot - 1));
          idx[1] = idx[0] == ntot - 1 ? idx[0] - 1 : idx[0] + 1;          // an adjacent pair
          std::vector<std::vector<double>> S(np, std::vector<double>(nsim));
          for (long k = 0; k < nsim; k++) for (int i = 0; i < np; i++) S[i][k] = g->getValueByColIdx(idx[i], n0 + (int)k);
          std::vector<SpacePoint> P; for (int i = 0; i < np; i++) { VectorDouble c(ndim); for (int d = 0; d < ndim; d++) c[d] = g->getCoordinate(idx[i], d); P.push_back(SpacePoint(c)); }
          std::vector<double> C = modelCov(m2, P, 1), mu(np, 0.);
          if (getenv("VERIF_DEBUG")) { fprintf(stderr, "   nodes:"); for (int i = 0; i < np; i++) fprintf(stderr, " %d", idx[i]); fprintf(stderr, "\n"); }
          // the structure kind is part of the label: the very regular Gaussian structure is a known finding (F95)
          moments("fft:" + std::string(m2->getCova(0)->getType().getKey()) + (getenv("VERIF_DEBUG") ? ":cfg" + std::to_string(ic) : std::string("")), S, C, mu, st);
        }
        else st.hit("simfft_refused");
        delete g; delete m2;
      }
    }

    // ---- spectral simulation (one structure, one variable)
    {
      const std::vector<Struc> poolS = {{ECov::EXPONENTIAL, 1.}, {ECov::GAUSSIAN, 1.}, {ECov::MATERN, 1.}, {ECov::MATERN, 2.5}};
      std::string mtext;
      Model* m3 = genModelTB(rng, ndim, 1, mtext, st, true, poolS);
      if (m3 != nullptr)
      {
        int np = 5;
        auto X = genPoints(rng, np, ndim, 3);
        Db* db = makeDb(X, ndim, {}, {}, {}, {});
        int n0 = db->getColumnNumber();
        int rc = simuSpectral(nullptr, db, m3, (int)nsim, (int)rng.range(1, 1000000), (int)rng.range(50, 150));
        if (rc == 0) printf("w count spectral %ld %d =>\n", nsim, db->getColumnNumber() - n0);
        if (rc == 0 && db->getColumnNumber() == n0 + (int)nsim)
        {
          std::vector<std::vector<double>> S(np, std::vector<double>(nsim));
          for (long k = 0; k < nsim; k++) for (int i = 0; i < np; i++) S[i][k] = db->getValueByColIdx(i, n0 + (int)k);
          std::vector<SpacePoint> P; for (auto& x : X) P.push_back(SpacePoint(VectorDouble(x.begin(), x.end())));
          std::vector<double> C = modelCov(m3, P, 1), mu(np, 0.);
          moments("spectral", S, C, mu, st);
        }
        else st.hit("spectral_refused");
        delete db; delete m3;
      }
    }

    // ---- Cholesky-based simulation: the linear map applied to the unit vectors
    {
      int np = (int)rng.range(3, 7);
      auto X = genPoints(rng, np, ndim, 3);
      std::string mtext;
      const std::vector<Struc> poolC = {{ECov::SPHERICAL, 1.}, {ECov::EXPONENTIAL, 1.}, {ECov::CUBIC, 1.}};
      Model* m4 = genModelTB(rng, ndim, 1, mtext, st, true, poolC);
      if (m4 != nullptr)
      {
        m4->addCovFromParam(ECov::NUGGET, 0., 0.25);
        std::vector<SpacePoint> P; for (auto& x : X) P.push_back(SpacePoint(VectorDouble(x.begin(), x.end())));
        std::vector<double> C = modelCov(m4, P, 1);
        MatrixSquareSymmetric Cm(np);
        for (int i = 0; i < np; i++) for (int j = 0; j <= i; j++) Cm.setValue(i, j, C[(size_t)i * np + j]);
        CholeskyDense chol(&Cm);
        if (chol.isReady())
        {
          std::vector<double> A((size_t)np * np), L((size_t)np * np);
          for (int k = 0; k < np; k++)
          {
            VectorDouble e(np, 0.), out(np, 0.); e[k] = 1.;
            if (chol.evalSimulate(e, out) != 0) { st.hit("chol_simulate_refused"); continue; }
            for (int i = 0; i < np; i++) A[(size_t)i * np + k] = out[i];
            VectorDouble out2(np, 0.);
            chol.LX(constvect(e.data(), e.size()), vect(out2.data(), out2.size()));
            for (int i = 0; i < np; i++) L[(size_t)i * np + k] = out2[i];
          }
          // evalSimulate treats the matrix as a precision (x = L^-t w); LX as a covariance (x = L w)
          printf("w law prec cholesky_simulate %s %d %d %s %d %s =>\n", dy(ldexp(1., -30)).c_str(), np, np, flat(A).c_str(), np, flat(C).c_str());
          printf("w law cov cholesky_LX %s %d %d %s %d %s =>\n", dy(ldexp(1., -36)).c_str(), np, np, flat(L).c_str(), np, flat(C).c_str());
          st.hit("cholesky_dense");
        }
        delete m4;
      }
    }

    // ---- SPDE precision operators (Matern with nu + d/2 integer): sparse Cholesky (exact) and Chebyshev (approximate)
    if (ndim <= 2)
    {
      VectorInt nx(ndim); VectorDouble dx(ndim), x0(ndim, 0.);
      for (int d = 0; d < ndim; d++) { nx[d] = (ndim == 1) ? (int)rng.range(5, 9) : (int)rng.range(3, 4); dx[d] = 1.; }
      MeshETurbo* mesh = MeshETurbo::create(nx, dx, x0);
      double nu = (ndim == 1) ? (rng.coin() ? 0.5 : 1.5) : 1.;
      Model* m5 = Model::createFromParam(ECov::MATERN, rng.dyadic(2, 4, 1), rng.dyadic(1, 3, 1), nu);
      if (mesh != nullptr && m5 != nullptr)
      {
        const CovAniso* cova = m5->getCova(0);
        ShiftOpCs S(mesh, cova);
        PrecisionOpCs Qc(&S, cova);
        PrecisionOp Qf(&S, cova);
        int n = mesh->getNApices();
        const MatrixSparse* Qm = Qc.getQ();
        if (Qm != nullptr && n <= 20)
        {
          std::vector<double> Q((size_t)n * n), A((size_t)n * n), Af((size_t)n * n);
          for (int i = 0; i < n; i++) for (int j = 0; j < n; j++) Q[(size_t)i * n + j] = Qm->getValue(i, j);
          bool ok = true, okf = true;
          for (int k = 0; k < n; k++)
          {
            VectorDouble e(n, 0.), out(n, 0.), outf(n, 0.); e[k] = 1.;
            if (Qc.evalSimulate(e, out) != 0) ok = false;
            if (Qf.evalSimulate(e, outf) != 0) okf = false;
            for (int i = 0; i < n; i++) { A[(size_t)i * n + k] = out[i]; Af[(size_t)i * n + k] = outf[i]; }
          }
          if (ok) printf("w law prec spde_cholesky %s %d %d %s %d %s =>\n", dy(ldexp(1., -30)).c_str(), n, n, flat(A).c_str(), n, flat(Q).c_str());
          if (okf) printf("w law prec spde_chebyshev %s %d %d %s %d %s =>\n", dy(0.03125).c_str(), n, n, flat(Af).c_str(), n, flat(Q).c_str());
          st.hit("spde_operators");
        }
      }
      delete mesh; delete m5;
    }
  }
  st.dump(stdout);
  return 0;
}
