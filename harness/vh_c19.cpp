// Correspondence harness for C19: a calculation either completes or leaves its data bases untouched.
// Every calculator is run (a) normally, (b) with a natural cause of failure, (c) with a fault
// injected at each tick of the guarded hook; the complete observable state of both data bases is
// taken before and after and judged by the Lean driver.
#include "krig_common.hpp"
#include "Anamorphosis/AnamHermite.hpp"
#include "db_observe.hpp"
#include "Calculators/ACalculator.hpp"
#include "Calculators/CalcMigrate.hpp"
#include "Calculators/CalcStatistics.hpp"
#include "Estimation/CalcSimpleInterpolation.hpp"
#include "Simulation/CalcSimuTurningBands.hpp"
#include "Simulation/CalcSimuFFT.hpp"
#include "Simulation/SimuFFTParam.hpp"
#include "Enum/EStatOption.hpp"
#include <functional>
using namespace vh;

struct World
{
  int ndim, nvar;
  Db* dbin; DbGrid* grid; Db* dbout; Model* model; ANeigh* neighU; ANeigh* neighM;
};

static World makeWorld(Rng& rng, Stats& st, bool bare = false)
{
  World w{};
  w.ndim = 2; w.nvar = rng.coin(0.7) ? 1 : 2;
  defineDefaultSpace(ESpaceType::RN, w.ndim);
  int nech = (int)rng.range(6, 12);
  auto X = genPoints(rng, nech, w.ndim, 6);
  std::vector<std::vector<double>> Z(w.nvar, std::vector<double>(nech));
  for (auto& z : Z) for (auto& v : z) v = rng.dyadic(-4, 4, 2);
  std::vector<int> sel; if (rng.coin(0.3)) { sel.resize(nech); for (auto& s : sel) s = rng.coin(0.85); }
  w.dbin = makeDb(X, w.ndim, Z, {}, {}, sel);
  // prior content: extra columns with and without roles, duplicate-prone names
  int extra = (int)rng.range(0, 2);
  for (int k = 0; k < extra; k++) w.dbin->addColumnsByConstant(1, (double)k, rng.coin() ? "Kriging" : "aux", rng.coin(0.3) ? ELoc::fromValue(8) : ELoc::UNKNOWN);
  VectorInt nx = {(int)rng.range(2, 4), (int)rng.range(2, 4)};
  // bare world: the output grid has never held a column (first created variable gets UID 0)
  if (bare) w.grid = DbGrid::create(nx, {1., 1.}, {0., 0.}, VectorDouble(), ELoadBy::SAMPLE, VectorDouble(), VectorString(), VectorString(), false, false);
  else w.grid = DbGrid::create(nx, {1., 1.}, {0., 0.});
  int gextra = bare ? 0 : (int)rng.range(0, 2);
  for (int k = 0; k < gextra; k++) w.grid->addColumnsByConstant(1, 7. + k, rng.coin() ? "Kriging.z1.estim" : "old", rng.coin(0.3) ? ELoc::Z : ELoc::UNKNOWN);
  auto X0 = genPoints(rng, 4, w.ndim, 6);
  w.dbout = makeDb(X0, w.ndim, {}, {}, {}, {});
  std::string t;
  w.model = genModel(rng, w.ndim, w.nvar, rng.coin() ? -1 : 0, 0, t, st);
  w.neighU = NeighUnique::create();
  w.neighM = NeighMoving::create(false, 5, 20.);
  return w;
}
static void freeWorld(World& w) { delete w.dbin; delete w.grid; delete w.dbout; delete w.model; delete w.neighU; delete w.neighM; }

typedef std::function<int(World&)> Call;   // returns 0 on success

int main()
{
  muteLibrary();
  long nworld = envLong("VERIF_CASES", thorough() ? 100 : 3);
  Stats st;
  // (name, uses dbin?, which output db, call)
  struct Calc { const char* name; int out; bool hasIn; Call call; };   // out: 0 = dbout points, 1 = grid, 2 = dbin itself
  std::vector<Calc> calcs = {
    {"kriging",        0, true,  [](World& w) { return kriging(w.dbin, w.dbout, w.model, w.neighU); }},
    {"kriging_grid_moving", 1, true, [](World& w) { return kriging(w.dbin, w.grid, w.model, w.neighM, EKrigOpt::POINT, true, true, true); }},
    {"krigtest",       0, true,  [](World& w) { Krigtest_Res r = krigtest(w.dbin, w.dbout, w.model, w.neighU, 1); return r.nech > 0 ? 0 : 1; }},
    {"xvalid",         2, false, [](World& w) { return xvalid(w.dbin, w.model, w.neighU); }},
    {"simtub_cond",    1, true,  [](World& w) { return simtub(w.dbin, w.grid, w.model, w.neighU, 2, 1234, 10); }},
    {"simtub_noncond", 1, false, [](World& w) { return simtub(nullptr, w.grid, w.model, nullptr, 2, 1234, 10); }},
    {"simfft",         1, false, [](World& w) { SimuFFTParam p; return simfft(w.grid, w.model, p, 1, 4321); }},
    {"migrate",        1, true,  [](World& w) { return migrate(w.dbin, w.grid, "z1"); }},
    {"statsOnGrid",    1, true,  [](World& w) { return dbStatisticsOnGrid(w.dbin, w.grid, EStatOption::MEAN); }},
    {"inverseDistance",1, true,  [](World& w) { return inverseDistance(w.dbin, w.grid); }},
    {"nearestNeighbor",0, true,  [](World& w) { return nearestNeighbor(w.dbin, w.dbout); }},
    {"movingAverage",  1, true,  [](World& w) { return movingAverage(w.dbin, w.grid, w.neighM); }},
    {"anam_raw_to_gaussian", 2, false, [](World& w) { AnamHermite* a = AnamHermite::create(6); int rc = 1; if (a->fitFromLocator(w.dbin) == 0) rc = a->rawToGaussianByLocator(w.dbin); delete a; return rc; }},
    {"anam_raw_to_factor",   2, false, [](World& w) { AnamHermite* a = AnamHermite::create(6); int rc = 1; if (a->fitFromLocator(w.dbin) == 0) rc = a->rawToFactor(w.dbin, 3); delete a; return rc; }},
  };
  for (long iw = 0; iw < nworld; iw++)
    for (auto& c : calcs)
    {
      // number of ticks of a complete run
      int nticks;
      {
        Rng rng(seedFromEnv() * 7919 + 19 + iw * 1000003);
        World w = makeWorld(rng, st, iw % 3 == 1);
        if (w.model == nullptr) { freeWorld(w); continue; }
        gstlearn_verif_set_fault(0);
        if (getenv("VERIF_DEBUG")) { fprintf(stderr, "calc %s nvar=%d modelnvar=%d dbinZ=%d\n", c.name, w.nvar, w.model->getVariableNumber(), w.dbin->getLocNumber(ELoc::Z)); for (int ic = 0; ic < w.model->getCovaNumber(); ic++) fprintf(stderr, " cov %d sill %dx%d\n", ic, w.model->getSillValues(ic).getNRows(), w.model->getSillValues(ic).getNCols()); }
        (void)c.call(w);
        nticks = gstlearn_verif_ticks();
        freeWorld(w);
      }
      // scenario -1: no fault; 1..nticks: injected fault; -2,-3: natural failures
      for (int sc = -3; sc <= nticks; sc++)
      {
        if (sc == 0) continue;
        Rng rng(seedFromEnv() * 7919 + 19 + iw * 1000003);       // identical world for every scenario
        World w = makeWorld(rng, st, iw % 3 == 1);
        if (w.model == nullptr) { freeWorld(w); continue; }
        std::string fault = "none";
        if (sc == -2)
        { // natural failure: model of another space dimension
          defineDefaultSpace(ESpaceType::RN, 3);
          delete w.model; std::string t; Rng r2(5); w.model = genModel(r2, 3, w.nvar, -1, 0, t, st);
          defineDefaultSpace(ESpaceType::RN, 2);
          fault = "natural:model-dimension";
        }
        if (sc == -3)
        { // natural failure: no variable in the input data base
          w.dbin->clearLocators(ELoc::Z);
          fault = "natural:no-variable";
        }
        if (sc > 0) fault = "tick" + std::to_string(sc);
        Db* out = (c.out == 0) ? w.dbout : (c.out == 1 ? (Db*)w.grid : w.dbin);
        std::string inA = (c.hasIn && c.out != 2) ? observe(w.dbin) : "none";
        std::string outA = observe(out);
        gstlearn_verif_set_fault(sc > 0 ? sc : 0);
        if (getenv("VERIF_DEBUG")) fprintf(stderr, "run %s %s\n", c.name, fault.c_str());
        int rc = c.call(w);
        gstlearn_verif_set_fault(0);
        std::string inB = (c.hasIn && c.out != 2) ? observe(w.dbin) : "none";
        std::string outB = observe(out);
        printf("c atomic %s %s %d | %s | %s | %s | %s =>\n", c.name, fault.c_str(), rc != 0 ? 1 : 0, inA.c_str(), inB.c_str(), outA.c_str(), outB.c_str());
        st.hit(std::string("calc_") + c.name);
        st.hit(rc != 0 ? "failures" : "successes");
        if (sc > 0) st.hit("injected_faults");
        // after a reported failure the objects remain usable: run again without fault
        if (rc != 0 && sc > 0)
        {
          std::string a2 = observe(out);
          int rc2 = c.call(w);
          std::string b2 = observe(out);
          printf("c atomic %s rerun-after-%s %d | none | none | %s | %s =>\n", c.name, fault.c_str(), rc2 != 0 ? 1 : 0, a2.c_str(), b2.c_str());
          st.hit("reruns_after_failure");
        }
        freeWorld(w);
      }
    }
  st.dump(stdout);
  return 0;
}
