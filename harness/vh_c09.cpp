// Correspondence / robustness harness for C09: loaders fail cleanly on malformed or truncated files.
// For every serialisable class a valid file is produced by the library itself; prefixes (interrupted
// writes) and token-level corruptions of it are offered to the real loader in a forked child with a
// CPU-time alarm and a memory ceiling; an object that is returned must be usable (display, save,
// reload) and, for data bases, satisfy the consistency rules of C07 (judged by the Lean driver).
#include "krig_common.hpp"
#include "db_observe.hpp"
#include "Neigh/NeighBench.hpp"
#include "Neigh/NeighCell.hpp"
#include "Neigh/NeighImage.hpp"
#include "Variogram/Vario.hpp"
#include "Variogram/VarioParam.hpp"
#include "Variogram/DirParam.hpp"
#include "Polygon/Polygons.hpp"
#include "Polygon/PolyElem.hpp"
#include "Matrix/Table.hpp"
#include "Anamorphosis/AnamHermite.hpp"
#include "LithoRule/Rule.hpp"
#include "Mesh/MeshETurbo.hpp"
#include "Mesh/MeshEStandard.hpp"
#include "Basic/ASerializable.hpp"
#include "Basic/PolyLine2D.hpp"
#include "Basic/CSVformat.hpp"
#include "Faults/Faults.hpp"
#include "Fractures/FracEnviron.hpp"
#include "Fractures/FracFamily.hpp"
#include "Fractures/FracFault.hpp"
#include "Db/DbLine.hpp"
#include "Matrix/MatrixRectangular.hpp"
#include "Matrix/MatrixInt.hpp"
#include "OutputFormat/AOF.hpp"
#include <fstream>
#include <filesystem>
#include <functional>
#include <unistd.h>
#include <signal.h>
#include <fcntl.h>
#include <sys/wait.h>
#include <sys/resource.h>
using namespace vh;

static std::string dir;
static std::string slurp(const std::string& f) { std::ifstream is(f, std::ios::binary); std::stringstream ss; ss << is.rdbuf(); return ss.str(); }
static void spit(const std::string& f, const std::string& c) { std::ofstream os(f, std::ios::binary); os << c; }

// file content -> protocol tokens ("¶" = line break); non printable bytes are escaped
static std::string fileTokens(const std::string& content)
{
  std::string out;
  std::istringstream ls(content); std::string l;
  while (std::getline(ls, l))
  {
    std::istringstream ts(l); std::string t;
    while (ts >> t) { out += " "; for (unsigned char c : t) { if (c < 33 || c > 126 || c == '=') { char b[8]; snprintf(b, 8, "\\x%02x", c); out += b; } else out += (char)c; } }
    out += " ¶";
  }
  return out;
}

struct Cls
{
  const char* name;
  std::function<bool(const std::string&)> makeValid;            // writes a valid file at the path
  std::function<int(const std::string&, std::string&)> load;    // child: 0 = null/refused, 1 = loaded and usable, 2 = loaded but unusable
};

// generic NF loader: load, display, save again, reload what was saved
template <class T, class L> static int useNF(const std::string& f, L loader, std::string& rep)
{
  T* o = loader(f);
  if (o == nullptr) return 0;
  (void)o->toString();
  std::string f2 = f + ".again";
  if (!o->dumpToNF(f2)) { rep = "cannot-be-saved-again"; delete o; return 2; }
  T* o2 = loader(f2);
  unlink(f2.c_str());
  if (o2 == nullptr) { rep = "saved-again-but-not-reloadable"; delete o; return 2; }
  delete o2; delete o;
  return 1;
}

// names that the by-name API takes as regular expressions (known finding F32 of C07) or that the
// neutral format cannot represent (a leading '#' is a comment, a blank splits the token)
static bool plainNames(const Db* db)
{
  for (int c = 0; c < db->getColumnNumber(); c++)
  { std::string n = db->getNameByColIdx(c); if (n.empty()) return false; for (unsigned char ch : n) if (!(isalnum(ch) || ch == '_' || ch == '-' || ch == '.')) return false; }
  return true;
}
static bool representableNames(const Db* db)
{
  for (int c = 0; c < db->getColumnNumber(); c++)
  { std::string n = db->getNameByColIdx(c); if (n.empty() || n[0] == '#') return false; for (unsigned char ch : n) if (isspace(ch)) return false; }
  return true;
}

static int useDb(const std::string& f, std::string& rep, bool grid)
{
  Db* o = grid ? (Db*)DbGrid::createFromNF(f, false) : Db::createFromNF(f, false);
  // accept / reject decision compared with the reader of the Lean model (plain Db layout)
  if (!grid) printf("f dbload %d =>%s\n", o != nullptr ? 1 : 0, fileTokens(slurp(f)).c_str());
  if (o == nullptr) return 0;
  (void)o->toString();
  // consistency rules of C07, judged by the model (invariant + designations on the observed state)
  if (o->getSampleNumber() < 0 || o->getColumnNumber() < 0) { rep = "negative-dimensions"; delete o; return 2; }
  if (plainNames(o)) printf("d hist %d %s =>\n", grid ? 1 : 0, observe(o).c_str());
  if (grid)
  {
    DbGrid* g = dynamic_cast<DbGrid*>(o);
    long prod = 1; for (int d = 0; d < g->getNDim(); d++) prod *= g->getNX(d);
    if (g->getColumnNumber() > 0 && prod != g->getSampleNumber()) { rep = "grid-nodes-differ-from-sample-number"; delete o; return 2; }
  }
  std::string f2 = f + ".again";
  if (!o->dumpToNF(f2)) { rep = "cannot-be-saved-again"; delete o; return 2; }
  Db* o2 = grid ? (Db*)DbGrid::createFromNF(f2, false) : Db::createFromNF(f2, false);
  unlink(f2.c_str());
  if (o2 == nullptr) { rep = "saved-again-but-not-reloadable"; delete o; return 2; }
  delete o2; delete o;
  return 1;
}

static long nforks = 0, ncrash = 0;

// run one candidate file through the loader in a child; prints the request line
static void offer(const Cls& c, const std::string& content, const std::string& kind, Stats& st, bool asan)
{
  std::string path = dir + "/cand.dat";
  spit(path, content);
  std::string errf = dir + "/cand.err";
  fflush(stdout);
  pid_t pid = fork();
  if (pid == 0)
  {
    int fd = open(errf.c_str(), O_WRONLY | O_CREAT | O_TRUNC, 0600); if (fd >= 0) { dup2(fd, 2); close(fd); }
    alarm((unsigned)envLong("VERIF_C09_ALARM", 20));
    if (!asan) { struct rlimit rl; rl.rlim_cur = rl.rlim_max = (rlim_t)2048 << 20; setrlimit(RLIMIT_AS, &rl); }
    std::string rep;
    int r = c.load(path, rep);
    printf("f load %s %s %s %s =>\n", c.name, r == 0 ? "refused" : (r == 1 ? "loaded" : "unusable"), kind.c_str(), rep.empty() ? "-" : rep.c_str());
    fflush(stdout);
    _exit(0);
  }
  int status = 0; waitpid(pid, &status, 0); nforks++;
  if (WIFEXITED(status) && WEXITSTATUS(status) == 0) { st.hit(std::string("offered_") + c.name); return; }
  ncrash++;
  std::string why = "abnormal-exit";
  if (WIFSIGNALED(status)) { int sg = WTERMSIG(status); why = sg == SIGALRM ? "hang" : (sg == SIGSEGV ? "crash-SIGSEGV" : (sg == SIGABRT ? "crash-SIGABRT" : (sg == SIGFPE ? "crash-SIGFPE" : "crash-signal" + std::to_string(sg)))); }
  else if (WIFEXITED(status)) why = "abort-exit" + std::to_string(WEXITSTATUS(status));
  // first informative line of the sanitizer / runtime report
  std::string err = slurp(errf), detail = "-";
  { std::istringstream es(err); std::string l; while (std::getline(es, l)) { if (l.find("ERROR: AddressSanitizer") != std::string::npos || l.find("runtime error") != std::string::npos || l.find("terminate called") != std::string::npos || l.find("what():") != std::string::npos) { detail = l; break; } } }
  for (auto& ch : detail) if (ch == ' ' || ch == '=') ch = '_';
  if (detail.size() > 160) detail.resize(160);
  printf("f load %s %s %s %s =>%s\n", c.name, why.c_str(), kind.c_str(), detail.c_str(), fileTokens(content).c_str());
  st.hit(std::string("abnormal_") + c.name);
}

int main()
{
  muteLibrary();
  Rng rng(seedFromEnv() * 7919 + 9);
  Stats st;
  bool asan =
#if defined(__SANITIZE_ADDRESS__)
    true;
#else
    false;
#endif
  char tmpl[] = "/var/tmp/vh_c09_XXXXXX";
  dir = mkdtemp(tmpl);
  ASerializable::setContainerName(false, "", false);
  ASerializable::setPrefixName("");
  int ndim = 2;
  defineDefaultSpace(ESpaceType::RN, ndim);
  long ninst = envLong("VERIF_CASES", thorough() ? 2 : 1);
  long nprefix = envLong("VERIF_C09_PREFIXES", thorough() ? 500 : 40);   // files shorter than this: every byte
  long ntok = envLong("VERIF_C09_TOKENS", thorough() ? 300 : 60);

  std::vector<Cls> classes = {
    {"Db", [&](const std::string& f) {
        int nech = (int)rng.range(2, 5); auto X = genPoints(rng, nech, ndim, 8);
        std::vector<std::vector<double>> Z(1, std::vector<double>(nech)); for (auto& v : Z[0]) v = rng.coin(0.2) ? TEST : rng.dyadic(-9, 9, 3);
        Db* db = makeDb(X, ndim, Z, {}, {}, {}); bool ok = db->dumpToNF(f); delete db; return ok; },
      [](const std::string& f, std::string& rep) { return useDb(f, rep, false); }},
    {"DbGrid", [&](const std::string& f) {
        DbGrid* g = DbGrid::create({(int)rng.range(2, 3), (int)rng.range(2, 3)}, {1., 0.5}, {10., -3.}, {30., 0.});
        g->addColumnsByConstant(1, 1.5, "val", ELoc::Z); bool ok = g->dumpToNF(f); delete g; return ok; },
      [](const std::string& f, std::string& rep) { return useDb(f, rep, true); }},
    {"DbLine", [&](const std::string& f) {
        DbLine* dl = DbLine::createFillRandom(ndim, 2, 3, 5., VectorDouble(), 0.3, (int)rng.range(1, 9999)); if (!dl) return false;
        bool ok = dl->dumpToNF(f); delete dl; return ok; },
      [](const std::string& f, std::string& rep) { return useNF<DbLine>(f, [](const std::string& p) { return DbLine::createFromNF(p, false); }, rep); }},
    {"Model", [&](const std::string& f) {
        std::string t; Model* m = genModel(rng, ndim, (int)rng.range(1, 2), (int)rng.range(-1, 1), 0, t, st); if (!m) return false;
        bool ok = m->dumpToNF(f); delete m; return ok; },
      [](const std::string& f, std::string& rep) { return useNF<Model>(f, [](const std::string& p) { return Model::createFromNF(p, false); }, rep); }},
    {"Vario", [&](const std::string& f) {
        int nech = 10; auto X = genPoints(rng, nech, ndim, 6);
        std::vector<std::vector<double>> Z(1, std::vector<double>(nech)); for (auto& v : Z[0]) v = rng.dyadic(-4, 4, 3);
        Db* db = makeDb(X, ndim, Z, {}, {}, {}); DirParam* dp = DirParam::create(3, 1.5); VarioParam vp; vp.addDir(*dp);
        Vario* v = Vario::computeFromDb(vp, db); bool ok = v && v->dumpToNF(f); delete v; delete dp; delete db; return ok; },
      [](const std::string& f, std::string& rep) { return useNF<Vario>(f, [](const std::string& p) { return Vario::createFromNF(p, false); }, rep); }},
    {"NeighMoving", [&](const std::string& f) {
        NeighMoving* nm = NeighMoving::create(false, 10, 5.5, 2, 3, 2, {1., 0.5}, {30., 0.}); bool ok = nm->dumpToNF(f); delete nm; return ok; },
      [](const std::string& f, std::string& rep) { return useNF<NeighMoving>(f, [](const std::string& p) { return NeighMoving::createFromNF(p, false); }, rep); }},
    {"NeighImage", [&](const std::string& f) {
        NeighImage* ni = NeighImage::create({2, 1}, 1); bool ok = ni->dumpToNF(f); delete ni; return ok; },
      [](const std::string& f, std::string& rep) { return useNF<NeighImage>(f, [](const std::string& p) { return NeighImage::createFromNF(p, false); }, rep); }},
    {"NeighBench", [&](const std::string& f) {
        NeighBench* nb = NeighBench::create(false, 2.5); bool ok = nb->dumpToNF(f); delete nb; return ok; },
      [](const std::string& f, std::string& rep) { return useNF<NeighBench>(f, [](const std::string& p) { return NeighBench::createFromNF(p, false); }, rep); }},
    {"Polygons", [&](const std::string& f) {
        Polygons pol; for (int k = 0; k < 2; k++) { VectorDouble x = {0. + k, 4. + k, 4. + k, 0. + k}, y = {0., 0., 3., 3.}; pol.addPolyElem(PolyElem(x, y, TEST, 2.5)); }
        return pol.dumpToNF(f); },
      [](const std::string& f, std::string& rep) { return useNF<Polygons>(f, [](const std::string& p) { return Polygons::createFromNF(p, false); }, rep); }},
    {"Table", [&](const std::string& f) {
        Table* tb = Table::create(3, 2); for (int i = 0; i < 3; i++) for (int j = 0; j < 2; j++) tb->setValue(i, j, rng.dyadic(-9, 9, 3));
        bool ok = tb->dumpToNF(f); delete tb; return ok; },
      [](const std::string& f, std::string& rep) { return useNF<Table>(f, [](const std::string& p) { return Table::createFromNF(p, false); }, rep); }},
    {"Rule", [&](const std::string& f) {
        Rule* r = Rule::createFromNames({"S", "T", "F1", "F2", "F3"}); bool ok = r && r->dumpToNF(f); delete r; return ok; },
      [](const std::string& f, std::string& rep) { return useNF<Rule>(f, [](const std::string& p) { return Rule::createFromNF(p, false); }, rep); }},
    {"AnamHermite", [&](const std::string& f) {
        AnamHermite* an = AnamHermite::create(5); VectorDouble data; for (int i = 0; i < 30; i++) data.push_back(rng.dyadic(0, 20, 3) + rng.unit());
        bool ok = an->fitFromArray(data) == 0 && an->dumpToNF(f); delete an; return ok; },
      [](const std::string& f, std::string& rep) { return useNF<AnamHermite>(f, [](const std::string& p) { return AnamHermite::createFromNF(p, false); }, rep); }},
    {"MeshETurbo", [&](const std::string& f) {
        MeshETurbo* m = MeshETurbo::create({3, 2}); bool ok = m && m->dumpToNF(f); delete m; return ok; },
      [](const std::string& f, std::string& rep) { return useNF<MeshETurbo>(f, [](const std::string& p) { return MeshETurbo::createFromNF(p, false); }, rep); }},
    {"MeshEStandard", [&](const std::string& f) {
        MatrixRectangular ap(4, 2); double xs[4] = {0, 1, 0, 1.5}, ys[4] = {0, 0, 1, 1.25}; for (int i = 0; i < 4; i++) { ap.setValue(i, 0, xs[i]); ap.setValue(i, 1, ys[i]); }
        MatrixInt ms(2, 3); int t[2][3] = {{0, 1, 2}, {1, 3, 2}}; for (int i = 0; i < 2; i++) for (int j = 0; j < 3; j++) ms.setValue(i, j, t[i][j]);
        MeshEStandard* me = MeshEStandard::createFromExternal(ap, ms); bool ok = me && me->dumpToNF(f); delete me; return ok; },
      [](const std::string& f, std::string& rep) { return useNF<MeshEStandard>(f, [](const std::string& p) { return MeshEStandard::createFromNF(p, false); }, rep); }},
    {"Faults", [&](const std::string& f) {
        PolyLine2D* pl = PolyLine2D::create({0., 1., 3.}, {0., 2., 2.5}); Faults fl; fl.addFault(*pl); fl.addFault(*pl); bool ok = fl.dumpToNF(f); delete pl; return ok; },
      [](const std::string& f, std::string& rep) { return useNF<Faults>(f, [](const std::string& p) { return Faults::createFromNF(p, false); }, rep); }},
    {"FracEnviron", [&](const std::string& f) {
        FracEnviron* env = FracEnviron::create(100, 50, 0.5, 0.25, 20, 10); env->addFamily(FracFamily(0., 20., 0.2, 1., 1., 0.5, 0.2, 1.2, 2.4, 5.));
        FracFault ff(30, 0); ff.addFaultPerFamily(1, 2, 10, 20); env->addFault(ff); bool ok = env->dumpToNF(f); delete env; return ok; },
      [](const std::string& f, std::string& rep) { return useNF<FracEnviron>(f, [](const std::string& p) { return FracEnviron::createFromNF(p, false); }, rep); }},
    {"CSV", [&](const std::string& f) {
        std::ostringstream os; os << "x,y,z\n"; int n = (int)rng.range(2, 5); for (int i = 0; i < n; i++) os << rng.range(0, 99) << "," << rng.range(0, 99) << "," << (rng.coin(0.2) ? "NA" : std::to_string(rng.range(-50, 50))) << "\n";
        spit(f, os.str()); return true; },
      [](const std::string& f, std::string& rep) {
        Db* o = Db::createFromCSV(f, CSVformat(), false); if (!o) return 0;
        if (plainNames(o)) printf("d hist 0 %s =>\n", observe(o).c_str());
        (void)o->toString();
        std::string f2 = f + ".again"; bool ok = o->dumpToNF(f2); Db* o2 = ok ? Db::createFromNF(f2, false) : nullptr; unlink(f2.c_str());
        if (!o2) { rep = representableNames(o) ? "not-saveable-or-reloadable" : "column-name-not-representable-in-a-neutral-file"; delete o; return 2; } delete o2; delete o; return 1; }},
    {"Zycor", [&](const std::string& f) {
        DbGrid* g = DbGrid::create({3, 2}, {1., 0.5}, {10., -3.}); int u = g->addColumnsByConstant(1, 0., "v", ELoc::Z);
        for (int i = 0; i < 6; i++) g->setArray(i, u, rng.coin(0.2) ? TEST : (double)rng.range(-999, 999) / 10.);
        bool ok = db_grid_write_zycor(f.c_str(), g, u) == 0; delete g; return ok; },
      [](const std::string& f, std::string& rep) {
        DbGrid* o = db_grid_read_zycor(f.c_str()); if (!o) return 0;
        if (o->getSampleNumber() < 0) { rep = "negative-dimensions"; delete o; return 2; }
        printf("d hist 1 %s =>\n", observe(o).c_str()); (void)o->toString(); delete o; return 1; }},
    {"IfpEn", [&](const std::string& f) {
        DbGrid* g = DbGrid::create({2, 2, 2}, {1., 0.5, 1.}, {10., -3., 0.}); int u = g->addColumnsByConstant(1, 0., "v");
        for (int i = 0; i < 8; i++) g->setArray(i, u, (double)rng.range(0, 1000) / 1000.);
        bool ok = db_grid_write_ifpen(f.c_str(), g, 1, &u) == 0; delete g; return ok; },
      [](const std::string& f, std::string& rep) {
        DbGrid* o = db_grid_read_ifpen(f.c_str()); if (!o) return 0;
        if (o->getSampleNumber() < 0) { rep = "negative-dimensions"; delete o; return 2; }
        printf("d hist 1 %s =>\n", observe(o).c_str()); (void)o->toString(); delete o; return 1; }},
  };
  const char* only = getenv("VERIF_C09_CLASS");

  static const char* repl[] = {"-1", "0", "1", "2", "7", "2147483647", "-2147483648", "1000000000", "99999999999", "1e308", "-1e-320",
                               "nan", "inf", "NA", "abc", "#", "12abc", "1.5", "3000000", "65536", "-7",
                               // counts whose products with the neighbouring counts wrap around in 32-bit arithmetic
                               "1073741824", "536870912", "268435456", "2147483648", "4294967296", "4294967297", "46341", "1431655766"};
  const int nrepl = sizeof(repl) / sizeof(repl[0]);

  for (long inst = 0; inst < ninst; inst++)
    for (auto& c : classes)
    {
      if (only && std::string(only) != c.name) continue;
      std::string vf = dir + "/valid.dat";
      defineDefaultSpace(ESpaceType::RN, std::string(c.name) == "IfpEn" ? 3 : ndim);
      if (!c.makeValid(vf)) { printf("#note could not build a valid %s\n", c.name); continue; }
      defineDefaultSpace(ESpaceType::RN, ndim);
      std::string content = slurp(vf); unlink(vf.c_str());
      st.hit(std::string("valid_files_") + c.name);
      // the valid file itself must load
      offer(c, content, "valid", st, asan);
      // --- interrupted writes: prefixes
      std::vector<size_t> cuts;
      if ((long)content.size() <= nprefix) for (size_t k = 0; k < content.size(); k++) cuts.push_back(k);
      else for (long k = 0; k < nprefix; k++) cuts.push_back((size_t)rng.range(0, (long)content.size() - 1));
      for (size_t k : cuts) { offer(c, content.substr(0, k), "prefix@" + std::to_string(k), st, asan); st.hit("prefixes"); }
      // --- token-level corruption
      std::vector<std::pair<size_t, size_t>> toks;   // [begin,end) of each token
      { size_t i = 0; while (i < content.size()) { while (i < content.size() && isspace((unsigned char)content[i])) i++; size_t b = i; while (i < content.size() && !isspace((unsigned char)content[i])) i++; if (i > b) toks.push_back({b, i}); } }
      if (toks.empty()) continue;
      for (long k = 0; k < ntok; k++)
      {
        size_t ti = (size_t)rng.range(0, (long)toks.size() - 1);
        // header tokens (counts, flags) matter most: half of the mutations hit the first third of the file
        if (rng.coin(0.5)) ti = (size_t)rng.range(0, (long)toks.size() / 3);
        auto [b, e] = toks[ti];
        int mode = (int)rng.range(0, 9);
        std::string mutated, kind;
        if (mode <= 6) { const char* r = repl[rng.range(0, nrepl - 1)]; mutated = content.substr(0, b) + r + content.substr(e); kind = std::string("token") + std::to_string(ti) + ":=" ; kind += r; for (auto& ch : kind) if (ch == '=') ch = '~'; }
        else if (mode == 7) { mutated = content.substr(0, b) + content.substr(e); kind = "delete-token" + std::to_string(ti); }
        else if (mode == 8) { mutated = content.substr(0, e) + " " + content.substr(b, e - b) + content.substr(e); kind = "duplicate-token" + std::to_string(ti); }
        else { // delete the whole line holding the token
          size_t lb = content.rfind('\n', b); lb = (lb == std::string::npos) ? 0 : lb + 1; size_t le = content.find('\n', e); le = (le == std::string::npos) ? content.size() : le + 1;
          mutated = content.substr(0, lb) + content.substr(le); kind = "delete-line-of-token" + std::to_string(ti); }
        offer(c, mutated, kind, st, asan); st.hit("token_mutations");
      }
      // --- systematic pass over the counts of the header: every integer token among the first 120 tokens (at most 20 of them) is replaced by
      //     each of the values whose product with a neighbouring count wraps around in 32-bit arithmetic
      {
        static const char* wrap[] = {"1073741824", "2147483648", "4294967296", "46341", "-1"};
        int done = 0;
        for (size_t ti = 0; ti < toks.size() && ti < 120 && done < 20; ti++)
        {
          auto [b, e] = toks[ti];
          bool integer = e > b; for (size_t q = b; q < e; q++) if (!isdigit((unsigned char)content[q])) integer = false;
          if (!integer) continue;
          done++;
          for (const char* r : wrap)
          {
            std::string mutated = content.substr(0, b) + r + content.substr(e);
            std::string kind = "header-count" + std::to_string(ti) + ":=" + r;
            offer(c, mutated, kind, st, asan); st.hit("header_count_mutations");
          }
        }
      }
      // --- wrong type and garbage
      offer(c, "Nonsense\n" + content.substr(content.find('\n') == std::string::npos ? 0 : content.find('\n') + 1), "wrong-tag", st, asan);
      { std::string g; for (int i = 0; i < 300; i++) g += (char)rng.range(0, 255); offer(c, g, "binary-garbage", st, asan); offer(c, content.substr(0, content.size() / 2) + g, "garbage-tail", st, asan); }
      offer(c, "", "empty-file", st, asan);
    }
  std::filesystem::remove_all(dir);
  printf("#stat forks %ld\n#stat abnormal_terminations %ld\n", nforks, ncrash);
  st.dump(stdout);
  return 0;
}
