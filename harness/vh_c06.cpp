// Correspondence harness for C06: moving neighbourhood selection and ball-tree k-NN queries.
#include "krig_common.hpp"
#include "Geometry/BiTargetCheckDistance.hpp"
#include "Tree/Ball.hpp"
#include "Tree/KNN.hpp"
using namespace vh;

int main()
{
  muteLibrary();
  Rng rng(seedFromEnv() * 7919 + 6);
  long ncfg = envLong("VERIF_CASES", thorough() ? 2500 : 100);
  Stats st;
  static const int nsects[] = {1, 1, 2, 4, 4, 8, 8, 3, 5, 6};
  for (long ic = 0; ic < ncfg; ic++)
  {
    int ndim = (int)rng.range(2, 3);
    defineDefaultSpace(ESpaceType::RN, ndim);
    int nech = (int)rng.range(5, rng.coin(0.2) ? 300 : 60);
    auto X = genPoints(rng, nech, ndim, rng.coin() ? 8 : 40);
    std::vector<std::vector<double>> Z(1, std::vector<double>(nech));
    for (int i = 0; i < nech; i++) Z[0][i] = rng.coin(0.1) ? TEST : 1.;
    std::vector<int> sel;
    bool useSel = rng.coin(0.4);
    if (useSel) { sel.resize(nech); for (int i = 0; i < nech; i++) sel[i] = rng.coin(0.8) ? 1 : 0; }
    bool xvalid = rng.coin(0.25);
    Db* dbin = makeDb(X, ndim, Z, {}, {}, sel);
    int ntarget = 20;
    std::vector<std::vector<double>> X0 = genPoints(rng, ntarget, ndim, 8);
    for (auto& p : X0) for (auto& c : p) c += rng.dyadic(0, 1, 5) / 4. + 1. / 256;      // off the data lattice
    Db* dbout = xvalid ? dbin : makeDb(X0, ndim, {}, {}, {}, {});
    int nt = xvalid ? std::min(nech, ntarget) : ntarget;
    int nmini = (int)rng.range(1, 4), nmaxi = (int)rng.range(nmini, 16);
    int nsect = nsects[rng.range(0, 9)];
    int nsmax = (nsect > 1 && rng.coin(0.6)) ? (int)rng.range(1, 4) : 0;
    double radius = rng.coin(0.15) ? 1000. : rng.dyadic(2, 20, 1);
    VectorDouble coeffs, angles;
    if (rng.coin(0.3)) { for (int d = 0; d < ndim; d++) coeffs.push_back(rng.coin() ? 1. : (rng.coin() ? 0.5 : 2.)); if (rng.coin(0.4)) { angles = VectorDouble(ndim, 0.); angles[0] = (double)rng.range(0, 170); } }
    bool ball = rng.coin(0.25) && coeffs.empty();
    NeighMoving* neigh = NeighMoving::create(xvalid, nmaxi, radius, nmini, nsect, nsmax > 0 ? nsmax : ITEST, coeffs, angles);
    if (neigh == nullptr) { delete dbin; if (!xvalid) delete dbout; continue; }
    int leaf = (int)rng.range(1, 40);
    if (ball) neigh->setBallSearch(true, leaf);
    if (neigh->attach(dbin, dbout)) { delete neigh; delete dbin; if (!xvalid) delete dbout; continue; }
    BiTargetCheckDistance* chk = BiTargetCheckDistance::create(radius, coeffs, angles);
    st.hit(ball ? "ball_search" : "exhaustive_search"); st.hit("nsect" + std::to_string(nsect));
    if (xvalid) st.hit("xvalid"); if (useSel) st.hit("with_selection"); if (!coeffs.empty()) st.hit("anisotropic");
    for (int t = 0; t < nt; t++)
    {
      VectorInt ranks;
      neigh->select(t, ranks);
      // independent candidate list
      std::vector<long> cr, cs; std::vector<double> cd, cdx, cdy;
      // with the ball search the library only looks at the nmaxi Euclidean-nearest samples (of all samples)
      std::vector<std::pair<double,int>> eu;
      for (int i = 0; i < nech; i++) { double s = 0; for (int d = 0; d < ndim; d++) { double v = dbout->getCoordinate(t, d) - X[i][d]; s += v * v; } eu.push_back({s, i}); }
      std::sort(eu.begin(), eu.end());
      std::vector<char> eligible(nech, ball ? 0 : 1);
      bool tieAtCut = false;
      if (ball) { for (int k = 0; k < std::min(nmaxi, nech); k++) eligible[eu[k].second] = 1; if (nmaxi < nech && eu[nmaxi - 1].first == eu[nmaxi].first) tieAtCut = true; }
      if (tieAtCut) { st.hit("skipped_tie_at_ball_cut"); continue; }
      for (int i = 0; i < nech; i++)
      {
        if (!eligible[i]) continue;
        if (useSel && sel[i] == 0) continue;
        if (FFFF(Z[0][i])) continue;
        VectorDouble dd(ndim);
        bool same = true;
        for (int d = 0; d < ndim; d++) { dd[d] = dbout->getCoordinate(t, d) - X[i][d]; if (dd[d] != 0.) same = false; }
        if (xvalid && same) continue;
        // distance computed here, independently of the neighbourhood code: rotate (matrix exported
        // by a checker object built with the same parameters), divide by the coefficients, norm
        VectorDouble inc = dd;
        if (!coeffs.empty())
        {
          if (!angles.empty())
          {
            const VectorDouble& R = chk->getAnisoRotMats();      // inc' = dd . R  (R stored column-major)
            for (int j = 0; j < ndim; j++) { double sacc = 0.; for (int k = 0; k < ndim; k++) sacc += dd[k] * R[k + ndim * j]; inc[j] = sacc; }
          }
          for (int j = 0; j < ndim; j++) inc[j] /= coeffs[j];
        }
        double d2acc = 0.; for (int j = 0; j < ndim; j++) d2acc += inc[j] * inc[j];
        double dist = sqrt(d2acc);
        if (!(dist <= radius)) continue;
        int isect = 0;
        if (nsect > 1)
        {
          double ang = atan2(inc[1], inc[0]); if (ang < 0) ang += 2. * M_PI;
          if (inc[0] == 0. && inc[1] == 0.) ang = M_PI / 2.;   // coincident point: the library's convention (dx == 0, dy >= 0)
          isect = (int)floor(nsect * ang / (2. * M_PI)); if (isect >= nsect) isect = nsect - 1;
        }
        cr.push_back(i); cd.push_back(dist); cs.push_back(isect); cdx.push_back(inc[0]); cdy.push_back(inc[1]);
      }
      printf("n mov %d %d %d %d %d %s %s %s %s %s => %s\n", nmini, nmaxi, nsect, nsmax, nech, vecI(cr).c_str(), vecD(cd).c_str(), vecI(cs).c_str(),
             vecD(cdx).c_str(), vecD(cdy).c_str(), vecI(ranks).c_str());
      st.hit("targets");
      if ((int)cr.size() > nmaxi) st.hit("quota_binding");
      if (ranks.empty()) st.hit("empty_neighbourhood");
    }
    delete chk; delete neigh;
    // ---- ball tree k-NN queries on the same point set
    {
      VectorVectorDouble data(ndim, VectorDouble(nech));      // layout [feature][sample]
      for (int i = 0; i < nech; i++) for (int d = 0; d < ndim; d++) data[d][i] = X[i][d];
      Ball bt(data, nullptr, leaf);
      for (int q = 0; q < 10; q++)
      {
        VectorDouble test(ndim);
        for (int d = 0; d < ndim; d++) test[d] = X0[q % ntarget][d];
        int k = (int)rng.range(1, std::min(nech, 12));
        KNN res = bt.queryOneAsVD(test, k);
        VectorInt idx = res.getIndices(0);
        std::vector<long> cr; std::vector<double> cd;
        for (int i = 0; i < nech; i++) { double s = 0; for (int d = 0; d < ndim; d++) { double v = test[d] - X[i][d]; s += v * v; } cr.push_back(i); cd.push_back(s); }
        printf("n knn %d %s %s => %s\n", k, vecI(cr).c_str(), vecD(cd).c_str(), vecI(idx).c_str());
        st.hit("knn_queries");
      }
    }
    delete dbin; if (!xvalid) delete dbout;
  }
  st.dump(stdout);
  return 0;
}
