// Shared helpers of the correspondence harnesses (C++ side).
//  - PRNG: splitmix64 seeded from VERIF_SEED (every random choice derives from it)
//  - exact transfer of doubles as dyadics  m:e  (value = m * 2^e)
//  - line emission:   <model> <op> <args…> => <implementation answer…>
#pragma once
#include <cstdint>
#include <cstdio>
#include <cstdlib>
#include <cmath>
#include <string>
#include <vector>
#include <sstream>
#include <map>
#include <iostream>

namespace vh {

struct Rng {
  uint64_t s;
  explicit Rng(uint64_t seed) : s(seed) {}
  uint64_t next() {
    uint64_t z = (s += 0x9E3779B97F4A7C15ULL);
    z = (z ^ (z >> 30)) * 0xBF58476D1CE4E5B9ULL;
    z = (z ^ (z >> 27)) * 0x94D049BB133111EBULL;
    return z ^ (z >> 31);
  }
  // uniform integer in [lo, hi]
  long range(long lo, long hi) { return lo + (long)(next() % (uint64_t)(hi - lo + 1)); }
  bool coin(double p = 0.5) { return (next() >> 11) * (1.0 / 9007199254740992.0) < p; }
  double unit() { return (next() >> 11) * (1.0 / 9007199254740992.0); }
  // dyadic value k / 2^bits with k in [lo*2^bits, hi*2^bits]
  double dyadic(long lo, long hi, int bits) {
    long k = range(lo * (1L << bits), hi * (1L << bits));
    return (double)k / (double)(1L << bits);
  }
  template <class T> const T& pick(const std::vector<T>& v) { return v[range(0, (long)v.size() - 1)]; }
};

inline uint64_t seedFromEnv() {
  const char* s = getenv("VERIF_SEED");
  return s ? strtoull(s, nullptr, 10) : 0ULL;
}
inline bool thorough() {
  const char* s = getenv("VERIF_TIER");
  return s && std::string(s) == "thorough";
}
inline long envLong(const char* name, long dflt) {
  const char* s = getenv(name);
  return s ? atol(s) : dflt;
}

// exact dyadic text of a double
inline std::string dy(double x) {
  if (std::isnan(x)) return "nan";
  if (std::isinf(x)) return x > 0 ? "+inf" : "-inf";
  if (x == 0) return "0:0";
  int e;
  double m = std::frexp(x, &e);            // x = m * 2^e, 0.5 <= |m| < 1
  long long mi = (long long)std::ldexp(m, 53);
  e -= 53;
  while (mi % 2 == 0) { mi /= 2; e++; }
  std::ostringstream os;
  os << mi << ":" << e;
  return os.str();
}
// optional value: the library's TEST (1.234e30) is NA
inline std::string dyNA(double x) { return (x == 1.234e30) ? std::string("NA") : dy(x); }

template <class V> std::string vecD(const V& v) {
  if (v.size() == 0) return "-";
  std::string s;
  for (size_t i = 0; i < (size_t)v.size(); i++) { if (i) s += ","; s += dy(v[i]); }
  return s;
}
template <class V> std::string vecDNA(const V& v) {
  if (v.size() == 0) return "-";
  std::string s;
  for (size_t i = 0; i < (size_t)v.size(); i++) { if (i) s += ","; s += dyNA(v[i]); }
  return s;
}
template <class V> std::string vecI(const V& v) {
  if (v.size() == 0) return "-";
  std::string s;
  for (size_t i = 0; i < (size_t)v.size(); i++) { if (i) s += ","; s += std::to_string((long long)v[i]); }
  return s;
}

// distribution counters printed at the end as  "#stat key value"
struct Stats {
  std::map<std::string, long> c;
  void hit(const std::string& k, long n = 1) { c[k] += n; }
  void dump(FILE* f) { for (auto& kv : c) fprintf(f, "#stat %s %ld\n", kv.first.c_str(), kv.second); }
};

} // namespace vh

// ---- silence the library's own messages (they go to stdout through message_extern)
#include "geoslib_io.h"
namespace vh {
inline void sinkMessage(const char*) {}
inline void muteLibrary() { if (getenv("VERIF_NOMUTE")) return; redefine_message(sinkMessage); redefine_error(sinkMessage); }
}
