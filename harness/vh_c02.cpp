// Correspondence harness for C02: metamorphic relations of kriging on the real library
// (exactness at data, unbiasedness, drift shift, linearity, permutation, translation, SK bound).
#include "krig_common.hpp"
using namespace vh;

struct Run { std::vector<double> est, sd; bool ok; };

static Run runKrig(Db* dbin, Db* dbout, Model* model, ANeigh* neigh, int nvar)
{
  Run r; r.ok = false;
  int ncol0 = dbout->getColumnNumber();
  if (kriging(dbin, dbout, model, neigh, EKrigOpt::POINT, true, true, false) != 0) return r;
  int nt = dbout->getSampleNumber();
  for (int t = 0; t < nt; t++)
    for (int a = 0; a < nvar; a++) { r.est.push_back(dbout->getValueByColIdx(t, ncol0 + a)); r.sd.push_back(dbout->getValueByColIdx(t, ncol0 + nvar + a)); }
  r.ok = true;
  for (double v : r.est) if (FFFF(v) || std::isnan(v)) r.ok = false;
  // remove the output columns again
  for (int k = 2 * nvar - 1; k >= 0; k--) dbout->deleteColumnByColIdx(ncol0 + k);
  return r;
}

int main()
{
  muteLibrary();
  Rng rng(seedFromEnv() * 7919 + 2);
  long ncfg = envLong("VERIF_CASES", thorough() ? 4000 : 300);
  Stats st;
  for (long ic = 0; ic < ncfg; ic++)
  {
    int ndim = (int)rng.range(1, 3);
    int nvar = rng.coin(0.6) ? 1 : 2;
    int nech = (int)rng.range(6, 14);
    int order = (int)rng.range(-1, 1);
    bool hasVerr = rng.coin(0.25);
    defineDefaultSpace(ESpaceType::RN, ndim);
    auto X = genPoints(rng, nech, ndim, 8);
    std::vector<std::vector<double>> Z(nvar, std::vector<double>(nech)), V;
    double pna = (nvar > 1 && rng.coin(0.5)) ? 0.25 : 0.;
    for (int a = 0; a < nvar; a++) for (int i = 0; i < nech; i++) Z[a][i] = (i >= 4 && rng.coin(pna)) ? TEST : rng.dyadic(-8, 8, 3);
    if (hasVerr) { V.assign(nvar, std::vector<double>(nech)); for (int a = 0; a < nvar; a++) for (int i = 0; i < nech; i++) { double u = rng.unit(); V[a][i] = u < 0.3 ? TEST : (u < 0.6 ? 0. : rng.dyadic(0, 2, 3)); } }
    // targets: two on data, two elsewhere
    int ntarget = 4;
    std::vector<std::vector<double>> X0;
    int d0 = (int)rng.range(0, nech - 1), d1 = (int)rng.range(0, nech - 1);
    X0.push_back(X[d0]); X0.push_back(X[d1]);
    auto extra = genPoints(rng, 2, ndim, 8);
    for (auto& p : extra) { for (auto& c : p) c += 0.125; X0.push_back(p); }
    std::string mtext;
    Model* model = genModel(rng, ndim, nvar, order, 0, mtext, st);
    if (model == nullptr) continue;
    VectorDouble means(nvar, 0.);
    if (order < 0) { for (int a = 0; a < nvar; a++) means[a] = rng.dyadic(-3, 3, 2); model->setMeans(means); }
    Db* dbin = makeDb(X, ndim, Z, V, {}, {});
    Db* dbout = makeDb(X0, ndim, {}, {}, {}, {});
    ANeigh* neigh = NeighUnique::create();
    st.hit(order < 0 ? "simple_kriging" : ("drift_order" + std::to_string(order)));
    st.hit("nvar" + std::to_string(nvar));
    Run base = runKrig(dbin, dbout, model, neigh, nvar);
    if (!base.ok) { st.hit("refused"); delete neigh; delete model; delete dbin; delete dbout; continue; }
    double zs = 8.;
    // --- exactness at data (variables defined there, without measurement error)
    int dat[2] = {d0, d1};
    for (int t = 0; t < 2; t++)
      for (int a = 0; a < nvar; a++)
      {
        int i = dat[t];
        if (FFFF(Z[a][i])) continue;
        bool noerr = !hasVerr || FFFF(V[a][i]) || V[a][i] <= 0.;
        // cokriging: exactness needs every variable of that sample to be error free as well
        for (int b = 0; b < nvar && hasVerr; b++) if (!FFFF(Z[b][i]) && !FFFF(V[b][i]) && V[b][i] > 0.) noerr = false;
        if (!noerr) continue;
        printf("k rel exact %s %s %s %s =>\n", dy(Z[a][i]).c_str(), dy(base.est[t * nvar + a]).c_str(), dy(base.sd[t * nvar + a]).c_str(), dy(zs).c_str());
        st.hit("rel_exact");
      }
    // --- standard deviations finite and non negative, bounded by the a-priori variance in SK
    for (int t = 0; t < ntarget; t++) for (int a = 0; a < nvar; a++)
    {
      double c00 = model->eval0(a, a);
      printf("k rel stdev %s %s %d =>\n", dy(base.sd[t * nvar + a]).c_str(), dy(c00).c_str(), order < 0 ? 1 : 0);
    }
    // --- unbiasedness: weights sum to one (own variable) / zero (other variables) with a constant drift
    if (order >= 0)
    {
      Krigtest_Res res = krigtest(dbin, dbout, model, neigh, 2, EKrigOpt::POINT);
      int nred = res.nech;
      // rows of wgt: kept data equations first (variable-major), then drift equations
      std::vector<int> owner;
      for (int a = 0; a < nvar; a++) for (int i = 0; i < nech; i++) if (!FFFF(Z[a][i])) owner.push_back(a);
      if ((int)owner.size() + nvar * model->getDriftNumber() == nred)
        for (int b = 0; b < nvar; b++) for (int a = 0; a < nvar; a++)
        {
          double s = 0; std::vector<double> w;
          for (size_t e = 0; e < owner.size(); e++) if (owner[e] == a) w.push_back(res.wgt.getValue((int)e, b));
          printf("k rel wsum %s %d =>\n", vecD(w).c_str(), a == b ? 1 : 0);
          st.hit("rel_unbiased");
          (void)s;
        }
    }
    // --- permutation of the samples
    {
      std::vector<int> perm(nech);
      for (int i = 0; i < nech; i++) perm[i] = i;
      for (int i = nech - 1; i > 0; i--) std::swap(perm[i], perm[rng.range(0, i)]);
      auto Xp = X; auto Zp = Z; auto Vp = V;
      for (int i = 0; i < nech; i++) { Xp[i] = X[perm[i]]; for (int a = 0; a < nvar; a++) { Zp[a][i] = Z[a][perm[i]]; if (hasVerr) Vp[a][i] = V[a][perm[i]]; } }
      Db* dbp = makeDb(Xp, ndim, Zp, Vp, {}, {});
      Run rp = runKrig(dbp, dbout, model, neigh, nvar);
      if (rp.ok) { printf("k rel same %s %s %s %s %s =>\n", vecD(base.est).c_str(), vecD(rp.est).c_str(), vecD(base.sd).c_str(), vecD(rp.sd).c_str(), dy(zs).c_str()); st.hit("rel_perm"); }
      delete dbp;
    }
    // --- translation of all coordinates by a dyadic vector
    {
      std::vector<double> tr(ndim);
      for (int d = 0; d < ndim; d++) tr[d] = (double)rng.range(-64, 64);
      auto Xt = X; auto X0t = X0;
      for (auto& p : Xt) for (int d = 0; d < ndim; d++) p[d] += tr[d];
      for (auto& p : X0t) for (int d = 0; d < ndim; d++) p[d] += tr[d];
      Db* dbt = makeDb(Xt, ndim, Z, V, {}, {});
      Db* dbot = makeDb(X0t, ndim, {}, {}, {}, {});
      Run rt = runKrig(dbt, dbot, model, neigh, nvar);
      if (rt.ok) { printf("k rel same %s %s %s %s %s =>\n", vecD(base.est).c_str(), vecD(rt.est).c_str(), vecD(base.sd).c_str(), vecD(rt.sd).c_str(), dy(zs * 64).c_str()); st.hit("rel_translate"); }
      delete dbt; delete dbot;
    }
    // --- drift shift: data + (c0 + c1 x1) for order >= 1, + c0 for order 0
    if (order >= 0)
    {
      double c0 = rng.dyadic(-4, 4, 2), c1 = (order >= 1) ? rng.dyadic(-2, 2, 2) : 0.;
      auto Zs = Z;
      for (int a = 0; a < nvar; a++) for (int i = 0; i < nech; i++) if (!FFFF(Z[a][i])) Zs[a][i] = Z[a][i] + c0 + c1 * X[i][0];
      Db* dbs = makeDb(X, ndim, Zs, V, {}, {});
      Run rs = runKrig(dbs, dbout, model, neigh, nvar);
      if (rs.ok)
      {
        std::vector<double> delta;
        for (int t = 0; t < ntarget; t++) for (int a = 0; a < nvar; a++) delta.push_back(c0 + c1 * X0[t][0]);
        printf("k rel shift %s %s %s %s %s %s =>\n", vecD(base.est).c_str(), vecD(rs.est).c_str(), vecD(delta).c_str(), vecD(base.sd).c_str(), vecD(rs.sd).c_str(), dy(zs * 8).c_str());
        st.hit("rel_drift_shift");
      }
      delete dbs;
    }
    // --- linearity: alpha z1 + beta z2 (same pattern of undefined values, known mean scaled likewise)
    {
      auto Z2 = Z;
      for (int a = 0; a < nvar; a++) for (int i = 0; i < nech; i++) if (!FFFF(Z[a][i])) Z2[a][i] = rng.dyadic(-8, 8, 3);
      double al = (double)rng.range(-2, 2), be = (double)rng.range(-2, 2);
      auto Z3 = Z;
      for (int a = 0; a < nvar; a++) for (int i = 0; i < nech; i++) if (!FFFF(Z[a][i])) Z3[a][i] = al * Z[a][i] + be * Z2[a][i];
      Model* m0 = model->duplicate();
      if (order < 0) m0->setMeans(VectorDouble(nvar, 0.));
      Db* db1 = makeDb(X, ndim, Z, V, {}, {});
      Db* db2 = makeDb(X, ndim, Z2, V, {}, {});
      Db* db3 = makeDb(X, ndim, Z3, V, {}, {});
      Run r1 = runKrig(db1, dbout, m0, neigh, nvar), r2 = runKrig(db2, dbout, m0, neigh, nvar), r3 = runKrig(db3, dbout, m0, neigh, nvar);
      if (r1.ok && r2.ok && r3.ok)
      { printf("k rel linear %s %s %s %s %s %s =>\n", vecD(r1.est).c_str(), vecD(r2.est).c_str(), vecD(r3.est).c_str(), dy(al).c_str(), dy(be).c_str(), dy(zs * 4).c_str()); st.hit("rel_linear"); }
      delete db1; delete db2; delete db3; delete m0;
    }
    delete neigh; delete model; delete dbin; delete dbout;
  }
  st.dump(stdout);
  return 0;
}
