// Shared generator / exporter for the kriging certificate chain (C01, C02, C04, C05).
#pragma once
#include "common.hpp"
#include "Db/Db.hpp"
#include "Db/DbGrid.hpp"
#include "Model/Model.hpp"
#include "Covariances/CovCalcMode.hpp"
#include "Covariances/CovAniso.hpp"
#include "Drifts/ADrift.hpp"
#include "Drifts/DriftM.hpp"
#include "Drifts/DriftF.hpp"
#include "Neigh/NeighUnique.hpp"
#include "Neigh/NeighMoving.hpp"
#include "Estimation/CalcKriging.hpp"
#include "Space/ASpaceObject.hpp"
#include "Space/SpacePoint.hpp"
#include "Enum/ECov.hpp"
#include "Enum/ELoadBy.hpp"
#include "Enum/ESpaceType.hpp"
#include "Enum/ECalcMember.hpp"
#include "Enum/EKrigOpt.hpp"
#include <set>

namespace vh {

struct KConfig
{
  int ndim, nvar, nech, ntarget;
  int order;            // -1: known mean; 0,1,2: IRF order
  int nfex;             // number of external drifts
  bool hasVerr;
  std::vector<std::vector<double>> X;    // [nech][ndim]
  std::vector<std::vector<double>> Z;    // [nvar][nech]  (TEST = undefined)
  std::vector<std::vector<double>> V;    // [nvar][nech]
  std::vector<std::vector<double>> FE;   // [nfex][nech]
  std::vector<int> sel;                  // selection (empty: none)
  std::vector<std::vector<double>> X0;   // [ntarget][ndim]
  std::vector<std::vector<double>> FE0;  // [nfex][ntarget]
  VectorDouble means;
  std::string modelText;
};

inline Db* makeDb(const std::vector<std::vector<double>>& X, int ndim,
                  const std::vector<std::vector<double>>& Z,
                  const std::vector<std::vector<double>>& V,
                  const std::vector<std::vector<double>>& FE,
                  const std::vector<int>& sel)
{
  int nech = (int)X.size();
  VectorDouble tab;
  VectorString names, locs;
  for (int d = 0; d < ndim; d++) { names.push_back("x" + std::to_string(d + 1)); locs.push_back("x" + std::to_string(d + 1)); }
  for (size_t a = 0; a < Z.size(); a++) { names.push_back("z" + std::to_string(a + 1)); locs.push_back("z" + std::to_string(a + 1)); }
  for (size_t a = 0; a < V.size(); a++) { names.push_back("v" + std::to_string(a + 1)); locs.push_back("v" + std::to_string(a + 1)); }
  for (size_t a = 0; a < FE.size(); a++) { names.push_back("f" + std::to_string(a + 1)); locs.push_back("f" + std::to_string(a + 1)); }
  if (!sel.empty()) { names.push_back("sel"); locs.push_back("sel"); }
  for (int i = 0; i < nech; i++)
  {
    for (int d = 0; d < ndim; d++) tab.push_back(X[i][d]);
    for (size_t a = 0; a < Z.size(); a++) tab.push_back(Z[a][i]);
    for (size_t a = 0; a < V.size(); a++) tab.push_back(V[a][i]);
    for (size_t a = 0; a < FE.size(); a++) tab.push_back(FE[a][i]);
    if (!sel.empty()) tab.push_back((double)sel[i]);
  }
  return Db::createFromSamples(nech, ELoadBy::SAMPLE, tab, names, locs, false);
}

// distinct dyadic locations
inline std::vector<std::vector<double>> genPoints(Rng& r, int n, int ndim, int span)
{
  std::set<std::vector<long>> seen;
  std::vector<std::vector<double>> X;
  // enough distinct lattice positions for n points
  for (;;) { double cap = 1.; for (int d = 0; d < ndim; d++) cap *= (span * 4 + 1); if (cap >= 3. * n) break; span *= 2; }
  while ((int)X.size() < n)
  {
    std::vector<long> k(ndim);
    for (int d = 0; d < ndim; d++) k[d] = r.range(0, span * 4);
    if (!seen.insert(k).second) continue;
    std::vector<double> x(ndim);
    for (int d = 0; d < ndim; d++) x[d] = k[d] / 4.;
    X.push_back(x);
  }
  return X;
}

// random nested model; returns nullptr when the library refuses the combination
inline Model* genModel(Rng& r, int ndim, int nvar, int order, int nfex, std::string& text, Stats& st)
{
  static const char* types[] = {"NUGGET", "SPHERICAL", "EXPONENTIAL", "GAUSSIAN", "CUBIC", "MATERN"};
  int ncov = (int)r.range(1, 3);
  Model* model = nullptr;
  text.clear();
  for (int ic = 0; ic < ncov; ic++)
  {
    int it = (int)r.range(ic == 0 ? 1 : 0, 5);
    ECov type = ECov::fromKey(types[it]);
    // PSD sill matrix G G^T + d I with small integers
    VectorDouble sills(nvar * nvar, 0.);
    std::vector<std::vector<double>> G(nvar, std::vector<double>(nvar));
    for (int a = 0; a < nvar; a++) for (int b = 0; b < nvar; b++) G[a][b] = (double)r.range(-2, 2) / 2.;
    for (int a = 0; a < nvar; a++) for (int b = 0; b < nvar; b++)
    { double s = 0; for (int c = 0; c < nvar; c++) s += G[a][c] * G[b][c]; sills[a * nvar + b] = s + (a == b ? 0.5 : 0.); }
    VectorDouble ranges, angles;
    double range = r.dyadic(1, 6, 1);
    if (it != 0 && ndim > 1 && r.coin(0.5))
    {
      for (int d = 0; d < ndim; d++) ranges.push_back(r.dyadic(1, 6, 1));
      if (r.coin(0.6)) { angles = VectorDouble(ndim, 0.); angles[0] = (double)r.range(0, 170); if (ndim == 3) { angles[1] = (double)r.range(0, 40); angles[2] = (double)r.range(0, 40); } }
      st.hit("model_anisotropic");
    }
    double param = (it == 5) ? (r.coin() ? 0.5 : 1.5) : 1.;
    if (model == nullptr)
      model = Model::createFromParam(type, range, 1., param, ranges, sills, angles);
    else
      model->addCovFromParam(type, range, 1., param, ranges, sills, angles);
    if (model == nullptr) return nullptr;
    text += std::string(types[it]) + "/";
    st.hit(std::string("cov_") + types[it]);
  }
  if (order >= 0 || nfex > 0) model->setDriftIRF(std::max(order, 0), nfex);
  return model;
}

inline std::string driftSpec(const Model* model)
{
  int nbfl = model->getDriftNumber();
  if (nbfl == 0) return "-";
  std::string s;
  for (int il = 0; il < nbfl; il++)
  {
    const ADrift* d = model->getDrift(il);
    if (il) s += ",";
    const DriftF* df = dynamic_cast<const DriftF*>(d);
    if (df != nullptr) { s += "e:" + std::to_string(df->getRankFex()); continue; }
    VectorInt p = d->getPowers();
    s += "m:";
    if (p.empty()) s += "0";
    for (int k = 0; k < (int)p.size(); k++) { if (k) s += "."; s += std::to_string(p[k]); }
  }
  return s;
}

// Emit the request line of one target: oracle tables from the plain single-pair API.
// 'rank' gives the ranks (in dbin) of the neighbourhood samples as reported by the library.
// For a block target, `disc1` / `disc2` hold the offsets of the two discretisations of the block: the right-hand side is
// the average of the point covariances over `disc1`, the variance of the target the average over `disc1` x `disc2`.
inline std::string krigRequest(const Db* dbin, const Db* dbout, Model* model, int itarget,
                               const VectorInt& nbgh, int ndim, int nvar, int nfex, bool hasVerr,
                               const VectorVectorDouble* disc1 = nullptr, const VectorVectorDouble* disc2 = nullptr)
{
  int nech = (int)nbgh.size();
  int nbfl = model->getDriftNumber();
  CovCalcMode mlhs(ECalcMember::LHS), mrhs(ECalcMember::RHS), mvar(ECalcMember::VAR);
  std::vector<SpacePoint> P;
  std::vector<double> X;
  for (int i = 0; i < nech; i++)
  {
    VectorDouble c(ndim);
    for (int d = 0; d < ndim; d++) { c[d] = dbin->getCoordinate(nbgh[i], d); X.push_back(c[d]); }
    P.emplace_back(c);
  }
  VectorDouble c0(ndim);
  for (int d = 0; d < ndim; d++) c0[d] = dbout->getCoordinate(itarget, d);
  SpacePoint P0(c0);
  int n = nvar * nech;
  std::vector<double> C(n * n), C0(n * nvar), C00(nvar * nvar), z(n), verr, F, F0, fext, fext0;
  std::string cok, fok;
  for (int a = 0; a < nvar; a++) for (int i = 0; i < nech; i++)
    for (int b = 0; b < nvar; b++) for (int j = 0; j < nech; j++)
      C[(i + a * nech) * n + (j + b * nech)] = (i == j) ? model->eval0(a, b, &mlhs) : model->eval(P[i], P[j], a, b, &mlhs);
  if (disc1 == nullptr)
  {
    for (int a = 0; a < nvar; a++) for (int i = 0; i < nech; i++) for (int b = 0; b < nvar; b++)
      C0[(i + a * nech) * nvar + b] = model->eval(P[i], P0, a, b, &mrhs);
    for (int a = 0; a < nvar; a++) for (int b = 0; b < nvar; b++) C00[a * nvar + b] = model->eval0(a, b, &mvar);
  }
  else
  {
    std::vector<SpacePoint> D1, D2;
    for (const auto& d : *disc1) { VectorDouble c(c0); for (int k = 0; k < ndim; k++) c[k] += d[k]; D1.emplace_back(c); }
    for (const auto& d : *disc2) { VectorDouble c(c0); for (int k = 0; k < ndim; k++) c[k] += d[k]; D2.emplace_back(c); }
    for (int a = 0; a < nvar; a++) for (int i = 0; i < nech; i++) for (int b = 0; b < nvar; b++)
    { double sum = 0.; for (auto& q : D1) sum += model->eval(P[i], q, a, b, &mrhs); C0[(i + a * nech) * nvar + b] = sum / (double)D1.size(); }
    for (int a = 0; a < nvar; a++) for (int b = 0; b < nvar; b++)
    { double sum = 0.; for (auto& q1 : D1) for (auto& q2 : D2) sum += model->eval(q1, q2, a, b, &mvar); C00[a * nvar + b] = sum / (double)(D1.size() * D2.size()); }
  }
  for (int a = 0; a < nvar; a++) for (int i = 0; i < nech; i++) z[i + a * nech] = dbin->getZVariable(nbgh[i], a);
  if (hasVerr) { verr.resize(n); for (int a = 0; a < nvar; a++) for (int i = 0; i < nech; i++) verr[i + a * nech] = dbin->getLocVariable(ELoc::V, nbgh[i], a); }
  for (int i = 0; i < nech; i++)
  {
    bool ok = true;
    for (int d = 0; d < ndim; d++) if (FFFF(dbin->getCoordinate(nbgh[i], d))) ok = false;
    cok += ok ? '1' : '0';
    bool okf = true;
    for (int k = 0; k < nfex; k++) { double v = dbin->getLocVariable(ELoc::F, nbgh[i], k); fext.push_back(v); if (FFFF(v)) okf = false; }
    fok += okf ? '1' : '0';
    for (int l = 0; l < nbfl; l++) { double v = model->getDrift(l)->eval(dbin, nbgh[i]); F.push_back(FFFF(v) ? 0. : v); }
  }
  for (int k = 0; k < nfex; k++) fext0.push_back(dbout->getLocVariable(ELoc::F, itarget, k));
  for (int l = 0; l < nbfl; l++) F0.push_back(model->getDrift(l)->eval(dbout, itarget));
  VectorDouble means(nvar);
  for (int a = 0; a < nvar; a++) means[a] = model->getMean(a);
  std::ostringstream os;
  os << "nvar=" << nvar << " nech=" << nech << " nbfl=" << nbfl << " ndim=" << ndim << " nfex=" << nfex
     << " z=" << vecDNA(z) << " verr=" << vecDNA(verr) << " cok=" << (cok.empty() ? "-" : cok) << " fok=" << (fok.empty() ? "-" : fok)
     << " C=" << vecD(C) << " C0=" << vecD(C0) << " C00=" << vecD(C00)
     << " F=" << vecD(F) << " F0=" << vecD(F0) << " mean=" << vecD(means)
     << " drift=" << driftSpec(model) << " X=" << vecD(X) << " X0=" << vecD(c0)
     << " fext=" << vecDNA(fext) << " fext0=" << vecDNA(fext0);
  return os.str();
}

inline std::string matFlat(const AMatrix& m)
{
  std::vector<double> v;
  for (int i = 0; i < m.getNRows(); i++) for (int j = 0; j < m.getNCols(); j++) v.push_back(m.getValue(i, j));
  return vecD(v);
}

} // namespace vh
