// Correspondence harness for C11: matrix classes (rectangular / square / symmetric / sparse Eigen /
// sparse cs) and numeric vector helpers, on small-integer and small-dyadic contents so that every
// sum and product is exact in doubles and must equal the rational model exactly.
#include "common.hpp"
#include "Matrix/MatrixRectangular.hpp"
#include "Matrix/MatrixSquareGeneral.hpp"
#include "Matrix/MatrixSquareSymmetric.hpp"
#include "Matrix/MatrixSparse.hpp"
#include "Matrix/MatrixFactory.hpp"
#include "Matrix/NF_Triplet.hpp"
#include "LinearOp/CholeskyDense.hpp"
#include "Basic/VectorHelper.hpp"
#include <memory>

using namespace vh;
typedef std::vector<std::vector<double>> Tab;

static Tab genTab(Rng& r, int nr, int nc, bool sparseish, bool dyad)
{
  Tab t(nr, std::vector<double>(nc, 0.));
  for (int i = 0; i < nr; i++)
    for (int j = 0; j < nc; j++)
    {
      if (sparseish && r.coin(0.5)) continue;
      t[i][j] = dyad ? r.dyadic(-4, 4, 2) : (double)r.range(-5, 5);
    }
  return t;
}
static Tab symmetrize(Tab t) { int n = (int)t.size(); for (int i = 0; i < n; i++) for (int j = 0; j < i; j++) t[i][j] = t[j][i]; return t; }

static std::string matText(const AMatrix& m)
{
  std::vector<double> v;
  for (int i = 0; i < m.getNRows(); i++)
    for (int j = 0; j < m.getNCols(); j++) v.push_back(m.getValue(i, j));
  return std::to_string(m.getNRows()) + " " + std::to_string(m.getNCols()) + " " + vecD(v);
}
static std::string tabText(const Tab& t, int nr, int nc)
{
  std::vector<double> v;
  for (int i = 0; i < nr; i++) for (int j = 0; j < nc; j++) v.push_back(t[i][j]);
  return std::to_string(nr) + " " + std::to_string(nc) + " " + vecD(v);
}

// storage kinds: 0 rectangular, 1 square general, 2 square symmetric, 3 sparse(Eigen), 4 sparse(cs)
static AMatrix* build(int kind, const Tab& t, int nr, int nc)
{
  AMatrix* m = nullptr;
  if (kind == 0) m = new MatrixRectangular(nr, nc);
  if (kind == 1) m = new MatrixSquareGeneral(nr);
  if (kind == 2) m = new MatrixSquareSymmetric(nr);
  if (kind <= 2)
  {
    for (int i = 0; i < nr; i++) for (int j = 0; j < nc; j++) m->setValue(i, j, t[i][j]);
    return m;
  }
  NF_Triplet T;
  for (int i = 0; i < nr; i++) for (int j = 0; j < nc; j++) if (t[i][j] != 0.) T.add(i, j, t[i][j]);
  return MatrixSparse::createFromTriplet(T, nr, nc, kind == 3 ? 1 : 0);
}
static const char* kname[] = {"rect", "square", "symm", "sparseEigen", "sparseCs"};

static VectorDouble genVec(Rng& r, int n, bool dyad, bool nozero = false)
{
  VectorDouble v(n);
  for (int i = 0; i < n; i++) { v[i] = dyad ? r.dyadic(-4, 4, 2) : (double)r.range(-5, 5); if (nozero && v[i] == 0.) v[i] = 2.; }
  return v;
}
static VectorDouble genPow2(Rng& r, int n) { VectorDouble v(n); static const double p[] = {0.25, 0.5, 1, 2, 4, -2, -0.5}; for (int i = 0; i < n; i++) v[i] = p[r.range(0, 6)]; return v; }

int main()
{
  muteLibrary();
  Rng rng(seedFromEnv() * 7919 + 11);
  long ncase = envLong("VERIF_CASES", thorough() ? 20000 : 700);
  Stats st;
  static const int threads[] = {1, 2, 4, 8, 16};
  for (long ic = 0; ic < ncase; ic++)
  {
    int nth = threads[rng.range(0, 4)];
    setMultiThread(nth);
    st.hit(std::string("threads") + std::to_string(nth));
    bool dyad = rng.coin(0.3);
    int nr = (int)rng.range(1, 7), nc = (int)rng.range(1, 7);
    if (rng.coin(0.25)) nc = nr;
    if (rng.coin(0.1)) nr = 1;
    if (rng.coin(0.1)) nc = 1;
    bool square = (nr == nc);
    bool sp = rng.coin(0.4);
    Tab a = genTab(rng, nr, nc, sp, dyad);
    bool symm = square && rng.coin(0.5);
    if (symm) a = symmetrize(a);
    std::vector<int> kinds = {0, 3, 4};
    if (square) kinds.push_back(1);
    if (symm) kinds.push_back(2);
    int kind = kinds[rng.range(0, (long)kinds.size() - 1)];
    st.hit(std::string("storage_") + kname[kind]);
    st.hit(square ? "shape_square" : ((nr == 1 || nc == 1) ? "shape_vectorlike" : "shape_rect"));
    std::string A = tabText(a, nr, nc);
    std::unique_ptr<AMatrix> m(build(kind, a, nr, nc));
    if (!m) continue;
    // element access / storage round trip
    printf("m tr %s => %s\n", A.c_str(), matText(*std::unique_ptr<AMatrix>(m->transpose())).c_str());
    // products with vectors, both flags
    for (int t = 0; t < 2; t++)
    {
      VectorDouble x = genVec(rng, t ? nr : nc, dyad);
      VectorDouble y = m->prodMatVec(x, t);
      printf("m mv %d %s %s => %s\n", t, A.c_str(), vecD(x).c_str(), vecD(y).c_str());
      VectorDouble x2 = genVec(rng, t ? nc : nr, dyad);
      VectorDouble y2 = m->prodVecMat(x2, t);
      printf("m vm %d %s %s => %s\n", t, A.c_str(), vecD(x2).c_str(), vecD(y2).c_str());
    }
    // matrix product with the four flag combinations (same storage family for the partner)
    {
      bool ta = rng.coin(), tb = rng.coin();
      int inner = ta ? nr : nc;
      int outc = (int)rng.range(1, 5);
      int br = tb ? outc : inner, bc = tb ? inner : outc;
      Tab b = genTab(rng, br, bc, sp, dyad);
      int kb = (kind >= 3) ? kind : 0;
      std::unique_ptr<AMatrix> mb(build(kb, b, br, bc));
      std::unique_ptr<AMatrix> res(MatrixFactory::prodMatMat(m.get(), mb.get(), ta, tb));
      if (res) printf("m mm %d %d %s %s => %s\n", ta, tb, A.c_str(), tabText(b, br, bc).c_str(), matText(*res).c_str());
      st.hit("prodMatMat");
    }
    // linear combination  this = cx*this + cy*y
    {
      Tab b = genTab(rng, nr, nc, sp, dyad);
      if (kind == 2) b = symmetrize(b);
      double cx = (double)rng.range(-3, 3), cy = (double)rng.range(-3, 3);
      std::unique_ptr<AMatrix> mc(build(kind, a, nr, nc));
      std::unique_ptr<AMatrix> mb(build(kind, b, nr, nc));
      if (kind >= 3) dynamic_cast<MatrixSparse*>(mc.get())->addMatInPlace(*dynamic_cast<MatrixSparse*>(mb.get()), cx, cy);
      else mc->addMatInPlace(*mb, cx, cy);
      printf("m lin %s %s %s %s => %s\n", dy(cx).c_str(), A.c_str(), dy(cy).c_str(), tabText(b, nr, nc).c_str(), matText(*mc).c_str());
    }
    // scalar operations
    {
      double v = (double)rng.range(-3, 3);
      std::unique_ptr<AMatrix> mc(build(kind, a, nr, nc));
      mc->prodScalar(v);
      printf("m scal %s %s => %s\n", dy(v).c_str(), A.c_str(), matText(*mc).c_str());
      if (kind <= 2)
      {
        std::unique_ptr<AMatrix> md(build(kind, a, nr, nc));
        md->addScalar(v);
        printf("m adds %s %s => %s\n", dy(v).c_str(), A.c_str(), matText(*md).c_str());
      }
    }
    // row / column scaling (not for symmetric storage: the result is not symmetric)
    if (kind != 2)
    {
      VectorDouble vr = genVec(rng, nr, false), vc = genVec(rng, nc, false);
      { std::unique_ptr<AMatrix> mc(build(kind, a, nr, nc)); mc->multiplyRow(vr); printf("m mrow %s %s => %s\n", vecD(vr).c_str(), A.c_str(), matText(*mc).c_str()); }
      { std::unique_ptr<AMatrix> mc(build(kind, a, nr, nc)); mc->multiplyColumn(vc); printf("m mcol %s %s => %s\n", vecD(vc).c_str(), A.c_str(), matText(*mc).c_str()); }
      VectorDouble pr = genPow2(rng, nr), pc = genPow2(rng, nc);
      { std::unique_ptr<AMatrix> mc(build(kind, a, nr, nc)); mc->divideRow(pr); printf("m drow %s %s => %s\n", vecD(pr).c_str(), A.c_str(), matText(*mc).c_str()); }
      { std::unique_ptr<AMatrix> mc(build(kind, a, nr, nc)); mc->divideColumn(pc); printf("m dcol %s %s => %s\n", vecD(pc).c_str(), A.c_str(), matText(*mc).c_str()); }
      st.hit("row_col_scaling");
    }
    // row / column / diagonal assignment (the cs back-end documents that only existing entries are updated)
    if (kind != 2 && kind != 4)
    {
      int k = (int)rng.range(0, nr - 1);
      VectorDouble v = genVec(rng, nc, dyad);
      { std::unique_ptr<AMatrix> mc(build(kind, a, nr, nc)); mc->setRow(k, v); printf("m setrow %d %s %s => %s\n", k, vecD(v).c_str(), A.c_str(), matText(*mc).c_str()); }
      int kc = (int)rng.range(0, nc - 1);
      VectorDouble w = genVec(rng, nr, dyad);
      { std::unique_ptr<AMatrix> mc(build(kind, a, nr, nc)); mc->setColumn(kc, w); printf("m setcol %d %s %s => %s\n", kc, vecD(w).c_str(), A.c_str(), matText(*mc).c_str()); }
    }
    if (square && kind <= 2)
    {
      VectorDouble v = genVec(rng, nr, dyad);
      std::unique_ptr<AMatrix> mc(build(kind, a, nr, nc)); mc->setDiagonal(v);
      printf("m setdiag %s %s => %s\n", vecD(v).c_str(), A.c_str(), matText(*mc).c_str());
    }
    // sub-sampling (rows / columns kept or dropped, in the given order)
    {
      auto pickIdx = [&](int n) { VectorInt v; if (rng.coin(0.25)) return v; for (int i = 0; i < n; i++) if (rng.coin(0.5)) v.push_back(i); for (int i = (int)v.size() - 1; i > 0; i--) std::swap(v[i], v[rng.range(0, i)]); return v; };
      VectorInt rk = pickIdx(nr), ck = pickIdx(nc);
      bool ir = rng.coin(0.4), icl = rng.coin(0.4);
      std::unique_ptr<MatrixRectangular> sm(MatrixRectangular::sample(m.get(), rk, ck, ir, icl));
      printf("m samp %d %d %s %s %s => %s\n", ir, icl, vecI(rk).c_str(), vecI(ck).c_str(), A.c_str(), sm ? matText(*sm).c_str() : "- - -");
      st.hit("sampling");
      if (kind == 2)
      {
        bool iv = rng.coin(0.4);
        std::unique_ptr<MatrixSquareSymmetric> ss(MatrixSquareSymmetric::sample(dynamic_cast<MatrixSquareSymmetric*>(m.get()), rk, iv));
        printf("m samp %d %d %s %s %s => %s\n", iv, iv, vecI(rk).c_str(), vecI(rk).c_str(), A.c_str(), ss ? matText(*ss).c_str() : "- - -");
      }
    }
    // congruence products
    {
      bool t = rng.coin();
      int n = t ? nr : nc;            // size of M: t(A) M A (transpose) or A M t(A)
      Tab mm = symmetrize(genTab(rng, n, n, false, false));
      if (kind >= 3)
      {
        std::unique_ptr<AMatrix> M(build(kind, mm, n, n));
        std::unique_ptr<MatrixSparse> res(prodNormMatMat(dynamic_cast<MatrixSparse*>(m.get()), dynamic_cast<MatrixSparse*>(M.get()), t));
        if (res) printf("m norm %d %s %s => %s\n", t, A.c_str(), tabText(mm, n, n).c_str(), matText(*res).c_str());
        VectorDouble d = rng.coin(0.3) ? VectorDouble() : genVec(rng, n, false);
        std::unique_ptr<MatrixSparse> res2(prodNormMat(dynamic_cast<MatrixSparse*>(m.get()), d, t));
        if (res2) printf("m normv %d %s %s => %s\n", t, A.c_str(), vecD(d).c_str(), matText(*res2).c_str());
      }
      else
      {
        std::unique_ptr<AMatrix> M(build(2, mm, n, n));
        int no = t ? nc : nr;
        MatrixSquareSymmetric res(no);
        res.prodNormMatMatInPlace(dynamic_cast<AMatrixDense*>(m.get()), dynamic_cast<AMatrixDense*>(M.get()), t);
        printf("m norm %d %s %s => %s\n", t, A.c_str(), tabText(mm, n, n).c_str(), matText(res).c_str());
        VectorDouble d = rng.coin(0.3) ? VectorDouble() : genVec(rng, n, false);
        MatrixSquareSymmetric res2(no);
        res2.prodNormMatVecInPlace(*dynamic_cast<AMatrixDense*>(m.get()), d, t);
        printf("m normv %d %s %s => %s\n", t, A.c_str(), vecD(d).c_str(), matText(res2).c_str());
      }
      st.hit("congruence");
    }
    // inversion / solve / Cholesky / eigen on well-conditioned symmetric positive matrices
    if (square && rng.coin(0.6))
    {
      int n = nr;
      Tab g = genTab(rng, n, n, false, false);
      Tab spd(n, std::vector<double>(n, 0.));
      for (int i = 0; i < n; i++) for (int j = 0; j < n; j++) { double s = 0; for (int k = 0; k < n; k++) s += g[i][k] * g[j][k]; spd[i][j] = s + (i == j ? 1. + n : 0.); }
      std::string S = tabText(spd, n, n);
      int k2 = (kind == 0) ? 1 : kind;
      std::unique_ptr<AMatrix> ms(build(k2, spd, n, n));
      if (ms->invert() == 0) printf("m inv %s => %s\n", S.c_str(), matText(*ms).c_str());
      std::unique_ptr<AMatrix> ms2(build(k2 >= 3 ? k2 : 2, spd, n, n));
      VectorDouble b = genVec(rng, n, false), x(n);
      if (ms2->solve(b, x) == 0) printf("m solve %s %s => %s\n", S.c_str(), vecD(b).c_str(), vecD(x).c_str());
      MatrixSquareSymmetric sym(n);
      for (int i = 0; i < n; i++) for (int j = 0; j < n; j++) sym.setValue(i, j, spd[i][j]);
      CholeskyDense ch(&sym);
      if (ch.isReady())
      {
        Tab L(n, std::vector<double>(n, 0.));
        for (int i = 0; i < n; i++) for (int j = 0; j <= i; j++) L[i][j] = ch.getLowerTriangle(i, j);
        printf("m chol %s => %s\n", S.c_str(), tabText(L, n, n).c_str());
        VectorDouble xs(n);
        if (ch.solve(b, xs) == 0) printf("m solve %s %s => %s\n", S.c_str(), vecD(b).c_str(), vecD(xs).c_str());
      }
      if (sym.computeEigen() == 0)
      {
        VectorDouble ev = sym.getEigenValues();
        printf("m eig %s => %s %s\n", S.c_str(), vecD(ev).c_str(), matText(*sym.getEigenVectors()).c_str());
      }
      st.hit("certificates");
      // symmetric invertible matrices that are NOT positive definite (dense storage classes: general and symmetric):
      // a bordered (kriging-like) system [S 1; 1t 0] and the opposite of a positive definite matrix
      if (n <= 6)
      {
        Tab bord(n + 1, std::vector<double>(n + 1, 0.)), neg(n, std::vector<double>(n, 0.));
        for (int i = 0; i < n; i++) { for (int j = 0; j < n; j++) { bord[i][j] = spd[i][j]; neg[i][j] = -spd[i][j]; } bord[i][n] = bord[n][i] = 1.; }
        for (int which = 0; which < 2; which++)
        {
          const Tab& M = which == 0 ? bord : neg; int nn = which == 0 ? n + 1 : n;
          std::string SM = tabText(M, nn, nn);
          VectorDouble bb = genVec(rng, nn, false);
          for (int k3 = 1; k3 <= 2; k3++)
          {
            std::unique_ptr<AMatrix> m1(build(k3, M, nn, nn)), m2(build(k3, M, nn, nn));
            VectorDouble xx(nn);
            if (m1->solve(bb, xx) == 0) printf("m solve %s %s => %s\n", SM.c_str(), vecD(bb).c_str(), vecD(xx).c_str());
            if (m2->invert() == 0) printf("m inv %s => %s\n", SM.c_str(), matText(*m2).c_str());
          }
          st.hit(which == 0 ? "indefinite_bordered_systems" : "negative_definite_systems");
        }
      }
    }
    // numeric vector helpers
    {
      int n = (int)rng.range(1, 9);
      VectorDouble x = genVec(rng, n, dyad), y = genVec(rng, n, dyad);
      printf("m v1 sum %s => %s\n", vecD(x).c_str(), dy(VH::cumul(x)).c_str());
      printf("m v1 max %s => %s\n", vecD(x).c_str(), dy(VH::maximum(x)).c_str());
      printf("m v1 min %s => %s\n", vecD(x).c_str(), dy(VH::minimum(x)).c_str());
      printf("m v1 norm2 %s => %s\n", vecD(x).c_str(), dy(VH::innerProduct(x, x)).c_str());
      printf("m v1 median %s => %s\n", vecD(x).c_str(), dy(VH::median(x)).c_str());
      if ((n & (n - 1)) == 0) printf("m v1 mean %s => %s\n", vecD(x).c_str(), dy(VH::mean(x)).c_str());
      printf("m v2 inner %s %s => %s\n", vecD(x).c_str(), vecD(y).c_str(), dy(VH::innerProduct(x, y)).c_str());
      printf("m v2 add %s %s => %s\n", vecD(x).c_str(), vecD(y).c_str(), vecD(VH::add(x, y)).c_str());
      printf("m v2 sub %s %s => %s\n", vecD(x).c_str(), vecD(y).c_str(), vecD(VH::subtract(x, y)).c_str());
      { VectorDouble z = x; VH::multiplyInPlace(z, y); printf("m v2 mul %s %s => %s\n", vecD(x).c_str(), vecD(y).c_str(), vecD(z).c_str()); }
      { VectorDouble p = genPow2(rng, n); VectorDouble z = x; VH::divideInPlace(z, p); printf("m v2 div %s %s => %s\n", vecD(x).c_str(), vecD(p).c_str(), vecD(z).c_str()); }
      bool asc = rng.coin();
      printf("m vl sort %d %s => %s\n", asc, vecD(x).c_str(), vecD(VH::sort(x, asc)).c_str());
      printf("m vl order %d %s => %s\n", asc, vecD(x).c_str(), vecI(VH::orderRanks(x, asc)).c_str());
      printf("m vl unique 1 %s => %s\n", vecD(x).c_str(), vecD(VH::unique(x)).c_str());
      bool az = rng.coin();
      printf("m vl cumsum %d %s => %s\n", az, vecD(x).c_str(), vecD(VH::cumsum(x, az)).c_str());
      VectorDouble s = rng.coin() ? VH::sort(x, asc) : x;
      printf("m vl issorted %d %s => %d\n", asc, vecD(s).c_str(), VH::isSorted(s, asc) ? 1 : 0);
      st.hit("vector_ops");
    }
  }
  st.dump(stdout);
  return 0;
}
