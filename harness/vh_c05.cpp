// Correspondence harness for C05: masked or undefined samples never influence a result.
// Every operation is run on a data base holding masked samples / undefined values / undefined
// coordinates (A) and on the data base from which these samples have been physically removed (B);
// the Lean driver judges the agreement of the two answers (op `k pair`).  Masked targets must keep
// the undefined value in every created variable.
#include "krig_common.hpp"
#include "Variogram/Vario.hpp"
#include "Variogram/VarioParam.hpp"
#include "Variogram/DirParam.hpp"
#include "Stats/Classical.hpp"
#include "Enum/EStatOption.hpp"
#include "Matrix/Table.hpp"
#include "Matrix/MatrixSquareSymmetric.hpp"
#include "Matrix/MatrixRectangular.hpp"
#include "Simulation/CalcSimuTurningBands.hpp"
#include "Calculators/CalcMigrate.hpp"
#include <unistd.h>
#include <signal.h>
#include <sys/wait.h>
using namespace vh;

struct Run { std::vector<double> est, sd; bool ok; };
static Run collect(Db* dbout, int ncol0, int nvar, const std::vector<int>& keepT)
{
  Run r; r.ok = true;
  int nt = dbout->getSampleNumber();
  for (int t = 0; t < nt; t++)
  {
    if (!keepT.empty() && !keepT[t]) continue;
    for (int a = 0; a < nvar; a++) { r.est.push_back(dbout->getValueByColIdx(t, ncol0 + a)); r.sd.push_back(dbout->getValueByColIdx(t, ncol0 + nvar + a)); }
  }
  for (double v : r.est) if (FFFF(v) || std::isnan(v)) r.ok = false;
  return r;
}
static void pairOut(const std::string& what, const std::vector<double>& e1, const std::vector<double>& e2, const std::vector<double>& s1, const std::vector<double>& s2, double scale, Stats& st)
{
  printf("k pair %s %s %s %s %s %s =>\n", what.c_str(), vecD(e1).c_str(), vecD(e2).c_str(), vecD(s1).c_str(), vecD(s2).c_str(), dy(scale).c_str());
  st.hit("pair_" + what);
}
static std::vector<double> flat(const AMatrix& m) { std::vector<double> v; for (int i = 0; i < m.getNRows(); i++) for (int j = 0; j < m.getNCols(); j++) v.push_back(m.getValue(i, j)); return v; }
static std::vector<double> noNA(std::vector<double> v) { for (auto& x : v) if (FFFF(x) || std::isnan(x)) x = -7777.; return v; }   // undefined results compare as a sentinel

// run one group of comparisons; in a child process when the configuration holds undefined
// coordinates (an abnormal end there is reported as a failure of that group, the others go on)
template <class F> static void guarded(const std::string& what, bool risky, Stats& st, F body)
{
  if (!risky) { body(); return; }
  fflush(stdout);
  pid_t pid = fork();
  if (pid == 0) { alarm(60); try { body(); } catch (const std::exception& e) { fflush(stdout); fprintf(stderr, "exception %s\n", e.what()); _exit(3); } fflush(stdout); _exit(0); }
  int status = 0; waitpid(pid, &status, 0);
  if (!(WIFEXITED(status) && WEXITSTATUS(status) == 0))
  {
    const char* how = WIFSIGNALED(status) ? (WTERMSIG(status) == SIGALRM ? "hang" : "signal") : (WEXITSTATUS(status) == 3 ? "uncaught-exception" : "abnormal-exit");
    printf("k crash %s %s =>\n", what.c_str(), how); st.hit("crash_" + what);
  }
}

int main()
{
  muteLibrary();
  Rng rng(seedFromEnv() * 7919 + 5);
  long ncfg = envLong("VERIF_CASES", thorough() ? 3000 : 200);
  Stats st;
  for (long ic = 0; ic < ncfg; ic++)
  {
    int ndim = (int)rng.range(1, 3);
    int nvar = rng.coin(0.7) ? 1 : 2;
    int nech = (int)rng.range(10, 18);
    int order = (int)rng.range(-1, 1);
    defineDefaultSpace(ESpaceType::RN, ndim);
    auto X = genPoints(rng, nech, ndim, 8);
    std::vector<std::vector<double>> Z(nvar, std::vector<double>(nech));
    for (int a = 0; a < nvar; a++) for (int i = 0; i < nech; i++) Z[a][i] = rng.dyadic(-8, 8, 3);
    // --- the samples that must not count: masked / every variable undefined / a coordinate undefined
    std::vector<int> sel(nech, 1), gone(nech, 0);
    int mode = (int)rng.range(0, 3);          // 0: selection; 1: undefined values; 2: undefined coordinate; 3: mixture of 0 and 1
    auto XA = X; auto ZA = Z;
    for (int i = 0; i < nech; i++)
    {
      if (!rng.coin(0.3)) continue;
      int how = mode == 3 ? (int)rng.range(0, 1) : mode;     // mixture: selection and undefined values
      gone[i] = 1;
      if (how == 0) sel[i] = 0;
      else if (how == 1) for (int a = 0; a < nvar; a++) ZA[a][i] = TEST;
      else XA[i][(int)rng.range(0, ndim - 1)] = TEST;
    }
    int nkeep = 0; for (int i = 0; i < nech; i++) nkeep += !gone[i];
    if (nkeep < 6 || nkeep == nech) { st.hit("regenerated"); continue; }
    bool useSel = false; for (int i = 0; i < nech; i++) if (!sel[i]) useSel = true;
    st.hit(std::string("mode_") + (mode == 0 ? "selection" : mode == 1 ? "undefined_values" : mode == 2 ? "undefined_coordinate" : "mixture"));
    // --- optional external drift: undefined at some of the samples that do not count (the value
    // carried by a masked sample must be irrelevant), defined at all the others
    int nfex = (mode != 2 && rng.coin(0.4)) ? 1 : 0;
    if (nfex) order = 0;
    std::vector<std::vector<double>> FA, FB, F0, F0B;
    if (nfex)
    {
      FA.assign(1, std::vector<double>(nech)); FB.assign(1, {});
      for (int i = 0; i < nech; i++) { FA[0][i] = rng.dyadic(-4, 4, 3); if (gone[i] && rng.coin(0.6)) FA[0][i] = TEST; }
      st.hit("external_drift");
    }
    std::vector<std::vector<double>> XB; std::vector<std::vector<double>> ZB(nvar);
    for (int i = 0; i < nech; i++) if (!gone[i]) { XB.push_back(X[i]); for (int a = 0; a < nvar; a++) ZB[a].push_back(Z[a][i]); if (nfex) FB[0].push_back(FA[0][i]); }
    Db* dbA = makeDb(XA, ndim, ZA, {}, FA, useSel ? sel : std::vector<int>());
    Db* dbB = makeDb(XB, ndim, ZB, {}, FB, {});
    // --- targets: some masked
    int ntarget = 5;
    auto X0 = genPoints(rng, ntarget, ndim, 8);
    for (auto& p : X0) for (int d = 0; d < ndim; d++) p[d] += 1. / (16 << d);
    std::vector<int> selT(ntarget, 1); for (int t = 1; t < ntarget; t++) if (rng.coin(0.3)) selT[t] = 0;
    std::vector<std::vector<double>> X0B; for (int t = 0; t < ntarget; t++) if (selT[t]) X0B.push_back(X0[t]);
    if (nfex) { F0.assign(1, std::vector<double>(ntarget)); F0B.assign(1, {}); for (int t = 0; t < ntarget; t++) { F0[0][t] = rng.dyadic(-4, 4, 3); if (selT[t]) F0B[0].push_back(F0[0][t]); } }
    std::string mtext;
    Model* model = genModel(rng, ndim, nvar, order, nfex, mtext, st);
    if (model == nullptr) { delete dbA; delete dbB; continue; }
    if (order < 0) { VectorDouble means(nvar); for (int a = 0; a < nvar; a++) means[a] = rng.dyadic(-3, 3, 2); model->setMeans(means); }
    double zs = 8.;
    std::string tag = mode == 0 ? "sel" : mode == 1 ? "naval" : mode == 2 ? "nacoord" : "mix";

    bool risky = (mode == 2);
    // ---- kriging (unique and moving neighbourhoods), masked targets
    for (int nb = 0; nb < 2; nb++) guarded(std::string("kriging_") + (nb ? "moving_" : "unique_") + tag, risky, st, [&]()
    {
      ANeigh* neigh = nb == 0 ? (ANeigh*)NeighUnique::create() : (ANeigh*)NeighMoving::create(false, 6, 1.e6);
      Db* outA = makeDb(X0, ndim, {}, {}, F0, selT);
      Db* outB = makeDb(X0B, ndim, {}, {}, F0B, {});
      int nA = outA->getColumnNumber(), nB = outB->getColumnNumber();
      bool okA = kriging(dbA, outA, model, neigh) == 0, okB = kriging(dbB, outB, model, neigh) == 0;
      if (okA && okB)
      {
        Run rA = collect(outA, nA, nvar, selT), rB = collect(outB, nB, nvar, {});
        if (rA.ok && rB.ok) pairOut(std::string("kriging_") + (nb ? "moving_" : "unique_") + tag, rA.est, rB.est, rA.sd, rB.sd, zs, st);
        // masked targets keep the undefined value in the created variables
        std::vector<double> masked, expect;
        for (int t = 0; t < ntarget; t++) if (!selT[t]) for (int c = nA; c < outA->getColumnNumber(); c++) { double v = outA->getValueByColIdx(t, c); masked.push_back(FFFF(v) ? 0. : 1.); expect.push_back(0.); }
        if (!masked.empty()) pairOut("masked_targets_stay_undefined", masked, expect, {}, {}, 1., st);
      }
      else if (okA != okB) pairOut(std::string("kriging_status_") + tag, {okA ? 1. : 0.}, {okB ? 1. : 0.}, {}, {}, 1., st);
      delete outA; delete outB; delete neigh;
    });

    // ---- cross-validation: results at the samples that count
    if (order <= 0) guarded("xvalid_" + tag, risky, st, [&]()
    {
      ANeigh* neigh = NeighUnique::create();
      Db* a2 = makeDb(XA, ndim, ZA, {}, FA, useSel ? sel : std::vector<int>()); Db* b2 = makeDb(XB, ndim, ZB, {}, FB, {});
      int nA = a2->getColumnNumber(), nB = b2->getColumnNumber();
      if (xvalid(a2, model, neigh, false, -1, -1, 0) == 0 && xvalid(b2, model, neigh, false, -1, -1, 0) == 0)
      {
        std::vector<int> keep(nech); for (int i = 0; i < nech; i++) keep[i] = !gone[i];
        Run rA = collect(a2, nA, nvar, keep), rB = collect(b2, nB, nvar, {});
        if (rA.ok && rB.ok) pairOut("xvalid_" + tag, rA.est, rB.est, rA.sd, rB.sd, zs, st);
      }
      delete a2; delete b2; delete neigh;
    });

    // ---- experimental variogram
    guarded("vario_" + tag, risky, st, [&]()
    {
      DirParam* dp = DirParam::create((int)rng.range(3, 6), 0.5 + 0.25 * rng.range(1, 6));
      VarioParam vp; vp.addDir(*dp);
      Vario* vA = Vario::computeFromDb(vp, dbA); Vario* vB = Vario::computeFromDb(vp, dbB);
      if (vA && vB)
      {
        std::vector<double> a, b;
        for (int iv = 0; iv < nvar; iv++) for (int jv = 0; jv <= iv; jv++)
        { VectorDouble s1 = vA->getSwVec(0, iv, jv, false), g1 = vA->getGgVec(0, iv, jv, false, false), h1 = vA->getHhVec(0, iv, jv, false);
          VectorDouble s2 = vB->getSwVec(0, iv, jv, false), g2 = vB->getGgVec(0, iv, jv, false, false), h2 = vB->getHhVec(0, iv, jv, false);
          for (double v : s1) a.push_back(v); for (double v : g1) a.push_back(v); for (double v : h1) a.push_back(v);
          for (double v : s2) b.push_back(v); for (double v : g2) b.push_back(v); for (double v : h2) b.push_back(v); }
        pairOut("vario_" + tag, noNA(a), noNA(b), {}, {}, 64., st);
      }
      delete vA; delete vB; delete dp;
    });

    // ---- statistics
    guarded("statistics_" + tag, risky, st, [&]()
    {
      std::vector<EStatOption> opers = {EStatOption::NUM, EStatOption::MEAN, EStatOption::VAR, EStatOption::MINI, EStatOption::MAXI, EStatOption::SUM};
      VectorString names; for (int a = 0; a < nvar; a++) names.push_back("z" + std::to_string(a + 1));
      Table tA = dbStatisticsMono(dbA, names, opers), tB = dbStatisticsMono(dbB, names, opers);
      if (tA.getNRows() == tB.getNRows() && tA.getNCols() == tB.getNCols()) pairOut("statistics_" + tag, noNA(flat(tA)), noNA(flat(tB)), {}, {}, 64., st);
      else pairOut("statistics_shape_" + tag, {(double)tA.getNRows(), (double)tA.getNCols()}, {(double)tB.getNRows(), (double)tB.getNCols()}, {}, {}, 1., st);
    });

    // ---- covariance and drift matrices (active samples only)
    guarded("matrices_" + tag, risky, st, [&]()
    {
      MatrixSquareSymmetric cA = model->evalCovMatrixSymmetric(dbA), cB = model->evalCovMatrixSymmetric(dbB);
      if (cA.getNRows() == cB.getNRows()) pairOut("covmatrix_" + tag, flat(cA), flat(cB), {}, {}, 1., st);
      else pairOut("covmatrix_size_" + tag, {(double)cA.getNRows()}, {(double)cB.getNRows()}, {}, {}, 1., st);
      if (order >= 0)
      {
        MatrixRectangular dA = model->evalDriftMatrix(dbA), dB = model->evalDriftMatrix(dbB);
        if (dA.getNRows() == dB.getNRows() && dA.getNCols() == dB.getNCols()) pairOut("driftmatrix_" + tag, flat(dA), flat(dB), {}, {}, 64., st);
        else pairOut("driftmatrix_size_" + tag, {(double)dA.getNRows(), (double)dA.getNCols()}, {(double)dB.getNRows(), (double)dB.getNCols()}, {}, {}, 1., st);
      }
    });

    // ---- migration of the first variable onto a coarse grid (several samples per cell) and onto the targets
    if (mode != 2) guarded("migrate_" + tag, false, st, [&]()
    {
      VectorInt nx(ndim); VectorDouble dx(ndim), x0(ndim);
      for (int d = 0; d < ndim; d++) { nx[d] = (ndim == 1) ? 4 : (ndim == 2 ? 3 : 2); dx[d] = 8.5 / nx[d] + 0.03125 * (d + 1); x0[d] = dx[d] / 2. - 0.1875; }
      for (int flagFill = 0; flagFill < 2; flagFill++)
      {
        DbGrid* gA = DbGrid::create(nx, dx, x0); DbGrid* gB = DbGrid::create(nx, dx, x0);
        int nA = gA->getColumnNumber(), nB = gB->getColumnNumber();
        int eA = migrate(dbA, gA, "z1", 1, VectorDouble(), flagFill != 0), eB = migrate(dbB, gB, "z1", 1, VectorDouble(), flagFill != 0);
        if (eA == 0 && eB == 0 && gA->getColumnNumber() == nA + 1 && gB->getColumnNumber() == nB + 1)
        {
          std::vector<double> a, b;
          for (int i = 0; i < gA->getSampleNumber(); i++) { a.push_back(gA->getValueByColIdx(i, nA)); b.push_back(gB->getValueByColIdx(i, nB)); }
          pairOut(std::string("migrate_point_to_grid_") + (flagFill ? "fill_" : "") + tag, noNA(a), noNA(b), {}, {}, 1., st);
        }
        else if (eA != eB) pairOut("migrate_grid_status_" + tag, {(double)eA}, {(double)eB}, {}, {}, 1., st);
        delete gA; delete gB;
      }
      Db* outA = makeDb(X0, ndim, {}, {}, {}, {}); Db* outB = makeDb(X0, ndim, {}, {}, {}, {});
      int nA = outA->getColumnNumber(), nB = outB->getColumnNumber();
      int eA = migrate(dbA, outA, "z1"), eB = migrate(dbB, outB, "z1");
      if (eA == 0 && eB == 0 && outA->getColumnNumber() == nA + 1 && outB->getColumnNumber() == nB + 1)
      {
        std::vector<double> a, b;
        for (int t = 0; t < ntarget; t++) { a.push_back(outA->getValueByColIdx(t, nA)); b.push_back(outB->getValueByColIdx(t, nB)); }
        pairOut("migrate_point_to_point_" + tag, noNA(a), noNA(b), {}, {}, 1., st);
      }
      delete outA; delete outB;
    });

    // ---- conditional simulation (same seed); in a child process when coordinates are undefined
    // (a crash there must not stop the other comparisons)
    if (nvar == 1 && nfex == 0) guarded("simtub_cond_" + tag, risky, st, [&]()
    {
      ANeigh* neigh = NeighUnique::create();
      Db* outA = makeDb(X0, ndim, {}, {}, F0, selT); Db* outB = makeDb(X0B, ndim, {}, {}, F0B, {});
      int nA = outA->getColumnNumber(), nB = outB->getColumnNumber();
      if (simtub(dbA, outA, model, neigh, 2, 12345, 20) == 0 && simtub(dbB, outB, model, neigh, 2, 12345, 20) == 0)
      {
        std::vector<double> a, b;
        for (int t = 0; t < ntarget; t++) if (selT[t]) for (int c = nA; c < outA->getColumnNumber(); c++) a.push_back(outA->getValueByColIdx(t, c));
        for (int t = 0; t < outB->getSampleNumber(); t++) for (int c = nB; c < outB->getColumnNumber(); c++) b.push_back(outB->getValueByColIdx(t, c));
        pairOut("simtub_cond_" + tag, noNA(a), noNA(b), {}, {}, zs, st);
      }
      delete outA; delete outB; delete neigh;
    });
    delete model; delete dbA; delete dbB;
  }
  st.dump(stdout);
  return 0;
}
