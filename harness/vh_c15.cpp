// Correspondence harness for C15: SPDE operators, projections and solvers are mutually consistent.
#include "krig_common.hpp"
#include "Enum/EPowerPT.hpp"
#include <set>
#include "Mesh/MeshETurbo.hpp"
#include "Mesh/MeshEStandard.hpp"
#include "LinearOp/ShiftOpCs.hpp"
#include "LinearOp/PrecisionOp.hpp"
#include "LinearOp/PrecisionOpCs.hpp"
#include "LinearOp/ProjMatrix.hpp"
#include "Matrix/MatrixSparse.hpp"
#include "Matrix/MatrixRectangular.hpp"
#include "Matrix/MatrixInt.hpp"
#include "API/SPDE.hpp"
#include "Basic/Law.hpp"
#include "LinearOp/PrecisionOpMultiConditional.hpp"
#include "LinearOp/PrecisionOpMultiConditionalCs.hpp"
using namespace vh;

static void pairOut(const std::string& what, const std::vector<double>& a, const std::vector<double>& b, double scale, Stats& st)
{ printf("k pair %s %s %s - - %s =>\n", what.c_str(), vecD(a).c_str(), vecD(b).c_str(), dy(scale).c_str()); st.hit("pair_" + what); }

int main()
{
  muteLibrary();
  Rng rng(seedFromEnv() * 7919 + 15);
  Stats st;
  long ncfg = envLong("VERIF_CASES", thorough() ? 300 : 25);
  for (long ic = 0; ic < ncfg; ic++)
  {
    int ndim = rng.coin(0.8) ? 2 : (rng.coin() ? 1 : 3);
    defineDefaultSpace(ESpaceType::RN, ndim);
    // ---- a mesh: turbo (regular grid, possibly rotated) or explicit triangles
    VectorInt nx(ndim); VectorDouble dx(ndim), x0(ndim), ang;
    for (int d = 0; d < ndim; d++) { nx[d] = (int)rng.range(3, ndim == 3 ? 4 : 6); dx[d] = 0.5 + 0.25 * rng.range(0, 6); x0[d] = 0.25 * rng.range(-20, 20); }
    bool rotated = ndim == 2 && rng.coin(0.4);
    if (rotated) { ang = VectorDouble(ndim, 0.); ang[0] = (double)rng.range(-80, 80); }
    AMesh* mesh = nullptr;
    bool standard = ndim == 2 && rng.coin(0.3);
    if (standard)
    { // a small triangulated strip with irregular apices
      int n = (int)rng.range(3, 5);
      MatrixRectangular ap(2 * n, 2); MatrixInt ms(2 * (n - 1), 3);
      for (int i = 0; i < n; i++) { ap.setValue(2 * i, 0, 1.5 * i + 0.25 * rng.range(0, 2)); ap.setValue(2 * i, 1, 0.25 * rng.range(0, 2)); ap.setValue(2 * i + 1, 0, 1.5 * i + 0.25 * rng.range(0, 2)); ap.setValue(2 * i + 1, 1, 2. + 0.25 * rng.range(0, 2)); }
      for (int i = 0; i < n - 1; i++) { int t[2][3] = {{2 * i, 2 * i + 2, 2 * i + 1}, {2 * i + 1, 2 * i + 2, 2 * i + 3}}; for (int k = 0; k < 2; k++) for (int j = 0; j < 3; j++) ms.setValue(2 * i + k, j, t[k][j]); }
      mesh = MeshEStandard::createFromExternal(ap, ms);
    }
    else mesh = MeshETurbo::create(nx, dx, x0, ang);
    if (mesh == nullptr) continue;
    st.hit(standard ? "mesh_standard" : (rotated ? "mesh_turbo_rotated" : "mesh_turbo"));
    int napex = mesh->getNApices();

    // ---- projection of points: rows of the projection matrix
    {
      int npt = 12;
      VectorDouble lo(ndim), hi(ndim); for (int d = 0; d < ndim; d++) { lo[d] = 1e30; hi[d] = -1e30; }
      for (int i = 0; i < napex; i++) for (int d = 0; d < ndim; d++) { double c = mesh->getApexCoor(i, d); lo[d] = std::min(lo[d], c); hi[d] = std::max(hi[d], c); }
      std::vector<std::vector<double>> P;
      for (int k = 0; k < npt; k++) { std::vector<double> p(ndim); bool out = k >= npt - 2; for (int d = 0; d < ndim; d++) p[d] = out ? hi[d] + 1. + rng.unit() : lo[d] + (hi[d] - lo[d]) * rng.unit(); P.push_back(p); }
      Db* dbp = makeDb(P, ndim, {}, {}, {}, {});
      ProjMatrix proj(dbp, mesh);
      if (proj.getNRows() == npt && proj.getNCols() == napex)
        for (int k = 0; k < npt; k++)
        {
          std::vector<double> ws, aps; int nnz = 0;
          for (int j = 0; j < napex; j++) { double w = proj.getValue(k, j); if (w != 0.) { nnz++; ws.push_back(w); for (int d = 0; d < ndim; d++) aps.push_back(mesh->getApexCoor(j, d)); } }
          bool outside = k >= npt - 2;
          if (outside) { printf("u outside %d =>\n", nnz); st.hit("projection_outside"); }
          else if (nnz == 0) st.hit("projection_inside_bbox_but_outside_mesh");     // rotated / irregular meshes do not fill their bounding box
          else { printf("u proj %d %s %s %s =>\n", ndim, vecD(P[k]).c_str(), vecD(aps).c_str(), vecD(ws).c_str()); st.hit("projection_rows"); }
        }
      else printf("u outside %d =>\n", -1);
      delete dbp;
    }

    // ---- points that belong to the (closed) mesh by construction: centroids, apices, edge midpoints
    {
      int nmesh = mesh->getNMeshes(), nc = mesh->getNApexPerMesh();
      std::vector<std::vector<double>> P; std::vector<const char*> kind;
      std::set<std::vector<double>> seen;
      auto add = [&](const std::vector<double>& p, const char* k) { if ((int)P.size() < 60 && seen.insert(p).second) { P.push_back(p); kind.push_back(k); } };
      std::vector<int> order(nmesh); for (int i = 0; i < nmesh; i++) order[i] = i;
      for (int i = nmesh - 1; i > 0; i--) std::swap(order[i], order[rng.range(0, i)]);      // boundary and inner elements alike
      for (int io = 0; io < nmesh && (int)P.size() < 60; io++)
      {
        int im = order[io];
        std::vector<std::vector<double>> A(nc, std::vector<double>(ndim));
        for (int c = 0; c < nc; c++) for (int d = 0; d < ndim; d++) A[c][d] = mesh->getCoor(im, c, d);
        std::vector<double> g(ndim, 0.); for (int c = 0; c < nc; c++) for (int d = 0; d < ndim; d++) g[d] += A[c][d] / nc;
        add(g, "centroid");
        if (rotated) continue;        // apex coordinates of a rotated grid are rounded: boundary points are not exactly on the boundary
        for (int c = 0; c < nc; c++) add(A[c], "apex");
        for (int c = 0; c < nc; c++) for (int e = c + 1; e < nc; e++) { std::vector<double> m(ndim); for (int d = 0; d < ndim; d++) m[d] = (A[c][d] + A[e][d]) / 2.; add(m, "edge_midpoint"); }
      }
      if (!P.empty())
      {
        Db* dbp = makeDb(P, ndim, {}, {}, {}, {});
        ProjMatrix proj(dbp, mesh);
        if (proj.getNRows() == (int)P.size() && proj.getNCols() == napex)
          for (int k = 0; k < (int)P.size(); k++)
          {
            std::vector<double> ws, aps; int nnz = 0;
            for (int j = 0; j < napex; j++) { double w = proj.getValue(k, j); if (w != 0.) { nnz++; ws.push_back(w); for (int d = 0; d < ndim; d++) aps.push_back(mesh->getApexCoor(j, d)); } }
            if (nnz == 0) printf("u inside %s %s %d =>\n", kind[k], vecD(P[k]).c_str(), nnz);
            else printf("u proj %d %s %s %s =>\n", ndim, vecD(P[k]).c_str(), vecD(aps).c_str(), vecD(ws).c_str());
            st.hit(std::string("projection_of_") + kind[k]);
          }
        else printf("u outside %d =>\n", -1);
        delete dbp;
      }
    }

    // ---- precision: matrix-free operator vs assembled sparse matrix; symmetry and positive definiteness
    double param = 1.;       // Matern with integer nu + d/2 so that the matrix-free form is a polynomial of the shift operator
    if (ndim == 2) param = (double)rng.range(1, 2); else if (ndim == 1) param = 0.5 + (double)rng.range(0, 1); else param = 0.5 + (double)rng.range(0, 1);
    VectorDouble ranges; for (int d = 0; d < ndim; d++) ranges.push_back(2. + 0.5 * rng.range(0, 6));
    Model* model = Model::createFromParam(ECov::MATERN, 1., 1. + 0.25 * rng.range(0, 4), param, ranges);
    if (model)
    {
      CovAniso* cova = model->getCova(0);
      ShiftOpCs S(mesh, cova);
      PrecisionOp Q(&S, cova);
      PrecisionOpCs Qc(&S, cova);
      const MatrixSparse* M = Qc.getQ();
      if (M != nullptr && M->getNRows() == napex)
      {
        // explicit form: Q = Lambda p(S) Lambda recomputed in exact arithmetic from the exported S, Lambda and coefficients;
        // matrix-free form: Lambda Horner(p, S)(Lambda v)
        std::string sS, sLam, sB;
        if (napex <= 30)
        {
          const MatrixSparse* Sm = S.getS();
          VectorDouble lam = S.getLambdas();
          (void)Q.evalDirect(VectorDouble(napex, 0.));          // the polynomial of the precision is prepared lazily
          VectorDouble blin = Q.getPolyCoeffs(EPowerPT::ONE);
          if (Sm != nullptr && (int)lam.size() == napex && !blin.empty())
          {
            std::vector<double> sv((size_t)napex * napex), qv((size_t)napex * napex);
            for (int i = 0; i < napex; i++) for (int j = 0; j < napex; j++) { sv[(size_t)i * napex + j] = Sm->getValue(i, j); qv[(size_t)i * napex + j] = M->getValue(i, j); }
            sS = vecD(sv); sLam = vecD(std::vector<double>(lam.begin(), lam.end())); sB = vecD(std::vector<double>(blin.begin(), blin.end()));
            printf("u qform %d %s %s %s %s =>\n", napex, sS.c_str(), sLam.c_str(), sB.c_str(), vecD(qv).c_str()); st.hit("precision_explicit_form");
          }
        }
        for (int rep = 0; rep < 3; rep++)
        {
          VectorDouble v(napex); for (auto& x : v) x = rng.dyadic(-4, 4, 4);
          VectorDouble a = Q.evalDirect(v), b = Qc.evalDirect(v);
          if (!sS.empty() && rep == 0) { printf("u qfree %d %s %s %s %s %s =>\n", napex, sS.c_str(), sLam.c_str(), sB.c_str(), vecD(std::vector<double>(v.begin(), v.end())).c_str(), vecD(std::vector<double>(a.begin(), a.end())).c_str()); st.hit("precision_matrix_free_form"); }
          VectorDouble c = M->prodMatVec(v);
          double sc = 0; for (double x : c) sc = std::max(sc, std::fabs(x));
          pairOut("precision_matrixfree_vs_sparse", std::vector<double>(a.begin(), a.end()), std::vector<double>(c.begin(), c.end()), std::max(1., sc), st);
          pairOut("precision_cs_operator_vs_matrix", std::vector<double>(b.begin(), b.end()), std::vector<double>(c.begin(), c.end()), std::max(1., sc), st);
          // a linear solve returns a vector satisfying its system (exact residual judged by the model)
          if (napex <= 40 && rep == 0)
          {
            std::vector<double> x(napex, 0.); VectorDouble rhs(napex); for (auto& r : rhs) r = rng.dyadic(-4, 4, 4);
            Qc.evalInverse(constvect(rhs.data(), rhs.size()), x);
            std::string vals; for (int i = 0; i < napex; i++) for (int j = 0; j < napex; j++) vals += ((i || j) ? "," : "") + dy(M->getValue(i, j));
            printf("m solve %d %d %s %s => %s\n", napex, napex, vals.c_str(), vecD(std::vector<double>(rhs.begin(), rhs.end())).c_str(), vecD(x).c_str()); st.hit("linear_solve_residual");
            double scale = 0; for (int i = 0; i < napex; i++) scale = std::max(scale, std::fabs(M->getValue(i, i)));
            printf("s spd precision_matrix:dim%d %d %s =>\n", ndim, napex, vals.c_str()); st.hit("precision_spd_certificate");
          }
        }
      }
      else st.hit("no_sparse_precision");
    }

    // ---- kriging and likelihood through Cholesky vs the iterative matrix-free solver
    if (model && ndim == 2 && !standard)
    {
      int nd = (int)rng.range(8, 15);
      std::vector<std::vector<double>> X; std::vector<std::vector<double>> Z(1);
      for (int i = 0; i < nd; i++) { std::vector<double> p(ndim); for (int d = 0; d < ndim; d++) p[d] = x0[d] + dx[d] * (nx[d] - 1) * (0.1 + 0.8 * rng.unit()); if (rotated) { /* stay near the origin corner: inside the rotated grid */ for (int d = 0; d < ndim; d++) p[d] = x0[d]; double u = 0.2 + 0.6 * rng.unit(), v = 0.2 + 0.6 * rng.unit(); double c = cos(ang[0] * GV_PI / 180.), s = sin(ang[0] * GV_PI / 180.); double lx = dx[0] * (nx[0] - 1) * u, ly = dx[1] * (nx[1] - 1) * v; p[0] = x0[0] + c * lx - s * ly; p[1] = x0[1] + s * lx + c * ly; } X.push_back(p); Z[0].push_back(rng.dyadic(-4, 4, 3)); }
      Db* dat = makeDb(X, ndim, Z, {}, {}, {});
      DbGrid* grid = DbGrid::create(nx, dx, x0, ang);
      Model* m2 = model->clone(); m2->addCovFromParam(ECov::NUGGET, 0., 0.05);
      int n0 = grid->getColumnNumber();
      (void)krigingSPDE(dat, grid, m2, nullptr, true, false, mesh, 1);
      bool okA = grid->getColumnNumber() == n0 + 1;
      std::vector<double> a; if (okA) for (int i = 0; i < grid->getSampleNumber(); i++) a.push_back(grid->getValueByColIdx(i, n0));
      int n1 = grid->getColumnNumber();
      (void)krigingSPDE(dat, grid, m2, nullptr, true, false, mesh, 0);
      bool okB = grid->getColumnNumber() == n1 + 1;
      std::vector<double> b; if (okB) for (int i = 0; i < grid->getSampleNumber(); i++) b.push_back(grid->getValueByColIdx(i, n1));
      if (okA && okB && a.size() == b.size() && !a.empty())
      { // the iterative solver stops at its own tolerance: agreement to 1e-3 of the data scale (scale passed: 2^-20 * S = 1e-3*4)
        double am = 1.; for (double v : a) am = std::max(am, std::fabs(v));
        pairOut("kriging_cholesky_vs_iterative", a, b, 4096. * am, st);      // 0.4 % of the largest estimate
      }
      else st.hit("spde_kriging_refused");
      // log-likelihood: exact log-determinant (Cholesky) vs its Monte-Carlo estimate (iterative solver)
      {
        double la = logLikelihoodSPDE(dat, m2, nullptr, mesh, 1, 1), lb = logLikelihoodSPDE(dat, m2, nullptr, mesh, 0, 400);
        if (std::isfinite(la) && std::isfinite(lb) && !FFFF(la) && !FFFF(lb))
        { // tolerance: 2^-20 * scale with scale = 2^17 * (1 + |value|) / 4  i.e. 3% of the value + 0.03 ... the Monte-Carlo error of 400 draws is far below
          double scale = ldexp(1. + std::fabs(la), 15);
          pairOut("loglikelihood_cholesky_vs_iterative", {la}, {lb}, scale, st);
        }
      }
      // the conditional operator (Q + A'A / sigma2) x = A'z / sigma2: sparse Cholesky against the matrix-free conjugate gradient,
      // with its default options, with exact residuals recomputed every few iterations, and from a user-supplied initial value
      {
        CovAniso* cv = model->getCova(0);
        ProjMatrix B(dat, mesh);
        PrecisionOpCs Qcs(mesh, cv); PrecisionOp Qf1(mesh, cv), Qf2(mesh, cv), Qf3(mesh, cv);
        PrecisionOpMultiConditionalCs chol; chol.push_back(&Qcs, &B); chol.setVarianceData(0.05); chol.makeReady();
        std::vector<double> zz(nd); for (int i = 0; i < nd; i++) zz[i] = dat->getZVariable(i, 0);
        std::vector<std::vector<double>> rhs = chol.computeRhs(zz), xc = rhs;
        chol.evalInverse(rhs, xc);
        double xm = 1e-12; for (auto& e : xc) for (double v : e) xm = std::max(xm, std::fabs(v));
        bool fin = true; for (auto& e : xc) for (double v : e) if (!std::isfinite(v)) fin = false;
        if (fin && !xc.empty())
          for (int mode = 0; mode < 3; mode++)
          {
            PrecisionOpMultiConditional cg; cg.push_back(mode == 0 ? &Qf1 : (mode == 1 ? &Qf2 : &Qf3), &B); cg.setVarianceData(0.05); cg.setEps(1.e-12); cg.setNIterMax(4000);
            std::vector<std::vector<double>> x = rhs;
            if (mode == 1) cg.setNIterRestart((int)rng.range(3, 9));
            if (mode == 2) { cg.setUserInitialValue(true); x = xc; double f = 0.5 + 0.125 * (double)rng.range(0, 3); for (auto& e : x) for (double& v : e) v *= f; }
            std::vector<std::vector<double>> xinit = x;
            cg.evalInverse(rhs, x);
            std::vector<double> a, b; for (auto& e : x) for (double v : e) a.push_back(std::isfinite(v) ? v : 7777.); for (auto& e : xc) for (double v : e) b.push_back(v);
            // "a solve satisfies its system to the tolerance of the solver": the stopping rule of the conjugate gradient is
            // <r,r> / nb <= eps with nb = sum of the norms of the right-hand side blocks (default) or <r0,r0> (user initial value);
            // the true residual b - A x is recomputed here (factor 100 for the drift of the recursive residual)
            {
              std::vector<std::vector<double>> ax = rhs; cg.evalDirect(x, ax);
              double rr = 0.; for (size_t e = 0; e < ax.size(); e++) for (size_t i = 0; i < ax[e].size(); i++) { double r = rhs[e][i] - ax[e][i]; rr += r * r; }
              double nb = 0.;
              if (mode == 2) { std::vector<std::vector<double>> x0 = xc, ax0 = rhs; double f0 = 0.; (void)f0; /* same initial value as above */ for (size_t e = 0; e < x0.size(); e++) for (size_t i = 0; i < x0[e].size(); i++) x0[e][i] = xinit[e][i]; cg.evalDirect(x0, ax0); for (size_t e = 0; e < ax0.size(); e++) for (size_t i = 0; i < ax0[e].size(); i++) { double r = rhs[e][i] - ax0[e][i]; nb += r * r; } }
              else for (auto& e : rhs) { double n2 = 0.; for (double v : e) n2 += v * v; nb += std::sqrt(n2); }
              double crit = (nb > 0. && std::isfinite(rr)) ? rr / nb : 7777.;
              printf("t close %s %s %s 0:0 =>\n", mode == 0 ? "conditional_cg_default_residual" : (mode == 1 ? "conditional_cg_restart_residual" : "conditional_cg_initial_value_residual"), dy(1.e-10).c_str(), dy(crit).c_str());
              st.hit("conditional_cg_residual");
            }
            // agreement with the Cholesky solution (default and restart modes: stopped at 1e-12 relative to the right-hand side)
            if (mode < 2) pairOut(mode == 0 ? "conditional_cg_default_vs_cholesky" : "conditional_cg_restart_vs_cholesky", a, b, ldexp(xm, 3), st);
          }
        else st.hit("conditional_cholesky_refused");
      }
      delete m2; delete dat; delete grid;
    }
    delete model; delete mesh;
  }
  st.dump(stdout);
  return 0;
}
