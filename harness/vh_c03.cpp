// Correspondence / certificate harness for C03: every offered covariance model is a valid model.
// For every basic structure the factory offers in the space dimension:
//  - closed form: C(h) of the library along the first axis for a unit sill vs the rational closed
//    form / exp enclosure of the Lean model (`s corr`);
//  - symmetry, |C(h)| <= C(0), variogram form = C(0) - C(h) for random anisotropic rotated models
//    (`s bound`);
//  - positive semi-definiteness of the covariance matrix of random point sets, decided by an exact
//    LDLt in rational arithmetic (`s psd`); for intrinsic structures the matrix of the authorised
//    increments (differences to the first point; second differences for order-1 structures).
#include "krig_common.hpp"
#include "Covariances/CovFactory.hpp"
#include "Covariances/CovContext.hpp"
#include "Covariances/ACovFunc.hpp"
#include "Covariances/CovAniso.hpp"
#include "Geometry/Rotation.hpp"
#include "Matrix/MatrixSquareSymmetric.hpp"
using namespace vh;

int main()
{
  muteLibrary();
  Rng rng(seedFromEnv() * 7919 + 3);
  Stats st;
  long nrep = envLong("VERIF_CASES", thorough() ? 60 : 4);
  for (int ndim = 1; ndim <= 3; ndim++)
  {
    defineDefaultSpace(ESpaceType::RN, ndim);
    auto it = ECov::getIterator();
    for (; it.hasNext(); it.toNext())
    {
      ECov type = *it;
      if (type.getValue() < 0) continue;
      if (type == ECov::MARKOV || type == ECov::GEOMETRIC || type == ECov::POISSON || type == ECov::LINEARSPH) continue;   // sphere / spectral structures: not offered in RN by createFromParam
      CovContext ctxt(1, ndim);
      ACovFunc* probe = CovFactory::createCovFunc(type, ctxt);
      if (probe == nullptr) continue;
      bool valid = (int)probe->getMaxNDim() >= ndim;
      int minOrder = probe->getMinOrder();
      bool hasParam = probe->hasParam(); double parMax = probe->getParMax(); int hasRange = probe->hasRange();
      delete probe;
      if (!valid) { st.hit("not_offered_in_dimension"); continue; }
      std::string tname(type.getKey());
      for (long rep = 0; rep < nrep; rep++)
      {
        double range = 0.5 + 0.25 * rng.range(1, 30);
        double param = 1.;
        if (hasParam) { double pm = parMax > 0 ? parMax : 3.; param = std::min(pm, 0.25 * rng.range(1, 8)); if (type == ECov::MATERN || type == ECov::BESSELJ || type == ECov::GAMMA || type == ECov::CAUCHY || type == ECov::COSEXP) param = 0.25 * rng.range(1, 8);
                        // the usual parameter values (closed forms exist in the model): Matern 1/2, 3/2, 5/2; stable 1, 2; gamma / Cauchy 1, 2, 3
                        // the first repetitions go through the usual values systematically
                        if (type == ECov::MATERN) { if (rep < 3) param = 0.5 + (double)rep; else if (rng.coin(0.3)) param = 0.5 + (double)rng.range(0, 2); else param = 0.25 * rng.range(1, 12); }
                        if (type == ECov::STABLE) { if (rep < 2) param = 1. + (double)rep; }
                        if (type == ECov::GAMMA || type == ECov::CAUCHY) { if (rep < 3) param = 1. + (double)rep; } }
        // ---- isotropic, unit sill: closed form along the first axis
        {
          Model* m = Model::createFromParam(type, range, 1., param);
          if (m)
          {
            double scadef = CovFactory::getScaleFactor(type, param);
            for (int k = 0; k < 6; k++)
            {
              double dx = (k == 0) ? 0. : 0.125 * rng.range(0, 200) * (rng.coin() ? 1 : -1);
              VectorDouble a(ndim, 0.), b(ndim, 0.); b[0] = dx;
              SpacePoint p1(a), p2(b);
              double c = (dx == 0.) ? m->eval0(0, 0) : m->eval(p1, p2, 0, 0);
              if (minOrder < 0) { printf("s corr %s %s %s %s %s =>\n", (hasParam ? tname + "@" + dy(param) : tname).c_str(), dy(dx).c_str(), dy(hasRange > 0 ? range : 1.).c_str(), dy(scadef).c_str(), dy(c).c_str()); st.hit("closed_form_" + tname); }
            }
            delete m;
          }
        }
        // ---- anisotropic and rotated, unit sill: closed form along each ROTATED axis (the range of that axis applies),
        //      the structure being declared in several orders (constructor arguments; ranges then angles; angles then ranges;
        //      rotation object then ranges; isotropic + angles then one range changed).  The axes are computed here from the
        //      angle (rotation about the third axis), never read back from the library.
        if (ndim >= 2 && hasRange > 0 && minOrder < 0)
        {
          VectorDouble rg(ndim); for (int d = 0; d < ndim; d++) rg[d] = range * (0.25 + 0.25 * rng.range(0, 6));
          if (rg[0] == rg[1]) rg[1] = rg[0] * 1.5;
          double theta = 5. * (double)rng.range(-34, 34); if (std::fmod(theta, 90.) == 0.) theta += 25.;
          VectorDouble ang(ndim, 0.); ang[0] = theta;
          int order = (int)rng.range(0, 4);
          Model* m = nullptr;
          if (order == 0) m = Model::createFromParam(type, range, 1., param, rg, VectorDouble(), ang);
          else
          {
            CovContext cc(1, ndim); CovAniso cova(type, cc); cova.setSill(0, 0, 1.); if (hasParam) cova.setParam(param);
            if (order == 1) { cova.setRanges(rg); cova.setAnisoAngles(ang); }
            else if (order == 2) { cova.setAnisoAngles(ang); cova.setRanges(rg); }
            else if (order == 3) { Rotation rot(ndim); rot.setAngles(ang); cova.setAnisoRotation(rot); cova.setRanges(rg); }
            else { cova.setRangeIsotropic(rg[0]); cova.setAnisoAngles(ang); for (int d = 1; d < ndim; d++) cova.setRange(d, rg[d]); }
            m = new Model(cc); m->addCov(&cova);
          }
          if (m)
          {
            double scadef = CovFactory::getScaleFactor(type, param);
            double ct = std::cos(theta * M_PI / 180.), sn = std::sin(theta * M_PI / 180.);
            for (int axis = 0; axis < ndim; axis++)
              for (int k = 0; k < 3; k++)
              {
                double dx = 0.125 * (double)rng.range(1, 40);
                VectorDouble a(ndim, 0.), b(ndim, 0.);
                for (int d = 0; d < ndim; d++) a[d] = 0.25 * (double)rng.range(-8, 8);
                VectorDouble u(ndim, 0.); if (axis == 0) { u[0] = ct; u[1] = sn; } else if (axis == 1) { u[0] = -sn; u[1] = ct; } else u[2] = 1.;
                for (int d = 0; d < ndim; d++) b[d] = a[d] + dx * u[d];
                SpacePoint p1(a), p2(b);
                double c = m->eval(p1, p2, 0, 0);
                printf("s corr %s %s %s %s %s =>\n", (hasParam ? tname + "@" + dy(param) : tname).c_str(), dy(dx).c_str(), dy(rg[axis]).c_str(), dy(scadef).c_str(), dy(c).c_str());
                st.hit("closed_form_rotated_axis_" + tname); st.hit("declaration_order_" + std::to_string(order));
              }
            delete m;
          }
        }
        // ---- anisotropic, rotated, 1-2 variables: bounds, symmetry, variogram form, PSD
        int nvar = rng.coin(0.6) ? 1 : 2;
        VectorDouble ranges, angles; bool aniso = ndim >= 2 && rng.coin(0.6) && hasRange > 0;
        if (aniso) { for (int d = 0; d < ndim; d++) ranges.push_back(range * (0.25 + 0.25 * rng.range(0, 6))); angles = VectorDouble(ndim, 0.); angles[0] = (double)rng.range(-170, 170); if (ndim == 3) { angles[1] = (double)rng.range(-80, 80); angles[2] = (double)rng.range(-80, 80); } }
        MatrixSquareSymmetric sills(nvar);
        { // PSD sill matrix L Lt with dyadic L
          double l00 = 0.5 + 0.25 * rng.range(0, 6), l10 = nvar > 1 ? 0.25 * rng.range(-4, 4) : 0., l11 = nvar > 1 ? 0.25 * rng.range(0, 6) : 0.;
          sills.setValue(0, 0, l00 * l00); if (nvar > 1) { sills.setValue(1, 0, l00 * l10); sills.setValue(1, 1, l10 * l10 + l11 * l11); } }
        VectorDouble sv = sills.getValues();
        Model* model = Model::createFromParam(type, range, 1., param, ranges, sv, angles);
        if (model == nullptr) { st.hit("model_refused_" + tname); continue; }
        st.hit("models_" + tname);
        int npt = (int)rng.range(4, 9);
        auto X = genPoints(rng, npt, ndim, 6);
        std::vector<SpacePoint> P; for (auto& x : X) P.push_back(SpacePoint(VectorDouble(x.begin(), x.end())));
        CovCalcMode vmode(ECalcMember::LHS); vmode.setAsVario(true);
        if (minOrder < 0)
          for (int k = 0; k < 4; k++)
          {
            int i = (int)rng.range(0, npt - 1), j = (int)rng.range(0, npt - 1); if (i == j) continue;
            int a = (int)rng.range(0, nvar - 1), b = (int)rng.range(0, nvar - 1);
            double c0 = model->eval0(a, b), ch = model->eval(P[i], P[j], a, b), chn = model->eval(P[j], P[i], a, b), g = model->eval(P[i], P[j], a, b, &vmode);
            // the bound |C_ab(h)| <= C_ab(0) holds for a = b; for a != b it is sqrt(C_aa(0) C_bb(0)): only the diagonal terms are tested
            if (a == b) { printf("s bound %s %s %s %s %s =>\n", tname.c_str(), dy(c0).c_str(), dy(ch).c_str(), dy(chn).c_str(), dy(g).c_str()); st.hit("bounds"); }
          }
        // covariance matrix of the point set (variable-major blocks) via the plain pairwise API
        int n = npt * nvar;
        std::vector<double> K((size_t)n * n);
        for (int a = 0; a < nvar; a++) for (int i = 0; i < npt; i++) for (int b = 0; b < nvar; b++) for (int j = 0; j < npt; j++)
          K[(size_t)(a * npt + i) * n + (b * npt + j)] = (i == j) ? model->eval0(a, b) : model->eval(P[i], P[j], a, b);
        bool finite = true; for (double v : K) if (!std::isfinite(v)) finite = false;
        if (!finite) { printf("s psd %s 1 nan 0:0 =>\n", tname.c_str()); delete model; continue; }
        std::vector<double> M; int nm = n;
        if (minOrder < 0) M = K;
        else
        { // authorised increments: per variable, differences to the first point (order 0) ...
          // generalised covariances of order >= 1 need increments filtering linear functions: the
          // points are then taken on a line with equal spacing and second differences are used
          if (minOrder >= 1) { delete model; st.hit("skipped_order_ge1_" + tname); continue; }
          int q = npt - 1; nm = q * nvar; M.assign((size_t)nm * nm, 0.);
          // lower triangle computed, upper triangle mirrored (the four-term sums would otherwise
          // differ by a rounding between (r,c) and (c,r))
          for (int a = 0; a < nvar; a++) for (int i = 0; i < q; i++) for (int b = 0; b < nvar; b++) for (int j = 0; j < q; j++)
          {
            size_t r = (size_t)(a * q + i), c = (size_t)(b * q + j);
            if (c > r) continue;
            auto Kat = [&](int aa, int ii, int bb, int jj) { return K[(size_t)(aa * npt + ii) * n + (bb * npt + jj)]; };
            double v = (Kat(a, i + 1, b, j + 1) - Kat(a, i + 1, b, 0)) - (Kat(a, 0, b, j + 1) - Kat(a, 0, b, 0));
            M[r * nm + c] = v; M[c * nm + r] = v;
          }
        }
        double scale = 0.; for (int i = 0; i < nm; i++) scale = std::max(scale, std::fabs(M[(size_t)i * nm + i]));
        std::string vals; for (size_t k = 0; k < M.size(); k++) vals += (k ? "," : "") + dy(M[k]);
        char cfg[96]; snprintf(cfg, sizeof cfg, "%s:dim%d:param%g:nvar%d%s", tname.c_str(), ndim, hasParam ? param : 0., nvar, aniso ? ":aniso" : "");
        printf("s psd %s %d %s %s =>\n", cfg, nm, vals.c_str(), dy(std::ldexp(std::max(scale, 1e-300), -36)).c_str());
        st.hit("psd_" + tname);
        delete model;
      }
    }
  }
  st.dump(stdout);
  return 0;
}
