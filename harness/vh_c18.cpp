// Correspondence harness for C18: data transforms and their inverses compose to the identity.
#include "krig_common.hpp"
#include "Anamorphosis/AnamHermite.hpp"
#include "Anamorphosis/AnamEmpirical.hpp"
#include "Polynomials/Hermite.hpp"
#include "Stats/PCA.hpp"
#include "Variogram/VarioParam.hpp"
#include "Variogram/DirParam.hpp"
#include "Geometry/Rotation.hpp"
#include "Basic/VectorHelper.hpp"
#include "Basic/Law.hpp"
#include "Matrix/MatrixSquareGeneral.hpp"
using namespace vh;

static void closeOut(const std::string& what, double tol, const std::vector<double>& a, const std::vector<double>& b, Stats& st)
{ printf("t close %s %s %s %s =>\n", what.c_str(), dy(tol).c_str(), vecD(a).c_str(), vecD(b).c_str()); st.hit("close_" + what); }
static void monoOut(const std::string& what, const std::vector<double>& x, const std::vector<double>& y, Stats& st)
{ printf("t mono %s %s %s =>\n", what.c_str(), vecD(x).c_str(), vecD(y).c_str()); st.hit("mono_" + what); }

int main()
{
  muteLibrary();
  Rng rng(seedFromEnv() * 7919 + 18);
  Stats st;
  long ncfg = envLong("VERIF_CASES", thorough() ? 2000 : 150);
  for (long ic = 0; ic < ncfg; ic++)
  {
    // ---- Hermite polynomials: values against the recurrence of the model
    {
      double y = rng.dyadic(-4, 4, 6); int n = (int)rng.range(1, 14);
      VectorDouble h = hermitePolynomials(y, 1., n);
      printf("t herm %s %d => %s\n", dy(y).c_str(), n, vecD(std::vector<double>(h.begin(), h.end())).c_str()); st.hit("hermite_values");
    }
    // ---- rotations: direct then inverse (2-D and 3-D)
    {
      int ndim = (int)rng.range(2, 3);
      Rotation rot(ndim);
      VectorDouble ang(ndim, 0.); ang[0] = (double)rng.range(-180, 180) + rng.unit(); if (ndim == 3) { ang[1] = (double)rng.range(-90, 90) + rng.unit(); ang[2] = (double)rng.range(-90, 90) + rng.unit(); }
      rot.setAngles(ang);
      VectorDouble v(ndim), w(ndim), back(ndim); for (auto& x : v) x = rng.dyadic(-50, 50, 4);
      rot.rotateDirect(v, w); rot.rotateInverse(w, back);
      closeOut("rotation_direct_inverse", ldexp(1., -40) * 64, std::vector<double>(v.begin(), v.end()), std::vector<double>(back.begin(), back.end()), st);
      rot.rotateInverse(v, w); rot.rotateDirect(w, back);
      closeOut("rotation_inverse_direct", ldexp(1., -40) * 64, std::vector<double>(v.begin(), v.end()), std::vector<double>(back.begin(), back.end()), st);
      double n1 = 0, n2 = 0; for (int d = 0; d < ndim; d++) { n1 += v[d] * v[d]; n2 += w[d] * w[d]; }
      closeOut("rotation_norm", ldexp(1., -40) * 4096, {n1}, {n2}, st);
    }
    // ---- data set for the statistical transforms
    int nech = (int)rng.range(30, 80), nvar = (int)rng.range(2, 4);
    defineDefaultSpace(ESpaceType::RN, 2);
    auto X = genPoints(rng, nech, 2, 16);
    std::vector<std::vector<double>> Z(nvar, std::vector<double>(nech));
    { // correlated variables
      std::vector<std::vector<double>> base(nvar, std::vector<double>(nech));
      for (auto& b : base) for (auto& v : b) v = rng.dyadic(-8, 8, 5) + rng.unit();
      for (int a = 0; a < nvar; a++) for (int i = 0; i < nech; i++) { Z[a][i] = base[a][i]; for (int b = 0; b < a; b++) Z[a][i] += 0.5 * base[b][i]; Z[a][i] += 3. * a; }
    }
    // ---- PCA and MAF: variables -> factors -> variables; factors standardised and uncorrelated
    for (int kind = 0; kind < 2; kind++)
    {
      Db* db = makeDb(X, 2, Z, {}, {}, {});
      PCA pca; int err;
      if (kind == 0) err = pca.pca_compute(db);
      else { DirParam* dp = DirParam::create(3, 4.); VarioParam vp; vp.addDir(*dp); err = pca.maf_compute(db, vp, 1, 0); delete dp; }
      std::string kn = kind == 0 ? "pca" : "maf";
      if (err == 0)
      {
        int n0 = db->getColumnNumber();
        if (pca.dbZ2F(db) == 0)
        {
          int nf = db->getColumnNumber() - n0;
          std::vector<double> mean(nf, 0.), cov;
          for (int f = 0; f < nf; f++) { for (int i = 0; i < nech; i++) mean[f] += db->getValueByColIdx(i, n0 + f); mean[f] /= nech; }
          std::vector<double> ident;
          for (int f = 0; f < nf; f++) for (int g = 0; g < nf; g++) { double s = 0; for (int i = 0; i < nech; i++) s += (db->getValueByColIdx(i, n0 + f) - mean[f]) * (db->getValueByColIdx(i, n0 + g) - mean[g]); cov.push_back(s / (nech - 1)); ident.push_back(f == g ? 1. : 0.); }
          closeOut(kn + "_factors_unit_uncorrelated", ldexp(1., -30), cov, ident, st);   // covariance with the n-1 divisor, as the library normalises
          closeOut(kn + "_factors_centred", ldexp(1., -30), mean, std::vector<double>(nf, 0.), st);
          int n1 = db->getColumnNumber();
          if (pca.dbF2Z(db) == 0)
          {
            std::vector<double> a, b;
            for (int v = 0; v < nvar; v++) for (int i = 0; i < nech; i++) { a.push_back(Z[v][i]); b.push_back(db->getValueByColIdx(i, n1 + v)); }
            closeOut(kn + "_z_f_z", ldexp(1., -30) * 64, a, b, st);
          }
        }
      }
      else st.hit(kn + "_refused");
      delete db;
    }
    // ---- normal scores: monotone, symmetric ranks
    {
      VectorDouble data(Z[0].begin(), Z[0].end());
      VectorDouble ns = VH::normalScore(data);
      if ((int)ns.size() == nech) monoOut("normal_score", Z[0], std::vector<double>(ns.begin(), ns.end()), st);
      // undefined samples take no part: the scores of the defined samples are those computed on the defined samples alone
      // (and the undefined ones stay undefined); equal weights change nothing; unweighted scores are symmetric about 0
      {
        VectorDouble holed = data, sub, wsub; std::vector<int> where;
        VectorDouble wt(nech); for (auto& w : wt) w = 0.5 * (double)rng.range(1, 4);
        bool weighted = rng.coin(0.4);
        for (int i = 0; i < nech; i++) { if (rng.coin(0.25) && i > 0) holed[i] = TEST; else { sub.push_back(data[i]); wsub.push_back(wt[i]); where.push_back(i); } }
        VectorDouble a = weighted ? VH::normalScore(holed, wt) : VH::normalScore(holed);
        VectorDouble b = weighted ? VH::normalScore(sub, wsub) : VH::normalScore(sub);
        if ((int)a.size() == nech && b.size() == sub.size())
        {
          std::vector<double> aa, bb; bool undefKept = true;
          for (size_t k = 0; k < where.size(); k++) { aa.push_back(a[where[k]]); bb.push_back(b[k]); }
          for (int i = 0; i < nech; i++) if (FFFF(holed[i]) && !FFFF(a[i])) undefKept = false;
          bool fin = true; for (double v : aa) if (FFFF(v) || !std::isfinite(v)) fin = false; for (double v : bb) if (FFFF(v) || !std::isfinite(v)) fin = false;
          if (fin) closeOut(weighted ? "normal_score_weighted_undefined_removed" : "normal_score_undefined_removed", std::ldexp(1., -40), aa, bb, st);
          else printf("t close normal_score_undefined_values_not_finite 0:0 1:0 0:0 =>\n");
          if (!undefKept) printf("t close normal_score_of_undefined_sample_defined 0:0 1:0 0:0 =>\n");
        }
        VectorDouble c = VH::normalScore(data, VectorDouble(nech, 2.5));
        if ((int)c.size() == nech && (int)ns.size() == nech) closeOut("normal_score_equal_weights", std::ldexp(1., -20), std::vector<double>(ns.begin(), ns.end()), std::vector<double>(c.begin(), c.end()), st);
        // symmetry (values all distinct: the generator of Z[0] may produce ties, then skipped)
        std::vector<double> srt(ns.begin(), ns.end()); std::sort(srt.begin(), srt.end());
        std::vector<double> zs(data.begin(), data.end()); std::sort(zs.begin(), zs.end()); bool ties = false; for (size_t k = 1; k < zs.size(); k++) if (zs[k] == zs[k - 1]) ties = true;
        if (!ties && (int)srt.size() == nech) { std::vector<double> neg(srt.rbegin(), srt.rend()); for (auto& v : neg) v = -v; closeOut("normal_score_symmetry", std::ldexp(1., -20), srt, neg, st); /* the inverse Gaussian c.d.f. of the library is a 1e-7 approximation (its value at 1/2 is -4e-8) */ }
      }
    }
    // ---- Gaussian anamorphosis (Hermite, empirical): Y -> Z -> Y and Z -> Y -> Z inside the reported interval
    {
      VectorDouble data; for (int i = 0; i < 200; i++) { double g = law_gaussian(); data.push_back(rng.coin(0.5) ? exp(0.6 * g) * 3. : 10. + 2. * g + 0.3 * g * g * g); }
      // one data set out of three: skewed values with clusters of ties (the fitted expansion then rings on the
      // plateaux and the practical interval is narrower than the absolute one)
      if (rng.coin(0.34))
      {
        data.clear();
        int n1 = (int)rng.range(120, 180), n2 = (int)rng.range(60, 130), n3 = (int)rng.range(5, 25);
        for (int i = 0; i < n1; i++) data.push_back(exp(0.5 * law_gaussian()) * 2.);
        double t1 = 8. + (double)rng.range(0, 4), t2 = t1 + 5. + (double)rng.range(0, 10);
        for (int i = 0; i < n2; i++) data.push_back(t1);
        for (int i = 0; i < n3; i++) data.push_back(t2);
        st.hit("anam_data_with_ties");
      }
      AnamHermite* ah = AnamHermite::create((int)rng.range(10, 40));
      if (ah->fitFromArray(data) == 0)
      {
        // ---- beyond the practical interval: linear extension towards the absolute bounds, both ways
        {
          double aylo = ah->getAymin(), ayhi = ah->getAymax(), pylo = ah->getPymin(), pyhi = ah->getPymax();
          double azlo = ah->getAzmin(), azhi = ah->getAzmax(), pzlo = ah->getPzmin(), pzhi = ah->getPzmax();
          bool okb = !FFFF(aylo) && !FFFF(ayhi) && !FFFF(pylo) && !FFFF(pyhi) && !FFFF(azlo) && !FFFF(azhi) && !FFFF(pzlo) && !FFFF(pzhi);
          if (okb && ayhi - pyhi > 1e-3 && azhi - pzhi > 1e-3 * (azhi - azlo))
          {
            for (int k = 0; k < 4; k++)
            {
              double y = pyhi + (ayhi - pyhi) * (0.05 + 0.9 * rng.unit()), z = pzhi + (azhi - pzhi) * (0.05 + 0.9 * rng.unit());
              printf("t ext hermite_upper_y_to_z %s %s %s %s %s => %s\n", dy(ayhi).c_str(), dy(pyhi).c_str(), dy(azhi).c_str(), dy(pzhi).c_str(), dy(y).c_str(), dy(ah->transformToRawValue(y)).c_str());
              printf("t ext hermite_upper_z_to_y %s %s %s %s %s => %s\n", dy(azhi).c_str(), dy(pzhi).c_str(), dy(ayhi).c_str(), dy(pyhi).c_str(), dy(z).c_str(), dy(ah->rawToTransformValue(z)).c_str());
            }
            st.hit("hermite_upper_extension_zone");
          }
          if (okb && pylo - aylo > 1e-3 && pzlo - azlo > 1e-3 * (azhi - azlo))
          {
            for (int k = 0; k < 4; k++)
            {
              double y = aylo + (pylo - aylo) * (0.05 + 0.9 * rng.unit()), z = azlo + (pzlo - azlo) * (0.05 + 0.9 * rng.unit());
              printf("t ext hermite_lower_y_to_z %s %s %s %s %s => %s\n", dy(aylo).c_str(), dy(pylo).c_str(), dy(azlo).c_str(), dy(pzlo).c_str(), dy(y).c_str(), dy(ah->transformToRawValue(y)).c_str());
              printf("t ext hermite_lower_z_to_y %s %s %s %s %s => %s\n", dy(azlo).c_str(), dy(pzlo).c_str(), dy(aylo).c_str(), dy(pylo).c_str(), dy(z).c_str(), dy(ah->rawToTransformValue(z)).c_str());
            }
            st.hit("hermite_lower_extension_zone");
          }
        }
        double ymin = ah->getPymin(), ymax = ah->getPymax();
        std::vector<double> ys, back, zs;
        for (int k = 0; k < 12; k++) { double y = ymin + (ymax - ymin) * (0.02 + 0.96 * rng.unit()); double z = ah->transformToRawValue(y); double y2 = ah->rawToTransformValue(z); ys.push_back(y); zs.push_back(z); back.push_back(y2); }
        bool fin = true; for (double v : back) if (FFFF(v) || std::isnan(v)) fin = false; for (double v : zs) if (FFFF(v) || std::isnan(v)) fin = false;
        if (fin)
        {
          // monotone only where the fitted function is increasing: the round trip is required where it is
          bool incr = true; { std::vector<std::pair<double, double>> p; for (size_t k = 0; k < ys.size(); k++) p.push_back({ys[k], zs[k]}); std::sort(p.begin(), p.end()); for (size_t k = 1; k < p.size(); k++) if (p[k].second < p[k - 1].second) incr = false; }
          // raw -> Gaussian -> raw: z, y' = G(z), z' = Z(y'); compared on the raw scale (the Gaussian
          // value itself is ill-determined where the fitted function is flat)
          std::vector<double> z2; for (double yb : back) z2.push_back(ah->transformToRawValue(yb));
          double zlo = ah->getPzmin(), zhi = ah->getPzmax();
          if (incr) { closeOut("hermite_z_y_z", 1e-3 * std::max(1e-9, zhi - zlo), zs, z2, st); monoOut("hermite_y_to_z", ys, zs, st); }
          else st.hit("hermite_fit_not_monotone_in_practical_interval");
        }
        else printf("t close hermite_y_z_y_undefined 0:0 1:0 0:0 =>\n");
      }
      delete ah;
      AnamEmpirical* ae = AnamEmpirical::create((int)rng.range(30, 100));
      if (ae->fitFromArray(data) == 0)
      {
        double ymin = ae->getPymin(), ymax = ae->getPymax();
        if (!FFFF(ymin) && !FFFF(ymax) && ymax > ymin)
        {
          std::vector<double> ys, zs, back;
          for (int k = 0; k < 12; k++) { double y = ymin + (ymax - ymin) * (0.05 + 0.9 * rng.unit()); double z = ae->transformToRawValue(y); ys.push_back(y); zs.push_back(z); back.push_back(ae->rawToTransformValue(z)); }
          bool fin = true; for (double v : back) if (FFFF(v) || std::isnan(v)) fin = false; for (double v : zs) if (FFFF(v) || std::isnan(v)) fin = false;
          std::vector<double> z2; for (double yb : back) z2.push_back(ae->transformToRawValue(yb));
          double zlo = ae->getPzmin(), zhi = ae->getPzmax();
          if (fin) { monoOut("empirical_y_to_z", ys, zs, st); closeOut("empirical_z_y_z", 0.02 * std::max(1e-9, zhi - zlo), zs, z2, st); }
          else printf("t close empirical_y_z_y_undefined 0:0 1:0 0:0 =>\n");
        }
      }
      delete ae;
    }
  }
  st.dump(stdout);
  return 0;
}
