// Correspondence harness for C01: kriging certificate chain.
#include "krig_common.hpp"
using namespace vh;

int main()
{
  muteLibrary();
  Rng rng(seedFromEnv() * 7919 + 1);
  long ncfg = envLong("VERIF_CASES", thorough() ? 6000 : 300);
  Stats st;
  for (long ic = 0; ic < ncfg; ic++)
  {
    int ndim = (int)rng.range(1, 3);
    int nvar = rng.coin(0.55) ? 1 : (rng.coin(0.8) ? 2 : 3);
    int nech = (int)rng.range(4, 14);
    int order = (int)rng.range(-1, 2);
    if (order == 2 && (nech < 10 || ndim == 3)) order = 1;
    int nfex = (order >= 0 && rng.coin(0.2)) ? 1 : 0;
    bool hasVerr = rng.coin(0.3);
    defineDefaultSpace(ESpaceType::RN, ndim);
    auto X = genPoints(rng, nech, ndim, 8);
    std::vector<std::vector<double>> Z(nvar, std::vector<double>(nech)), V, FE(nfex, std::vector<double>(nech));
    double pna = rng.coin(0.5) ? 0. : (rng.coin() ? 0.2 : 0.45);
    for (int a = 0; a < nvar; a++) for (int i = 0; i < nech; i++) Z[a][i] = rng.coin(pna) ? TEST : rng.dyadic(-8, 8, 3);
    // every variable keeps at least two data
    for (int a = 0; a < nvar; a++) { Z[a][0] = rng.dyadic(-8, 8, 3); Z[a][1 % nech] = rng.dyadic(-8, 8, 3); }
    if (hasVerr) { V.assign(nvar, std::vector<double>(nech)); for (int a = 0; a < nvar; a++) for (int i = 0; i < nech; i++) { double u = rng.unit(); V[a][i] = u < 0.2 ? TEST : (u < 0.4 ? 0. : rng.dyadic(0, 2, 3)); } }
    for (int k = 0; k < nfex; k++) for (int i = 0; i < nech; i++) FE[k][i] = rng.coin(0.08) ? TEST : rng.dyadic(-4, 4, 2);
    int ntarget = 3;
    auto X0 = genPoints(rng, ntarget, ndim, 8);
    for (auto& p : X0) for (auto& c : p) c += rng.coin(0.8) ? 0.125 : 0.;     // mostly off the data
    std::vector<std::vector<double>> FE0(nfex, std::vector<double>(ntarget));
    for (int k = 0; k < nfex; k++) for (int t = 0; t < ntarget; t++) FE0[k][t] = rng.dyadic(-4, 4, 2);

    Db* dbin = makeDb(X, ndim, Z, V, FE, {});
    // one configuration out of four: block kriging on the cells of a small (unrotated) grid, 1-3 discretisation points per axis
    bool block = (nfex == 0) && rng.coin(0.25);
    VectorInt ndiscs;
    Db* dbout = nullptr;
    if (block)
    {
      VectorInt nx(ndim, 1); nx[0] = ntarget; VectorDouble dx(ndim), x0(ndim);
      for (int d = 0; d < ndim; d++) { dx[d] = rng.dyadic(1, 3, 1); x0[d] = rng.dyadic(0, 6, 2) + 0.125; ndiscs.push_back((int)rng.range(1, 3)); }
      dbout = DbGrid::create(nx, dx, x0);
    }
    else dbout = makeDb(X0, ndim, {}, {}, FE0, {});
    std::string mtext;
    Model* model = genModel(rng, ndim, nvar, order, nfex, mtext, st);
    if (dbin == nullptr || dbout == nullptr || model == nullptr) { delete dbin; delete dbout; delete model; continue; }
    VectorDouble means(nvar);
    for (int a = 0; a < nvar; a++) means[a] = (order < 0) ? rng.dyadic(-3, 3, 2) : 0.;
    if (order < 0) model->setMeans(means);
    ANeigh* neigh = nullptr;
    bool moving = rng.coin(0.3);
    if (moving) neigh = NeighMoving::create(false, (int)rng.range(4, 10), rng.dyadic(4, 12, 1), 1);
    else neigh = NeighUnique::create();
    st.hit(moving ? "neigh_moving" : "neigh_unique");
    st.hit("ndim" + std::to_string(ndim)); st.hit("nvar" + std::to_string(nvar));
    st.hit(order < 0 ? "simple_kriging" : ("drift_order" + std::to_string(order)));
    if (nfex) st.hit("external_drift");
    if (hasVerr) st.hit("measurement_error");
    if (pna > 0) st.hit("heterotopic");
    bool stationary = (order < 0);
    int ncol0 = dbout->getColumnNumber();
    EKrigOpt calcul = block ? EKrigOpt::BLOCK : EKrigOpt::POINT;
    if (block) st.hit("block_kriging");
    int err = kriging(dbin, dbout, model, neigh, calcul, true, true, stationary, ndiscs);
    if (err == 0)
    {
      for (int t = 0; t < ntarget; t++)
      {
        Krigtest_Res res = krigtest(dbin, dbout, model, neigh, t, calcul, ndiscs);
        if (res.nech <= 0) { st.hit("krigtest_empty"); continue; }
        std::vector<double> est(nvar), sd(nvar), vz;
        for (int a = 0; a < nvar; a++) { est[a] = dbout->getValueByColIdx(t, ncol0 + a); sd[a] = dbout->getValueByColIdx(t, ncol0 + nvar + a); }
        if (stationary) for (int a = 0; a < nvar; a++) vz.push_back(dbout->getValueByColIdx(t, ncol0 + 2 * nvar + a));
        VectorVectorDouble d1, d2;
        if (block)
        {
          const DbGrid* g = dynamic_cast<const DbGrid*>(dbout);
          d1 = g->getDiscretizedBlock(ndiscs, t, false, false);
          d2 = g->getDiscretizedBlock(ndiscs, t, false, true, 1234546);      // the second discretisation is randomised with a fixed seed
        }
        std::string req = krigRequest(dbin, dbout, model, t, res.nbgh, ndim, nvar, nfex, hasVerr, block ? &d1 : nullptr, block ? &d2 : nullptr);
        std::vector<double> zam;
        for (int i = 0; i < res.zam.getNRows(); i++) zam.push_back(res.zam.getValue(i, 0));
        printf("k krig %s model=%s => nred=%d lhs=%s rhs=%s wgt=%s zam=%s est=%s std=%s%s%s\n", req.c_str(), mtext.c_str(),
               res.nech, matFlat(res.lhs).c_str(), matFlat(res.rhs).c_str(), matFlat(res.wgt).c_str(), vecD(zam).c_str(),
               vecDNA(est).c_str(), vecDNA(sd).c_str(), stationary ? " varz=" : "", stationary ? vecDNA(vz).c_str() : "");
        st.hit("targets");
      }
    }
    else st.hit("kriging_refused");
    delete neigh; delete model; delete dbin; delete dbout;
  }
  st.dump(stdout);
  return 0;
}
