// Correspondence harness for C07: random histories of public editing operations on Db / DbGrid.
#include "common.hpp"
#include "Db/Db.hpp"
#include "Db/DbGrid.hpp"
#include "Enum/ELoc.hpp"

#include "db_observe.hpp"
using namespace vh;

int main()
{
  muteLibrary();
  Rng rng(seedFromEnv() * 7919 + 7);
  long nhist = envLong("VERIF_CASES", thorough() ? 20000 : 500);
  int maxlen = (int)envLong("VERIF_HISTLEN", 40);
  Stats st;
  static const char* radices[] = {"a", "b", "c", "z", "w"};
  static const int loctypes[] = {0, 1, 1, 2, 3, 8, 9, 10, 10, 28};   // x z z v f w code sel sel sum
  for (long ih = 0; ih < nhist; ih++)
  {
    bool grid = rng.coin(0.25);
    Db* db = nullptr;
    if (grid)
    {
      VectorInt nx = {(int)rng.range(1, 3), (int)rng.range(1, 2)};
      db = DbGrid::create(nx, VectorDouble(), VectorDouble(), VectorDouble(), ELoadBy::SAMPLE, VectorDouble(), VectorString(), VectorString(), rng.coin() ? 1 : 0);
    }
    else
    {
      db = Db::create();
      int n0 = (int)rng.range(0, 3);
      if (n0 > 0) db->addColumnsByConstant(n0, (double)rng.range(0, 3), "v", ELoc::UNKNOWN, 0, (int)rng.range(1, 4));
    }
    if (db == nullptr) continue;
    st.hit(grid ? "dbgrid" : "db");
    std::ostringstream line;
    line << "d hist " << (grid ? 1 : 0) << " " << observe(db);
    int len = (int)rng.range(1, maxlen);
    for (int k = 0; k < len; k++)
    {
      int ncol = db->getColumnNumber();
      int nech = db->getSampleNumber(false);
      int umax = db->getUIDMaxNumber();
      std::ostringstream op;
      // choose arguments: mostly valid, sometimes invalid
      auto pickUid = [&]() -> int {
        if (ncol > 0 && !rng.coin(0.08)) return db->getUIDByColIdx((int)rng.range(0, ncol - 1));
        if (rng.coin(0.5)) return (int)rng.range(-2, umax + 1);          // arbitrary (possibly dead or out of range)
        return (int)rng.range(0, std::max(0, umax - 1));
      };
      auto pickCol = [&]() -> int { return (ncol > 0 && !rng.coin(0.1)) ? (int)rng.range(0, ncol - 1) : (int)rng.range(-2, ncol + 1); };
      auto pickName = [&]() -> std::string { return (ncol > 0 && !rng.coin(0.1)) ? db->getNameByColIdx((int)rng.range(0, ncol - 1)) : std::string("qq"); };
      auto pickNewName = [&]() -> std::string {
        if (ncol > 0 && rng.coin(0.4)) return db->getNameByColIdx((int)rng.range(0, ncol - 1));   // provoke duplicates
        return std::string(radices[rng.range(0, 4)]);
      };
      // radix of multiple additions: a disjoint alphabet, so that `x-1` (multiple add) and `x.1`
      // (de-duplication) rarely coexist (names are regular expressions: known finding F32)
      auto pickMultiRadix = [&]() -> std::string {
        static const char* mr[] = {"m", "n", "v"};
        if (rng.coin(0.04)) return std::string(radices[rng.range(0, 4)]);
        return std::string(mr[rng.range(0, 2)]);
      };
      auto pickLt = [&]() -> int { return rng.coin(0.07) ? -1 : loctypes[rng.range(0, 9)]; };
      // explicit role number: mostly an existing rank (overwrite) or the automatic one; rarely the
      // next rank or beyond (an explicit rank beyond the count pads the role list: known finding F4)
      auto pickLi = [&](int lt) -> int {
        int n = lt >= 0 ? db->getLocatorNumber(ELoc::fromValue(lt)) : 0;
        double u = rng.unit();
        if (u < 0.62 || n == 0) return (u < 0.9) ? -1 : 0;
        if (u < 0.95) return (int)rng.range(0, n - 1);
        if (u < 0.98) return n;
        return n + (int)rng.range(1, 2);
      };
      auto pickVal = [&]() -> double { return rng.coin(0.12) ? TEST : (double)rng.range(0, 3); };
      int kind = (int)rng.range(0, 22);
      if (ncol == 0 && rng.coin(0.7)) kind = 0;
      if (ncol > 7 && kind == 0) kind = 1;
      switch (kind)
      {
        case 0: {
          int nadd = rng.coin(0.06) ? 0 : (int)rng.range(1, 3);
          double v = pickVal(); std::string radix = (nadd > 1) ? pickMultiRadix() : pickNewName(); int lt = rng.coin(0.5) ? -1 : pickLt(); int li = rng.coin(0.7) ? 0 : pickLi(lt);
          if (li < 0 && lt < 0) li = 0;
          int ni = (int)rng.range(1, 3);
          op << "addc " << nadd << " " << val(v) << " " << radix << " " << lt << " " << li << " " << ni;
          db->addColumnsByConstant(nadd, v, radix, lt < 0 ? ELoc::UNKNOWN : ELoc::fromValue(lt), li, ni);
          break; }
        case 1: { int u = pickUid(); op << "delUid " << u; db->deleteColumnByUID(u); break; }
        case 2: { int c = pickCol(); op << "delCol " << c; db->deleteColumnByColIdx(c); break; }
        case 3: { std::string n = pickName(); op << "delName " << n; db->deleteColumn(n); break; }
        case 4: { int lt = loctypes[rng.range(0, 9)]; if (rng.coin(0.6)) { lt = 3; } op << "delLoc " << lt; db->deleteColumnsByLocator(ELoc::fromValue(lt)); break; }
        case 5: { int u = pickUid(); std::string n = pickNewName(); op << "nameUid " << u << " " << n; db->setNameByUID(u, n); break; }
        case 6: { int c = pickCol(); std::string n = pickNewName(); op << "nameCol " << c << " " << n; db->setNameByColIdx(c, n); break; }
        case 7: { std::string o = pickName(); std::string n = pickNewName(); op << "nameName " << o << " " << n; db->setName(o, n); break; }
        case 8: { int lt = loctypes[rng.range(0, 9)]; std::string n = pickNewName(); op << "nameLoc " << lt << " " << n; db->setNameByLocator(ELoc::fromValue(lt), n); break; }
        case 9: case 10: { int u = pickUid(); int lt = pickLt(); int li = pickLi(lt); bool cl = rng.coin(0.2);
          op << "locUid " << u << " " << lt << " " << li << " " << (cl ? 1 : 0);
          db->setLocatorByUID(u, lt < 0 ? ELoc::UNKNOWN : ELoc::fromValue(lt), li, cl); break; }
        case 11: { int c = pickCol(); int lt = pickLt(); int li = pickLi(lt); bool cl = rng.coin(0.2);
          op << "locCol " << c << " " << lt << " " << li << " " << (cl ? 1 : 0);
          db->setLocatorByColIdx(c, lt < 0 ? ELoc::UNKNOWN : ELoc::fromValue(lt), li, cl); break; }
        case 12: { std::string n = pickName(); int lt = pickLt(); int li = pickLi(lt); bool cl = rng.coin(0.2);
          op << "locName " << n << " " << lt << " " << li << " " << (cl ? 1 : 0);
          db->setLocator(n, lt < 0 ? ELoc::UNKNOWN : ELoc::fromValue(lt), li, cl); break; }
        case 13: { int m = (int)rng.range(1, 3); VectorInt us;
          for (int i = 0; i < m; i++) { int u = pickUid(); bool dup = false; for (int w : us) dup = dup || (w == u); if (!dup || rng.coin(0.03)) us.push_back(u); }
          int lt = pickLt(); bool cl = rng.coin(0.6); int li = cl ? (rng.coin(0.8) ? -1 : 0) : pickLi(lt);
          op << "locsUid " << vecI(us) << " " << lt << " " << li << " " << (cl ? 1 : 0);
          db->setLocatorsByUID(us, lt < 0 ? ELoc::UNKNOWN : ELoc::fromValue(lt), li, cl); break; }
        case 14: { int m = (int)rng.range(1, 3); VectorInt cs;
          for (int i = 0; i < m; i++) { int c = pickCol(); bool dup = false; for (int w : cs) dup = dup || (w == c); if (!dup || rng.coin(0.03)) cs.push_back(c); }
          int lt = pickLt(); bool cl = rng.coin(0.6); int li = cl ? (rng.coin(0.8) ? -1 : 0) : pickLi(lt);
          op << "locsCol " << vecI(cs) << " " << lt << " " << li << " " << (cl ? 1 : 0);
          db->setLocatorsByColIdx(cs, lt < 0 ? ELoc::UNKNOWN : ELoc::fromValue(lt), li, cl); break; }
        case 15: { int lt = loctypes[rng.range(0, 9)]; op << "clearLoc " << lt; db->clearLocators(ELoc::fromValue(lt)); break; }
        case 16: { int a = loctypes[rng.range(0, 9)], b = loctypes[rng.range(0, 9)]; if (a == b && !rng.coin(0.1)) b = (a == 1) ? 2 : 1;
          op << "switchLoc " << a << " " << b; db->switchLocator(ELoc::fromValue(a), ELoc::fromValue(b)); break; }
        case 17: { int nadd = rng.coin(0.1) ? 0 : (int)rng.range(1, 2); double v = pickVal(); if (nech > 6) nadd = 0;
          op << "addSamples " << nadd << " " << val(v); db->addSamples(nadd, v); break; }
        case 18: { int i = rng.coin(0.1) ? (int)rng.range(-1, nech + 1) : (int)rng.range(0, std::max(0, nech - 1));
          op << "delSample " << i; db->deleteSample(i); break; }
        case 19: case 20: {   // whole-row write: one value per column in column order (wrong sizes are refused)
          int i = rng.coin(0.1) ? (int)rng.range(-1, nech + 1) : (int)rng.range(0, std::max(0, nech - 1));
          int m = rng.coin(0.85) ? ncol : (int)rng.range(0, ncol + 1);
          VectorDouble vs; std::ostringstream os;
          for (int k = 0; k < m; k++) { double v = rng.coin(0.1) ? TEST : (double)rng.range(0, 9); vs.push_back(v); os << (k ? "," : "") << val(v); }
          op << "setRow " << i << " " << (m ? os.str() : std::string("-")); db->setArrayBySample(i, vs); break; }
        case 21: { int i = rng.coin(0.1) ? (int)rng.range(-1, nech + 1) : (int)rng.range(0, std::max(0, nech - 1));
          std::vector<double> vs; db->getArrayBySample(vs, i); std::ostringstream os;
          for (size_t k = 0; k < vs.size(); k++) os << (k ? "," : "") << val(vs[k]);
          op << "getRow " << i << " " << (vs.empty() ? std::string("-") : os.str()); break; }
        default: { int i = rng.coin(0.1) ? (int)rng.range(-1, nech + 1) : (int)rng.range(0, std::max(0, nech - 1)); int u = pickUid(); double v = pickVal();
          op << "setArray " << i << " " << u << " " << val(v); db->setArray(i, u, v); break; }
      }
      std::string ops = op.str();
      st.hit("op_" + ops.substr(0, ops.find(' ')));
      line << " ; " << ops << " | " << observe(db);
    }
    st.hit("ops_total", len);
    printf("%s =>\n", line.str().c_str());
    delete db;
  }
  st.dump(stdout);
  return 0;
}
