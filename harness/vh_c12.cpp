// Correspondence harness for C12: experimental (cross-)variograms vs their pairwise definition.
#include "krig_common.hpp"
#include "Variogram/Vario.hpp"
#include "Variogram/VarioParam.hpp"
#include "Variogram/DirParam.hpp"
#include "Geometry/GeometryHelper.hpp"
#include "Enum/ECalcVario.hpp"
#include "Db/DbGrid.hpp"
using namespace vh;

static Db* makeVDb(const std::vector<std::vector<double>>& X, int ndim, const std::vector<std::vector<double>>& Z,
                   const std::vector<double>& W, const std::vector<int>& sel)
{
  int nech = (int)X.size();
  VectorDouble tab; VectorString names, locs;
  for (int d = 0; d < ndim; d++) { names.push_back("x" + std::to_string(d + 1)); locs.push_back("x" + std::to_string(d + 1)); }
  for (size_t a = 0; a < Z.size(); a++) { names.push_back("z" + std::to_string(a + 1)); locs.push_back("z" + std::to_string(a + 1)); }
  if (!W.empty()) { names.push_back("w"); locs.push_back("w"); }
  if (!sel.empty()) { names.push_back("sel"); locs.push_back("sel"); }
  for (int i = 0; i < nech; i++)
  {
    for (int d = 0; d < ndim; d++) tab.push_back(X[i][d]);
    for (size_t a = 0; a < Z.size(); a++) tab.push_back(Z[a][i]);
    if (!W.empty()) tab.push_back(W[i]);
    if (!sel.empty()) tab.push_back((double)sel[i]);
  }
  return Db::createFromSamples(nech, ELoadBy::SAMPLE, tab, names, locs, false);
}

int main()
{
  muteLibrary();
  Rng rng(seedFromEnv() * 7919 + 12);
  long ncfg = envLong("VERIF_CASES", thorough() ? 8000 : 400);
  Stats st;
  static const double tolangs[] = {90., 90., 70., 50., 35., 20.};   // no lattice direction lies exactly on the cone
  for (long ic = 0; ic < ncfg; ic++)
  {
    int ndim = (int)rng.range(1, 3);
    defineDefaultSpace(ESpaceType::RN, ndim);
    int nvar = rng.coin(0.6) ? 1 : (int)rng.range(2, 3);
    int nech = (int)rng.range(3, 30);
    int layout = (int)rng.range(0, 2);   // regular-ish, random, clustered
    auto X = genPoints(rng, nech, ndim, layout == 0 ? 3 : (layout == 1 ? 10 : 2));
    if (layout == 2) for (auto& p : X) for (auto& c : p) c = c / 4. + (double)rng.range(0, 2) * 6.;
    // permuted copy shares the content in another order (results must not depend on sample order)
    std::vector<std::vector<double>> Z(nvar, std::vector<double>(nech));
    for (int a = 0; a < nvar; a++) for (int i = 0; i < nech; i++) Z[a][i] = rng.coin(0.12) ? TEST : rng.dyadic(-8, 8, 2);
    std::vector<double> W; if (rng.coin(0.3)) { W.resize(nech); for (auto& w : W) { double u = rng.unit(); w = u < 0.1 ? TEST : (u < 0.4 ? 0.5 : (u < 0.7 ? 1. : 2.)); } }
    std::vector<int> sel; if (rng.coin(0.3)) { sel.resize(nech); for (auto& s : sel) s = rng.coin(0.8) ? 1 : 0; }
    Db* db = makeVDb(X, ndim, Z, W, sel);
    if (db == nullptr) continue;
    int npas = (int)rng.range(2, 8);
    double dpas = (2. * rng.range(2, 30) + 1.) / 16.;     // odd/16: lag boundaries never coincide with lattice distances
    double toldis = rng.coin(0.6) ? 0.5 : (rng.coin() ? 0.25 : 0.375);
    double tolang = (ndim == 1) ? 90. : tolangs[rng.range(0, 5)];
    VectorDouble codir(ndim, 0.);
    codir[0] = 1.;
    if (ndim >= 2) { int k = (int)rng.range(0, 3); if (k == 1) { codir[0] = 0.; codir[1] = 1.; } if (k == 2) { codir[1] = 1.; } if (k == 3) { codir[0] = 1.; codir[1] = 2.; } }
    if (ndim == 3 && rng.coin(0.3)) codir[2] = 1.;
    double bench = (ndim >= 2 && rng.coin(0.2)) ? rng.dyadic(0, 2, 2) + 0.25 : TEST;
    double cylrad = (ndim >= 2 && rng.coin(0.2)) ? rng.dyadic(0, 3, 2) + 0.25 : TEST;
    // irregular lag classes ]b_k, b_{k+1}] in a quarter of the configurations: the first break is 0 or positive
    // (pairs nearer than the first break, or at distance 0 = duplicated locations, belong to no class)
    VectorDouble breaks;
    if (rng.coin(0.25))
    {
      double b = rng.coin(0.4) ? 0. : (2. * rng.range(0, 12) + 1.) / 16.;
      breaks.push_back(b);
      for (int k = 0; k < npas; k++) { b += (2. * rng.range(1, 20) + (k == 0 && breaks[0] == 0. ? 1. : 2.)) / 16.; breaks.push_back(b); }   // odd/16 boundaries
      if (rng.coin(0.3) && nech >= 4) { int i = (int)rng.range(0, nech - 1), j = (int)rng.range(0, nech - 1); if (i != j) { X[j] = X[i]; for (int d = 0; d < ndim; d++) db->setCoordinate(j, d, X[i][d]); st.hit("duplicated_location"); } }
      st.hit("irregular_classes");
    }
    DirParam* dir = DirParam::create(npas, dpas, toldis, tolang, 0, 0, bench, cylrad, 0., breaks, codir);
    if (dir == nullptr) { delete db; continue; }
    VarioParam vp; vp.addDir(*dir);
    // estimator: variogram, order-4 variogram, Poisson variogram, madogram, rodogram
    int est = rng.coin(0.45) ? 0 : (int)rng.range(1, 4);
    bool order4 = est == 1;
    static const char* estName[5] = {"variogram", "order4", "poisson", "madogram", "rodogram"};
    ECalcVario ecalc = est == 0 ? ECalcVario::VARIOGRAM : (est == 1 ? ECalcVario::ORDER4 : (est == 2 ? ECalcVario::POISSON : (est == 3 ? ECalcVario::MADOGRAM : ECalcVario::RODOGRAM)));
    Vario* vario = Vario::computeFromDb(vp, db, ecalc);
    if (vario != nullptr)
    {
      double psmin = GeometryHelper::getCosineAngularTolerance(tolang);
      std::vector<double> xs, zs, ws; std::string act;
      for (int i = 0; i < nech; i++) { for (int d = 0; d < ndim; d++) xs.push_back(X[i][d]); ws.push_back(W.empty() ? 1. : W[i]); act += (sel.empty() || sel[i]) ? '1' : '0'; }
      for (int a = 0; a < nvar; a++) for (int i = 0; i < nech; i++) zs.push_back(Z[a][i]);
      VectorDouble cd = vario->getDirParam(0).getCodirs();
      for (int a = 0; a < nvar; a++) for (int b = 0; b <= a; b++)
      {
        VectorDouble sw = vario->getSwVec(0, a, b, false), hh = vario->getHhVec(0, a, b, false), gg = vario->getGgVec(0, a, b, false, false, false);
        printf("v vario calc=%s ndim=%d nvar=%d nech=%d X=%s Z=%s W=%s act=%s codir=%s psmin=%s bench=%s cylrad=%s npas=%d dpas=%s toldis=%s breaks=%s ivar=%d jvar=%d => sw=%s hh=%s gg=%s mean=%s\n",
               estName[est], ndim, nvar, nech, vecD(xs).c_str(), vecDNA(zs).c_str(), vecDNA(ws).c_str(), act.c_str(), vecD(cd).c_str(), dy(psmin).c_str(),
               dyNA(bench).c_str(), dyNA(cylrad).c_str(), npas, dy(dpas).c_str(), dy(toldis).c_str(), breaks.empty() ? "-" : vecD(std::vector<double>(breaks.begin(), breaks.end())).c_str(), a, b,
               vecD(sw).c_str(), vecDNA(hh).c_str(), vecDNA(gg).c_str(), dyNA(vario->getMean(a)).c_str());
        st.hit(a == b ? "direct_variograms" : "cross_variograms");
      }
      st.hit("ndim" + std::to_string(ndim)); st.hit(std::string("estimator_") + estName[est]); if (!W.empty()) st.hit("weights"); if (!sel.empty()) st.hit("selection");
      if (!FFFF(bench)) st.hit("bench"); if (!FFFF(cylrad)) st.hit("cylinder"); if (tolang < 90.) st.hit("angular_tolerance");
      delete vario;
    }
    else st.hit("refused");
    delete dir; delete db;
  }
  // ---- the grid-specialised algorithm against the general one on gridded data (same DbGrid, same pairs):
  //      grid direction = increment vector g (in nodes); general direction = g scaled by the mesh, lag = its length,
  //      tight angular and distance tolerances (on a small lattice only the exactly aligned pairs remain)
  long ngrid = envLong("VERIF_GRID_CASES", thorough() ? 600 : 60);
  for (long ic = 0; ic < ngrid; ic++)
  {
    int ndim = rng.coin(0.7) ? 2 : 3;
    defineDefaultSpace(ESpaceType::RN, ndim);
    VectorInt nx(ndim); VectorDouble dx(ndim), x0(ndim);
    for (int d = 0; d < ndim; d++) { nx[d] = (int)rng.range(ndim == 2 ? 3 : 2, ndim == 2 ? 7 : 4); dx[d] = 0.25 * (double)rng.range(1, 8); x0[d] = rng.dyadic(-4, 4, 2); }
    DbGrid* g = DbGrid::create(nx, dx, x0);
    int nech = g->getSampleNumber(); int nvar = rng.coin(0.6) ? 1 : 2;
    for (int a = 0; a < nvar; a++) { VectorDouble z(nech); for (auto& v : z) v = rng.coin(0.1) ? TEST : rng.dyadic(-8, 8, 2); g->addColumns(z, "z" + std::to_string(a + 1), ELoc::Z, a); }
    if (rng.coin(0.3)) { VectorDouble w(nech); for (auto& v : w) { double u = rng.unit(); v = u < 0.4 ? 0.5 : (u < 0.7 ? 1. : 2.); } g->addColumns(w, "w", ELoc::W, 0); st.hit("grid_weights"); }
    if (rng.coin(0.3)) { VectorDouble sl(nech); for (auto& v : sl) v = rng.coin(0.8) ? 1. : 0.; g->addColumns(sl, "sel", ELoc::SEL, 0); st.hit("grid_selection"); }
    VectorInt gi(ndim, 0);
    { int k = (int)rng.range(0, 5); if (k == 0) gi[0] = 1; else if (k == 1) gi[1] = 1; else if (k == 2) { gi[0] = 1; gi[1] = 1; } else if (k == 3) { gi[0] = 1; gi[1] = -1; } else if (k == 4) { gi[0] = 2; gi[1] = 1; } else gi[ndim - 1] = 1; }
    int npas = (int)rng.range(2, 5);
    int est = rng.coin(0.5) ? 0 : (int)rng.range(1, 4);
    ECalcVario ecalc = est == 0 ? ECalcVario::VARIOGRAM : (est == 1 ? ECalcVario::ORDER4 : (est == 2 ? ECalcVario::POISSON : (est == 3 ? ECalcVario::MADOGRAM : ECalcVario::RODOGRAM)));
    DirParam* dg = DirParam::createFromGrid(g, npas, gi);
    VectorDouble codir(ndim); double len = 0.; for (int d = 0; d < ndim; d++) { codir[d] = gi[d] * dx[d]; len += codir[d] * codir[d]; } len = std::sqrt(len);
    DirParam* dp = DirParam::create(npas, len, 0.125, 0.5, 0, 0, TEST, TEST, 0., VectorDouble(), codir);
    if (dg && dp)
    {
      VarioParam vg; vg.addDir(*dg); VarioParam vq; vq.addDir(*dp);
      Vario* v1 = Vario::computeFromDb(vg, g, ecalc); Vario* v2 = Vario::computeFromDb(vq, g, ecalc);
      if (v1 && v2)
      {
        for (int a = 0; a < nvar; a++) for (int b = 0; b <= a; b++)
        {
          auto clean = [](const VectorDouble& v) { std::vector<double> o; for (double x : v) o.push_back((FFFF(x) || !std::isfinite(x)) ? -7777. : x); return o; };
          std::vector<double> s1 = clean(v1->getSwVec(0, a, b, false)), s2 = clean(v2->getSwVec(0, a, b, false));
          std::vector<double> h1 = clean(v1->getHhVec(0, a, b, false)), h2 = clean(v2->getHhVec(0, a, b, false));
          std::vector<double> g1 = clean(v1->getGgVec(0, a, b, false, false, false)), g2 = clean(v2->getGgVec(0, a, b, false, false, false));
          double sc = 1.; for (double x : g1) if (x != -7777.) sc = std::max(sc, std::fabs(x)); for (double x : h1) if (x != -7777.) sc = std::max(sc, std::fabs(x));
          printf("t close grid_vs_general_pair_weights %s %s %s =>\n", dy(est == 2 ? std::ldexp(1., -40) : 0.).c_str(), vecD(s1).c_str(), vecD(s2).c_str());
          printf("t close grid_vs_general_distances %s %s %s =>\n", dy(std::ldexp(sc, -36)).c_str(), vecD(h1).c_str(), vecD(h2).c_str());
          printf("t close grid_vs_general_values %s %s %s =>\n", dy(std::ldexp(sc, -36)).c_str(), vecD(g1).c_str(), vecD(g2).c_str());
          st.hit("grid_vs_general"); st.hit(std::string("grid_estimator_") + std::to_string(est));
        }
      }
      else st.hit("grid_refused");
      delete v1; delete v2;
    }
    delete dg; delete dp; delete g;
  }
  st.dump(stdout);
  return 0;
}
