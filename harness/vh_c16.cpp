// Correspondence harness for C16 (grid geometry): drives the real Grid / DbGrid code and
// prints one request line per observation for the Lean model driver.
#include "common.hpp"
#include "Basic/Grid.hpp"
#include "Db/DbGrid.hpp"
#include "Matrix/MatrixSquareGeneral.hpp"

using namespace vh;

static std::string rotText(const Grid& g)
{
  if (!g.isRotated()) return "-";
  int nd = g.getNDim();
  const MatrixSquareGeneral& R = g.getRotation().getMatrixDirect();
  std::vector<double> v;
  for (int i = 0; i < nd; i++)
    for (int j = 0; j < nd; j++) v.push_back(R.getValue(i, j));
  return vecD(v);
}

int main()
{
  Rng rng(seedFromEnv() * 7919 + 16);
  long ngrid = envLong("VERIF_CASES", thorough() ? 30000 : 1000);
  Stats st;
  for (long ig = 0; ig < ngrid; ig++)
  {
    int nd = (int)rng.range(1, 4);
    bool big = rng.coin(0.1);
    VectorInt nx(nd);
    VectorDouble dx(nd), x0(nd);
    for (int i = 0; i < nd; i++)
    {
      nx[i] = (int)(big ? rng.range(1, nd == 4 ? 60 : (nd == 3 ? 300 : 2000)) : rng.range(1, 9));   // node count stays below 2^31
      dx[i] = rng.dyadic(0, 8, 3) + 0.125;
      x0[i] = rng.dyadic(-100, 100, 2);
    }
    VectorDouble angles;
    int rk = 0;
    if (nd == 2 || nd == 3)
    {
      rk = (int)rng.range(0, 3);
      if (rk == 1) { angles.resize(nd, 0.); for (int i = 0; i < nd; i++) angles[i] = 90. * rng.range(-3, 3); }
      if (rk >= 2) { angles.resize(nd, 0.); for (int i = 0; i < nd; i++) angles[i] = (double)rng.range(-179, 179) + rng.dyadic(0, 1, 4); if (nd == 2) angles[1] = 0.; }
    }
    Grid g(nd);
    if (g.resetFromVector(nx, dx, x0, angles)) continue;
    st.hit(std::string("ndim") + std::to_string(nd));
    st.hit(g.isRotated() ? "rotated" : "unrotated");
    std::string R = rotText(g);
    std::string G = R + " " + vecI(nx) + " " + vecD(dx) + " " + vecD(x0);
    long ntot = 1; for (int i = 0; i < nd; i++) ntot *= nx[i];

    // rank <-> indices
    int nq = big ? 6 : 4;
    for (int q = 0; q < nq; q++)
    {
      int rank = (int)rng.range(0, ntot - 1);
      if (q == 0) rank = (int)ntot - 1;
      if (q == 1) rank = 0;
      VectorInt ind(nd);
      g.rankToIndice(rank, ind);
      printf("g r2i %s %d => %s\n", vecI(nx).c_str(), rank, vecI(ind).c_str());
      int back = g.indiceToRank(ind);
      printf("g i2r %s %s => %d\n", vecI(nx).c_str(), vecI(ind).c_str(), back);
      VectorDouble perc;
      if (rng.coin(0.5)) { perc.resize(nd); for (int i = 0; i < nd; i++) perc[i] = rng.dyadic(-1, 1, 3); }
      VectorDouble c = g.rankToCoordinates(rank, perc);
      printf("g r2c %s %d %s => %s\n", G.c_str(), rank, vecD(perc).c_str(), vecD(c).c_str());
      VectorDouble c2 = g.getCoordinatesByRank(rank);
      printf("g r2c %s %d - => %s\n", G.c_str(), rank, vecD(c2).c_str());
      // node -> coordinates -> indices must come back (model answers independently)
      VectorInt indb(nd);
      bool cen = rng.coin(0.5);
      int out = g.coordinateToIndicesInPlace(c2, indb, cen, 1.e-6);
      printf("g c2i %s %s %d %s => %s %d\n", G.c_str(), vecD(c2).c_str(), cen ? 1 : 0, dy(1.e-6).c_str(), vecI(indb).c_str(), out);
      st.hit("roundtrip_nodes");
    }
    // arbitrary indices (possibly out of range)
    for (int q = 0; q < 3; q++)
    {
      VectorInt ind(nd);
      for (int i = 0; i < nd; i++) ind[i] = (int)rng.range(-2, nx[i] + 1);
      int r = g.indiceToRank(ind);
      if (r < 0) st.hit("i2r_outside");
      printf("g i2r %s %s => %d\n", vecI(nx).c_str(), vecI(ind).c_str(), r);
      VectorDouble perc;
      if (rng.coin(0.5)) { perc.resize(nd); for (int i = 0; i < nd; i++) perc[i] = rng.dyadic(-1, 1, 3); }
      VectorDouble c = g.indicesToCoordinate(ind, perc);
      printf("g i2c %s %s %s => %s\n", G.c_str(), vecI(ind).c_str(), vecD(perc).c_str(), vecD(c).c_str());
    }
    // arbitrary points
    for (int q = 0; q < 5; q++)
    {
      // a point expressed in the grid frame then mapped by the library itself, plus jitter
      VectorInt ind(nd);
      VectorDouble perc(nd);
      for (int i = 0; i < nd; i++) { ind[i] = (int)rng.range(-2, nx[i] + 1); perc[i] = rng.dyadic(0, 1, 6) * 0.96875 + 0.015625 - (rng.coin() ? 0.5 : 0.); }
      VectorDouble c = g.indicesToCoordinate(ind, perc);
      bool cen = rng.coin(0.5);
      double eps = rng.coin(0.7) ? 1.e-6 : 0.;
      VectorInt indb(nd);
      int out = g.coordinateToIndicesInPlace(c, indb, cen, eps);
      if (out) st.hit("c2i_outside"); else st.hit("c2i_inside");
      printf("g c2i %s %s %d %s => %s %d\n", G.c_str(), vecD(c).c_str(), cen ? 1 : 0, dy(eps).c_str(), vecI(indb).c_str(), out);
      int r = g.coordinateToRank(c, cen, eps);
      printf("g c2r %s %s %d %s => %d\n", G.c_str(), vecD(c).c_str(), cen ? 1 : 0, dy(eps).c_str(), r);
    }
    // derived grids
    {
      VectorInt nm(nd), nxo(nd);
      VectorDouble dxo(nd), x0o(nd);
      for (int i = 0; i < nd; i++) nm[i] = (int)rng.range(1, 4);
      bool fc = rng.coin(0.6);
      g.multiple(nm, fc, nxo, dxo, x0o);
      printf("g mult %s %s %d => %s %s %s\n", G.c_str(), vecI(nm).c_str(), fc ? 1 : 0, vecI(nxo).c_str(), vecD(dxo).c_str(), vecD(x0o).c_str());
      g.divider(nm, fc, nxo, dxo, x0o);
      printf("g div %s %s %d => %s %s %s\n", G.c_str(), vecI(nm).c_str(), fc ? 1 : 0, vecI(nxo).c_str(), vecD(dxo).c_str(), vecD(x0o).c_str());
      st.hit(g.isRotated() ? "derived_rotated" : "derived_unrotated");
      VectorInt ns(nd);
      int mode = rng.coin() ? 1 : -1;
      bool okd = true;
      for (int i = 0; i < nd; i++) { ns[i] = (int)rng.range(0, 2); if (nx[i] + 2 * mode * ns[i] <= 0) okd = false; }
      if (okd)
      {
        g.dilate(mode, ns, nxo, dxo, x0o);
        printf("g dil %s %s %d => %s %s %s\n", G.c_str(), vecI(ns).c_str(), mode, vecI(nxo).c_str(), vecD(dxo).c_str(), vecD(x0o).c_str());
      }
    }
    // DbGrid: stored/reported coordinates are those of the geometry; coarse/refined grids
    if (!big && rng.coin(0.3))
    {
      DbGrid* db = DbGrid::create(nx, dx, x0, angles);
      if (db != nullptr)
      {
        for (int q = 0; q < 3; q++)
        {
          int iech = (int)rng.range(0, ntot - 1);
          VectorDouble c(nd);
          for (int i = 0; i < nd; i++) c[i] = db->getCoordinate(iech, i);
          printf("g r2c %s %d - => %s\n", G.c_str(), iech, vecD(c).c_str());
          VectorDouble c3 = db->getCoordinatesPerSample(iech);
          printf("g r2c %s %d - => %s\n", G.c_str(), iech, vecD(c3).c_str());
          st.hit("dbgrid_coord");
        }
        VectorInt nm(nd);
        for (int i = 0; i < nd; i++) nm[i] = (int)rng.range(1, 3);
        DbGrid* dc = DbGrid::createCoarse(db, nm, 1, false);
        if (dc != nullptr)
        {
          const Grid& gc = dc->getGrid();
          printf("g mult %s %s 1 => %s %s %s\n", G.c_str(), vecI(nm).c_str(), vecI(gc.getNXs()).c_str(), vecD(gc.getDXs()).c_str(), vecD(gc.getX0s()).c_str());
          st.hit("dbgrid_coarse");
          delete dc;
        }
        {
          VectorVectorInt limits(nd);
          VectorInt lo(nd);
          bool okl = true;
          for (int i = 0; i < nd; i++) { lo[i] = (int)rng.range(0, nx[i] - 1); int hi = (int)rng.range(lo[i] + 1, nx[i]); limits[i] = {lo[i], hi}; if (hi <= lo[i]) okl = false; }
          DbGrid* ds = okl ? DbGrid::createSubGrid(db, limits, false) : nullptr;
          if (ds != nullptr)
          {
            const Grid& gs = ds->getGrid();
            printf("g subg %s %s 0 => %s %s %s\n", G.c_str(), vecI(lo).c_str(), vecI(gs.getNXs()).c_str(), vecD(gs.getDXs()).c_str(), vecD(gs.getX0s()).c_str());
            st.hit("dbgrid_subgrid");
            delete ds;
          }
        }
        DbGrid* dr = DbGrid::createRefine(db, nm, 1, false);
        if (dr != nullptr)
        {
          const Grid& gr = dr->getGrid();
          printf("g div %s %s 1 => %s %s %s\n", G.c_str(), vecI(nm).c_str(), vecI(gr.getNXs()).c_str(), vecD(gr.getDXs()).c_str(), vecD(gr.getX0s()).c_str());
          st.hit("dbgrid_refine");
          delete dr;
        }
        delete db;
      }
    }
    // mirror index
    {
      int n = (int)rng.range(2, 12);
      int ix = (int)rng.range(-40, 40);
      printf("g mirror %d %d => %d\n", n, ix, Grid::generateMirrorIndex(n, ix));
    }
  }
  st.dump(stdout);
  return 0;
}
