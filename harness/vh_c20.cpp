// Correspondence harness for C20 (point in polygon, polygon sets, db_polygon).
#include "common.hpp"
#include "Polygon/PolyElem.hpp"
#include "Polygon/Polygons.hpp"
#include "Db/Db.hpp"
#include "Enum/ELoadBy.hpp"
#include "Enum/ELoc.hpp"
#include "Basic/AStringable.hpp"
#include "geoslib_define.h"
#include <algorithm>

using namespace vh;
typedef std::vector<long> VL;

// exact integer segment intersection (proper or touching), used to keep only simple polygons
static long orient(long ax, long ay, long bx, long by, long cx, long cy)
{ return (bx - ax) * (cy - ay) - (by - ay) * (cx - ax); }
static int sgn(long v) { return (v > 0) - (v < 0); }
static bool onSeg(long ax, long ay, long bx, long by, long px, long py)
{ return orient(ax, ay, bx, by, px, py) == 0 && std::min(ax, bx) <= px && px <= std::max(ax, bx) && std::min(ay, by) <= py && py <= std::max(ay, by); }
static bool segInter(long ax, long ay, long bx, long by, long cx, long cy, long dx, long dy)
{
  int o1 = sgn(orient(ax, ay, bx, by, cx, cy)), o2 = sgn(orient(ax, ay, bx, by, dx, dy));
  int o3 = sgn(orient(cx, cy, dx, dy, ax, ay)), o4 = sgn(orient(cx, cy, dx, dy, bx, by));
  if (o1 != o2 && o3 != o4) return true;
  return onSeg(ax, ay, bx, by, cx, cy) || onSeg(ax, ay, bx, by, dx, dy) || onSeg(cx, cy, dx, dy, ax, ay) || onSeg(cx, cy, dx, dy, bx, by);
}
static bool isSimple(const VL& x, const VL& y)
{
  int n = (int)x.size();
  if (n < 3) return false;
  for (int i = 0; i < n; i++)
  {
    int i2 = (i + 1) % n;
    if (x[i] == x[i2] && y[i] == y[i2]) return false;
    for (int j = i + 1; j < n; j++)
    {
      int j2 = (j + 1) % n;
      bool adjacent = (j == i2) || (j2 == i);
      if (!adjacent)
      { if (segInter(x[i], y[i], x[i2], y[i2], x[j], y[j], x[j2], y[j2])) return false; }
      else
      {
        // adjacent edges may only share their common vertex
        long sx, sy, px, py, qx, qy;      // shared, other end of first, other end of second
        if (j == i2) { sx = x[i2]; sy = y[i2]; px = x[i]; py = y[i]; qx = x[j2]; qy = y[j2]; }
        else { sx = x[i]; sy = y[i]; px = x[i2]; py = y[i2]; qx = x[j]; qy = y[j]; }
        if (orient(sx, sy, px, py, qx, qy) == 0 && ((px - sx) * (qx - sx) + (py - sy) * (qy - sy)) > 0) return false; // fold back
      }
    }
  }
  return true;
}

static void genStar(Rng& r, int n, VL& x, VL& y)
{
  std::vector<double> ang(n);
  for (auto& a : ang) a = r.unit() * 2 * M_PI;
  std::sort(ang.begin(), ang.end());
  long R = r.range(4, 40);
  x.resize(n); y.resize(n);
  for (int i = 0; i < n; i++)
  {
    double rad = R * (0.3 + 0.7 * r.unit());
    x[i] = lround(rad * cos(ang[i])); y[i] = lround(rad * sin(ang[i]));
  }
}
// rectilinear histogram-like polygon: many axis-parallel and collinear edges
static void genStairs(Rng& r, int k, VL& x, VL& y)
{
  x.clear(); y.clear();
  std::vector<long> lo(k), hi(k);
  for (int i = 0; i < k; i++) { lo[i] = r.range(-6, 2); hi[i] = lo[i] + r.range(1, 8); }
  // bottom chain left to right
  for (int i = 0; i < k; i++) { x.push_back(i); y.push_back(lo[i]); x.push_back(i + 1); y.push_back(lo[i]); }
  // top chain right to left
  for (int i = k - 1; i >= 0; i--) { x.push_back(i + 1); y.push_back(hi[i]); x.push_back(i); y.push_back(hi[i]); }
  // remove consecutive duplicates, keep collinear runs (they are legal vertices)
  VL xx, yy;
  for (size_t i = 0; i < x.size(); i++)
    if (xx.empty() || xx.back() != x[i] || yy.back() != y[i]) { xx.push_back(x[i]); yy.push_back(y[i]); }
  if (xx.size() > 1 && xx.front() == xx.back() && yy.front() == yy.back()) { xx.pop_back(); yy.pop_back(); }
  x = xx; y = yy;
}
// x-monotone polygon with extra collinear vertices
static void genMonotone(Rng& r, int n, VL& x, VL& y)
{
  VL up, dn;
  x.clear(); y.clear();
  long X = 0;
  std::vector<std::pair<long,long>> top, bot;
  for (int i = 0; i < n; i++) { X += r.range(1, 3); long m = r.range(-3, 3); bot.push_back({X, m - r.range(1, 6)}); top.push_back({X, m + r.range(1, 6)}); }
  for (auto& p : bot) { x.push_back(p.first); y.push_back(p.second); }
  for (int i = n - 1; i >= 0; i--) { x.push_back(top[i].first); y.push_back(top[i].second); }
}
static void genComb(Rng& r, int teeth, VL& x, VL& y)
{
  x.clear(); y.clear();
  long h = r.range(3, 9);
  x.push_back(0); y.push_back(0);
  x.push_back(2 * teeth); y.push_back(0);
  for (int t = teeth - 1; t >= 0; t--)
  {
    long th = r.range(2, h);
    x.push_back(2 * t + 2); y.push_back(1 + th);
    x.push_back(2 * t + 1); y.push_back(1 + th);
    x.push_back(2 * t + 1); y.push_back(1);
    if (t > 0) { x.push_back(2 * t); y.push_back(1); }
  }
  x.push_back(0); y.push_back(1);
}

struct Poly { VL x, y; bool closedFlag; double zmin, zmax; };

static bool genPoly(Rng& r, Poly& p, Stats& st, bool allowBig)
{
  int kind = (int)r.range(0, 3);
  for (int attempt = 0; attempt < 20; attempt++)
  {
    if (kind == 0) genStar(r, (int)r.range(3, allowBig && r.coin(0.1) ? 200 : 14), p.x, p.y);
    if (kind == 1) genStairs(r, (int)r.range(1, allowBig && r.coin(0.1) ? 100 : 7), p.x, p.y);
    if (kind == 2) genMonotone(r, (int)r.range(2, 8), p.x, p.y);
    if (kind == 3) genComb(r, (int)r.range(1, allowBig && r.coin(0.1) ? 60 : 5), p.x, p.y);
    if (isSimple(p.x, p.y)) break;
    p.x.clear();
  }
  if (p.x.empty()) return false;
  static const char* kn[] = {"star", "stairs", "monotone", "comb"};
  st.hit(std::string("poly_") + kn[kind]);
  // orientation, starting vertex, offset, scale by a dyadic factor
  if (r.coin()) { std::reverse(p.x.begin(), p.x.end()); std::reverse(p.y.begin(), p.y.end()); st.hit("orientation_reversed"); }
  int n = (int)p.x.size();
  int s = (int)r.range(0, n - 1);
  std::rotate(p.x.begin(), p.x.begin() + s, p.x.end());
  std::rotate(p.y.begin(), p.y.begin() + s, p.y.end());
  p.closedFlag = r.coin();
  st.hit(p.closedFlag ? "closed" : "open");
  p.zmin = TEST; p.zmax = TEST;
  return true;
}

static void toVec(const Poly& p, double scale, long ox, long oy, VectorDouble& x, VectorDouble& y)
{
  x.clear(); y.clear();
  for (size_t i = 0; i < p.x.size(); i++) { x.push_back((p.x[i] + ox) * scale); y.push_back((p.y[i] + oy) * scale); }
  if (p.closedFlag) { x.push_back(x[0]); y.push_back(y[0]); }
}

static std::string elemText(const PolyElem& e)
{
  return vecD(e.getX()) + " " + vecD(e.getY()) + " " + dyNA(e.getZmin()) + " " + dyNA(e.getZmax());
}

int main()
{
  Rng rng(seedFromEnv() * 7919 + 20);
  long npoly = envLong("VERIF_CASES", thorough() ? 10000 : 300);
  Stats st;
  std::string E5 = dy(EPSILON5);
  for (long ip = 0; ip < npoly; ip++)
  {
    // ---------------- single polygon, lattice of query points
    Poly p;
    if (!genPoly(rng, p, st, true)) continue;
    double scale = rng.coin(0.5) ? 1. : (rng.coin() ? 0.25 : 8.);
    long ox = rng.range(-50, 50), oy = rng.range(-50, 50);
    VectorDouble x, y;
    toVec(p, scale, ox, oy, x, y);
    Polygons polys;
    polys.addPolyElem(PolyElem(x, y));
    long xmin = *std::min_element(p.x.begin(), p.x.end()) - 1, xmax = *std::max_element(p.x.begin(), p.x.end()) + 1;
    long ymin = *std::min_element(p.y.begin(), p.y.end()) - 1, ymax = *std::max_element(p.y.begin(), p.y.end()) + 1;
    std::vector<double> qx, qy;
    long ncell = (xmax - xmin + 1) * (ymax - ymin + 1);
    bool half = rng.coin(0.3);      // half-integer lattice too: points level with no vertex
    if (ncell <= 2500)
    {
      for (long j = ymin; j <= ymax; j++)
        for (long i = xmin; i <= xmax; i++)
        {
          qx.push_back((i + ox) * scale); qy.push_back((j + oy) * scale);
          if (half) { qx.push_back((i + ox + 0.5) * scale); qy.push_back((j + oy) * scale); qx.push_back((i + ox + 0.5) * scale); qy.push_back((j + oy + 0.5) * scale); }
        }
      st.hit("lattice_full");
    }
    else
    {
      for (int k = 0; k < 1500; k++) { qx.push_back((rng.range(xmin, xmax) + ox) * scale); qy.push_back((rng.range(ymin, ymax) + oy) * scale); }
      st.hit("lattice_sampled");
    }
    for (size_t b = 0; b < qx.size(); b += 250)
    {
      size_t e = std::min(qx.size(), b + 250);
      std::vector<double> cx(qx.begin() + b, qx.begin() + e), cy(qy.begin() + b, qy.begin() + e);
      std::string ans;
      for (size_t k = 0; k < cx.size(); k++)
      {
        VectorDouble c = {cx[k], cy[k]};
        ans += polys.inside(c, false) ? '1' : '0';
        st.hit("points");
      }
      printf("p elem %s %s %s %s %s => %s\n", E5.c_str(), vecD(x).c_str(), vecD(y).c_str(), vecD(cx).c_str(), vecD(cy).c_str(), ans.c_str());
    }

    // ---------------- polygon sets (union / nested, vertical limits)
    if (rng.coin(0.5))
    {
      int ne = (int)rng.range(1, 4);
      Polygons set;
      std::string txt;
      long bx0 = 1000, bx1 = -1000, by0 = 1000, by1 = -1000;
      for (int k = 0; k < ne; k++)
      {
        Poly q;
        if (!genPoly(rng, q, st, false)) continue;
        long qox = rng.range(-6, 6), qoy = rng.range(-6, 6);
        VectorDouble qxv, qyv;
        toVec(q, 1., qox, qoy, qxv, qyv);
        double zmin = TEST, zmax = TEST;
        if (rng.coin(0.5)) zmin = (double)rng.range(-3, 1);
        if (rng.coin(0.5)) zmax = (double)rng.range(1, 4);
        PolyElem el(qxv, qyv, zmin, zmax);
        set.addPolyElem(el);
        for (size_t i = 0; i < q.x.size(); i++) { bx0 = std::min(bx0, q.x[i] + qox); bx1 = std::max(bx1, q.x[i] + qox); by0 = std::min(by0, q.y[i] + qoy); by1 = std::max(by1, q.y[i] + qoy); }
      }
      int nel = set.getPolyElemNumber();
      if (nel > 0)
      {
        for (int k = 0; k < nel; k++) txt += " " + elemText(set.getPolyElem(k));
        bool nested = rng.coin();
        bool use3d = rng.coin(0.6);
        std::vector<double> sx, sy, sz;
        std::string ans;
        for (int k = 0; k < 200; k++)
        {
          double px = (double)rng.range(bx0 - 1, bx1 + 1) + (rng.coin(0.3) ? 0.5 : 0.);
          double py = (double)rng.range(by0 - 1, by1 + 1) + (rng.coin(0.3) ? 0.5 : 0.);
          double pz = use3d ? (rng.coin(0.15) ? TEST : (double)rng.range(-4, 5)) : TEST;
          sx.push_back(px); sy.push_back(py); sz.push_back(pz);
          VectorDouble c = {px, py};
          if (use3d) c.push_back(pz);
          ans += set.inside(c, nested) ? '1' : '0';
        }
        st.hit(nested ? "set_nested" : "set_union");
        st.hit(use3d ? "set_3d" : "set_2d");
        printf("p set %s %d %d%s %s %s %s => %s\n", E5.c_str(), nested ? 1 : 0, nel, txt.c_str(), vecD(sx).c_str(), vecD(sy).c_str(), vecDNA(sz).c_str(), ans.c_str());

        // ------------- db_polygon on a Db holding the same points
        bool db3 = use3d;
        int nech = 120;
        VectorDouble tab;
        std::vector<double> dxs, dys, dzs; std::vector<int> act;
        bool fper = rng.coin(0.25);
        for (int k = 0; k < nech; k++)
        {
          double px = (double)rng.range(bx0 - 1, bx1 + 1) + (rng.coin(0.3) ? 0.5 : 0.);
          double py = (double)rng.range(by0 - 1, by1 + 1) + (rng.coin(0.3) ? 0.5 : 0.);
          if (fper && rng.coin(0.4)) px += rng.coin() ? 360. : -360.;
          double pz = (double)rng.range(-4, 5);
          int a = rng.coin(0.7) ? 1 : 0;
          dxs.push_back(px); dys.push_back(py); dzs.push_back(db3 ? pz : TEST); act.push_back(a);
          tab.push_back(px); tab.push_back(py); if (db3) tab.push_back(pz); tab.push_back((double)a);
        }
        VectorString names = db3 ? VectorString({"x", "y", "z", "sel"}) : VectorString({"x", "y", "sel"});
        VectorString locs = db3 ? VectorString({"x1", "x2", "x3", "sel"}) : VectorString({"x1", "x2", "sel"});
        Db* db = Db::createFromSamples(nech, ELoadBy::SAMPLE, tab, names, locs, false);
        if (db != nullptr)
        {
          bool fsel = rng.coin();
          db_polygon(db, &set, fsel, fper, nested);
          VectorDouble sel = db->getColumnByColIdx(db->getColumnNumber() - 1, false);
          std::string ans2;
          for (int k = 0; k < nech; k++) ans2 += (sel[k] != 0.) ? '1' : '0';
          st.hit(fsel ? "dbsel_with_sel" : "dbsel_no_sel");
          if (fper) st.hit("dbsel_periodic");
          printf("p dbsel %s %d %d %d %d%s %s %s %s %s => %s\n", E5.c_str(), fsel ? 1 : 0, fper ? 1 : 0, nested ? 1 : 0, nel, txt.c_str(),
                 vecI(act).c_str(), vecD(dxs).c_str(), vecD(dys).c_str(), vecDNA(dzs).c_str(), ans2.c_str());
          delete db;
        }
      }
    }
  }
  st.dump(stdout);
  return 0;
}
