// Correspondence harness for C08: save / reload / save again for the serialisable classes;
// Db files are also compared token by token with the Lean model of Db::_serialize.
#include "krig_common.hpp"
#include "Neigh/NeighBench.hpp"
#include "Neigh/NeighCell.hpp"
#include "Neigh/NeighImage.hpp"
#include "Variogram/Vario.hpp"
#include "Variogram/VarioParam.hpp"
#include "Variogram/DirParam.hpp"
#include "Polygon/Polygons.hpp"
#include "Polygon/PolyElem.hpp"
#include "Matrix/Table.hpp"
#include "Anamorphosis/AnamHermite.hpp"
#include "LithoRule/Rule.hpp"
#include "Mesh/MeshETurbo.hpp"
#include "Basic/ASerializable.hpp"
#include "Basic/PolyLine2D.hpp"
#include "Faults/Faults.hpp"
#include "Fractures/FracEnviron.hpp"
#include "Fractures/FracFamily.hpp"
#include "Fractures/FracFault.hpp"
#include "Mesh/MeshEStandard.hpp"
#include "Db/DbLine.hpp"
#include "Db/DbMeshTurbo.hpp"
#include "Anamorphosis/AnamDiscreteDD.hpp"
#include "Anamorphosis/AnamDiscreteIR.hpp"
#include "Anamorphosis/AnamEmpirical.hpp"
#include "Matrix/MatrixRectangular.hpp"
#include "Matrix/MatrixInt.hpp"
#include "OutputFormat/AOF.hpp"
#include <fstream>
#include <filesystem>
#include <unistd.h>
using namespace vh;

static std::string slurp(const std::string& f) { std::ifstream is(f); std::stringstream ss; ss << is.rdbuf(); return ss.str(); }
static std::string fnv(const std::string& s) { uint64_t h = 1469598103934665603ULL; for (unsigned char c : s) { h ^= c; h *= 1099511628211ULL; } std::ostringstream os; os << std::hex << h; return os.str(); }
static std::string fileTokens(const std::string& content)
{
  std::string out; std::istringstream ls(content); std::string line; bool first = true;
  while (std::getline(ls, line)) { if (!first) out += " ¶"; first = false; std::istringstream ts(line); std::string t; while (ts >> t) out += " " + t; }
  return out;
}
static std::string dir;
static int counter = 0;
static int nameMode = 0;

template <class T, class Loader>
static void roundTrip(const char* cls, const T* obj, Loader load, Stats& st)
{
  // nameMode 0: absolute paths, no container / prefix.  nameMode 1: container directory + prefix and
  // relative logical names (some of them one or two characters long)
  std::string n1, n2, f1, f2;
  if (nameMode == 0) { n1 = f1 = dir + "/a" + std::to_string(counter) + ".nf"; n2 = f2 = dir + "/b" + std::to_string(counter) + ".nf"; }
  else
  {
    if (counter % 5 == 0) { n1 = "a"; n2 = "b"; } else if (counter % 5 == 1) { n1 = "aa"; n2 = "bb"; } else { n1 = "a" + std::to_string(counter) + ".nf"; n2 = "b" + std::to_string(counter) + ".nf"; }
    f1 = dir + "/px-" + n1; f2 = dir + "/px-" + n2;
  }
  counter++;
  if (!obj->dumpToNF(n1)) { printf("f same %s dump ok failed =>\n", cls); return; }
  T* back = load(n1);
  if (back == nullptr) { printf("f same %s reload loaded null =>\n", cls); st.hit(std::string("reload_null_") + cls); unlink(f1.c_str()); return; }
  back->dumpToNF(n2);
  std::string c1 = slurp(f1), c2 = slurp(f2);
  // third generation: from the second file on the text must be a fixed point
  T* back2 = load(n2);
  if (back2 == nullptr) { printf("f same %s reload2 loaded null =>\n", cls); }
  else { std::string n3 = n2 + "3", f3 = f2 + "3"; back2->dumpToNF(n3); std::string c3 = slurp(f3); unlink(f3.c_str());
         printf("f same %s file-gen2-gen3 %s %s =>\n", cls, fnv(c2).c_str(), fnv(c3).c_str());
         printf("f same %s display-gen2-gen3 %s %s =>\n", cls, fnv(back->toString()).c_str(), fnv(back2->toString()).c_str());
         delete back2; }
  // first generation: the original may hold values with more than 15 digits; derived quantities
  // recomputed by the reader may then move by one unit of the 15th digit (decided by the model)
  if (c1 == c2) printf("f same %s file %s %s =>\n", cls, fnv(c1).c_str(), fnv(c2).c_str());
  else
  {
    std::vector<std::string> t1, t2; { std::istringstream a(c1), b(c2); std::string t; while (a >> t) t1.push_back(t); while (b >> t) t2.push_back(t); }
    bool structural = t1.size() != t2.size(); int nnum = 0;
    for (size_t i = 0; !structural && i < t1.size(); i++)
    {
      if (t1[i] == t2[i]) continue;
      char *e1, *e2; double a = strtod(t1[i].c_str(), &e1), b = strtod(t2[i].c_str(), &e2);
      if (*e1 || *e2 || !std::isfinite(a) || !std::isfinite(b)) { structural = true; break; }
      printf("f dig15 %s %s %s =>\n", cls, dy(a).c_str(), dy(b).c_str()); nnum++;
    }
    if (structural) printf("f same %s file %s %s =>\n", cls, fnv(c1).c_str(), fnv(c2).c_str());
    st.hit("files_equal_up_to_15th_digit");
    if (getenv("VERIF_DEBUG")) fprintf(stderr, "---- %s\n%s---- reloaded\n%s", cls, c1.c_str(), c2.c_str());
  }
  {
    // the display prints a few decimals: a value lying on a rounding tie of that format may print differently after its
    // 15-digit round trip (2.6725 -> "2.673" / "2.672"); such a pair of displays is equal up to one unit of the last
    // printed decimal and is reported as such, anything else is compared exactly
    std::string d1 = obj->toString(), d2 = back->toString();
    bool tieOnly = false;
    if (d1 != d2)
    {
      std::vector<std::string> t1, t2; { std::istringstream a(d1), b(d2); std::string t; while (a >> t) t1.push_back(t); while (b >> t) t2.push_back(t); }
      tieOnly = t1.size() == t2.size();
      for (size_t i = 0; tieOnly && i < t1.size(); i++)
      {
        if (t1[i] == t2[i]) continue;
        char *e1, *e2; double a = strtod(t1[i].c_str(), &e1), b = strtod(t2[i].c_str(), &e2);
        size_t p1 = t1[i].find('.'), p2 = t2[i].find('.');
        int dec1 = p1 == std::string::npos ? 0 : (int)(t1[i].size() - p1 - 1), dec2 = p2 == std::string::npos ? 0 : (int)(t2[i].size() - p2 - 1);
        if (*e1 || *e2 || dec1 != dec2 || !(std::fabs(a - b) <= 1.0000001 * std::pow(10., -dec1))) tieOnly = false;
      }
    }
    if (tieOnly) { printf("f same %s display-up-to-printing-tie same same =>\n", cls); st.hit("display_equal_up_to_a_printing_tie"); }
    else printf("f same %s display %s %s =>\n", cls, fnv(d1).c_str(), fnv(d2).c_str());
  }
  if (getenv("VERIF_DEBUG") && obj->toString() != back->toString()) fprintf(stderr, "==== display of %s differs\n%s==== after reload\n%s==== file\n%s", cls, obj->toString().c_str(), back->toString().c_str(), c1.c_str());
  st.hit(std::string("class_") + cls);
  delete back; unlink(f1.c_str()); unlink(f2.c_str());
}

int main()
{
  muteLibrary();
  Rng rng(seedFromEnv() * 7919 + 8);
  long n = envLong("VERIF_CASES", thorough() ? 1500 : 40);
  Stats st;
  char tmpl[] = "/var/tmp/vh_c08_XXXXXX";
  dir = mkdtemp(tmpl);
  ASerializable::setContainerName(false, "", false);
  ASerializable::setPrefixName("");
  static const char* locNames[] = {"x", "z", "v", "f", "g", "lower", "upper", "p", "w", "code", "sel", "dom", "dblk", "adir", "adip", "size", "bu", "bd", "time", "layer", "nostat", "tangent", "ncsimu", "facies", "gausfac", "date", "rklow", "rkup", "sum"};
  for (long it = 0; it < n; it++)
  {
    int ndim = (int)rng.range(1, 3);
    defineDefaultSpace(ESpaceType::RN, ndim);
    nameMode = rng.coin(0.3) ? 1 : 0;
    if (nameMode == 1) { ASerializable::setContainerName(false, dir + "/", false); ASerializable::setPrefixName("px-"); st.hit("container_and_prefix"); }
    else { ASerializable::setContainerName(false, "", false); ASerializable::setPrefixName(""); }
    // ---- Db with assorted roles, undefined values, extreme magnitudes (<= 15 significant digits)
    {
      int nech = (int)rng.range(1, 6), ncolx = (int)rng.range(0, 4);
      auto X = genPoints(rng, nech, ndim, 8);
      Db* db = makeDb(X, ndim, {}, {}, {}, {});
      for (int k = 0; k < ncolx; k++)
      {
        int lt = (int)rng.range(0, 28);
        int uid = db->addColumnsByConstant(1, 0., std::string("c") + std::to_string(k), rng.coin(0.7) ? ELoc::fromValue(lt) : ELoc::UNKNOWN);
        for (int i = 0; i < nech; i++)
        {
          double u = rng.unit(), v;
          if (u < 0.15) v = TEST; else if (u < 0.5) v = rng.dyadic(-100, 100, 4); else if (u < 0.7) v = (double)rng.range(-999999, 999999) * 1e-9;
          else if (u < 0.85) v = (double)rng.range(1, 999999999) * 1e12; else v = (double)rng.range(-99999, 99999) / 7.;
          db->setArray(i, uid, v);
        }
      }
      roundTrip("Db", db, [](const std::string& f) { return Db::createFromNF(f, false); }, st);
      // model comparison of the file content
      {
        int savedMode = nameMode; ASerializable::setContainerName(false, "", false); ASerializable::setPrefixName(""); nameMode = 0;
        std::string f1 = dir + "/m.nf"; db->dumpToNF(f1); std::string content = slurp(f1); unlink(f1.c_str());
        int ncol = db->getColumnNumber();
        std::string locs, names, vals;
        // the value tokens are taken from the file itself (number formatting is outside the model):
        // rows = last nech non-comment lines
        std::vector<std::string> lines; { std::istringstream ls(content); std::string l; while (std::getline(ls, l)) lines.push_back(l); }
        for (int c = 0; c < ncol; c++)
        {
          ELoc lt; int li; bool ok = db->getLocatorByColIdx(c, &lt, &li);
          std::string ln = ok ? (std::string(locNames[lt.getValue()]) + ((lt.getValue() == 8 || lt.getValue() == 9 || lt.getValue() == 10 || lt.getValue() == 11 || (lt.getValue() >= 13 && lt.getValue() <= 17) || lt.getValue() == 19 || lt.getValue() == 25) ? "" : std::to_string(li + 1))) : "NA";
          locs += (c ? "," : "") + ln; names += (c ? "," : "") + db->getNameByColIdx(c);
        }
        int nl = (int)lines.size();
        for (int i = 0; i < nech; i++) { std::istringstream ts(lines[nl - nech + i]); std::string t; int k = 0; while (ts >> t) { vals += ((i || k) ? "," : "") + t; k++; } }
        printf("f dbser %d %d %s %s %s =>%s\n", ncol, nech, locs.c_str(), names.c_str(), vals.empty() ? "-" : vals.c_str(), fileTokens(content).c_str());
        st.hit("db_model_files");
        nameMode = savedMode;
        if (nameMode == 1) { ASerializable::setContainerName(false, dir + "/", false); ASerializable::setPrefixName("px-"); }
      }
      delete db;
    }
    // ---- DbGrid
    {
      VectorInt nx(ndim); VectorDouble dx(ndim), x0(ndim), ang;
      for (int d = 0; d < ndim; d++) { nx[d] = (int)rng.range(1, 3); dx[d] = rng.dyadic(0, 3, 2) + 0.25; x0[d] = rng.dyadic(-50, 50, 2); }
      if (ndim >= 2 && rng.coin(0.5)) { ang = VectorDouble(ndim, 0.); ang[0] = (double)rng.range(-170, 170); }
      DbGrid* g = DbGrid::create(nx, dx, x0, ang);
      if (g)
      {
        g->addColumnsByConstant(1, 1.5, "val", ELoc::Z);
        if (rng.coin(0.5)) { int uid = g->addColumnsByConstant(1, 0., "w2", rng.coin() ? ELoc::V : ELoc::UNKNOWN); for (int i = 0; i < g->getSampleNumber(); i++) g->setArray(i, uid, rng.coin(0.2) ? TEST : rng.dyadic(-50, 50, 3)); }
        roundTrip("DbGrid", g, [](const std::string& f) { return DbGrid::createFromNF(f, false); }, st);
        // model comparison of the file content: grid header + table part
        {
          int savedMode = nameMode; ASerializable::setContainerName(false, "", false); ASerializable::setPrefixName(""); nameMode = 0;
          std::string f1 = dir + "/mg.nf"; g->dumpToNF(f1); std::string content = slurp(f1); unlink(f1.c_str());
          int ncol = g->getColumnNumber(), nechg = g->getSampleNumber();
          std::vector<std::string> lines; { std::istringstream ls(content); std::string l; while (std::getline(ls, l)) lines.push_back(l); }
          std::string dimt, locs, names, vals; bool okf = (int)lines.size() >= 3 + ndim + nechg;
          for (int d = 0; okf && d < ndim; d++)
          {
            std::istringstream ts(lines[3 + d]); std::string t; int k = 0; std::vector<std::string> tk; while (ts >> t) tk.push_back(t);
            if (tk.size() != 4 || tk[0] != std::to_string(nx[d])) { okf = false; break; }     // the number of nodes is an integer: its text is known
            for (auto& x : tk) { dimt += ((d || k) ? "," : "") + x; k++; }
          }
          for (int c = 0; c < ncol; c++)
          {
            ELoc lt; int li; bool ok = g->getLocatorByColIdx(c, &lt, &li);
            std::string ln = ok ? (std::string(locNames[lt.getValue()]) + ((lt.getValue() == 8 || lt.getValue() == 9 || lt.getValue() == 10 || lt.getValue() == 11 || (lt.getValue() >= 13 && lt.getValue() <= 17) || lt.getValue() == 19 || lt.getValue() == 25) ? "" : std::to_string(li + 1))) : "NA";
            locs += (c ? "," : "") + ln; names += (c ? "," : "") + g->getNameByColIdx(c);
          }
          int nl = (int)lines.size();
          for (int i = 0; okf && i < nechg; i++) { std::istringstream ts(lines[nl - nechg + i]); std::string t; int k = 0; while (ts >> t) { vals += ((i || k) ? "," : "") + t; k++; } }
          if (okf) { printf("f gridser %d %s %d %d %s %s %s =>%s\n", ndim, dimt.c_str(), ncol, nechg, locs.c_str(), names.c_str(), vals.empty() ? "-" : vals.c_str(), fileTokens(content).c_str()); st.hit("dbgrid_model_files"); }
          else printf("f same DbGrid file-layout expected-header unexpected =>\n");
          nameMode = savedMode;
          if (nameMode == 1) { ASerializable::setContainerName(false, dir + "/", false); ASerializable::setPrefixName("px-"); }
        }
        delete g;
      }
    }
    // ---- Model
    {
      std::string t; int nvar = (int)rng.range(1, 2);
      Model* m = genModel(rng, ndim, nvar, (int)rng.range(-1, 1), 0, t, st);
      if (m) { if (rng.coin(0.5)) m->setMeans(VectorDouble(nvar, 1.25)); roundTrip("Model", m, [](const std::string& f) { return Model::createFromNF(f, false); }, st); delete m; }
    }
    // ---- neighbourhoods
    {
      NeighUnique* nu = NeighUnique::create(rng.coin());
      roundTrip("NeighUnique", nu, [](const std::string& f) { return NeighUnique::createFromNF(f, false); }, st); delete nu;
      VectorDouble coeffs, angles;
      if (rng.coin(0.5)) { for (int d = 0; d < ndim; d++) coeffs.push_back(rng.coin() ? 1. : 0.5); if (ndim >= 2 && rng.coin()) { angles = VectorDouble(ndim, 0.); angles[0] = 30.; } }
      NeighMoving* nm = NeighMoving::create(rng.coin(), (int)rng.range(2, 20), rng.dyadic(1, 30, 1), (int)rng.range(1, 3), (int)rng.range(1, 8), (int)rng.range(1, 5), coeffs, angles);
      roundTrip("NeighMoving", nm, [](const std::string& f) { return NeighMoving::createFromNF(f, false); }, st); delete nm;
      NeighBench* nb = NeighBench::create(rng.coin(), rng.dyadic(0, 5, 2) + 0.5);
      roundTrip("NeighBench", nb, [](const std::string& f) { return NeighBench::createFromNF(f, false); }, st); delete nb;
    }
    // ---- Vario
    {
      int nech = (int)rng.range(6, 15);
      auto X = genPoints(rng, nech, ndim, 6);
      std::vector<std::vector<double>> Z(1, std::vector<double>(nech)); for (auto& v : Z[0]) v = rng.dyadic(-4, 4, 3);
      Db* db = makeDb(X, ndim, Z, {}, {}, {});
      DirParam* dp = DirParam::create((int)rng.range(2, 6), rng.dyadic(0, 2, 2) + 0.5);
      VarioParam vp; vp.addDir(*dp);
      Vario* v = Vario::computeFromDb(vp, db);
      if (v) { roundTrip("Vario", v, [](const std::string& f) { return Vario::createFromNF(f, false); }, st); delete v; }
      delete dp; delete db;
    }
    // ---- Polygons, Table, Rule, anamorphosis, turbo mesh
    {
      Polygons pol;
      int ne = (int)rng.range(1, 3);
      for (int k = 0; k < ne; k++) { VectorDouble x = {0. + k, 4. + k, 4. + k, 0. + k}, y = {0., 0., 3., 3.}; pol.addPolyElem(PolyElem(x, y, rng.coin() ? TEST : -1., rng.coin() ? TEST : 2.5)); }
      roundTrip("Polygons", &pol, [](const std::string& f) { return Polygons::createFromNF(f, false); }, st);
      Table* tb = Table::create((int)rng.range(1, 4), (int)rng.range(1, 3));
      for (int i = 0; i < tb->getNRows(); i++) for (int j = 0; j < tb->getNCols(); j++) tb->setValue(i, j, rng.coin(0.1) ? TEST : rng.dyadic(-9, 9, 3));
      roundTrip("Table", tb, [](const std::string& f) { return Table::createFromNF(f, false); }, st); delete tb;
      Rule* rule = Rule::createFromNames({"S", "T", "F1", "F2", "F3"});
      if (rule) { roundTrip("Rule", rule, [](const std::string& f) { return Rule::createFromNF(f, false); }, st); delete rule; }
      AnamHermite* an = AnamHermite::create((int)rng.range(3, 12));
      VectorDouble data; for (int i = 0; i < 40; i++) data.push_back(rng.dyadic(0, 20, 3) + rng.unit());
      if (an->fitFromArray(data) == 0) roundTrip("AnamHermite", an, [](const std::string& f) { return AnamHermite::createFromNF(f, false); }, st);
      delete an;
      // ---- further classes of the statement: other neighbourhoods, faults, fractures, lines, meshes, anamorphoses
      NeighCell* nc = NeighCell::create(rng.coin(), (int)rng.range(1, 9));
      roundTrip("NeighCell", nc, [](const std::string& f) { return NeighCell::createFromNF(f, false); }, st); delete nc;
      { VectorInt im(ndim); for (auto& v : im) v = (int)rng.range(1, 4);
        NeighImage* ni = NeighImage::create(im, (int)rng.range(0, 3));
        roundTrip("NeighImage", ni, [](const std::string& f) { return NeighImage::createFromNF(f, false); }, st); delete ni; }
      { int np = (int)rng.range(2, 6); VectorDouble x(np), y(np); for (int i = 0; i < np; i++) { x[i] = rng.dyadic(-20, 20, 3); y[i] = rng.dyadic(-20, 20, 3) / 3.; }
        PolyLine2D* pl = PolyLine2D::create(x, y);
        roundTrip("PolyLine2D", pl, [](const std::string& f) { return PolyLine2D::createFromNF(f, false); }, st);
        Faults fl; int nf = (int)rng.range(0, 3); for (int k = 0; k < nf; k++) fl.addFault(*pl);
        roundTrip("Faults", &fl, [](const std::string& f) { return Faults::createFromNF(f, false); }, st); delete pl; }
      { FracEnviron* env = FracEnviron::create(rng.dyadic(10, 100, 1), rng.dyadic(10, 100, 1), rng.dyadic(0, 2, 2), rng.dyadic(0, 2, 2), rng.dyadic(1, 30, 1), rng.dyadic(0, 9, 1) / 3.);
        int nfam = (int)rng.range(0, 3), nfault = (int)rng.range(0, 2);
        for (int k = 0; k < nfam; k++) env->addFamily(FracFamily(rng.dyadic(0, 90, 1), rng.dyadic(1, 20, 1), 0.2, 1., 1., 0.5, 0.2, 1.2 + k, 2.4, rng.dyadic(1, 9, 2)));
        for (int k = 0; k < nfault; k++) { FracFault ff(rng.dyadic(0, 50, 1), rng.dyadic(0, 40, 1)); for (int j = 0; j < nfam; j++) ff.addFaultPerFamily(1. + j, 2., 10., 20. / 3.); env->addFault(ff); }
        roundTrip("FracEnviron", env, [](const std::string& f) { return FracEnviron::createFromNF(f, false); }, st); delete env; }
      { DbLine* dl = DbLine::createFillRandom(ndim, (int)rng.range(1, 3), (int)rng.range(1, 4), 5., VectorDouble(), 0.3, (int)rng.range(1, 99999));
        if (dl) { roundTrip("DbLine", dl, [](const std::string& f) { return DbLine::createFromNF(f, false); }, st); delete dl; } }
      if (ndim == 2)
      { MatrixRectangular ap(4, 2); double xs[4] = {0, 1, 0, 1.5}, ys[4] = {0, 0, 1, 1.25}; for (int i = 0; i < 4; i++) { ap.setValue(i, 0, xs[i] + rng.dyadic(0, 3, 3)); ap.setValue(i, 1, ys[i] / 3.); }
        MatrixInt ms(2, 3); int t[2][3] = {{0, 1, 2}, {1, 3, 2}}; for (int i = 0; i < 2; i++) for (int j = 0; j < 3; j++) ms.setValue(i, j, t[i][j]);
        MeshEStandard* me = MeshEStandard::createFromExternal(ap, ms);
        if (me) { roundTrip("MeshEStandard", me, [](const std::string& f) { return MeshEStandard::createFromNF(f, false); }, st); delete me; } }
      { VectorInt nxm(ndim); VectorDouble dxm(ndim), x0m(ndim); for (int d = 0; d < ndim; d++) { nxm[d] = (int)rng.range(2, 3); dxm[d] = 0.5 + rng.dyadic(0, 2, 2); x0m[d] = rng.dyadic(-5, 5, 2); }
        if (ndim >= 2) { DbMeshTurbo* dm = DbMeshTurbo::create(nxm, dxm, x0m);
          if (dm) { roundTrip("DbMeshTurbo", dm, [](const std::string& f) { return DbMeshTurbo::createFromNF(f, false); }, st); delete dm; } } }
      { AnamDiscreteDD* dd = AnamDiscreteDD::create(1. + rng.dyadic(0, 2, 2), 0.);
        if (dd->fitFromArray(data) == 0) roundTrip("AnamDiscreteDD", dd, [](const std::string& f) { return AnamDiscreteDD::createFromNF(f, false); }, st);
        delete dd;
        AnamEmpirical* ae = AnamEmpirical::create((int)rng.range(10, 40));
        if (ae->fitFromArray(data) == 0) roundTrip("AnamEmpirical", ae, [](const std::string& f) { return AnamEmpirical::createFromNF(f, false); }, st);
        delete ae; }
      // ---- grid exchange formats that are both written and read (values within the digits of each format)
      {
        auto gridSig = [](DbGrid* g, int nd, const VectorInt& cols) {
          std::string sg;
          for (int d = 0; d < nd; d++) sg += std::to_string(g->getNX(d)) + "," + dy(g->getDX(d)) + "," + dy(g->getX0(d)) + ";";
          sg += "angle=" + dy(g->getAngle(0)) + ";";
          for (int c : cols) { for (int i = 0; i < g->getSampleNumber(); i++) sg += dyNA(g->getArray(i, c)) + ","; sg += ";"; }
          return sg; };
        VectorInt nz = {(int)rng.range(2, 4), (int)rng.range(2, 4)}; VectorDouble dz = {0.125 * rng.range(1, 40), 0.125 * rng.range(1, 40)}, z0 = {0.125 * rng.range(-800, 800), 0.125 * rng.range(-800, 800)};
        DbGrid* g = DbGrid::create(nz, dz, z0);
        int uid = g->addColumnsByConstant(1, 0., "v", ELoc::Z);
        for (int i = 0; i < g->getSampleNumber(); i++) g->setArray(i, uid, rng.coin(0.2) ? TEST : (double)rng.range(-99999, 99999) / 1000.);
        std::string fz = dir + "/z.zyc";
        if (db_grid_write_zycor(fz.c_str(), g, uid) == 0)
        {
          DbGrid* gb = db_grid_read_zycor(fz.c_str());
          if (!gb) printf("f same Zycor reload loaded null =>\n");
          else { printf("f same Zycor grid %s %s =>\n", fnv(gridSig(g, 2, {uid})).c_str(), fnv(gridSig(gb, 2, {gb->getColumnNumber() - 1})).c_str()); delete gb; }
          st.hit("class_Zycor");
        }
        unlink(fz.c_str()); delete g;
        VectorInt n3 = {(int)rng.range(1, 3), (int)rng.range(1, 3), (int)rng.range(1, 3)}; VectorDouble d3 = {0.125 * rng.range(1, 40), 0.125 * rng.range(1, 40), 1.}, o3 = {0.125 * rng.range(-800, 800), 0.125 * rng.range(-800, 800), 0.};
        VectorDouble a3; if (rng.coin()) a3 = {(double)rng.range(-80, 80), 0., 0.};
        DbGrid* g3 = DbGrid::create(n3, d3, o3, a3);
        int nc = (int)rng.range(1, 2); std::vector<int> uids; VectorInt cols;
        for (int c = 0; c < nc; c++) { int u = g3->addColumnsByConstant(1, 0., std::string("p") + std::to_string(c)); uids.push_back(u); cols.push_back(u);
          for (int i = 0; i < g3->getSampleNumber(); i++) g3->setArray(i, u, rng.coin(0.2) ? TEST : (double)rng.range(0, 1000) / 1000.); }
        std::string fi = dir + "/z.ifp";
        if (db_grid_write_ifpen(fi.c_str(), g3, nc, uids.data()) == 0)
        {
          DbGrid* gb = db_grid_read_ifpen(fi.c_str());
          if (!gb) printf("f same IfpEn reload loaded null =>\n");
          else { VectorInt cb; for (int c = 0; c < nc; c++) cb.push_back(gb->getColumnNumber() - nc + c);
                 printf("f same IfpEn%d grid %s %s =>\n", nc, fnv(gridSig(g3, 3, cols)).c_str(), fnv(gridSig(gb, 3, cb)).c_str());
                 if (getenv("VERIF_DEBUG") && gridSig(g3, 3, cols) != gridSig(gb, 3, cb)) fprintf(stderr, "IfpEn\n%s\n%s\n", gridSig(g3, 3, cols).c_str(), gridSig(gb, 3, cb).c_str());
                 delete gb; }
          st.hit("class_IfpEn");
        }
        unlink(fi.c_str()); delete g3;
      }
      VectorInt nx(ndim, 3);
      MeshETurbo* mesh = MeshETurbo::create(nx);
      if (mesh) { roundTrip("MeshETurbo", mesh, [](const std::string& f) { return MeshETurbo::createFromNF(f, false); }, st); delete mesh; }
    }
  }
  std::filesystem::remove_all(dir);
  st.dump(stdout);
  return 0;
}
