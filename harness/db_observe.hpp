// Full observable state of a Db (shared by the C07 and C19 harnesses).
#pragma once
#include "common.hpp"
#include "Db/Db.hpp"
#include "Db/DbGrid.hpp"
#include "Enum/ELoc.hpp"
namespace vh {
static const int NLOC = 29;

inline std::string val(double v) { return std::isfinite(v) ? dyNA(v) : std::string("NA"); }   // non-finite values (only from damaged files) are shown as undefined

inline std::string observe(const Db* db)
{
  std::ostringstream os;
  int ncol = db->getColumnNumber();
  int nech = db->getSampleNumber(false);
  int umax = db->getUIDMaxNumber();
  os << "N=" << ncol << " E=" << nech << " U=" << umax;
  os << " names=";
  if (ncol == 0) os << "-";
  for (int i = 0; i < ncol; i++) os << (i ? "," : "") << db->getNameByColIdx(i);
  std::vector<int> uids;
  for (int i = 0; i < ncol; i++) uids.push_back(db->getUIDByColIdx(i));
  os << " uids=" << vecI(uids);
  os << " loc=";
  bool any = false;
  for (int t = 0; t < NLOC; t++)
  {
    ELoc lt = ELoc::fromValue(t);
    int n = db->getLocatorNumber(lt);
    if (n <= 0) continue;
    std::vector<int> us;
    for (int i = 0; i < n; i++) us.push_back(db->getUIDByLocator(lt, i));
    os << (any ? "/" : "") << t << ":" << vecI(us);
    any = true;
  }
  if (!any) os << "-";
  os << " vals=";
  if (ncol == 0) os << "-";
  for (int c = 0; c < ncol; c++)
  {
    if (c) os << "/";
    if (nech == 0) os << "~";
    for (int e = 0; e < nech; e++) os << (e ? "," : "") << val(db->getValueByColIdx(e, c));
  }
  os << " act=" << db->getSampleNumber(true);
  std::vector<int> cu;
  std::string def;
  for (int u = 0; u < umax; u++) { cu.push_back(db->getColIdxByUID(u)); def += db->isUIDDefined(u) ? '1' : '0'; }
  os << " cu=" << vecI(cu);
  os << " bycol=";
  if (ncol == 0) os << "-";
  for (int c = 0; c < ncol; c++)
  {
    ELoc lt; int li;
    bool ok = db->getLocatorByColIdx(c, &lt, &li);
    if (c) os << ",";
    if (ok) os << lt.getValue() << ":" << li; else os << "_";
  }
  std::vector<int> idx;
  for (int c = 0; c < ncol; c++) idx.push_back(db->getColIdx(db->getNameByColIdx(c)));
  os << " idx=" << vecI(idx);
  os << " def=" << (def.empty() ? "-" : def);
  return os.str();
}

} // namespace vh
