// Correspondence harness for C04: accelerated code paths give the same answers as the plain ones.
// Each request line carries the answers of two paths of the library on the same input; the Lean
// driver judges their agreement (op `k rel same`, tolerance 2^-20 of the scale).  Decisions that a
// tie would make ambiguous (equidistant nearest samples) are detected in exact integer arithmetic
// on the dyadic lattice and skipped.
#include "krig_common.hpp"
#include "Estimation/KrigingCalcul.hpp"
#include "Calculators/CalcMigrate.hpp"
#include "Matrix/MatrixSquareSymmetric.hpp"
#include "Matrix/MatrixRectangular.hpp"
using namespace vh;

struct Run { std::vector<double> est, sd; bool ok; };

static Run collect(Db* dbout, int ncol0, int nvar)
{
  Run r; r.ok = true;
  int nt = dbout->getSampleNumber();
  for (int t = 0; t < nt; t++)
    for (int a = 0; a < nvar; a++) { r.est.push_back(dbout->getValueByColIdx(t, ncol0 + a)); r.sd.push_back(dbout->getValueByColIdx(t, ncol0 + nvar + a)); }
  for (double v : r.est) if (FFFF(v) || std::isnan(v)) r.ok = false;
  for (int k = 2 * nvar - 1; k >= 0; k--) dbout->deleteColumnByColIdx(ncol0 + k);
  return r;
}
static Run runKrig(Db* dbin, Db* dbout, Model* model, ANeigh* neigh, int nvar, const EKrigOpt& opt = EKrigOpt::POINT, const VectorInt& nd = VectorInt())
{
  int ncol0 = dbout->getColumnNumber();
  if (kriging(dbin, dbout, model, neigh, opt, true, true, false, nd) != 0) { Run r; r.ok = false; return r; }
  return collect(dbout, ncol0, nvar);
}
static void same(const char* what, const std::vector<double>& e1, const std::vector<double>& e2, const std::vector<double>& s1, const std::vector<double>& s2, double scale, Stats& st)
{
  printf("k pair %s %s %s %s %s %s =>\n", what, vecD(e1).c_str(), vecD(e2).c_str(), vecD(s1).c_str(), vecD(s2).c_str(), dy(scale).c_str());
  st.hit(std::string("pair_") + what);
}
static std::vector<double> flat(const AMatrix& m) { std::vector<double> v; for (int i = 0; i < m.getNRows(); i++) for (int j = 0; j < m.getNCols(); j++) v.push_back(m.getValue(i, j)); return v; }

// exact squared distance on the dyadic lattice (coordinates are multiples of 1/64)
static long long d2(const std::vector<double>& a, const std::vector<double>& b) { long long s = 0; for (size_t k = 0; k < a.size(); k++) { long long d = llround((a[k] - b[k]) * 64.); s += d * d; } return s; }

int main()
{
  muteLibrary();
  Rng rng(seedFromEnv() * 7919 + 4);
  long ncfg = envLong("VERIF_CASES", thorough() ? 3000 : 200);
  Stats st;
  for (long ic = 0; ic < ncfg; ic++)
  {
    int ndim = (int)rng.range(1, 3);
    int nvar = rng.coin(0.7) ? 1 : 2;
    int nech = (int)rng.range(6, 14);
    int order = (int)rng.range(-1, 1);
    defineDefaultSpace(ESpaceType::RN, ndim);
    auto X = genPoints(rng, nech, ndim, 8);
    std::vector<std::vector<double>> Z(nvar, std::vector<double>(nech));
    for (int a = 0; a < nvar; a++) for (int i = 0; i < nech; i++) Z[a][i] = rng.dyadic(-8, 8, 3);
    int ntarget = 3;
    auto X0 = genPoints(rng, ntarget, ndim, 8);
    // targets off the lattice of the data, with a different offset per dimension (few exact ties)
    for (auto& p : X0) for (int d = 0; d < ndim; d++) p[d] += 1. / (16 << d);
    std::string mtext;
    Model* model = genModel(rng, ndim, nvar, order, 0, mtext, st);
    if (model == nullptr) continue;
    VectorDouble means(nvar, 0.);
    if (order < 0) { for (int a = 0; a < nvar; a++) means[a] = rng.dyadic(-3, 3, 2); model->setMeans(means); }
    Db* dbin = makeDb(X, ndim, Z, {}, {}, {});
    Db* dbout = makeDb(X0, ndim, {}, {}, {}, {});
    double zs = 8.;

    // ---- (a) covariance matrices: optimised vs plain vs pairwise
    {
      MatrixSquareSymmetric S1 = model->evalCovMatrixSymmetric(dbin);
      MatrixSquareSymmetric S2 = model->evalCovMatrixSymmetricOptim(dbin);
      MatrixRectangular R1 = model->evalCovMatrix(dbin, dbout);
      MatrixRectangular R2 = model->evalCovMatrixOptim(dbin, dbout);
      if (S2.getNRows() == S1.getNRows()) same("covmat_sym_optim", flat(S1), flat(S2), {}, {}, 1., st);
      if (R2.getNRows() == R1.getNRows() && R2.getNCols() == R1.getNCols()) same("covmat_rect_optim", flat(R1), flat(R2), {}, {}, 1., st);
      // pairwise single-pair API (variable-major blocks)
      std::vector<SpacePoint> P; for (auto& x : X) P.push_back(SpacePoint(VectorDouble(x.begin(), x.end())));
      std::vector<double> pw;
      for (int a = 0; a < nvar; a++) for (int i = 0; i < nech; i++) for (int b = 0; b < nvar; b++) for (int j = 0; j < nech; j++)
        pw.push_back(i == j ? model->eval0(a, b) : model->eval(P[i], P[j], a, b));
      if ((int)pw.size() == S1.getNRows() * S1.getNCols()) same("covmat_pairwise", flat(S1), pw, {}, {}, 1., st);
    }

    // ---- (a') covariance matrices on a data base holding duplicated locations (legal for a
    // covariance matrix, e.g. with a nugget effect or measurement errors; never used for kriging here)
    {
      auto Xd = X; auto Zd = Z; int ndup = (int)rng.range(1, 3);
      for (int k = 0; k < ndup; k++) { int i = (int)rng.range(0, nech - 1); Xd.push_back(X[i]); for (int a = 0; a < nvar; a++) Zd[a].push_back(Z[a][i] + 1.); }
      Db* dd = makeDb(Xd, ndim, Zd, {}, {}, {});
      MatrixSquareSymmetric S1 = model->evalCovMatrixSymmetric(dd), S2 = model->evalCovMatrixSymmetricOptim(dd);
      MatrixRectangular R1 = model->evalCovMatrix(dd, dd), R2 = model->evalCovMatrixOptim(dd, dd);
      if (S2.getNRows() == S1.getNRows()) same("covmat_sym_optim_duplicates", flat(S1), flat(S2), {}, {}, 1., st);
      if (R2.getNRows() == R1.getNRows() && R2.getNCols() == R1.getNCols()) same("covmat_rect_optim_duplicates", flat(R1), flat(R2), {}, {}, 1., st);
      same("covmat_sym_vs_rect_duplicates", flat(S1), flat(R1), {}, {}, 1., st);
      delete dd;
    }

    ANeigh* neighU = NeighUnique::create();
    Run base = runKrig(dbin, dbout, model, neighU, nvar);
    if (!base.ok) { st.hit("refused"); delete neighU; delete model; delete dbin; delete dbout; continue; }

    // ---- conditioning probe: two different solvers can only be compared when the system is not
    // ill-conditioned.  The data-data covariance is perturbed by 2^-30 (relative) on its diagonal;
    // when the estimates move by more than 2^-24 of their scale the configuration is skipped.
    {
      MatrixSquareSymmetric Sigma = model->evalCovMatrixSymmetric(dbin), SigmaP = Sigma;
      for (int i = 0; i < Sigma.getNRows(); i++) SigmaP.setValue(i, i, Sigma.getValue(i, i) * (1. + ldexp(1., -30)));
      MatrixRectangular Xd = model->evalDriftMatrix(dbin);
      VectorDouble Zc = dbin->getMultipleValuesActive(VectorInt(), VectorInt(), means);
      bool ill = false;
      for (int t = 0; t < ntarget && !ill; t++)
      {
        Db* dt = makeDb({X0[t]}, ndim, {}, {}, {}, {});
        MatrixRectangular Sigma0 = model->evalCovMatrix(dbin, dt); MatrixRectangular Xd0 = model->evalDriftMatrix(dt);
        const MatrixRectangular* px = order >= 0 ? &Xd : nullptr; const MatrixRectangular* px0 = order >= 0 ? &Xd0 : nullptr;
        KrigingCalcul Ka(false), Kb(false);
        if (Ka.setData(&Zc, &means) || Ka.setLHS(&Sigma, px) || Ka.setRHS(&Sigma0, px0) || Kb.setData(&Zc, &means) || Kb.setLHS(&SigmaP, px) || Kb.setRHS(&Sigma0, px0)) ill = true;
        else { VectorDouble ea = Ka.getEstimation(), eb = Kb.getEstimation(); if (ea.size() != eb.size() || ea.empty()) ill = true; else for (size_t a = 0; a < ea.size(); a++) if (!(std::fabs(ea[a] - eb[a]) <= ldexp(1., -24) * std::max(8., std::fabs(ea[a])))) ill = true; }
        delete dt;
      }
      if (ill) { st.hit("skipped_ill_conditioned"); delete neighU; delete model; delete dbin; delete dbout; continue; }
      st.hit("well_conditioned");
    }

    // ---- (b) unique neighbourhood vs moving neighbourhood holding every sample
    {
      NeighMoving* nm = NeighMoving::create(false, 10 * nech, 1.e6);
      Run r = runKrig(dbin, dbout, model, nm, nvar);
      if (r.ok) same("unique_vs_wide_moving", base.est, r.est, base.sd, r.sd, zs, st);
      delete nm;
    }

    // ---- (c) cross-validation in unique neighbourhood vs explicit leave-one-out
    if (order <= 0)
    {
      int ncol0 = dbin->getColumnNumber();
      if (xvalid(dbin, model, neighU, false, -1, -1, 0) == 0)
      {
        std::vector<double> xe, xs, le, ls;
        for (int i = 0; i < nech; i++) for (int a = 0; a < nvar; a++) { xe.push_back(dbin->getValueByColIdx(i, ncol0 + a)); xs.push_back(dbin->getValueByColIdx(i, ncol0 + nvar + a)); }
        // xvalid moves the Z role to its outputs: start again from a fresh input data base
        delete dbin; dbin = makeDb(X, ndim, Z, {}, {}, {});
        bool ok = true;
        for (int i = 0; i < nech && ok; i++)
        {
          auto Xi = X; Xi.erase(Xi.begin() + i);
          auto Zi = Z; for (auto& z : Zi) z.erase(z.begin() + i);
          Db* dl = makeDb(Xi, ndim, Zi, {}, {}, {});
          Db* dt = makeDb({X[i]}, ndim, {}, {}, {}, {});
          Run r = runKrig(dl, dt, model, neighU, nvar);
          if (!r.ok) ok = false; else { for (double v : r.est) le.push_back(v); for (double v : r.sd) ls.push_back(v); }
          delete dl; delete dt;
        }
        bool fin = true; for (double v : xe) if (FFFF(v) || std::isnan(v)) fin = false;
        if (ok && fin) same("xvalid_vs_leave_one_out", xe, le, xs, ls, zs, st);
      }
    }

    // ---- (d) ball tree: nearest-point migration and neighbourhood search
    {
      // ties of the nearest sample, decided exactly
      bool tie = false;
      for (auto& t : X0) { long long best = -1, second = -1; for (auto& x : X) { long long d = d2(x, t); if (best < 0 || d < best) { second = best; best = d; } else if (second < 0 || d < second) second = d; } if (best == second) tie = true; }
      if (tie) st.hit("skipped_nearest_tie");
      else
      {
        int n0 = dbout->getColumnNumber();
        bool okA = migrate(dbin, dbout, "z1", 1, VectorDouble(), false, false, false) == 0;
        std::vector<double> mA; if (okA) { for (int t = 0; t < ntarget; t++) mA.push_back(dbout->getValueByColIdx(t, n0)); dbout->deleteColumnByColIdx(n0); }
        bool okB = migrate(dbin, dbout, "z1", 1, VectorDouble(), false, false, true) == 0;
        std::vector<double> mB; if (okB) { for (int t = 0; t < ntarget; t++) mB.push_back(dbout->getValueByColIdx(t, n0)); dbout->deleteColumnByColIdx(n0); }
        if (okA && okB) same("migrate_ball_vs_exhaustive", mA, mB, {}, {}, 1., st);
      }
      int nmaxi = (int)rng.range(3, nech - 1);
      bool tieN = false;   // tie at the nmaxi-th rank
      for (auto& t : X0) { std::vector<long long> ds; for (auto& x : X) ds.push_back(d2(x, t)); std::sort(ds.begin(), ds.end()); if (ds[nmaxi - 1] == ds[nmaxi]) tieN = true; }
      if (tieN) st.hit("skipped_rank_tie");
      else
      {
        NeighMoving* n1 = NeighMoving::create(false, nmaxi, 1.e6);
        NeighMoving* n2 = NeighMoving::create(false, nmaxi, 1.e6); n2->setBallSearch(true, (int)rng.range(1, 6));
        Run r1 = runKrig(dbin, dbout, model, n1, nvar), r2 = runKrig(dbin, dbout, model, n2, nvar);
        if (r1.ok && r2.ok) same("moving_ball_vs_standard", r1.est, r2.est, r1.sd, r2.sd, zs, st);
        // second round with the same neighbourhood objects and the same data base object whose locations have been
        // exchanged in place (sample i takes the place of sample n-1-i: same set of points, hence the same exact tie
        // analysis, other values at each place): a search structure kept from the first round would be stale
        for (int i = 0; i < nech / 2; i++) for (int d = 0; d < ndim; d++)
        { double a = dbin->getCoordinate(i, d), b = dbin->getCoordinate(nech - 1 - i, d); dbin->setCoordinate(i, d, b); dbin->setCoordinate(nech - 1 - i, d, a); }
        Run r3 = runKrig(dbin, dbout, model, n1, nvar), r4 = runKrig(dbin, dbout, model, n2, nvar);
        if (r3.ok && r4.ok) same("moving_ball_vs_standard_after_moving_the_data", r3.est, r4.est, r3.sd, r4.sd, zs, st);
        for (int i = 0; i < nech / 2; i++) for (int d = 0; d < ndim; d++)
        { double a = dbin->getCoordinate(i, d), b = dbin->getCoordinate(nech - 1 - i, d); dbin->setCoordinate(i, d, b); dbin->setCoordinate(nech - 1 - i, d, a); }
        delete n1; delete n2;
      }
    }

    // ---- (e) block kriging with a single discretisation point vs point kriging (grid targets)
    {
      VectorInt nx(ndim, 2); VectorDouble dx(ndim, 0.75), x0(ndim); for (int d = 0; d < ndim; d++) x0[d] = 1. / (16 << d) + rng.range(0, 8);
      DbGrid* g = DbGrid::create(nx, dx, x0);
      Run rp = runKrig(dbin, g, model, neighU, nvar);
      Run rb = runKrig(dbin, g, model, neighU, nvar, EKrigOpt::BLOCK, VectorInt(ndim, 1));
      // the block variance is the point variance minus nothing: same C(v,v) for a single point
      // only the estimates (i.e. the weights): the block variance term C(v,v) is evaluated by design
      // between the regular discretisation and a randomly shifted copy of it, never as C(0)
      if (rp.ok && rb.ok) same("block_1point_vs_point", rp.est, rb.est, {}, {}, zs, st);
      delete g;
    }

    // ---- (g) algebraic calculator (primal, dual, cross-validation) vs the standard system
    {
      MatrixSquareSymmetric Sigma = model->evalCovMatrixSymmetric(dbin);
      MatrixRectangular Xd = model->evalDriftMatrix(dbin);
      MatrixSquareSymmetric S00(nvar); for (int a = 0; a < nvar; a++) for (int b = 0; b < nvar; b++) S00.setValue(a, b, model->eval0(a, b));
      VectorDouble Zc = dbin->getMultipleValuesActive(VectorInt(), VectorInt(), means);
      std::vector<double> ce, cs, de;
      bool ok = true;
      for (int t = 0; t < ntarget && ok; t++)
      {
        Db* dt = makeDb({X0[t]}, ndim, {}, {}, {}, {});
        MatrixRectangular Sigma0 = model->evalCovMatrix(dbin, dt);
        MatrixRectangular Xd0 = model->evalDriftMatrix(dt);
        KrigingCalcul K1(false), K2(true);
        const MatrixRectangular* px = order >= 0 ? &Xd : nullptr; const MatrixRectangular* px0 = order >= 0 ? &Xd0 : nullptr;
        if (K1.setData(&Zc, &means) || K1.setLHS(&Sigma, px) || K1.setRHS(&Sigma0, px0) || K1.setVar(&S00)) ok = false;
        if (ok) { VectorDouble e = K1.getEstimation(), s = K1.getStdv(); if ((int)e.size() != nvar || (int)s.size() != nvar) ok = false; else for (int a = 0; a < nvar; a++) { ce.push_back(e[a]); cs.push_back(s[a]); } }
        if (ok && (K2.setData(&Zc, &means) || K2.setLHS(&Sigma, px) || K2.setRHS(&Sigma0, px0))) ok = false;
        if (ok) { VectorDouble e = K2.getEstimation(); if ((int)e.size() != nvar) ok = false; else for (int a = 0; a < nvar; a++) de.push_back(e[a]); }
        delete dt;
      }
      std::string cfg = "_order" + std::to_string(order) + "_nvar" + std::to_string(nvar);
      if (ok) { same(("calcul_primal_vs_kriging" + cfg).c_str(), base.est, ce, base.sd, cs, zs, st); same(("calcul_dual_vs_kriging" + cfg).c_str(), base.est, de, {}, {}, zs, st); }
      else st.hit("calcul_refused");
    }
    // ---- (h) the other forms of the algebraic calculator against the standard kriging function
    {
      MatrixSquareSymmetric Sigma = model->evalCovMatrixSymmetric(dbin);
      MatrixRectangular Xd = model->evalDriftMatrix(dbin);
      MatrixSquareSymmetric S00(nvar); for (int a = 0; a < nvar; a++) for (int b = 0; b < nvar; b++) S00.setValue(a, b, model->eval0(a, b));
      VectorDouble Zc = dbin->getMultipleValuesActive(VectorInt(), VectorInt(), means);
      const MatrixRectangular* px = order >= 0 ? &Xd : nullptr;
      std::string cfg = "_order" + std::to_string(order) + "_nvar" + std::to_string(nvar);
      // (h1) cross-validation form: the variables of one sample are removed (all of them, or one of two) and
      //      estimated from the rest; reference = kriging() at that location with those values set undefined
      {
        int i0 = (int)rng.range(0, nech - 1);
        VectorInt vx; if (nvar == 1 || rng.coin(0.5)) for (int a = 0; a < nvar; a++) vx.push_back(a); else vx.push_back((int)rng.range(0, nvar - 1));
        const VectorVectorInt index = dbin->getMultipleRanksActive();
        VectorInt eqs = Db::getMultipleSelectedIndices(index, vx, {i0});
        VectorInt vars = Db::getMultipleSelectedVariables(index, vx, {i0});
        Db* dataP = dbin->clone(); for (int a : vx) dataP->setLocVariable(ELoc::Z, i0, a, TEST);
        Db* dt = makeDb({X[i0]}, ndim, {}, {}, {}, {});
        Run ref = runKrig(dataP, dt, model, neighU, nvar);
        MatrixRectangular Sigma0 = model->evalCovMatrix(dbin, dt); MatrixRectangular Xd0 = model->evalDriftMatrix(dt);
        const MatrixRectangular* px0 = order >= 0 ? &Xd0 : nullptr;
        KrigingCalcul K(false);
        bool ok = ref.ok && !(K.setData(&Zc, &means) || K.setLHS(&Sigma, px) || K.setRHS(&Sigma0, px0) || K.setVar(&S00) || K.setXvalidUnique(&eqs, &vars));
        if (ok)
        {
          VectorDouble e = K.getEstimation(), sd = K.getStdv();
          if ((int)e.size() == (int)vx.size() && (int)sd.size() == (int)vx.size())
          {
            std::vector<double> e1, s1, e2, s2; for (size_t k = 0; k < vx.size(); k++) { e1.push_back(ref.est[vx[k]]); s1.push_back(ref.sd[vx[k]]); e2.push_back(e[k]); s2.push_back(sd[k]); }
            same(("calcul_xvalid_vs_kriging" + cfg + (vx.size() == (size_t)nvar ? "_allvars" : "_onevar")).c_str(), e1, e2, s1, s2, zs, st);
          }
          else st.hit("calcul_xvalid_shape");
        }
        else st.hit("calcul_xvalid_refused");
        delete dataP; delete dt;
      }
      // (h2) collocated form (two variables, the second one known at the target): reference = kriging() with the
      //      collocated datum added to the data as a heterotopic sample
      if (nvar == 2)
      {
        int t = 0; double zp = rng.dyadic(-8, 8, 3);
        Db* dataP = dbin->clone(); int ie = dataP->addSamples(1);
        dataP->setSampleCoordinates(ie, VectorDouble(X0[t].begin(), X0[t].end()));
        VectorDouble vt(nvar, TEST); vt[1] = zp; dataP->setLocVariables(ELoc::Z, ie, vt);
        Db* dt = makeDb({X0[t]}, ndim, {}, {}, {}, {});
        Run ref = runKrig(dataP, dt, model, neighU, nvar);
        MatrixRectangular Sigma0 = model->evalCovMatrix(dbin, dt); MatrixRectangular Xd0 = model->evalDriftMatrix(dt);
        const MatrixRectangular* px0 = order >= 0 ? &Xd0 : nullptr;
        VectorDouble zc(nvar, TEST); zc[1] = zp - means[1]; VectorInt rk = {1};
        KrigingCalcul K(false);
        bool ok = ref.ok && !(K.setData(&Zc, &means) || K.setLHS(&Sigma, px) || K.setRHS(&Sigma0, px0) || K.setVar(&S00) || K.setColCokUnique(&zc, &rk));
        if (ok)
        {
          VectorDouble e = K.getEstimation(), sd = K.getStdv();
          // only the first variable: the second one is a datum at the target (exact interpolation: 0/0 forms in both paths)
          if ((int)e.size() == nvar && (int)sd.size() == nvar) same(("calcul_collocated_vs_kriging" + cfg).c_str(), {ref.est[0]}, {e[0]}, {ref.sd[0]}, {sd[0]}, zs, st);
          else st.hit("calcul_collocated_shape");
        }
        else st.hit("calcul_collocated_refused");
        delete dataP; delete dt;
      }
      // (h3) Bayesian form (drift coefficients with a Gaussian prior): reference = kribayes()
      if (order >= 0)
      {
        int nbfl = Xd.getNCols();
        VectorDouble pm(nbfl); for (auto& v : pm) v = rng.dyadic(-2, 2, 2);
        MatrixSquareSymmetric pc(nbfl);
        { // L Lt + I/4 with small dyadic L
          std::vector<std::vector<double>> L(nbfl, std::vector<double>(nbfl, 0.));
          for (int i = 0; i < nbfl; i++) for (int j = 0; j <= i; j++) L[i][j] = 0.25 * (double)rng.range(-2, 2);
          for (int i = 0; i < nbfl; i++) for (int j = 0; j <= i; j++) { double v = (i == j) ? 0.25 : 0.; for (int k = 0; k < nbfl; k++) v += L[i][k] * L[j][k]; pc.setValue(i, j, v); }
        }
        // all the targets in one call of the reference (the data-dependent part is computed once for the run)
        int n0 = dbout->getColumnNumber();
        bool okr = kribayes(dbin, dbout, model, neighU, pm, pc, true, true) == 0;
        Run ref; if (okr) ref = collect(dbout, n0, nvar);
        std::vector<double> ce, cs; bool ok = okr && ref.ok;
        for (int t = 0; t < ntarget && ok; t++)
        {
          Db* dt = makeDb({X0[t]}, ndim, {}, {}, {}, {});
          MatrixRectangular Sigma0 = model->evalCovMatrix(dbin, dt); MatrixRectangular Xd0 = model->evalDriftMatrix(dt);
          KrigingCalcul K(false);
          if (K.setData(&Zc, &means) || K.setLHS(&Sigma, &Xd) || K.setRHS(&Sigma0, &Xd0) || K.setVar(&S00) || K.setBayes(&pm, &pc)) ok = false;
          else { VectorDouble e = K.getEstimation(), sd = K.getStdv(); if ((int)e.size() != nvar || (int)sd.size() != nvar) ok = false; else for (int a = 0; a < nvar; a++) { ce.push_back(e[a]); cs.push_back(sd[a]); } }
          delete dt;
        }
        if (ok) same(("calcul_bayes_vs_kribayes" + cfg).c_str(), ref.est, ce, ref.sd, cs, zs, st);
        else st.hit("calcul_bayes_refused");
        // second reference (independent of kribayes): a Gaussian prior on the drift coefficients is simple kriging of the
        // residuals Z - X m with the covariance Sigma + X S X' (and Sigma0 + X S X0', Sigma00 + X0 S X0'), mean X0 m at the target
        if (ok)
        {
          int n = Sigma.getNRows();
          auto xsx = [&](const MatrixRectangular& A, int i, const MatrixRectangular& B, int j) { double v = 0.; for (int a = 0; a < nbfl; a++) for (int b = 0; b < nbfl; b++) v += A.getValue(i, a) * pc.getValue(a, b) * B.getValue(j, b); return v; };
          MatrixSquareSymmetric SigB(n); for (int i = 0; i < n; i++) for (int j = 0; j <= i; j++) SigB.setValue(i, j, Sigma.getValue(i, j) + xsx(Xd, i, Xd, j));
          VectorDouble Zr(n); for (int i = 0; i < n; i++) { double m = 0.; for (int a = 0; a < nbfl; a++) m += Xd.getValue(i, a) * pm[a]; Zr[i] = Zc[i] - m; }
          std::vector<double> ee, es; bool ok2 = true;
          for (int t = 0; t < ntarget && ok2; t++)
          {
            Db* dt = makeDb({X0[t]}, ndim, {}, {}, {}, {});
            MatrixRectangular Sigma0 = model->evalCovMatrix(dbin, dt); MatrixRectangular Xd0 = model->evalDriftMatrix(dt);
            MatrixRectangular S0B(n, nvar); for (int i = 0; i < n; i++) for (int a = 0; a < nvar; a++) S0B.setValue(i, a, Sigma0.getValue(i, a) + xsx(Xd, i, Xd0, a));
            MatrixSquareSymmetric S00B(nvar); for (int a = 0; a < nvar; a++) for (int b = 0; b <= a; b++) S00B.setValue(a, b, S00.getValue(a, b) + xsx(Xd0, a, Xd0, b));
            VectorDouble m0(nvar, 0.); for (int a = 0; a < nvar; a++) for (int k = 0; k < nbfl; k++) m0[a] += Xd0.getValue(a, k) * pm[k];
            KrigingCalcul K(false);
            if (K.setData(&Zr, &m0) || K.setLHS(&SigB, nullptr) || K.setRHS(&S0B, nullptr) || K.setVar(&S00B)) ok2 = false;
            else { VectorDouble e = K.getEstimation(), sd = K.getStdv(); if ((int)e.size() != nvar || (int)sd.size() != nvar) ok2 = false; else for (int a = 0; a < nvar; a++) { ee.push_back(e[a]); es.push_back(sd[a]); } }
            delete dt;
          }
          if (ok2) same(("calcul_bayes_vs_explicit_prior" + cfg).c_str(), ee, ce, es, cs, zs, st);
          else st.hit("calcul_bayes_explicit_refused");
        }
      }
    }
    delete neighU; delete model; delete dbin; delete dbout;
  }
  st.dump(stdout);
  return 0;
}
